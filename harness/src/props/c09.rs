//! C09 — default text forms (`Debug` / `Display`) parse back to the same value.
//!
//! Correspondence (`tx.*` ops, model = lean/Chrono/Model/TextForms.lean): for every generated value of
//! `NaiveDate`, `NaiveTime`, `NaiveDateTime`, `DateTime<FixedOffset>`, `DateTime<Utc>`, `FixedOffset`
//! (all whole-minute offsets exhaustively), `Utc`, `Weekday`, `Month` the implementation's `Debug` and
//! `Display` text and what the implementation's `FromStr` makes of each text are compared with the
//! model's; a second stream sends malformed / non-canonical text (single-edit mutations of valid text,
//! grammar variations, hand-written boundary strings) through each `FromStr`.
//! Direct oracles (implementation vs the property statement, no model involved): the round trip itself
//! for every value inside the property's side conditions (leap second only on second 59, whole-minute
//! offset, local date representable), and the shape of the text against an independent writer
//! (`ref_date`, `ref_time`, `ref_offset`): explicit sign exactly for years outside 0..=9999, fewest of
//! 0/3/6/9 fraction digits, second 60 for a leap second.
//! Known findings (known_findings.json), reported with their exact what-strings (three examples each,
//! the rest counted): F13 `NaiveDateTime Display does not parse back` (every value), F25
//! `DateTime<FixedOffset> with out-of-range local date does not parse back` (only values whose wall-clock
//! date lies outside `NaiveDate::MIN..=MAX`).  Every other round-trip failure has its own what-string.
use super::c01::{month_len, yof, MAX_YEAR, MIN_YEAR};
use super::c13::err_kind;
use crate::ctx::*;
use chrono::format::ParseError;
use chrono::{DateTime, Datelike, FixedOffset, Local, Month, NaiveDate, NaiveDateTime, NaiveTime, TimeZone, Timelike, Utc, Weekday};
use std::fmt::Write as _;

const NS: u32 = 1_000_000_000;

fn mk_time(secs: u32, frac: u32) -> NaiveTime {
    // `with_nanosecond` admits the leap representation on any second
    NaiveTime::from_num_seconds_from_midnight_opt(secs, 0).unwrap().with_nanosecond(frac).unwrap()
}
fn st(t: &NaiveTime) -> String {
    format!("{} {}", t.num_seconds_from_midnight(), t.nanosecond())
}
fn sdt(dt: &NaiveDateTime) -> String {
    format!("{} {}", yof(&dt.date()), st(&dt.time()))
}
fn sz(z: &DateTime<FixedOffset>) -> String {
    format!("{} {}", sdt(&z.naive_utc()), z.offset().local_minus_utc())
}

/// the text a formatting trait produces: Ok(Ok(text)), Ok(Err(())) for `fmt::Error`, Err(()) for a panic
type Text = Result<Result<String, ()>, ()>;
fn dbg_text<T: std::fmt::Debug>(v: &T) -> Text {
    guard(|| {
        let mut s = String::new();
        write!(s, "{:?}", v).map(|_| s).map_err(|_| ())
    })
}
fn dsp_text<T: std::fmt::Display>(v: &T) -> Text {
    guard(|| {
        let mut s = String::new();
        write!(s, "{}", v).map(|_| s).map_err(|_| ())
    })
}
fn pr<T>(r: Result<Result<T, ParseError>, ()>, show: impl Fn(&T) -> String) -> String {
    match r {
        Ok(Ok(v)) => format!("ok {}", show(&v)),
        Ok(Err(e)) => format!("err {}", err_kind(&e)),
        Err(()) => "panic".into(),
    }
}
fn both(t: &Text, rd: &dyn Fn(&str) -> String) -> String {
    match t {
        Ok(Ok(s)) => format!("{} | {}", hex(s.as_bytes()), rd(s)),
        Ok(Err(())) => "err | -".into(),
        Err(()) => "panic | -".into(),
    }
}
fn txt(t: &Text) -> &str {
    match t {
        Ok(Ok(s)) => s,
        _ => "<no text>",
    }
}

fn rd_date(s: &str) -> String {
    pr(guard(|| s.parse::<NaiveDate>()), |d| yof(d).to_string())
}
fn rd_time(s: &str) -> String {
    pr(guard(|| s.parse::<NaiveTime>()), st)
}
fn rd_ndt(s: &str) -> String {
    pr(guard(|| s.parse::<NaiveDateTime>()), sdt)
}
fn rd_dtf(s: &str) -> String {
    pr(guard(|| s.parse::<DateTime<FixedOffset>>()), sz)
}
fn rd_dtu(s: &str) -> String {
    pr(guard(|| s.parse::<DateTime<Utc>>()), |z| sdt(&z.naive_utc()))
}
fn rd_off(s: &str) -> String {
    pr(guard(|| s.parse::<FixedOffset>()), |o| o.local_minus_utc().to_string())
}

// ---- independent writers (the property statement, not chrono's code) ---------------------------
fn ref_date(y: i32, m: u32, d: u32) -> String {
    if (0..=9999).contains(&y) {
        format!("{:04}-{:02}-{:02}", y, m, d)
    } else {
        format!("{}{:04}-{:02}-{:02}", if y < 0 { '-' } else { '+' }, (y as i64).abs(), m, d)
    }
}
/// `frac` in the in-band representation (>= 10^9 is a leap second)
fn ref_time(secs: u32, frac: u32) -> String {
    let (h, m, s) = (secs / 3600, secs / 60 % 60, secs % 60);
    let (s, n) = if frac >= NS { (s + 1, frac - NS) } else { (s, frac) };
    let mut t = format!("{:02}:{:02}:{:02}", h, m, s);
    if n != 0 {
        let nine = format!("{:09}", n);
        let keep = if n % 1_000_000 == 0 {
            3
        } else if n % 1000 == 0 {
            6
        } else {
            9
        };
        t.push('.');
        t.push_str(&nine[..keep]);
    }
    t
}
fn ref_offset(off: i32) -> String {
    let a = off.abs();
    let mut t = format!("{}{:02}:{:02}", if off < 0 { '-' } else { '+' }, a / 3600, a / 60 % 60);
    if a % 60 != 0 {
        t.push_str(&format!(":{:02}", a % 60));
    }
    t
}

// ---- generators ----------------------------------------------------------------------------------
/// sign / width classes of the year
const YEAR_CLASSES: &[(i32, i32, &str)] = &[
    (MIN_YEAR, -100000, "-6digits"),
    (-99999, -10000, "-5digits"),
    (-9999, -1000, "-4digits"),
    (-999, -100, "-3digits"),
    (-99, -10, "-2digits"),
    (-9, -1, "-1digit"),
    (0, 0, "zero"),
    (1, 9, "1digit"),
    (10, 99, "2digits"),
    (100, 999, "3digits"),
    (1000, 9999, "4digits"),
    (10000, 99999, "+5digits"),
    (100000, MAX_YEAR, "+6digits"),
];
fn gen_year(c: &mut Ctx) -> (i32, &'static str) {
    let (lo, hi, name) = *c.rng.pick(YEAR_CLASSES);
    let y = match c.rng.below(4) {
        0 => lo,
        1 => hi,
        _ => c.rng.range(lo as i64, hi as i64) as i32,
    };
    (y, name)
}
fn gen_date(c: &mut Ctx) -> (NaiveDate, &'static str) {
    loop {
        let (y, name) = gen_year(c);
        let o = match c.rng.below(3) {
            0 => *c.rng.pick(&[1u32, 9, 10, 31, 32, 59, 60, 61, 99, 100, 274, 334, 335, 365, 366]),
            _ => c.rng.range(1, 366) as u32,
        };
        if let Some(d) = NaiveDate::from_yo_opt(y, o) {
            return (d, name);
        }
    }
}
/// fraction below one second with its digit class
fn gen_frac(c: &mut Ctx) -> (u32, &'static str) {
    match c.rng.below(4) {
        0 => (0, "0digits"),
        1 => {
            let k = if c.rng.chance(1, 3) { *c.rng.pick(&[1u32, 9, 10, 99, 100, 500, 990, 999]) } else { c.rng.range(1, 999) as u32 };
            (k * 1_000_000, "3digits")
        }
        2 => loop {
            let k = if c.rng.chance(1, 3) { *c.rng.pick(&[1u32, 999, 1001, 10_001, 100_001, 999_999, 123_456, 500_500]) } else { c.rng.range(1, 999_999) as u32 };
            if k % 1000 != 0 {
                return (k * 1000, "6digits");
            }
        },
        _ => loop {
            let k = if c.rng.chance(1, 3) {
                *c.rng.pick(&[1u32, 999, 1001, 999_999, 1_000_001, 999_999_999, 123_456_789, 100_000_001, 10_000_001, 500_000_500])
            } else {
                c.rng.range(1, 999_999_999) as u32
            };
            if k % 1000 != 0 {
                return (k, "9digits");
            }
        },
    }
}
/// a time of day; `strict` = leap representation only on second 59 (what the constructors build and
/// the property covers)
fn gen_time(c: &mut Ctx) -> (NaiveTime, &'static str, &'static str, bool) {
    let secs = match c.rng.below(4) {
        0 => *c.rng.pick(&[0u32, 1, 59, 60, 61, 599, 3599, 3600, 35999, 36000, 43199, 43200, 86340, 86398, 86399]),
        1 => (c.rng.below(1440) * 60 + 59) as u32,
        _ => c.rng.below(86400) as u32,
    };
    let (frac, cls) = gen_frac(c);
    if secs % 60 == 59 && c.rng.chance(1, 2) {
        (mk_time(secs, frac + NS), cls, "leap", true)
    } else if c.rng.chance(1, 24) {
        (mk_time(secs, frac + NS), cls, "leap-not-on-59(outside property)", false)
    } else {
        (mk_time(secs, frac), cls, "no-leap", true)
    }
}

fn mutate(c: &mut Ctx, text: &str, alphabet: &[char]) -> String {
    let mut cs: Vec<char> = text.chars().collect();
    match c.rng.below(9) {
        0 => cs.push(*c.rng.pick(alphabet)),
        1 | 2 => {
            if !cs.is_empty() {
                let k = c.rng.below(cs.len() as u64) as usize;
                cs[k] = *c.rng.pick(alphabet);
            }
        }
        3 => {
            if !cs.is_empty() {
                let k = c.rng.below(cs.len() as u64) as usize;
                cs.remove(k);
            }
        }
        4 | 5 => {
            let k = c.rng.below(cs.len() as u64 + 1) as usize;
            cs.insert(k, *c.rng.pick(alphabet));
        }
        6 => {
            let k = c.rng.below(cs.len() as u64 + 1) as usize;
            cs.truncate(k);
        }
        7 => {
            let s: String = cs.iter().collect();
            return if c.rng.chance(1, 2) { s.to_lowercase() } else { s.to_uppercase() };
        }
        _ => {
            // a digit bumped by one: the neighbouring value
            let ds: Vec<usize> = (0..cs.len()).filter(|&i| cs[i].is_ascii_digit()).collect();
            if !ds.is_empty() {
                let k = *c.rng.pick(&ds);
                let d = cs[k] as u8 - b'0';
                cs[k] = (b'0' + if c.rng.chance(1, 2) { (d + 1) % 10 } else { (d + 9) % 10 }) as char;
            }
        }
    }
    cs.into_iter().collect()
}
const ALPHABET: &[char] =
    &['0', '1', '2', '5', '6', '9', ' ', '\t', '-', '+', ':', '.', 'T', 't', 'Z', 'z', 'U', 'C', '\u{2212}', '\u{a0}', '\u{3000}', 'é', 'x', ','];

fn year_txt(c: &mut Ctx, y: i32) -> String {
    match c.rng.below(6) {
        0 => format!("{}", y),
        1 => format!("{:+}", y),
        2 => format!("{:04}", y),
        3 => format!("{:+05}", y),
        4 => format!("{:06}", y),
        _ => ref_date(y, 1, 1).rsplitn(3, '-').nth(2).unwrap().to_string(),
    }
}
fn two(c: &mut Ctx, v: u32) -> String {
    match c.rng.below(5) {
        0 => format!("{}", v),
        1 => format!("{:03}", v),
        _ => format!("{:02}", v),
    }
}
fn gap(c: &mut Ctx) -> &'static str {
    match c.rng.below(8) {
        0 => " ",
        1 => "\t ",
        2 => "\u{2003}",
        _ => "",
    }
}
/// non-canonical but plausible date text
fn date_variant(c: &mut Ctx) -> String {
    let (y, _) = gen_year(c);
    let m = *c.rng.pick(&[0u32, 1, 2, 9, 10, 12, 13]);
    let d = *c.rng.pick(&[0u32, 1, 9, 10, 28, 29, 30, 31, 32]);
    let (yt, mt, dt) = (year_txt(c, y), two(c, m), two(c, d));
    format!("{}{}{}-{}{}{}-{}{}{}", gap(c), yt, gap(c), gap(c), mt, gap(c), gap(c), dt, gap(c))
}
fn time_variant(c: &mut Ctx) -> String {
    let h = *c.rng.pick(&[0u32, 1, 9, 11, 12, 13, 23, 24, 25]);
    let m = *c.rng.pick(&[0u32, 1, 30, 59, 60]);
    let s = *c.rng.pick(&[0u32, 1, 30, 58, 59, 60, 61]);
    let (ht, mt, stx) = (two(c, h), two(c, m), two(c, s));
    let mut t = format!("{}{}{}:{}{}", gap(c), ht, gap(c), gap(c), mt);
    if c.rng.chance(5, 6) {
        t.push_str(&format!("{}:{}{}", gap(c), gap(c), stx));
        match c.rng.below(6) {
            0 => t.push('.'),
            1 => t.push_str(&format!(".{}", c.rng.below(1000))),
            2 => t.push_str(&format!(".{:09}", c.rng.below(1_000_000_000))),
            3 => t.push_str(&format!(".{:012}", c.rng.below(1_000_000_000_000))),
            _ => {}
        }
    }
    t.push_str(gap(c));
    t
}
fn offset_variant(c: &mut Ctx) -> String {
    let sign = *c.rng.pick(&["+", "-", "\u{2212}", "", "+ "]);
    let h = *c.rng.pick(&[0u32, 1, 5, 9, 10, 12, 14, 23, 24, 25, 99]);
    let m = *c.rng.pick(&[0u32, 1, 15, 30, 45, 59, 60, 99]);
    match c.rng.below(8) {
        0 => format!("{}{:02}{:02}", sign, h, m),
        1 => format!("{}{:02}", sign, h),
        2 => format!("{}{:02} {:02}", sign, h, m),
        3 => format!("{}{:02}:{:02}:{:02}", sign, h, m, c.rng.below(60)),
        4 => format!("{}{}:{:02}", sign, h, m),
        5 => (*c.rng.pick(&["Z", "z", "UTC", "utc", "Utc", "UT", "GMT", "+", "-", ""])).to_string(),
        6 => format!("{}{:02}:{}", sign, h, m),
        _ => format!("{}{:02}:{:02}", sign, h, m),
    }
}

const DATE_SPECIALS: &[&str] = &[
    "", " ", "2015-09-18", "+2015-09-18", "-2015-09-18", "02015-09-18", "12345-09-18", "+12345-09-18", "-0000-01-01", "0000-01-01",
    "+0000-01-01", "2015-9-8", "2015-09-18 ", " 2015-09-18", "2015 -09-18", "2015- 09-18", "2015-09 -18", "2015-09- 18", "2015-09-18x",
    "2015-00-18", "2015-13-18", "2015-09-00", "2015-09-31", "2015-02-29", "2016-02-29", "1900-02-29", "2000-02-29", "2015-09-32",
    "+262142-12-31", "+262143-01-01", "-262143-01-01", "-262144-12-31", "262142-12-31", "+2147483647-01-01", "+2147483648-01-01",
    "-2147483648-01-01", "-2147483649-01-01", "+9223372036854775807-01-01", "+9223372036854775808-01-01", "2015-09-18T00:00:00",
    "2015/09/18", "2015-09", "2015", "２０１５-09-18", "2015-09-18\u{3000}", "\u{a0}2015-09-18", "--2015-09-18", "+-2015-09-18", "+ 2015-09-18",
    "2015-099-18", "2015-09-188", "2015-09-18\n",
];
const TIME_SPECIALS: &[&str] = &[
    "", " ", "23:56:04", "23:56", "23:56:", "23:56 ", "23:56:04 ", " 23:56:04", "23 : 56 : 04", "23:56:4", "3:6:4", "023:56:04", "23:056:04",
    "24:00:00", "23:60:00", "23:59:60", "23:59:61", "00:00:60", "12:34:60.5", "23:59:60.999999999", "23:59:59.9999999999", "23:56:04.",
    "23:56:04.1", "23:56:04.12", "23:56:04.123", "23:56:04.1234", "23:56:04.123456", "23:56:04.123456789", "23:56:04.1234567891234",
    "23:56:04.000", "23:56:04.000000000", "23:56:04 .5", "23:56:04. 5", "23:56:04.5x", "23:56:04x", "23:56x", "23:56:x", "23:56: 04",
    "23:56 :04", "23:56\u{a0}:04", "23:56:04\u{2003}", "23-56-04", "235604", "23:56:04Z", "23:56:04+00:00", "+23:56:04", "-23:56:04", "23:+56:04",
    "23:56:04.-5", "23:56:04.+5", "23:56:60", "23:56:59.1999999999", "99:99:99",
];
const NDT_SPECIALS: &[&str] = &[
    "", "2015-09-18T23:56:04", "2015-09-18 23:56:04", "2015-09-18t23:56:04", "2015-09-18T23:56:04.5", "2015-09-18T23:59:60",
    "2015-09-18T23:59:60.5", "2015-09-18T12:34:60", "2015-09-18 T23:56:04", "2015-09-18T 23:56:04", "2015-09-18  T  23:56:04", "2015-09-18T23:56",
    "2015-09-18T23:56:04 ", " 2015-09-18T23:56:04", "2015-09-18T23:56:04Z", "2015-09-18T23:56:04+00:00", "+12345-09-18T23:56:04",
    "-0001-12-31T00:00:00", "+262142-12-31T23:59:59.999999999", "+262142-12-31T23:59:60", "-262143-01-01T00:00:00", "+262143-01-01T00:00:00",
    "2015-02-29T00:00:00", "2015-09-18T24:00:00", "2015-09-18T23:56:04.", "2015-09-18T23:56:04.1234567890", "2015-09-18TT23:56:04",
    "2015-09-18T23:56:04T", "2015-09-18T23:56:04 x", "2015-9-8T3:6:4", "2015-09-18\u{2003}T23:56:04",
];
const DTF_SPECIALS: &[&str] = &[
    "", "2015-09-18T23:56:04Z", "2015-09-18T23:56:04z", "2015-09-18 23:56:04 UTC", "2015-09-18 23:56:04 utc", "2015-09-18T23:56:04UTC",
    "2015-09-18 23:56:04 Utc", "2015-09-18 23:56:04 UT", "2015-09-18 23:56:04 GMT", "2015-09-18T23:56:04+00:00", "2015-09-18T23:56:04-00:00",
    "2015-09-18T23:56:04+05:30", "2015-09-18T23:56:04+0530", "2015-09-18T23:56:04+05 30", "2015-09-18T23:56:04+05", "2015-09-18T23:56:04 +05:30",
    "2015-09-18 23:56:04 +05:30", "2015-09-18t23:56:04+05:30", "2015-09-18T23:56:04\u{2212}05:30", "2015-09-18T23:56:04+05:30 ", "2015-09-18T23:56:04+05:30x",
    "2015-09-18T23:56:04+05:30:15", "2015-09-18T23:56:04+23:59", "2015-09-18T23:56:04+24:00", "2015-09-18T23:56:04-23:59", "2015-09-18T23:56:04-24:00",
    "2015-09-18T23:56:04+00:60", "2015-09-18T23:56:04+99:00", "2015-09-18T23:59:60Z", "2015-09-18T23:59:60.5+01:00", "2015-09-18T12:34:60Z",
    "2015-09-18T23:56:04", "2015-09-18T23:56Z", "2015-09-18T23:56:04.123456789Z", "2015-09-18T23:56:04.1234567891Z", "2015-09-18T23:56:04.Z",
    "2015-09-18  23:56:04Z", "2015-09-18T 23:56:04Z", "2015-09-18 T23:56:04Z", "2015-9-8T3:6:4Z", "+262142-12-31T23:59:59Z", "+262142-12-31T23:59:59-00:01",
    "+262143-01-01T00:00:00+00:01", "+262143-01-01T00:30:00+01:00", "-262143-01-01T00:00:00Z", "-262143-01-01T00:00:00+00:01", "-262144-12-31T23:59:00-00:01",
    "-262144-12-31T23:00:00-01:00", "+12345-09-18T23:56:04Z", "12345-09-18T23:56:04Z", "2015-09-18T23:56:04Z ", "2015-09-18T23:56:04Z\u{3000}", "2015-09-18T23:56:04ZZ",
    "2015-09-18T23:56:04 Z", "2015-09-18T23:56:04+5:30", "2015-09-18T23:56:04+05:3", "2015-09-18T23:56:04+05:", "2015-09-18T23:56:04+",
];
const OFF_SPECIALS: &[&str] = &[
    "", "+", "-", "+0", "+05", "+05:", "+05:3", "+05:30", "+0530", "+05 30", "+05::30", "+05: :30", "+05:30:15", "+05:30x", "05:30", " +05:30",
    "+05:30 ", "+5:30", "-05:30", "\u{2212}05:30", "+00:00", "-00:00", "+23:59", "-23:59", "+24:00", "-24:00", "+23:60", "+99:00", "+99:59",
    "Z", "z", "UTC", "+05\u{a0}30", "+0a:30", "+05:a0", "+05:60", "+05:69", "+05:5", "+２３:00",
];

/// civil date of a day count since 1970-01-01 on the proleptic Gregorian calendar, any year
/// (era arithmetic, independent of chrono): days -> (year, month, day)
fn civil(days: i64) -> (i64, u32, u32) {
    let z = days + 719_468;
    let era = z.div_euclid(146_097);
    let doe = z.rem_euclid(146_097);
    let yoe = (doe - doe / 1460 + doe / 36_524 - doe / 146_096) / 365;
    let doy = doe - (365 * yoe + yoe / 4 - yoe / 100);
    let mp = (5 * doy + 2) / 153;
    let d = doy - (153 * mp + 2) / 5 + 1;
    let m = if mp < 10 { mp + 3 } else { mp - 9 };
    (yoe + era * 400 + if m <= 2 { 1 } else { 0 }, m as u32, d as u32)
}
/// the wall clock of a zone-aware value from its UTC timestamp and offset alone: (year, month, day,
/// second of day, fraction field) — the year may be MIN_YEAR - 1 or MAX_YEAR + 1
fn wall_clock(z: &DateTime<FixedOffset>) -> (i64, u32, u32, u32, u32) {
    let wall = z.timestamp() + z.offset().local_minus_utc() as i64;
    let (y, m, d) = civil(wall.div_euclid(86400));
    (y, m, d, wall.rem_euclid(86400) as u32, z.naive_utc().time().nanosecond())
}
/// the specified text of both forms, written from `wall_clock` with the independent writers
fn ref_zoned(z: &DateTime<FixedOffset>) -> (String, String) {
    let (y, m, d, sod, frac) = wall_clock(z);
    let (rd, rt, ro) = (ref_date(y as i32, m, d), ref_time(sod, frac), ref_offset(z.offset().local_minus_utc()));
    (format!("{}T{}{}", rd, rt, ro), format!("{} {} {}", rd, rt, ro))
}

/// the wall clock as the crate computes it, if it is a `NaiveDate` (op `tx.dtf.local`: the side
/// condition `Zoned.naive_local z = .ok l` / `InRangeSecs (wallSecs z)` of the theorems)
fn local_reading(z: &DateTime<FixedOffset>) -> String {
    match guard(|| z.naive_utc().checked_add_offset(*z.offset())) {
        Ok(Some(l)) => format!("some {}", sdt(&l)),
        Ok(None) => "none".into(),
        Err(()) => "panic".into(),
    }
}

/// finding F25 (known_findings.json): a zone-aware value whose wall-clock date lies outside
/// `NaiveDate::MIN..=MAX` prints that date (year +262143 / -262144) and `FromStr` rejects it.  Called
/// only for such values (whole-minute offset, leap second only on second 59).
fn report_f25(c: &mut Ctx, z: &DateTime<FixedOffset>, dbg: &Text, dsp: &Text, reported: &mut u32) {
    // theorem `fixed_out_of_range_never_parses_back`: the wall-clock year is a headroom year, the text is
    // the specified text of that wall clock, and a reader that does not return the value answers OutOfRange
    let (y, _, _, _, _) = wall_clock(z);
    if y != MIN_YEAR as i64 - 1 && y != MAX_YEAR as i64 + 1 {
        c.fail("DateTime<FixedOffset>: checked_add_offset fails although the wall-clock year is in range", &format!("{} wall-clock year {}", sz(z), y));
    }
    let (rdbg, rdsp) = ref_zoned(z);
    for (form, x, want) in [("Debug", dbg, &rdbg), ("Display", dsp, &rdsp)] {
        if txt(x) != want {
            c.fail(
                &format!("DateTime<FixedOffset> {} text of an out-of-range local date is not the extended wall clock", form),
                &format!("{:?}, expected {:?}, for {}", txt(x), want, sz(z)),
            );
        }
        // `fixed_out_of_range_never_parses_back`: Err(OutOfRange), always.  The only other answer that is
        // not a failure is THE value itself, same instant and same offset (finding F25 repaired); a reader
        // that returns some other value, another error kind or panics fails here.
        let got = rd_dtf(txt(x));
        if got == format!("ok {}", sz(z)) {
            c.count("dtf:out-of-range-local-date-reads-back-as-the-value(F25 repaired)");
        } else if got != "err OutOfRange" {
            c.fail(
                &format!("DateTime<FixedOffset> {} of an out-of-range local date: FromStr answers neither the value nor Err(OutOfRange)", form),
                &format!("{} text {:?} -> {}", sz(z), txt(x), got),
            );
        }
    }
    for (form, x) in [("Debug", dbg), ("Display", dsp)] {
        if guard(|| txt(x).parse::<DateTime<FixedOffset>>().ok() == Some(*z)) != Ok(true) {
            c.count("dtf:out-of-range-local-date-rejected(known finding F25)");
            if *reported < 3 {
                *reported += 1;
                c.fail(
                    "DateTime<FixedOffset> with out-of-range local date does not parse back",
                    &format!("{} {} text {:?} -> {}", form, sz(z), txt(x), rd_dtf(txt(x))),
                );
            }
        } else {
            c.count("dtf:out-of-range-local-date-parses-back");
        }
    }
}


// ---- exhaustive blocks as digests (ops `tx.blockdate`, `tx.blocktime`) --------------------------------
fn mix(h: u64, v: i64) -> u64 {
    (h ^ (v as u64)).wrapping_mul(1099511628211)
}
const SEED: u64 = 14695981039346656037;
fn mix_text(h: u64, t: &Text) -> u64 {
    match t {
        Ok(Ok(s)) => s.bytes().fold(mix(h, s.len() as i64), |h, b| mix(h, b as i64)),
        Ok(Err(())) => mix(h, -1),
        Err(()) => mix(h, -2),
    }
}
/// one value: `Debug` text, its reading, `Display` text, and its reading when the two texts differ
fn mix_forms(h: u64, dbg: &Text, dsp: &Text, rd: &dyn Fn(u64, &str) -> u64) -> u64 {
    let mut h = mix_text(h, dbg);
    h = match dbg {
        Ok(Ok(s)) => rd(h, s),
        _ => mix(h, -3),
    };
    h = mix_text(h, dsp);
    if dsp == dbg {
        return h;
    }
    match dsp {
        Ok(Ok(s)) => rd(h, s),
        _ => mix(h, -3),
    }
}
fn mix_date_read(h: u64, s: &str) -> u64 {
    match guard(|| s.parse::<NaiveDate>()) {
        Ok(Ok(d)) => mix(h, yof(&d)),
        Ok(Err(_)) => mix(h, -1),
        Err(()) => mix(h, -2),
    }
}
fn mix_time_read(h: u64, s: &str) -> u64 {
    match guard(|| s.parse::<NaiveTime>()) {
        Ok(Ok(t)) => mix(mix(h, t.num_seconds_from_midnight() as i64), t.nanosecond() as i64),
        _ => mix(h, -1),
    }
}
/// EVERY date of the years `y0..=y1`, walked by an independent calendar (`month_len` of c01: the
/// Gregorian leap rule, nothing of chrono's): digest of the texts and readings for the model, and the
/// direct oracle on each date — the date chrono has on that ordinal is the one of that (year, month,
/// day), follows its predecessor by `succ_opt`, prints as the independent writer `ref_date` says in
/// both forms, and `FromStr` reads the text back as that date.  Returns (digest, dates seen, first
/// failure, last date).
fn block_date(y0: i32, y1: i32, before: Option<NaiveDate>) -> (u64, u64, Option<(&'static str, String)>, Option<NaiveDate>) {
    let mut h = SEED;
    let mut bad: Option<(&'static str, String)> = None;
    let mut seen = 0u64;
    // `before`: the last date of the preceding block when the blocks abut
    let mut prev: Option<NaiveDate> = before;
    for y in y0..=y1 {
        let mut o = 0u32;
        for m in 1..=12u32 {
            for dd in 1..=month_len(y as i64, m as i64) as u32 {
                o += 1;
                let d = match guard(|| NaiveDate::from_yo_opt(y, o)) {
                    Ok(Some(d)) => d,
                    _ => {
                        if (MIN_YEAR..=MAX_YEAR).contains(&y) && bad.is_none() {
                            bad = Some(("NaiveDate: a day of the calendar is not a NaiveDate", format!("{}-{}-{} ordinal {}", y, m, dd, o)));
                        }
                        continue;
                    }
                };
                seen += 1;
                let (dbg, dsp) = (dbg_text(&d), dsp_text(&d));
                h = mix_forms(h, &dbg, &dsp, &mix_date_read);
                if bad.is_none() {
                    let want = ref_date(y, m, dd);
                    if guard(|| NaiveDate::from_ymd_opt(y, m, dd)) != Ok(Some(d)) {
                        bad = Some(("NaiveDate: from_yo_opt and from_ymd_opt disagree on a day of the calendar", format!("{}-{}-{} ordinal {}", y, m, dd, o)));
                    } else if prev.is_some() && guard(|| prev.unwrap().succ_opt()) != Ok(Some(d)) {
                        bad = Some(("NaiveDate: succ_opt does not lead to the next day of the calendar", format!("{}-{}-{}", y, m, dd)));
                    } else if txt(&dbg) != want {
                        bad = Some(("NaiveDate text is not [sign]YYYY-MM-DD with a sign exactly outside 0..=9999", format!("{:?} for {}-{}-{} (exhaustive walk)", txt(&dbg), y, m, dd)));
                    } else if txt(&dsp) != want {
                        bad = Some(("NaiveDate Display text differs from the Debug text", format!("{:?} for {}-{}-{} (exhaustive walk)", txt(&dsp), y, m, dd)));
                    } else if guard(|| want.parse::<NaiveDate>().ok() == Some(d)) != Ok(true) {
                        bad = Some(("NaiveDate Debug does not parse back", format!("yof {} text {:?} (exhaustive walk)", yof(&d), want)));
                    }
                }
                prev = Some(d);
            }
        }
    }
    (h, seen, bad, prev)
}
/// representatives of the fraction classes (none, 3, 6, 9 digits; class ends; zeros inside the printed
/// digits) — the same list as `blockFracs` of lean/Chrono/Drv/TextForms.lean
const BLOCK_FRACS: [u32; 18] = [
    0, 1, 999, 1000, 1001, 999_000, 999_999, 1_000_000, 1_000_001, 10_000_000, 100_000_000, 123_456_789, 500_000_000, 999_000_000, 999_999_000,
    999_999_999, 120_000_000, 123_456_000,
];
/// every second `s0..=s1` of the day × `BLOCK_FRACS`, and the leap representation of each on a second 59
fn block_time(s0: u32, s1: u32) -> (u64, u64, Option<(&'static str, String)>) {
    let mut h = SEED;
    let mut bad: Option<(&'static str, String)> = None;
    let mut seen = 0u64;
    for secs in s0..=s1 {
        for leap in [0u32, NS] {
            if leap != 0 && secs % 60 != 59 {
                continue;
            }
            for f in BLOCK_FRACS {
                let t = mk_time(secs, f + leap);
                seen += 1;
                let (dbg, dsp) = (dbg_text(&t), dsp_text(&t));
                h = mix_forms(h, &dbg, &dsp, &mix_time_read);
                if bad.is_none() {
                    let want = ref_time(secs, f + leap);
                    if t.num_seconds_from_midnight() != secs || t.nanosecond() != f + leap {
                        bad = Some(("NaiveTime: the constructors do not build the requested second and fraction", format!("{} {}", secs, f + leap)));
                    } else if txt(&dbg) != want {
                        bad = Some(("NaiveTime text is not HH:MM:SS[.fff[fff[fff]]] with minimal fraction and second+1 for a leap second", format!("{:?} for {} (exhaustive walk)", txt(&dbg), st(&t))));
                    } else if txt(&dsp) != want {
                        bad = Some(("NaiveTime Display text differs from the Debug text", format!("{:?} for {} (exhaustive walk)", txt(&dsp), st(&t))));
                    } else if guard(|| want.parse::<NaiveTime>().ok() == Some(t)) != Ok(true) {
                        bad = Some(("NaiveTime Debug does not parse back", format!("{} text {:?} (exhaustive walk)", st(&t), want)));
                    }
                }
            }
        }
    }
    (h, seen, bad)
}

/// one zone-aware value of the deterministic boundary blocks (whole-minute offset, leap second only on
/// second 59): correspondence ops `tx.dtf` / `tx.dtf.local`, the text against the independently computed
/// wall clock, and the round trip decided by the wall-clock year alone — in range: both forms read back
/// as the same instant with the same offset; outside (`want_in_range` = Some(false) where the caller
/// knows it): `report_f25`, i.e. Err(OutOfRange)
fn check_zoned(c: &mut Ctx, z: &DateTime<FixedOffset>, want_in_range: Option<bool>, tag: &str, f25_reported: &mut u32) {
    let off = z.offset().local_minus_utc();
    let (dbg, dsp) = (dbg_text(z), dsp_text(z));
    c.op(&format!("tx.dtf {}", sz(z)), &format!("{} | {}", both(&dbg, &rd_dtf), both(&dsp, &rd_dtf)));
    c.op(&format!("tx.dtf.local {}", sz(z)), &local_reading(z));
    let local_ok = guard(|| z.naive_utc().checked_add_offset(*z.offset()).is_some()) == Ok(true);
    let (y, _, _, _, _) = wall_clock(z);
    let in_range = MIN_YEAR as i64 <= y && y <= MAX_YEAR as i64;
    if local_ok != in_range {
        c.fail("DateTime<FixedOffset>: checked_add_offset disagrees with the wall-clock year being in range", &format!("{} {} wall-clock year {} local_ok {}", tag, sz(z), y, local_ok));
    }
    if let Some(w) = want_in_range {
        if w != in_range {
            c.fail("DateTime<FixedOffset> boundary block: the independent wall clock is not on the expected side of NaiveDate's range", &format!("{} {} wall-clock year {}", tag, sz(z), y));
        }
    }
    let (rdbg, rdsp) = ref_zoned(z);
    if txt(&dbg) != rdbg || txt(&dsp) != rdsp {
        c.fail("DateTime<FixedOffset> text is not the text of the independently computed wall clock", &format!("{} {:?} / {:?}, expected {:?} / {:?}, for {}", tag, txt(&dbg), txt(&dsp), rdbg, rdsp, sz(z)));
    }
    if in_range {
        c.count(&format!("dtf:{},local-in-range", tag));
        for (form, x) in [("Debug", &dbg), ("Display", &dsp)] {
            let back = guard(|| txt(x).parse::<DateTime<FixedOffset>>().ok());
            let same = matches!(&back, Ok(Some(b)) if *b == *z && b.offset().local_minus_utc() == off && b.naive_utc() == z.naive_utc());
            if !same {
                c.fail(&format!("DateTime<FixedOffset> {} does not parse back", form), &format!("{} {} text {:?}", tag, sz(z), txt(x)));
            }
        }
    } else {
        c.count(&format!("dtf:{},local-outside-range", tag));
        report_f25(c, z, &dbg, &dsp, f25_reported);
    }
}

// ---- the run ---------------------------------------------------------------------------------------
pub fn run(c: &mut Ctx) {
    let n = c.n(40000, 400000);

    // ---------------------------------------------------------------- Weekday, Month, Utc (finite)
    const WD: [Weekday; 7] = [Weekday::Mon, Weekday::Tue, Weekday::Wed, Weekday::Thu, Weekday::Fri, Weekday::Sat, Weekday::Sun];
    for (i, w) in WD.iter().enumerate() {
        let (d, p) = (format!("{:?}", w), format!("{}", w));
        let rd = |s: &str| opt(s.parse::<Weekday>().ok().map(|x| x as usize));
        c.op(&format!("tx.wd {i}"), &format!("{} {} {} {}", hex(d.as_bytes()), hex(p.as_bytes()), rd(&d), rd(&p)));
        if d.parse::<Weekday>().ok() != Some(*w) {
            c.fail("Weekday Debug does not parse back", &d);
        }
        if p.parse::<Weekday>().ok() != Some(*w) {
            c.fail("Weekday Display does not parse back", &p);
        }
    }
    for i in 0..12u8 {
        let m = Month::try_from(i + 1).unwrap();
        let (d, p) = (format!("{:?}", m), m.name().to_string());
        let rd = |s: &str| opt(s.parse::<Month>().ok().map(|x| x as usize));
        c.op(&format!("tx.mo {i}"), &format!("{} {} {} {}", hex(d.as_bytes()), hex(p.as_bytes()), rd(&d), rd(&p)));
        if d.parse::<Month>().ok() != Some(m) {
            c.fail("Month Debug does not parse back", &d);
        }
        if p.parse::<Month>().ok() != Some(m) {
            c.fail("Month name does not parse back", &p);
        }
    }
    c.op("tx.utc", &format!("{} {}", hex(format!("{:?}", Utc).as_bytes()), hex(format!("{}", Utc).as_bytes())));

    // ---------------------------------------------------------------- NaiveDate
    for i in 0..n {
        let (d, ycls) = gen_date(c);
        c.count(&format!("date:year{}", ycls));
        let (dbg, dsp) = (dbg_text(&d), dsp_text(&d));
        c.op(&format!("tx.date {}", yof(&d)), &format!("{} | {}", both(&dbg, &rd_date), both(&dsp, &rd_date)));
        for (form, t) in [("Debug", &dbg), ("Display", &dsp)] {
            if guard(|| txt(t).parse::<NaiveDate>().ok() == Some(d)) != Ok(true) {
                c.fail(&format!("NaiveDate {} does not parse back", form), &format!("yof {} text {:?}", yof(&d), txt(t)));
            }
            if txt(t) != ref_date(d.year(), d.month(), d.day()) {
                c.fail("NaiveDate text is not [sign]YYYY-MM-DD with a sign exactly outside 0..=9999", &format!("{:?} for {}-{}-{}", txt(t), d.year(), d.month(), d.day()));
            }
        }
        if i < 2 {
            c.sample(&format!("NaiveDate yof={} -> {:?} -> {}", yof(&d), txt(&dbg), rd_date(txt(&dbg))));
        }
    }

    // every date as a digest: thorough = ALL of NaiveDate::MIN..=MAX in 400-year blocks; quick = one
    // whole 400-year cycle, both range ends, the sign / width class boundaries
    {
        let mut blocks: Vec<(i32, i32)> = vec![];
        if c.tier == Tier::Thorough {
            let mut y = MIN_YEAR;
            while y <= MAX_YEAR {
                let e = (y + 399).min(MAX_YEAR);
                blocks.push((y, e));
                y = e + 1;
            }
        } else {
            blocks.extend([(MIN_YEAR, MIN_YEAR + 1), (-100001, -99998), (-10001, -9998), (-1001, -998), (-101, -98), (-11, 11), (98, 101), (998, 1001)]);
            blocks.extend([(1600, 1999), (9998, 10001), (99998, 100001), (MAX_YEAR - 1, MAX_YEAR)]);
        }
        let mut total = 0u64;
        let (mut first, mut last) = (None, None);
        for (k, (y0, y1)) in blocks.iter().enumerate() {
            let before = if c.tier == Tier::Thorough { last } else { None };
            let (h, seen, bad, end) = block_date(*y0, *y1, before);
            c.op(&format!("tx.blockdate {y0} {y1}"), &h.to_string());
            if let Some((what, detail)) = bad {
                c.fail(what, &detail);
            }
            total += seen;
            if k == 0 {
                first = guard(|| NaiveDate::from_yo_opt(*y0, 1)).ok().flatten();
            }
            last = end;
        }
        c.count_n("date:enumerated-in-digests", total);
        if first != Some(NaiveDate::MIN) || last != Some(NaiveDate::MAX) {
            c.fail("NaiveDate exhaustive walk does not run from NaiveDate::MIN to NaiveDate::MAX", &format!("{:?} .. {:?}", first, last));
        }
        if c.tier == Tier::Thorough {
            // the walk is contiguous (succ_opt is checked inside and across the abutting blocks) and complete
            let days = (NaiveDate::MAX - NaiveDate::MIN).num_days() as u64 + 1;
            if total != days || total != (super::c01::MAX_DAYS - super::c01::MIN_DAYS + 1) as u64 {
                c.fail("NaiveDate exhaustive walk did not visit every date", &format!("{} visited, {} days between MIN and MAX", total, days));
            }
        }
    }

    // ---------------------------------------------------------------- NaiveTime
    // every second of the day × the fraction class representatives, leap representation on every second
    // 59, as digests (both tiers: 1 581 120 values)
    {
        let mut total = 0u64;
        for k in 0..24u32 {
            let (h, seen, bad) = block_time(k * 3600, k * 3600 + 3599);
            c.op(&format!("tx.blocktime {} {}", k * 3600, k * 3600 + 3599), &h.to_string());
            if let Some((what, detail)) = bad {
                c.fail(what, &detail);
            }
            total += seen;
        }
        c.count_n("time:enumerated-in-digests", total);
        if total != (86400 + 1440) * BLOCK_FRACS.len() as u64 {
            c.fail("NaiveTime exhaustive walk did not visit every second x fraction class", &total.to_string());
        }
    }
    for i in 0..n {
        let (t, fcls, lcls, strict) = gen_time(c);
        c.count(&format!("time:frac-{}", fcls));
        c.count(&format!("time:{}", lcls));
        let (dbg, dsp) = (dbg_text(&t), dsp_text(&t));
        c.op(&format!("tx.time {}", st(&t)), &format!("{} | {}", both(&dbg, &rd_time), both(&dsp, &rd_time)));
        for (form, x) in [("Debug", &dbg), ("Display", &dsp)] {
            if strict && guard(|| txt(x).parse::<NaiveTime>().ok() == Some(t)) != Ok(true) {
                c.fail(&format!("NaiveTime {} does not parse back", form), &format!("{} text {:?}", st(&t), txt(x)));
            }
            if !strict && t.num_seconds_from_midnight() % 60 != 59 {
                // theorem `NaiveTime_leap_off_59_reads_as_next_second` (outside the property's side condition)
                let want = mk_time(t.num_seconds_from_midnight() + 1, t.nanosecond() - NS);
                c.count("time:leap-off-59-reads-as-next-second");
                if guard(|| txt(x).parse::<NaiveTime>().ok()) != Ok(Some(want)) {
                    c.fail("NaiveTime leap representation off second 59 does not read as the following second", &format!("{} text {:?} -> {}", st(&t), txt(x), rd_time(txt(x))));
                }
            }
            if txt(x) != ref_time(t.num_seconds_from_midnight(), t.nanosecond()) {
                c.fail("NaiveTime text is not HH:MM:SS[.fff[fff[fff]]] with minimal fraction and second+1 for a leap second", &format!("{:?} for {}", txt(x), st(&t)));
            }
        }
        if i < 2 {
            c.sample(&format!("NaiveTime {} -> {:?} -> {}", st(&t), txt(&dbg), rd_time(txt(&dbg))));
        }
    }

    // theorem `NaiveTime_reads_without_seconds`: `HH:MM` reads as `HH:MM:00`, all 1 440 minutes
    for h in 0..24u32 {
        for m in 0..60u32 {
            let t = format!("{:02}:{:02}", h, m);
            c.op(&format!("tx.time.parse {}", hex(t.as_bytes())), &rd_time(&t));
            c.count("time:without-seconds");
            if guard(|| t.parse::<NaiveTime>().ok()) != Ok(NaiveTime::from_hms_opt(h, m, 0)) {
                c.fail("NaiveTime HH:MM does not read as HH:MM:00", &t);
            }
        }
    }

    // ---------------------------------------------------------------- NaiveDateTime
    let mut known_reported = 0;
    for i in 0..n {
        let (d, ycls) = gen_date(c);
        let (t, fcls, lcls, strict) = gen_time(c);
        c.count(&format!("ndt:year{}", ycls));
        c.count(&format!("ndt:frac-{}", fcls));
        c.count(&format!("ndt:{}", lcls));
        let v = d.and_time(t);
        let (dbg, dsp) = (dbg_text(&v), dsp_text(&v));
        c.op(&format!("tx.ndt {}", sdt(&v)), &format!("{} | {}", both(&dbg, &rd_ndt), both(&dsp, &rd_ndt)));
        let rt = ref_time(t.num_seconds_from_midnight(), t.nanosecond());
        let rdte = ref_date(d.year(), d.month(), d.day());
        if txt(&dbg) != format!("{}T{}", rdte, rt) {
            c.fail("NaiveDateTime Debug is not <date>T<time>", &format!("{:?} for {}", txt(&dbg), sdt(&v)));
        }
        if txt(&dsp) != format!("{} {}", rdte, rt) {
            c.fail("NaiveDateTime Display is not <date> <time>", &format!("{:?} for {}", txt(&dsp), sdt(&v)));
        }
        if strict {
            if guard(|| txt(&dbg).parse::<NaiveDateTime>().ok() == Some(v)) != Ok(true) {
                c.fail("NaiveDateTime Debug does not parse back", &format!("{} text {:?}", sdt(&v), txt(&dbg)));
            }
            if guard(|| txt(&dsp).parse::<NaiveDateTime>().ok() == Some(v)) != Ok(true) {
                // finding F13 (known_findings.json): the reader insists on `T`
                c.count("ndt:Display-rejected(known finding F13)");
                if known_reported < 3 {
                    known_reported += 1;
                    c.fail("NaiveDateTime Display does not parse back", &format!("{} text {:?} -> {}", sdt(&v), txt(&dsp), rd_ndt(txt(&dsp))));
                }
            } else {
                c.count("ndt:Display-parses-back");
            }
        }
        if i < 2 {
            c.sample(&format!("NaiveDateTime {} -> {:?} -> {}", sdt(&v), txt(&dbg), rd_ndt(txt(&dbg))));
        }
    }

    // ---------------------------------------------------------------- DateTime<FixedOffset>
    let whole: Vec<i32> = (-1439..=1439).map(|m| m * 60).collect();
    let mut f25_reported = 0;
    for i in 0..n.max(whole.len()) {
        let (d, ycls) = gen_date(c);
        let (t, fcls, lcls, strict) = gen_time(c);
        // every whole-minute offset in turn; one value in eight has a seconds part (outside the property)
        let (off, whole_min) = if i % 8 == 7 {
            let o = loop {
                let o = if c.rng.chance(1, 2) { c.rng.range(-86399, 86399) as i32 } else { *c.rng.pick(&[1i32, 59, 61, 3599, 3601, 86399, 86341, 45296]) * if c.rng.chance(1, 2) { 1 } else { -1 } };
                if o % 60 != 0 {
                    break o;
                }
            };
            (o, false)
        } else {
            (whole[(i - i / 8) % whole.len()], true)
        };
        let tz = FixedOffset::east_opt(off).unwrap();
        let z: DateTime<FixedOffset> = tz.from_utc_datetime(&d.and_time(t));
        let local_ok = guard(|| z.naive_utc().checked_add_offset(tz).is_some()) == Ok(true);
        c.count(&format!("dtf:year{}", ycls));
        c.count(&format!("dtf:frac-{}", fcls));
        c.count(&format!("dtf:{}", lcls));
        c.count(if !whole_min { "dtf:offset-with-seconds(outside property)" } else if off < 0 { "dtf:offset<0" } else if off == 0 { "dtf:offset=0" } else { "dtf:offset>0" });
        if !local_ok {
            c.count("dtf:local-date-outside-NaiveDate-range");
        }
        let (dbg, dsp) = (dbg_text(&z), dsp_text(&z));
        c.op(&format!("tx.dtf {}", sz(&z)), &format!("{} | {}", both(&dbg, &rd_dtf), both(&dsp, &rd_dtf)));
        c.op(&format!("tx.dtf.local {}", sz(&z)), &local_reading(&z));
        // the crate's own range test of the wall clock against the independent one
        // (`InRangeSecs (wallSecs z)` of the theorems: the wall-clock year lies in MIN_YEAR..=MAX_YEAR)
        {
            let (y, _, _, _, _) = wall_clock(&z);
            if local_ok != (MIN_YEAR as i64 <= y && y <= MAX_YEAR as i64) {
                c.fail("DateTime<FixedOffset>: checked_add_offset disagrees with the wall-clock year being in range", &format!("{} wall-clock year {} local_ok {}", sz(&z), y, local_ok));
            }
            // both forms are the specified text of the independently computed wall clock (all offsets,
            // with or without a seconds part, in and out of range)
            let (rdbg, rdsp) = ref_zoned(&z);
            if txt(&dbg) != rdbg {
                c.fail("DateTime<FixedOffset> Debug is not the text of the independently computed wall clock", &format!("{:?}, expected {:?}, for {}", txt(&dbg), rdbg, sz(&z)));
            }
            if txt(&dsp) != rdsp {
                c.fail("DateTime<FixedOffset> Display is not the text of the independently computed wall clock", &format!("{:?}, expected {:?}, for {}", txt(&dsp), rdsp, sz(&z)));
            }
        }
        if !local_ok && strict && whole_min {
            report_f25(c, &z, &dbg, &dsp, &mut f25_reported);
        }
        if !whole_min {
            // theorem `DateTime_FixedOffset_with_seconds_rejected` (outside the property's side condition):
            // whatever the time of day and the wall-clock year, `±hh:mm:ss` leaves `:ss` over -> Err(TooLong)
            for (form, x) in [("Debug", &dbg), ("Display", &dsp)] {
                c.count("dtf:offset-with-seconds-rejected-TooLong");
                let got = rd_dtf(txt(x));
                if got != "err TooLong" {
                    c.fail(&format!("DateTime<FixedOffset> {} with a seconds offset: FromStr does not answer Err(TooLong)", form), &format!("{} text {:?} -> {}", sz(&z), txt(x), got));
                }
            }
        }
        if strict && whole_min && local_ok {
            for (form, x) in [("Debug", &dbg), ("Display", &dsp)] {
                let back = guard(|| txt(x).parse::<DateTime<FixedOffset>>().ok());
                let same = matches!(&back, Ok(Some(b)) if *b == z && b.offset().local_minus_utc() == off && b.naive_utc() == z.naive_utc());
                if !same {
                    c.fail(&format!("DateTime<FixedOffset> {} does not parse back", form), &format!("{} text {:?}", sz(&z), txt(x)));
                }
            }
        }
        if strict && whole_min && local_ok && i % 4 == 0 {
            // theorem `DateTime_FixedOffset_reads_lowercase_t`: the Debug text with `t` for `T` reads back
            let lower = txt(&dbg).replacen('T', "t", 1);
            c.op(&format!("tx.dtf.parse {}", hex(lower.as_bytes())), &rd_dtf(&lower));
            c.count("dtf:lower-case-t");
            if guard(|| lower.parse::<DateTime<FixedOffset>>().ok().map(|b| (b, b.offset().local_minus_utc()))) != Ok(Some((z, off))) {
                c.fail("DateTime<FixedOffset> Debug text with a lower-case t does not read back", &format!("{} text {:?}", sz(&z), lower));
            }
        }
        if local_ok {
            let l = z.naive_local();
            let (rd, rt, ro) = (ref_date(l.year(), l.month(), l.day()), ref_time(l.num_seconds_from_midnight(), l.nanosecond()), ref_offset(off));
            if txt(&dbg) != format!("{}T{}{}", rd, rt, ro) {
                c.fail("DateTime<FixedOffset> Debug is not <local date>T<local time><offset>", &format!("{:?} for {}", txt(&dbg), sz(&z)));
            }
            if txt(&dsp) != format!("{} {} {}", rd, rt, ro) {
                c.fail("DateTime<FixedOffset> Display is not <local date> <local time> <offset>", &format!("{:?} for {}", txt(&dsp), sz(&z)));
            }
        }
        if i < 2 {
            c.sample(&format!("DateTime<FixedOffset> {} -> {:?} -> {}", sz(&z), txt(&dsp), rd_dtf(txt(&dsp))));
        }
    }
    // the two ends of the range seen from every whole-minute offset (local date may leave the range)
    for &off in &whole {
        for (k, base) in [NaiveDateTime::MIN, NaiveDateTime::MAX, NaiveDate::MAX.and_time(mk_time(86399, 1_999_999_999))].iter().enumerate() {
            let tz = FixedOffset::east_opt(off).unwrap();
            let z: DateTime<FixedOffset> = tz.from_utc_datetime(base);
            let (dbg, dsp) = (dbg_text(&z), dsp_text(&z));
            c.op(&format!("tx.dtf {}", sz(&z)), &format!("{} | {}", both(&dbg, &rd_dtf), both(&dsp, &rd_dtf)));
            c.op(&format!("tx.dtf.local {}", sz(&z)), &local_reading(&z));
            let local_ok = guard(|| z.naive_utc().checked_add_offset(tz).is_some()) == Ok(true);
            {
                let (y, _, _, _, _) = wall_clock(&z);
                if local_ok != (MIN_YEAR as i64 <= y && y <= MAX_YEAR as i64) {
                    c.fail("DateTime<FixedOffset>: checked_add_offset disagrees with the wall-clock year being in range", &format!("range end {} {} wall-clock year {} local_ok {}", k, sz(&z), y, local_ok));
                }
                let (rdbg, rdsp) = ref_zoned(&z);
                if txt(&dbg) != rdbg || txt(&dsp) != rdsp {
                    c.fail("DateTime<FixedOffset> text at a range end is not the text of the independently computed wall clock", &format!("{:?} / {:?}, expected {:?} / {:?}, for {}", txt(&dbg), txt(&dsp), rdbg, rdsp, sz(&z)));
                }
            }
            c.count(if local_ok { "dtf:range-end,local-in-range" } else { "dtf:range-end,local-outside-range" });
            if local_ok {
                for (form, x) in [("Debug", &dbg), ("Display", &dsp)] {
                    if guard(|| txt(x).parse::<DateTime<FixedOffset>>().ok() == Some(z)) != Ok(true) {
                        c.fail(&format!("DateTime<FixedOffset> {} does not parse back", form), &format!("range end {} {} text {:?}", k, sz(&z), txt(x)));
                    }
                }
            } else if k < 2 {
                // k = 2 is a leap-second value off second 59 for most offsets: outside the property anyway
                report_f25(c, &z, &dbg, &dsp, &mut f25_reported);
            }
        }
    }

    // the boundary `fixed_parses_back_iff` / `InRangeSecs` draws, for every whole-minute offset: the last
    // in-range and the first out-of-range wall-clock second (and the ones a second / a minute to either
    // side, with the leap representation where the second is 59).  off > 0: wall clock NaiveDate::MAX
    // 23:59:59.999999999; off < 0: wall clock NaiveDate::MIN 00:00:00.
    for &off in &whole {
        if off == 0 {
            continue;
        }
        let tz = FixedOffset::east_opt(off).unwrap();
        let edge_wall = if off > 0 { NaiveDateTime::MAX } else { NaiveDateTime::MIN };
        // UTC reading whose wall clock is the edge: edge - off (inside the range by construction)
        let u1 = edge_wall - chrono::TimeDelta::seconds(off as i64);
        let out = if off > 0 { 1i64 } else { -1 };
        for (tag, ds, inside) in [
            ("F25-edge:last-inside", 0i64, true),
            ("F25-edge:1s-inside", -out, true),
            ("F25-edge:60s-inside", -60 * out, true),
            ("F25-edge:1s-outside", out, false),
            ("F25-edge:60s-outside", 60 * out, false),
        ] {
            let Some(u) = u1.checked_add_signed(chrono::TimeDelta::seconds(ds)) else {
                c.fail("DateTime<FixedOffset> boundary block: a UTC reading within |offset| of the range end is not representable", &format!("off {} {} ds {}", off, tag, ds));
                continue;
            };
            let mut us = vec![u];
            if u.time().num_seconds_from_midnight() % 60 == 59 {
                us.push(u.date().and_time(mk_time(u.time().num_seconds_from_midnight(), u.time().nanosecond() % NS + NS)));
                us.push(u.date().and_time(mk_time(u.time().num_seconds_from_midnight(), 0)));
            }
            for u in us {
                let z: DateTime<FixedOffset> = tz.from_utc_datetime(&u);
                check_zoned(c, &z, Some(inside), tag, &mut f25_reported);
            }
        }
    }
    // the offset carries the wall clock across a year sign / width class: first and last second (leap
    // representation included) of the class-boundary years, seen from every whole-minute offset
    for &y in &[MIN_YEAR, -100000, -99999, -10000, -9999, -1000, -1, 0, 1, 9999, 10000, 99999, 100000, MAX_YEAR] {
        let first = NaiveDate::from_ymd_opt(y, 1, 1).unwrap().and_time(NaiveTime::MIN);
        let last = NaiveDate::from_ymd_opt(y, 12, 31).unwrap().and_time(mk_time(86399, 1_999_999_999));
        for &off in &whole {
            let tz = FixedOffset::east_opt(off).unwrap();
            for u in [first, last] {
                let z: DateTime<FixedOffset> = tz.from_utc_datetime(&u);
                check_zoned(c, &z, None, "class-boundary-year", &mut f25_reported);
            }
        }
    }

    // ---------------------------------------------------------------- DateTime<Utc>
    for i in 0..n {
        let (d, ycls) = gen_date(c);
        let (t, fcls, lcls, strict) = gen_time(c);
        c.count(&format!("dtu:year{}", ycls));
        c.count(&format!("dtu:frac-{}", fcls));
        c.count(&format!("dtu:{}", lcls));
        let v = d.and_time(t);
        let z: DateTime<Utc> = Utc.from_utc_datetime(&v);
        let (dbg, dsp) = (dbg_text(&z), dsp_text(&z));
        c.op(&format!("tx.dtu {}", sdt(&v)), &format!("{} | {}", both(&dbg, &rd_dtu), both(&dsp, &rd_dtu)));
        let (rd, rt) = (ref_date(d.year(), d.month(), d.day()), ref_time(t.num_seconds_from_midnight(), t.nanosecond()));
        if txt(&dbg) != format!("{}T{}Z", rd, rt) {
            c.fail("DateTime<Utc> Debug is not <date>T<time>Z", &format!("{:?} for {}", txt(&dbg), sdt(&v)));
        }
        if txt(&dsp) != format!("{} {} UTC", rd, rt) {
            c.fail("DateTime<Utc> Display is not <date> <time> UTC", &format!("{:?} for {}", txt(&dsp), sdt(&v)));
        }
        if strict {
            for (form, x) in [("Debug", &dbg), ("Display", &dsp)] {
                if guard(|| txt(x).parse::<DateTime<Utc>>().ok() == Some(z)) != Ok(true) {
                    c.fail(&format!("DateTime<Utc> {} does not parse back", form), &format!("{} text {:?}", sdt(&v), txt(x)));
                }
            }
        }
        if strict && i % 4 == 0 {
            // theorem `DateTime_Utc_reads_lowercase`: `t` / `z` / `utc` in lower case read back as the value
            let forms = [
                txt(&dbg).replacen('T', "t", 1).replacen('Z', "z", 1),
                txt(&dbg).replacen('Z', "z", 1),
                txt(&dbg).replacen('T', "t", 1),
                txt(&dsp).replacen("UTC", "utc", 1),
            ];
            for (k, t) in forms.iter().enumerate() {
                c.op(&format!("tx.dtu.parse {}", hex(t.as_bytes())), &rd_dtu(t));
                if k % 3 == 0 {
                    c.op(&format!("tx.dtf.parse {}", hex(t.as_bytes())), &rd_dtf(t));
                }
                c.count("dtu:lower-case-spelling");
                if guard(|| t.parse::<DateTime<Utc>>().ok() == Some(z)) != Ok(true) {
                    c.fail("DateTime<Utc> text with lower-case t / z / utc does not read back", &format!("{} text {:?}", sdt(&v), t));
                }
                let fz = guard(|| t.parse::<DateTime<FixedOffset>>().ok().map(|b| (b.naive_utc(), b.offset().local_minus_utc())));
                if k % 3 == 0 && fz != Ok(Some((v, 0))) {
                    c.fail("DateTime<FixedOffset> FromStr of a UTC text with lower-case t / z / utc is not the value at offset 0", &format!("{} text {:?}", sdt(&v), t));
                }
            }
        }
        if i < 1 {
            c.sample(&format!("DateTime<Utc> {} -> {:?} -> {}", sdt(&v), txt(&dsp), rd_dtu(txt(&dsp))));
        }
    }

    // ---------------------------------------------------------------- DateTime<Local>
    // theorem `roundtrip_DateTime_Local`: a `Local` value prints like the `DateTime<FixedOffset>` with the
    // offset the zone gave it and reads back as the same instant with that offset.  `Local` follows the
    // `TZ` variable; each zone is run on a fresh thread (the per-thread cache), values are drawn here.
    for tzname in ["Asia/Kolkata", "America/St_Johns", "Australia/Lord_Howe", "Pacific/Kiritimati", "Europe/Amsterdam", "UTC"] {
        let mut vals: Vec<NaiveDateTime> = vec![];
        for _ in 0..c.n(300, 3000) {
            let (d, _) = if c.rng.chance(1, 2) {
                (NaiveDate::from_yo_opt(c.rng.range(1850, 2100) as i32, c.rng.range(1, 365) as u32).unwrap(), "")
            } else {
                gen_date(c)
            };
            let (t, _, _, strict) = gen_time(c);
            if strict {
                vals.push(d.and_time(t));
            }
        }
        vals.extend([NaiveDateTime::MIN, NaiveDateTime::MAX]);
        let n_zone = vals.len();
        // a representable `DateTime<Local>` that `Local` itself never builds: a foreign offset put there
        // by `from_naive_utc_and_offset` (theorem `roundtrip_DateTime_Local_zone_offset`: it reads back as
        // the same instant with the ZONE's offset, hence as the value only if the two offsets agree)
        let foreign: Vec<(NaiveDateTime, i32)> = (0..c.n(40, 400))
            .map(|_| {
                let d = NaiveDate::from_yo_opt(c.rng.range(1850, 2100) as i32, c.rng.range(1, 365) as u32).unwrap();
                let secs = c.rng.below(86400) as u32;
                (d.and_time(mk_time(secs, gen_frac(c).0)), *c.rng.pick(&whole))
            })
            .chain([(NaiveDate::from_ymd_opt(2020, 1, 1).unwrap().and_time(NaiveTime::MIN), 3600)])
            .collect();
        let old = std::env::var("TZ").ok();
        std::env::set_var("TZ", tzname);
        // (value as `<utc> <off>`, Debug, Display, same for the FixedOffset view, FromStr of both texts, round trips)
        // (…, the zone's offset at the value's own instant, the zone's offset at the instant the Debug /
        // Display text denotes — read through DateTime<FixedOffset>'s FromStr, not DateTime<Local>'s)
        type Row = (String, i32, Text, Text, Text, Text, String, String, bool, bool, i32, String, String);
        let rows: Vec<Row> = std::thread::spawn(move || {
            vals.iter()
                .map(|v| (Local.from_utc_datetime(v), *v))
                .chain(foreign.iter().map(|(v, o)| (DateTime::<Local>::from_naive_utc_and_offset(*v, FixedOffset::east_opt(*o).unwrap()), *v)))
                .map(|(l, v)| {
                    let f = l.fixed_offset();
                    let rd = |s: &str| pr(guard(|| s.parse::<DateTime<Local>>()), |b| sz(&b.fixed_offset()));
                    let (dbg, dsp) = (dbg_text(&l), dsp_text(&l));
                    let back = |x: &Text| guard(|| txt(x).parse::<DateTime<Local>>().ok().map(|b| b == l && b.fixed_offset().offset().local_minus_utc() == f.offset().local_minus_utc())) == Ok(Some(true));
                    let zone_at = |x: &Text| match guard(|| txt(x).parse::<DateTime<FixedOffset>>().ok().map(|p| Local.offset_from_utc_datetime(&p.naive_utc()).local_minus_utc())) {
                        Ok(Some(o)) => o.to_string(),
                        _ => "none".to_string(),
                    };
                    let own = Local.offset_from_utc_datetime(&v).local_minus_utc();
                    (sz(&f), f.offset().local_minus_utc(), dbg.clone(), dsp.clone(), dbg_text(&f), dsp_text(&f), both(&dbg, &rd), both(&dsp, &rd), back(&dbg), back(&dsp), own, zone_at(&dbg), zone_at(&dsp))
                })
                .collect()
        })
        .join()
        .unwrap_or_default();
        match old {
            Some(v) => std::env::set_var("TZ", v),
            None => std::env::remove_var("TZ"),
        }
        if rows.is_empty() {
            c.fail("DateTime<Local> worker thread panicked", tzname);
        }
        let mut f25_local = 0;
        for (k, (val, off, dbg, dsp, fdbg, fdsp, bdbg, bdsp, back_dbg, back_dsp, own, zdbg, zdsp)) in rows.iter().enumerate() {
            c.op(&format!("tx.dtl {} {} {}", val, zdbg, zdsp), &format!("{} | {}", bdbg, bdsp));
            if k < n_zone && own != off {
                c.fail("DateTime<Local>: the offset of a value built by Local is not the zone's offset at its instant", &format!("TZ={} {} zone says {}", tzname, val, own));
            }
            if k >= n_zone {
                // foreign offset: outside `hloc`; the text is still the FixedOffset text (checked below) and
                // reads back as the same instant carrying the zone's offset
                c.count(if own == off { "dtl:foreign-offset-equal-to-the-zone's" } else { "dtl:foreign-offset(outside the Local theorem's hypothesis)" });
                if dbg != fdbg || dsp != fdsp {
                    c.fail("DateTime<Local> text differs from the text of its FixedOffset view", &format!("TZ={} {} (foreign offset)", tzname, val));
                }
                let utc_part = val.rsplitn(2, ' ').nth(1).unwrap_or("");
                let want = format!("ok {} {}", utc_part, own);
                for (form, b) in [("Debug", bdbg), ("Display", bdsp)] {
                    if !b.ends_with(&want) {
                        c.fail(&format!("DateTime<Local> {} with a foreign offset does not read back as the same instant with the zone's offset", form), &format!("TZ={} {} -> {} (expected {})", tzname, val, b, want));
                    }
                }
                if own != off && (*back_dbg || *back_dsp) {
                    c.fail("DateTime<Local> with a foreign offset reads back with that offset", &format!("TZ={} {}", tzname, val));
                }
                continue;
            }
            c.count(if off % 60 != 0 { "dtl:offset-with-seconds(outside property)" } else { "dtl:whole-minute-offset" });
            if dbg != fdbg || dsp != fdsp {
                c.fail("DateTime<Local> text differs from the text of its FixedOffset view", &format!("TZ={} {} {:?} / {:?} vs {:?} / {:?}", tzname, val, txt(dbg), txt(dsp), txt(fdbg), txt(fdsp)));
            }
            if off % 60 == 0 {
                let z: DateTime<FixedOffset> = match txt(fdbg).parse() {
                    Ok(z) => z,
                    Err(_) => {
                        // only the F25 band (wall clock outside NaiveDate's range) may fail to read back
                        f25_local += 1;
                        c.count("dtl:out-of-range-local-date(known finding F25)");
                        if !(bdbg.ends_with("err OutOfRange") && bdsp.ends_with("err OutOfRange")) {
                            c.fail("DateTime<Local> text is rejected with another error than OutOfRange", &format!("TZ={} {} -> {} | {}", tzname, val, bdbg, bdsp));
                        }
                        continue;
                    }
                };
                let _ = z;
                if !back_dbg {
                    c.fail("DateTime<Local> Debug does not parse back", &format!("TZ={} {} text {:?}", tzname, val, txt(dbg)));
                }
                if !back_dsp {
                    c.fail("DateTime<Local> Display does not parse back", &format!("TZ={} {} text {:?}", tzname, val, txt(dsp)));
                }
            }
            if k == 0 {
                c.sample(&format!("DateTime<Local> TZ={} {} -> {:?} -> {}", tzname, val, txt(dsp), bdsp));
            }
        }
        let _ = f25_local;
    }

    // ---------------------------------------------------------------- FixedOffset
    // all whole-minute offsets; every offset in seconds in the thorough tier, a sample in the quick one
    let mut offs: Vec<i32> = whole.clone();
    if c.tier == Tier::Thorough {
        offs.extend((-86399..=86399).filter(|o| o % 60 != 0));
    } else {
        for _ in 0..n / 2 {
            let o = c.rng.range(-86399, 86399) as i32;
            if o % 60 != 0 {
                offs.push(o);
            }
        }
        offs.extend([1, -1, 59, -59, 61, -61, 3599, -3599, 86399, -86399, 86341, -86341]);
    }
    for &o in &offs {
        let f = FixedOffset::east_opt(o).unwrap();
        let (dbg, dsp) = (dbg_text(&f), dsp_text(&f));
        c.op(&format!("tx.off {}", o), &format!("{} | {}", both(&dbg, &rd_off), both(&dsp, &rd_off)));
        c.count(if o % 60 != 0 { "off:with-seconds(outside property)" } else if o < 0 { "off:whole-minute<0" } else if o == 0 { "off:zero" } else { "off:whole-minute>0" });
        for (form, x) in [("Debug", &dbg), ("Display", &dsp)] {
            if txt(x) != ref_offset(o) {
                c.fail("FixedOffset text is not +hh:mm[:ss]", &format!("{:?} for {}", txt(x), o));
            }
            if o % 60 != 0 {
                // theorem `FixedOffset_with_seconds_reads_truncated` (outside the property's side condition)
                let got = guard(|| txt(x).parse::<FixedOffset>().ok().map(|b| b.local_minus_utc()));
                if got != Ok(Some(o - o % 60)) {
                    c.fail("FixedOffset with a seconds part does not read as the offset truncated to minutes", &format!("{} text {:?} -> {:?}", o, txt(x), got));
                }
            }
            if o % 60 == 0 && guard(|| txt(x).parse::<FixedOffset>().ok() == Some(f)) != Ok(true) {
                c.fail(&format!("FixedOffset {} does not parse back", form), &format!("{} text {:?}", o, txt(x)));
            }
        }
    }

    // ---------------------------------------------------------------- malformed / non-canonical text
    let nm = n / 2;
    let mut texts: Vec<(u8, String)> = vec![];
    for s in DATE_SPECIALS {
        texts.push((0, s.to_string()));
    }
    for s in TIME_SPECIALS {
        texts.push((1, s.to_string()));
    }
    for s in NDT_SPECIALS {
        texts.push((2, s.to_string()));
        texts.push((3, s.to_string()));
        texts.push((4, s.to_string()));
    }
    for s in DTF_SPECIALS {
        texts.push((2, s.to_string()));
        texts.push((3, s.to_string()));
        texts.push((4, s.to_string()));
    }
    for s in OFF_SPECIALS {
        texts.push((5, s.to_string()));
    }
    for _ in 0..nm {
        let kind = c.rng.below(6) as u8;
        let (d, _) = gen_date(c);
        let (t, _, _, _) = gen_time(c);
        let off = if c.rng.chance(3, 4) { *c.rng.pick(&whole) } else { c.rng.range(-86399, 86399) as i32 };
        let tz = FixedOffset::east_opt(off).unwrap();
        let base: String = match kind {
            0 => if c.rng.chance(1, 3) { date_variant(c) } else { format!("{:?}", d) },
            1 => if c.rng.chance(1, 3) { time_variant(c) } else { format!("{:?}", t) },
            2 => match c.rng.below(4) {
                0 => format!("{}T{}", date_variant(c), time_variant(c)),
                1 => format!("{}", d.and_time(t)),
                _ => format!("{:?}", d.and_time(t)),
            },
            3 | 4 => {
                let z = tz.from_utc_datetime(&d.and_time(t));
                match c.rng.below(6) {
                    0 => format!("{}{}{}{}", date_variant(c), *c.rng.pick(&["T", "t", " ", "  ", "T ", ""]), time_variant(c), offset_variant(c)),
                    1 => format!("{}", z),
                    2 => format!("{:?}", z.with_timezone(&Utc)),
                    3 => format!("{}", z.with_timezone(&Utc)),
                    4 => format!("{:?}{}", d.and_time(t), offset_variant(c)),
                    _ => format!("{:?}", z),
                }
            }
            _ => if c.rng.chance(1, 2) { offset_variant(c) } else { format!("{:?}", tz) },
        };
        let text = match c.rng.below(4) {
            0 => base,
            1 => {
                let once = mutate(c, &base, ALPHABET);
                mutate(c, &once, ALPHABET)
            }
            _ => mutate(c, &base, ALPHABET),
        };
        texts.push((kind, text));
    }
    let mut shown = 0;
    for (kind, text) in &texts {
        let (name, got) = match kind {
            0 => ("date", rd_date(text)),
            1 => ("time", rd_time(text)),
            2 => ("ndt", rd_ndt(text)),
            3 => ("dtf", rd_dtf(text)),
            4 => ("dtu", rd_dtu(text)),
            _ => ("off", rd_off(text)),
        };
        let class: String = got.split(' ').take(if got.starts_with("err") { 2 } else { 1 }).collect::<Vec<_>>().join(" ");
        c.count(&format!("parse:{}:{}", name, class));
        if got == "panic" {
            c.fail("FromStr panicked", &format!("{} {:?}", name, text));
        }
        c.op(&format!("tx.{}.parse {}", name, hex(text.as_bytes())), &got);
        if shown < 3 && got.starts_with("ok") && *kind >= 2 {
            shown += 1;
            c.sample(&format!("{} FromStr {:?} -> {}", name, text, got));
        }
    }
}
