//! C04 — zone-aware date-times: one instant, many wall clocks (`DateTime<FixedOffset>`, `DateTime<Utc>`).
//!
//! Correspondence ops (prefix `zn.`) are answered by lean/Chrono/Drv/Zoned.lean.  A naive date-time is
//! encoded `yof secs frac`, a zone-aware value `yof secs frac off` (the stored UTC reading + offset).
//! Direct oracles (i64 arithmetic on an independent calendar, no chrono arithmetic) check the property
//! statement on the implementation itself: the wall clock is instant + offset in the calendar extended
//! by one day at each end; both construction identities; a construction fails exactly when the other
//! representation leaves the range; eq / ord / hash see only the instant; changing the zone keeps the
//! instant; field replacement, day and month stepping act on the wall clock and stay in range.
use super::c01::{day_num, gen_date, is_leap, month_len, yof, MAX_YEAR, MIN_YEAR};
use crate::ctx::*;
use chrono::{
    DateTime, Datelike, Days, FixedOffset, LocalResult, Months, NaiveDate, NaiveDateTime, NaiveTime, Offset, TimeZone,
    Timelike, Utc,
};
use std::collections::BTreeMap;
use std::hash::{Hash, Hasher};

const EPOCH: i64 = 719_163;
const PANIC: i64 = -7_777_777;
const P: i64 = 2_147_483_647;
const NS: i64 = 1_000_000_000;

// ---- building and reading values --------------------------------------------------------------------
fn mk_t(secs: u32, frac: u32) -> NaiveTime {
    // the leap representation on any second is reachable through with_nanosecond
    NaiveTime::from_num_seconds_from_midnight_opt(secs, 0).unwrap().with_nanosecond(frac).unwrap()
}
fn mk_n(d: NaiveDate, secs: u32, frac: u32) -> NaiveDateTime {
    NaiveDateTime::new(d, mk_t(secs, frac))
}
fn raw_n(n: &NaiveDateTime) -> (i64, i64, i64) {
    (yof(&n.date()), n.time().num_seconds_from_midnight() as i64, n.time().nanosecond() as i64)
}
fn enc_n(n: &NaiveDateTime) -> String {
    let (y, s, f) = raw_n(n);
    format!("{y} {s} {f}")
}
fn fo(off: i32) -> FixedOffset {
    FixedOffset::east_opt(off).unwrap()
}
fn mk_z(u: &NaiveDateTime, off: i32) -> DateTime<FixedOffset> {
    fo(off).from_utc_datetime(u)
}
fn off_of<Tz: TimeZone>(z: &DateTime<Tz>) -> i64 {
    z.offset().fix().local_minus_utc() as i64
}
fn enc_z<Tz: TimeZone>(z: &DateTime<Tz>) -> String {
    format!("{} {}", enc_n(&z.naive_utc()), off_of(z))
}
fn show_oz<Tz: TimeZone>(r: &Result<Option<DateTime<Tz>>, ()>) -> String {
    match r {
        Ok(Some(z)) => enc_z(z),
        Ok(None) => "none".into(),
        Err(()) => "panic".into(),
    }
}
fn lr<T>(r: LocalResult<T>) -> Result<Option<T>, &'static str> {
    match r {
        LocalResult::Single(v) => Ok(Some(v)),
        LocalResult::None => Ok(None),
        LocalResult::Ambiguous(..) => Err("ambiguous"),
    }
}

/// records every word the `Hash` impl feeds to the hasher
#[derive(Default)]
struct RecH(Vec<i64>);
impl Hasher for RecH {
    fn finish(&self) -> u64 {
        0
    }
    fn write(&mut self, b: &[u8]) {
        if b.len() == 4 {
            self.0.push(i32::from_ne_bytes([b[0], b[1], b[2], b[3]]) as i64);
        } else {
            self.0.push(-1000 - b.len() as i64);
            self.0.extend(b.iter().map(|x| *x as i64));
        }
    }
    fn write_i32(&mut self, i: i32) {
        self.0.push(i as i64);
    }
    fn write_u32(&mut self, i: u32) {
        self.0.push(i as i64);
    }
}
fn hash_words<T: Hash>(v: &T) -> Vec<i64> {
    let mut h = RecH::default();
    v.hash(&mut h);
    h.0
}

// ---- independent calendar (closed-form day number of c01.rs + search; shares nothing with chrono) ----
fn yo_of_day(n: i64) -> (i64, i64) {
    let mut y = (n * 400).div_euclid(146_097) + 1;
    while day_num(y, 1, 1) > n {
        y -= 1;
    }
    while day_num(y + 1, 1, 1) <= n {
        y += 1;
    }
    (y, n - day_num(y, 1, 1) + 1)
}
fn md_of_yo(y: i64, o: i64) -> (i64, i64) {
    let (mut m, mut d) = (1, o);
    while d > month_len(y, m) {
        d -= month_len(y, m);
        m += 1;
    }
    (m, d)
}
fn year_len(y: i64) -> i64 {
    365 + is_leap(y) as i64
}
#[derive(Clone, Copy, Debug)]
struct Wall {
    n: i64,
    y: i64,
    m: i64,
    d: i64,
    o: i64,
    wd: i64,
    iy: i64,
    iw: i64,
    sod: i64,
}
/// the civil reading of `w` seconds since 1970-01-01T00:00:00 on a clock without zone
fn wall_of(w: i64) -> Wall {
    let n = w.div_euclid(86_400) + EPOCH;
    let sod = w.rem_euclid(86_400);
    let (y, o) = yo_of_day(n);
    let (m, d) = md_of_yo(y, o);
    let wd = (n + 6).rem_euclid(7);
    let (iy, to) = yo_of_day(n - wd + 3);
    Wall { n, y, m, d, o, wd, iy, iw: (to - 1) / 7 + 1, sod }
}
/// whole seconds since the epoch of a naive date-time read as UTC (accessors only)
fn inst(n: &NaiveDateTime) -> i64 {
    let d = n.date();
    (day_num(d.year() as i64, d.month() as i64, d.day() as i64) - EPOCH) * 86_400 + n.time().num_seconds_from_midnight() as i64
}
fn min_day() -> i64 {
    day_num(MIN_YEAR as i64, 1, 1)
}
fn max_day() -> i64 {
    day_num(MAX_YEAR as i64, 12, 31)
}
fn s_min() -> i64 {
    (min_day() - EPOCH) * 86_400
}
fn s_max() -> i64 {
    (max_day() - EPOCH) * 86_400 + 86_399
}
/// MIN_UTC <= (u secs, frac) <= MAX_UTC in the derived order of NaiveDateTime
fn in_utc_range(u: i64, frac: i64) -> bool {
    s_min() <= u && u <= s_max() && !(u == s_max() && frac >= NS)
}

// ---- observations -----------------------------------------------------------------------------------
fn g(f: impl FnOnce() -> i64) -> i64 {
    guard(f).unwrap_or(PANIC)
}
/// the same list as `obsList` of Drv/Zoned.lean
fn obs_of<Tz: TimeZone>(z: &DateTime<Tz>) -> Vec<i64> {
    let mut v = vec![
        g(|| z.year() as i64),
        g(|| z.month() as i64),
        g(|| z.day() as i64),
        g(|| z.ordinal() as i64),
        g(|| z.weekday().num_days_from_monday() as i64),
        g(|| z.iso_week().year() as i64),
        g(|| z.iso_week().week() as i64),
        g(|| z.num_days_from_ce() as i64),
        g(|| z.hour() as i64),
        g(|| z.minute() as i64),
        g(|| z.second() as i64),
        g(|| z.nanosecond() as i64),
    ];
    match guard(|| z.naive_local()) {
        Ok(l) => {
            let (y, s, f) = raw_n(&l);
            v.extend([1, y, s, f]);
        }
        Err(()) => v.push(0),
    }
    v
}
fn fl_list(off: i32, l: &NaiveDateTime) -> Vec<i64> {
    match guard(|| lr(fo(off).from_local_datetime(l))) {
        Ok(Ok(Some(z))) => {
            let (y, s, f) = raw_n(&z.naive_utc());
            vec![1, y, s, f]
        }
        Ok(Ok(None)) => vec![0],
        Ok(Err(_)) => vec![2],
        Err(()) => vec![-1],
    }
}
fn mix(m: i64, h: i64, x: i64) -> i64 {
    (h * m + x.rem_euclid(P)) % P
}
fn mix_l(h: (i64, i64), xs: &[i64]) -> (i64, i64) {
    xs.iter().fold(h, |h, x| (mix(48271, h.0, *x), mix(69621, h.1, *x)))
}
fn join(v: &[i64]) -> String {
    v.iter().map(|x| x.to_string()).collect::<Vec<_>>().join(" ")
}

/// oracle failures are capped per kind so that a broken build does not write millions of lines
struct Fails(BTreeMap<String, u32>);
impl Fails {
    fn hit(&mut self, c: &mut Ctx, what: &str, detail: &str) {
        let n = self.0.entry(what.to_string()).or_insert(0);
        *n += 1;
        if *n <= 6 {
            c.fail(what, detail);
        }
    }
}
struct Tally(BTreeMap<String, u64>);
impl Tally {
    fn add(&mut self, k: &str) {
        *self.0.entry(k.to_string()).or_insert(0) += 1;
    }
}

/// direct oracles for one value (UTC reading `u`, offset `off`) given its observations
fn check_value(c: &mut Ctx, fl: &mut Fails, tl: &mut Tally, u: &NaiveDateTime, off: i32, obs: &[i64]) {
    let frac = u.time().nanosecond() as i64;
    let w = wall_of(inst(u) + off as i64);
    let key = format!("zn.obs {} {off}", enc_n(u));
    let exp = [w.y, w.m, w.d, w.o, w.wd, w.iy, w.iw, w.n, w.sod / 3600, w.sod / 60 % 60, w.sod % 60, frac];
    if obs[..12] != exp {
        fl.hit(c, "accessors of a zone-aware value are not the wall clock (instant + offset) in the extended calendar", &format!("{key} -> {} expected {}", join(&obs[..12]), join(&exp)));
    }
    let local_in = min_day() <= w.n && w.n <= max_day();
    tl.add(if w.n < min_day() { "wall:before-MIN(headroom)" } else if w.n > max_day() { "wall:after-MAX(headroom)" } else { "wall:in-range" });
    let day_shift = w.n - (inst(u).div_euclid(86_400) + EPOCH);
    tl.add(match day_shift { -1 => "wall:day-1", 0 => "wall:same-day", 1 => "wall:day+1", _ => "wall:day-OTHER" });
    match (&obs[12..], local_in) {
        ([0], false) => {}
        ([1, y, s, f], true) => {
            // the in-range local value must be the date with day number w.n at second w.sod
            let d = NaiveDate::from_num_days_from_ce_opt(w.n as i32).map(|d| yof(&d));
            if d != Some(*y) || *s != w.sod || *f != frac {
                fl.hit(c, "naive_local is not instant + offset", &format!("{key} -> {y} {s} {f}"));
            }
        }
        _ => fl.hit(c, "naive_local must fail exactly when the wall clock leaves the supported range", &format!("{key} -> {} (wall day {} in range: {local_in})", join(&obs[12..]), w.n)),
    }
}

/// direct oracles for `from_local_datetime(off, l)`
fn check_from_local(c: &mut Ctx, fl: &mut Fails, tl: &mut Tally, l: &NaiveDateTime, off: i32, r: &Result<Option<DateTime<FixedOffset>>, ()>) {
    let key = format!("zn.fl {} {off}", enc_n(l));
    let ut = inst(l) - off as i64;
    let un = ut.div_euclid(86_400) + EPOCH;
    let ok = min_day() <= un && un <= max_day();
    tl.add(if ok { "from_local:some" } else if un < min_day() { "from_local:none(utc<MIN)" } else { "from_local:none(utc>MAX)" });
    match r {
        Ok(Some(z)) => {
            if !ok {
                fl.hit(c, "from_local_datetime succeeded although the UTC reading leaves the range", &key);
            }
            if guard(|| z.naive_local()) != Ok(*l) || off_of(z) != off as i64 {
                fl.hit(c, "reading the wall clock back after from_local_datetime is not the identity", &key);
            }
            if inst(&z.naive_utc()) != ut || z.naive_utc().time().nanosecond() != l.time().nanosecond() {
                fl.hit(c, "from_local_datetime: instant is not wall clock minus offset", &key);
            }
        }
        Ok(None) => {
            if ok {
                fl.hit(c, "from_local_datetime failed although the UTC reading is in range", &key);
            }
        }
        Err(()) => fl.hit(c, "from_local_datetime panicked", &key),
    }
}

// ---- generators ---------------------------------------------------------------------------------------
fn gen_off(c: &mut Ctx) -> i32 {
    match c.rng.below(6) {
        0 => *c.rng.pick(&[0i32, 1, -1, 59, -59, 60, -60, 3599, -3599, 3600, -3600, 43_200, -43_200, 86_398, -86_398, 86_399, -86_399, 86_340, -86_340]),
        1 => c.rng.range(-23, 23) as i32 * 3600,
        2 => c.rng.range(-95, 95) as i32 * 900,
        _ => c.rng.range(-86_399, 86_399) as i32,
    }
}
fn gen_frac(c: &mut Ctx) -> u32 {
    match c.rng.below(5) {
        0 => c.rng.nanos(),
        1 => 1_000_000_000 + c.rng.nanos(),
        2 => 0,
        _ => *c.rng.pick(&[0u32, 1, 500_000_000, 999_999_999, 1_000_000_000, 1_000_000_001, 1_999_999_999]),
    }
}
/// seconds of day; with probability 1/2 placed so that `secs + off` lands on / next to midnight
fn gen_secs(c: &mut Ctx, off: i32) -> u32 {
    match c.rng.below(4) {
        0 => *c.rng.pick(&[0u32, 1, 59, 60, 3599, 3600, 43_200, 86_339, 86_340, 86_398, 86_399]),
        1 | 2 => {
            let target: i32 = *c.rng.pick(&[-2, -1, 0, 1, 2, 86_398, 86_399, 86_400, 86_401]);
            (target - off).rem_euclid(86_400) as u32
        }
        _ => c.rng.below(86_400) as u32,
    }
}
fn gen_day(c: &mut Ctx) -> NaiveDate {
    match c.rng.below(8) {
        0 | 1 => NaiveDate::MIN + Days::new(c.rng.below(3)),
        2 | 3 => NaiveDate::MAX - Days::new(c.rng.below(3)),
        4 => {
            // year / month ends
            let y = super::c01::gen_year(c);
            let (m, d) = *c.rng.pick(&[(1u32, 1u32), (12, 31), (2, 28), (3, 1), (2, 29), (1, 31), (6, 30)]);
            NaiveDate::from_ymd_opt(y, m, d).unwrap_or_else(|| NaiveDate::from_ymd_opt(y, 2, 28).unwrap())
        }
        _ => gen_date(c),
    }
}
fn gen_value(c: &mut Ctx) -> (NaiveDateTime, i32) {
    let off = gen_off(c);
    let d = gen_day(c);
    let s = gen_secs(c, off);
    let f = gen_frac(c);
    (mk_n(d, s, f), off)
}

fn end_value(i: usize) -> NaiveDateTime {
    match i {
        0 => NaiveDateTime::MIN,
        1 => NaiveDateTime::new(NaiveDate::MIN.succ_opt().unwrap(), NaiveTime::MIN),
        2 => NaiveDateTime::new(NaiveDate::MAX.pred_opt().unwrap(), NaiveDateTime::MAX.time()),
        _ => NaiveDateTime::MAX,
    }
}

/// expected new wall clock (day number, second of day, fraction) after replacing one field, by the
/// independent calendar; None = the replaced tuple does not denote a date / time
fn replaced(w: &Wall, frac: i64, field: &str, v: i64) -> Option<(i64, i64, i64)> {
    let date = |y: i64, m: i64, d: i64| {
        if (1..=12).contains(&m) && d >= 1 && d <= month_len(y, m) { Some(day_num(y, m, d)) } else { None }
    };
    let u32max = u32::MAX as i64;
    match field {
        "year" => {
            if v == w.y {
                Some((w.n, w.sod, frac))
            } else if v < MIN_YEAR as i64 || v > MAX_YEAR as i64 {
                None
            } else {
                date(v, w.m, w.d).map(|n| (n, w.sod, frac))
            }
        }
        "month" => date(w.y, v, w.d).map(|n| (n, w.sod, frac)),
        "month0" => if v >= u32max { None } else { date(w.y, v + 1, w.d).map(|n| (n, w.sod, frac)) },
        "day" => date(w.y, w.m, v).map(|n| (n, w.sod, frac)),
        "day0" => if v >= u32max { None } else { date(w.y, w.m, v + 1).map(|n| (n, w.sod, frac)) },
        "ordinal" => if v >= 1 && v <= year_len(w.y) { Some((day_num(w.y, 1, 1) + v - 1, w.sod, frac)) } else { None },
        "ordinal0" => if v < year_len(w.y) { Some((day_num(w.y, 1, 1) + v, w.sod, frac)) } else { None },
        "hour" => if v < 24 { Some((w.n, v * 3600 + w.sod % 3600, frac)) } else { None },
        "minute" => if v < 60 { Some((w.n, w.sod / 3600 * 3600 + v * 60 + w.sod % 60, frac)) } else { None },
        "second" => if v < 60 { Some((w.n, w.sod / 60 * 60 + v, frac)) } else { None },
        "nano" => if v < 2 * NS { Some((w.n, w.sod, v)) } else { None },
        _ => unreachable!(),
    }
}

/// compare a result of an operation on the wall clock with the expected new wall clock
fn check_wall_result(
    c: &mut Ctx, fl: &mut Fails, tl: &mut Tally, what: &str, key: &str, off: i32, exp: Option<(i64, i64, i64)>,
    lo_filter: bool, hi_filter: bool, r: &Result<Option<DateTime<FixedOffset>>, ()>,
) {
    // expected UTC reading
    let expz = exp.and_then(|(n, sod, frac)| {
        let ut = (n - EPOCH) * 86_400 + sod - off as i64;
        let lo_ok = if lo_filter { s_min() <= ut } else { ut.div_euclid(86_400) + EPOCH >= min_day() };
        let hi_ok = if hi_filter { ut <= s_max() && !(ut == s_max() && frac >= NS) } else { ut.div_euclid(86_400) + EPOCH <= max_day() };
        if lo_ok && hi_ok { Some((ut, frac)) } else { None }
    });
    tl.add(&format!("{what}:{}", match (exp.is_some(), expz.is_some()) { (false, _) => "invalid-field", (true, false) => "utc-out-of-range", (true, true) => "ok" }));
    match r {
        Err(()) => fl.hit(c, &format!("{what} panicked"), key),
        Ok(None) => {
            if let Some((ut, f)) = expz {
                fl.hit(c, &format!("{what} refused a replacement whose wall clock exists and whose instant is in range"), &format!("{key} expected utc secs {ut} frac {f}"));
            }
        }
        Ok(Some(z)) => {
            let got = (inst(&z.naive_utc()), z.naive_utc().time().nanosecond() as i64);
            if z.naive_utc() == NaiveDateTime::MIN {
                tl.add(&format!("{what}:result exactly MIN_UTC"));
            }
            if z.naive_utc() == NaiveDateTime::MAX {
                tl.add(&format!("{what}:result exactly MAX_UTC"));
            }
            if off_of(z) != off as i64 {
                fl.hit(c, &format!("{what} changed the offset"), key);
            }
            // only the side(s) this operation filters (an input that is itself a leap-second reading in
            // the last second of MAX compares above MAX_UTC and may be returned by the other operations)
            let lo_bad = lo_filter && got.0 < s_min();
            let hi_bad = hi_filter && (got.0 > s_max() || (got.0 == s_max() && got.1 >= NS));
            if lo_bad || hi_bad {
                fl.hit(c, &format!("{what} returned a value outside MIN_UTC..=MAX_UTC"), &format!("{key} -> {}", enc_z(z)));
            }
            if expz != Some(got) {
                fl.hit(c, &format!("{what} did not act on the wall clock"), &format!("{key} -> {} (utc secs {} frac {}), expected {:?}", enc_z(z), got.0, got.1, expz));
            }
        }
    }
}

// ---- audit 2026-09-30: the stepping failure set against a rule that does not mention the filters ------
/// MIN_UTC <= (secs, frac) <= MAX_UTC, in 128-bit arithmetic (u64 day counts)
fn in_utc_range_wide(i: i128, frac: i64) -> bool {
    i >= s_min() as i128 && i <= s_max() as i128 && !(i == s_max() as i128 && frac >= NS)
}
fn nominal_wide(w: i128) -> bool {
    w >= s_min() as i128 && w <= s_max() as i128
}
/// day step by `n > 0`: a result exists iff the stepped instant is in MIN_UTC..=MAX_UTC and the stepped wall
/// clock is a reading of the nominal range (theorem day_stepping_vs_rule); the steps on which the pure
/// instant rule is false are counted under the prefix EXCEPTION (theorem day_stepping_exceptions)
fn rule_oracle_days(c: &mut Ctx, fl: &mut Fails, tl: &mut Tally, key: &str, u: &NaiveDateTime, off: i32, add: bool, n: u64, r: &Result<Option<DateTime<FixedOffset>>, ()>) {
    if n == 0 {
        if !matches!(r, Ok(Some(z)) if z.naive_utc() == *u && off_of(z) == off as i64) {
            fl.hit(c, "Days(0) must return the value itself", key);
        }
        return;
    }
    let frac = u.time().nanosecond() as i64;
    let step = n as i128 * 86_400;
    let i2 = inst(u) as i128 + if add { step } else { -step };
    let w2 = i2 + off as i128;
    let (inst_ok, wall_ok) = (in_utc_range_wide(i2, frac), nominal_wide(w2));
    let some = matches!(r, Ok(Some(_)));
    if r.is_err() || some != (inst_ok && wall_ok) {
        fl.hit(c, "day stepping: a result must exist exactly when the stepped instant is in MIN_UTC..=MAX_UTC and the stepped wall clock is in the nominal range", &format!("{key} (instant ok {inst_ok}, wall clock ok {wall_ok})"));
    }
    if inst_ok && !wall_ok {
        tl.add(if add { "EXCEPTION(instant rule) checked_add_days refused: stepped instant in range, result would read the day after MAX" } else { "EXCEPTION(instant rule) checked_sub_days refused: stepped instant in range, result would read the day before MIN" });
        if (add && off <= 0) || (!add && off >= 0) {
            fl.hit(c, "day stepping: a headroom result with the instant in range needs an offset pointing outwards", key);
        }
    }
}
/// month step by `n > 0`: a result exists iff the stepped wall-clock year is a year of the nominal range and the
/// stepped instant is in MIN_UTC..=MAX_UTC or is a leap-second representation in the last second of the range
/// (theorem month_stepping_vs_rule; exceptions of the pure instant rule counted under EXCEPTION)
fn rule_oracle_months(c: &mut Ctx, fl: &mut Fails, tl: &mut Tally, key: &str, u: &NaiveDateTime, off: i32, add: bool, n: u32, r: &Result<Option<DateTime<FixedOffset>>, ()>) {
    if n == 0 {
        if !matches!(r, Ok(Some(z)) if z.naive_utc() == *u && off_of(z) == off as i64) {
            fl.hit(c, "Months(0) must return the value itself", key);
        }
        return;
    }
    let frac = u.time().nanosecond() as i64;
    let w = wall_of(inst(u) + off as i64);
    let t = w.y * 12 + w.m - 1 + if add { n as i64 } else { -(n as i64) };
    let (y2, m2) = (t.div_euclid(12), t.rem_euclid(12) + 1);
    let d2 = w.d.min(month_len(y2, m2));
    let i2 = (day_num(y2, m2, d2) as i128 - EPOCH as i128) * 86_400 + w.sod as i128 - off as i128;
    let year_ok = y2 >= MIN_YEAR as i64 && y2 <= MAX_YEAR as i64;
    let inst_ok = in_utc_range_wide(i2, frac);
    let over = i2 == s_max() as i128 && frac >= NS;
    let some = matches!(r, Ok(Some(_)));
    if r.is_err() || some != (year_ok && (inst_ok || over)) {
        fl.hit(c, "month stepping: a result must exist exactly when the stepped wall-clock year is in range and the stepped instant is in MIN_UTC..=MAX_UTC (or a leap second in its last second)", &format!("{key} (year ok {year_ok}, instant ok {inst_ok}, leap-at-end {over})"));
    }
    if year_ok && over && some {
        tl.add("EXCEPTION(instant rule) month stepping returned a value above MAX_UTC (leap second in the last second of the range)");
    }
    if !year_ok && inst_ok {
        tl.add(if add { "EXCEPTION(instant rule) checked_add_months refused: stepped instant in range, result would read the day after MAX" } else { "EXCEPTION(instant rule) checked_sub_months refused: stepped instant in range, result would read the day before MIN" });
    }
}

/// the text a writer must show for the wall clock `w` (independent calendar), nanosecond field `frac`
fn want_year(y: i64) -> String {
    if (0..=9999).contains(&y) { format!("{:04}", y) } else { format!("{}{:04}", if y < 0 { '-' } else { '+' }, y.abs()) }
}
fn want_frac(nano: i64) -> String {
    if nano == 0 { String::new() } else if nano % 1_000_000 == 0 { format!(".{:03}", nano / 1_000_000) } else if nano % 1000 == 0 { format!(".{:06}", nano / 1000) } else { format!(".{:09}", nano) }
}
fn want_off(off: i32, colon: bool, secs: bool) -> String {
    let (sg, o) = if off < 0 { ('-', -off) } else { ('+', off) };
    let (h, m, s) = (o / 3600, o / 60 % 60, o % 60);
    let sep = if colon { ":" } else { "" };
    if secs && s != 0 { format!("{sg}{h:02}{sep}{m:02}{sep}{s:02}") } else { format!("{sg}{h:02}{sep}{m:02}") }
}
const WD3: [&str; 7] = ["Mon", "Tue", "Wed", "Thu", "Fri", "Sat", "Sun"];
const MO3: [&str; 12] = ["Jan", "Feb", "Mar", "Apr", "May", "Jun", "Jul", "Aug", "Sep", "Oct", "Nov", "Dec"];

/// formatting, derived views and zone changes of one value: correspondence ops `znf.*` + direct oracles
fn check_texts_and_views(c: &mut Ctx, fl: &mut Fails, tl: &mut Tally, u: &NaiveDateTime, off: i32) {
    use chrono::SecondsFormat;
    let z = mk_z(u, off);
    let frac = u.time().nanosecond() as i64;
    let w = wall_of(inst(u) + off as i64);
    let headroom = w.n < min_day() || w.n > max_day();
    let key = format!("{} {off}", enc_n(u));
    let t = |r: Result<String, ()>| match r { Ok(s) => hex(s.as_bytes()), Err(()) => "panic".to_string() };
    let r3 = guard(|| z.to_rfc3339());
    let r3s = guard(|| z.to_rfc3339_opts(SecondsFormat::Secs, true));
    let r3m = guard(|| z.to_rfc3339_opts(SecondsFormat::Millis, false));
    let r2 = guard(|| z.to_rfc2822());
    let dbg = guard(|| format!("{:?}", z));
    let disp = guard(|| z.to_string());
    let ser = guard(|| serde_json::to_string(&z).map(|s| s.trim_matches('"').to_string()).unwrap_or_else(|_| "<serde error>".into()));
    c.op(&format!("znf.text {key}"), &[t(r3.clone()), t(r3s.clone()), t(r3m.clone()), t(r2.clone()), t(dbg.clone()), t(disp.clone()), t(ser.clone())].join(" | "));
    tl.add(if headroom { "texts:wall-clock-in-headroom" } else { "texts:wall-clock-in-range" });
    // independent expectation
    let (leap, nano) = if frac >= NS { (1, frac - NS) } else { (0, frac) };
    let date = format!("{}-{:02}-{:02}", want_year(w.y), w.m, w.d);
    let hms = format!("{:02}:{:02}:{:02}", w.sod / 3600, w.sod / 60 % 60, w.sod % 60 + leap);
    let exp_dbg = format!("{date}T{hms}{}{}", want_frac(nano), want_off(off, true, true));
    let exp_disp = format!("{date} {hms}{} {}", want_frac(nano), want_off(off, true, true));
    if dbg.as_deref() != Ok(exp_dbg.as_str()) || disp.as_deref() != Ok(exp_disp.as_str()) {
        fl.hit(c, "Debug / Display of a zone-aware value is not the wall clock (instant + offset) followed by the offset", &format!("znf.text {key}: {dbg:?} | {disp:?} expected {exp_dbg} | {exp_disp}"));
    }
    // RFC 3339: date T time, then the offset (whole minutes are shown exactly; the rounding of sub-minute offsets is C10's)
    let pre = format!("{date}T{hms}");
    let r3_ok = |r: &Result<String, ()>, fr: &str, zed: bool| match r {
        Ok(s) => s.starts_with(&pre) && s[pre.len()..].starts_with(fr) && (off % 60 != 0 || s[pre.len() + fr.len()..] == *(if zed && off == 0 { "Z".to_string() } else { want_off(off, true, false) })),
        Err(()) => false,
    };
    if !r3_ok(&r3, &want_frac(nano), false) || !r3_ok(&r3s, "", true) || !r3_ok(&r3m, &format!(".{:03}", nano / 1_000_000), false) || ser != guard(|| z.to_rfc3339_opts(SecondsFormat::AutoSi, true)) {
        fl.hit(c, "RFC 3339 text / Serialize of a zone-aware value does not show the wall clock (instant + offset)", &format!("znf.text {key}: {r3:?} {r3s:?} {r3m:?} {ser:?} expected to start with {pre}"));
    }
    // RFC 2822: panics exactly for wall-clock years outside 0..=9999, else weekday, day, month, year, time of the wall clock
    match &r2 {
        Err(()) => {
            if (0..=9999).contains(&w.y) {
                fl.hit(c, "to_rfc2822 panicked although the wall-clock year is in 0..=9999", &format!("znf.text {key}"));
            }
            tl.add("texts:rfc2822 panic (wall-clock year outside 0..=9999, documented)");
        }
        Ok(s) => {
            let exp = format!("{}, {} {} {:04} {} ", WD3[w.wd as usize], w.d, MO3[(w.m - 1) as usize], w.y, hms);
            if !(0..=9999).contains(&w.y) || !s.starts_with(&exp) || (off % 60 == 0 && s[exp.len()..] != want_off(off, false, false)) {
                fl.hit(c, "to_rfc2822 does not show the wall clock (instant + offset)", &format!("znf.text {key}: {s} expected {exp}.."));
            }
        }
    }
    // format / format_with_items
    for (i, fmt) in ["%Y-%m-%dT%H:%M:%S%.f %:z", "%G-W%V-%u %j %U %W %a %b %e", "%C %y %I %l %p %M %S %f %D %F %T %R", "%+", "%A %B %h %P %:::z %::z %s %3f %6f %9f %.3f"].iter().enumerate() {
        if i > 1 && !c.rng.chance(1, 3) {
            continue;
        }
        let got = guard(|| {
            use std::fmt::Write;
            let mut s = String::new();
            write!(s, "{}", z.format(fmt)).map(|_| s)
        });
        let shown = match &got { Ok(Ok(s)) => hex(s.as_bytes()), Ok(Err(_)) => "err".into(), Err(()) => "panic".into() };
        c.op(&format!("znf.fmt {} {key}", hex(fmt.as_bytes())), &shown);
        let exp = match i {
            0 => Some(format!("{}-{:02}-{:02}T{hms}{} {}", want_year(w.y), w.m, w.d, want_frac(nano), want_off(off, true, false))),
            1 => {
                // Sunday-based / Monday-based week of the year of the wall-clock date
                let jan1 = wall_of((day_num(w.y, 1, 1) - EPOCH) * 86_400);
                let wk_sun = (w.o + 6 - (w.wd + 1) % 7) / 7;
                let wk_mon = (w.o + 6 - w.wd) / 7;
                let _ = jan1;
                Some(format!("{}-W{:02}-{} {:03} {:02} {:02} {} {} {:>2}", want_year(w.iy), w.iw, w.wd + 1, w.o, wk_sun, wk_mon, WD3[w.wd as usize], MO3[(w.m - 1) as usize], w.d))
            }
            _ => None,
        };
        if let Some(e) = exp {
            // whole-minute offsets only for the offset part of format 0 (%:z truncates sub-minute offsets: C12)
            let ok = match &got { Ok(Ok(s)) => if i == 0 && off % 60 != 0 { s.starts_with(&e[..e.len() - 6]) } else { *s == e }, _ => false };
            if !ok {
                fl.hit(c, "format() of a zone-aware value does not show the wall clock (instant + offset)", &format!("znf.fmt {fmt} {key}: {got:?} expected {e}"));
            }
        } else if !matches!(got, Ok(Ok(_))) {
            fl.hit(c, "format() of a zone-aware value panicked or failed", &format!("znf.fmt {fmt} {key}"));
        }
        // format_with_items on the same items is the same text
        let items: Vec<chrono::format::Item> = chrono::format::StrftimeItems::new(fmt).collect();
        let got2 = guard(|| {
            use std::fmt::Write;
            let mut s = String::new();
            write!(s, "{}", z.format_with_items(items.iter())).map(|_| s)
        });
        if got2 != got {
            fl.hit(c, "format_with_items differs from format on the same items", &format!("znf.fmt {fmt} {key}"));
        }
    }
    // derived Datelike / Timelike views
    let g2 = |f: &dyn Fn() -> (bool, u32)| match guard(|| f()) { Ok((b, v)) => vec![b as i64, v as i64], Err(()) => vec![PANIC, PANIC] };
    let mut views = vec![g(|| z.month0() as i64), g(|| z.day0() as i64), g(|| z.ordinal0() as i64), g(|| z.quarter() as i64)];
    views.extend(g2(&|| z.year_ce()));
    views.extend(g2(&|| z.hour12()));
    views.push(g(|| z.num_seconds_from_midnight() as i64));
    c.op(&format!("znf.views {key}"), &join(&views));
    let h = w.sod / 3600;
    let exp = [w.m - 1, w.d - 1, w.o - 1, (w.m - 1) / 3 + 1, (w.y >= 1) as i64, if w.y >= 1 { w.y } else { 1 - w.y }, (h >= 12) as i64, if h % 12 == 0 { 12 } else { h % 12 }, w.sod];
    if views != exp {
        fl.hit(c, "derived accessors (month0, day0, ordinal0, quarter, year_ce, hour12, num_seconds_from_midnight) are not those of the wall clock", &format!("znf.views {key} -> {} expected {}", join(&views), join(&exp)));
    }
    // to_utc / fixed_offset / naive_utc / from_naive_utc_and_offset, and chains of with_timezone
    let (zu, zf) = (z.to_utc(), z.fixed_offset());
    let zn = DateTime::<FixedOffset>::from_naive_utc_and_offset(z.naive_utc(), *z.offset());
    c.op(&format!("znf.tz {key}"), &format!("{} | {} | {} | {}", enc_z(&zu), enc_z(&zf), enc_n(&z.naive_utc()), enc_z(&zn)));
    let (o2, o3) = (gen_off(c), gen_off(c));
    let chain = z.with_timezone(&fo(o2)).with_timezone(&Utc).with_timezone(&fo(o3));
    let back = z.with_timezone(&fo(o2)).with_timezone(&fo(off));
    if zu.naive_utc() != *u || guard(|| zu.naive_local()) != Ok(*u) || zf != z || off_of(&zf) != off as i64 || zn != z || off_of(&zn) != off as i64
        || chain.naive_utc() != *u || off_of(&chain) != o3 as i64 || back.naive_utc() != *u || off_of(&back) != off as i64 || chain != z
    {
        fl.hit(c, "to_utc / fixed_offset / from_naive_utc_and_offset / chains of with_timezone changed the instant or the zone", &format!("znf.tz {key} via {o2} {o3}"));
    }
    // the chained view reads the wall clock of instant + o3
    let oc = obs_of(&chain);
    check_value(c, fl, tl, u, o3, &oc);
    // Timelike / Datelike of the headroom value through with_ymd_and_hms / from_local_datetime at the boundary:
    // the wall clock read back builds the same value whenever it is in range
    if let Ok(l) = guard(|| z.naive_local()) {
        let r = guard(|| lr(fo(off).from_local_datetime(&l)).map_err(|_| ())).and_then(|x| x);
        if r.as_ref().map(|o| o.map(|x| (x.naive_utc(), off_of(&x)))) != Ok(Some((*u, off as i64))) {
            fl.hit(c, "from_local_datetime of the value's own wall clock is not the value", &format!("znf.tz {key}"));
        }
    } else if !headroom {
        fl.hit(c, "naive_local panicked although the wall clock is in range", &format!("znf.tz {key}"));
    }
}

/// second audit (2026-09-30): `date_naive` / deprecated `date`, the `From` conversions between `DateTime<Utc>` and
/// `DateTime<FixedOffset>`, `and_utc`, `and_local_timezone`, deprecated `from_utc` / `from_local`, `DateTime ± Days`,
/// and the shape of the derived `Ord` / `Hash` of `NaiveDateTime` (date first, then time; `yof, secs, frac`):
/// correspondence ops `znf.dn / conv / fromlocal / daysop / ordshape` + direct oracles
#[allow(deprecated)]
fn check_conversions(c: &mut Ctx, fl: &mut Fails, tl: &mut Tally, u: &NaiveDateTime, off: i32) {
    let z = mk_z(u, off);
    let w = wall_of(inst(u) + off as i64);
    let headroom = w.n < min_day() || w.n > max_day();
    let key = format!("{} {off}", enc_n(u));
    // ---- date_naive / date: the wall-clock DATE; panics exactly in the headroom day
    let dn = guard(|| z.date_naive());
    let dd = guard(|| { let d = z.date(); (d.naive_utc(), d.offset().local_minus_utc() as i64) });
    let show_dn = match &dn { Ok(d) => yof(d).to_string(), Err(()) => "panic".into() };
    let show_dd = match &dd { Ok((d, o)) => format!("{} {o}", yof(d)), Err(()) => "panic".into() };
    c.op(&format!("znf.dn {key}"), &format!("{show_dn} | {show_dd}"));
    tl.add(if headroom { "date_naive:wall-clock-in-headroom (panic demanded)" } else { "date_naive:wall-clock-in-range" });
    match (&dn, &dd) {
        (Err(()), Err(())) if headroom => {}
        (Ok(d), Ok((d2, o2))) if !headroom => {
            let n = day_num(d.year() as i64, d.month() as i64, d.day() as i64);
            if n != w.n || d2 != d || *o2 != off as i64 || (d.year() as i64, d.month() as i64, d.day() as i64) != (w.y, w.m, w.d) {
                fl.hit(c, "date_naive / date is not the date of the wall clock (instant + offset)", &format!("znf.dn {key} -> {show_dn} | {show_dd} expected day {} = {}-{}-{}", w.n, w.y, w.m, w.d));
            }
        }
        _ => fl.hit(c, "date_naive / date must panic exactly when the wall-clock date lies in a headroom day", &format!("znf.dn {key} -> {show_dn} | {show_dd} (headroom: {headroom})")),
    }
    // ---- From<DateTime<Utc>> for DateTime<FixedOffset>, the reverse, and_utc, deprecated from_utc
    let zu0: DateTime<Utc> = Utc.from_utc_datetime(u);
    let f_from_u = guard(|| DateTime::<FixedOffset>::from(zu0));
    let u_from_f: DateTime<Utc> = DateTime::<Utc>::from(z);
    let au = u.and_utc();
    let fu = DateTime::<FixedOffset>::from_utc(*u, fo(off));
    c.op(&format!("znf.conv {key}"), &format!("{} | {} | {} | {}", match &f_from_u { Ok(v) => enc_z(v), Err(()) => "panic".into() }, enc_z(&u_from_f), enc_z(&au), enc_z(&fu)));
    let conv_ok = matches!(&f_from_u, Ok(v) if v.naive_utc() == *u && off_of(v) == 0 && *v == z && v.cmp(&z.with_timezone(&fo(0))) == std::cmp::Ordering::Equal && hash_words(v) == hash_words(&z))
        && u_from_f.naive_utc() == *u && off_of(&u_from_f) == 0 && u_from_f == z && hash_words(&u_from_f) == hash_words(&z)
        && au.naive_utc() == *u && off_of(&au) == 0 && au == z && guard(|| au.naive_local()) == Ok(*u)
        && fu.naive_utc() == *u && off_of(&fu) == off as i64 && fu == z
        && hash_words(&z) == hash_words(u);
    if !conv_ok {
        fl.hit(c, "From<DateTime<Utc>> / From<DateTime<FixedOffset>> / and_utc / DateTime::from_utc changed the instant, the zone, equality or the hash", &format!("znf.conv {key}"));
    }
    // ---- the same naive reading as a WALL CLOCK at `off`: and_local_timezone, deprecated (panicking) from_local
    let alt = guard(|| lr(u.and_local_timezone(fo(off))).map_err(|_| ())).and_then(|x| x);
    let flp = guard(|| DateTime::<FixedOffset>::from_local(*u, fo(off)));
    c.op(&format!("znf.fromlocal {key}"), &format!("{} | {}", show_oz(&alt), match &flp { Ok(v) => enc_z(v), Err(()) => "panic".into() }));
    let keyl = format!("znf.fromlocal {key}");
    check_from_local(c, fl, tl, u, off, &alt);
    let ut = inst(u) - off as i64;
    let un = ut.div_euclid(86_400) + EPOCH;
    let utc_ok = min_day() <= un && un <= max_day();
    tl.add(if utc_ok { "from_local(deprecated):value" } else { "from_local(deprecated):panic demanded (UTC reading leaves the range)" });
    match (&flp, &alt) {
        (Err(()), Ok(None)) if !utc_ok => {}
        (Ok(v), Ok(Some(a))) if utc_ok => {
            if v.naive_utc() != a.naive_utc() || off_of(v) != off as i64 || inst(&v.naive_utc()) != ut || guard(|| v.naive_local()) != Ok(*u) {
                fl.hit(c, "DateTime::from_local is not the value whose wall clock is the given reading", &keyl);
            }
        }
        _ => fl.hit(c, "DateTime::from_local must panic exactly when wall clock - offset leaves the range, and_local_timezone must then be None", &format!("{keyl} (UTC reading in range: {utc_ok})")),
    }
    // ---- DateTime + Days / - Days: `expect` of the checked form, judged by the independent rule
    let add = c.rng.chance(1, 2);
    let un0 = inst(u).div_euclid(86_400) + EPOCH;
    let dist = if add { max_day() - un0 } else { un0 - min_day() };
    let n: u64 = match c.rng.below(5) {
        0 => c.rng.below(3),
        1 | 2 => (dist + c.rng.range(-2, 2)).max(0) as u64,
        3 => *c.rng.pick(&[i32::MAX as u64, u32::MAX as u64, u64::MAX, 1 << 40]),
        _ => c.rng.below(800),
    };
    let rop = guard(|| if add { z + Days::new(n) } else { z - Days::new(n) });
    let rck = guard(|| if add { z.checked_add_days(Days::new(n)) } else { z.checked_sub_days(Days::new(n)) });
    let keyd = format!("znf.daysop {} {key} {n}", if add { "add" } else { "sub" });
    c.op(&keyd, &match &rop { Ok(v) => enc_z(v), Err(()) => "panic".into() });
    tl.add(if rop.is_ok() { "DateTime +- Days:value" } else { "DateTime +- Days:panic" });
    let as_opt: Result<Option<DateTime<FixedOffset>>, ()> = Ok(rop.clone().ok());
    rule_oracle_days(c, fl, tl, &keyd, u, off, add, n, &as_opt);
    if rck.as_ref().map(|o| o.map(|v| (v.naive_utc(), off_of(&v)))) != Ok(rop.as_ref().ok().map(|v| (v.naive_utc(), off_of(v)))) {
        fl.hit(c, "DateTime +- Days is not `expect` of checked_add_days / checked_sub_days", &keyd);
    }
    if let Ok(v) = &rop {
        // the wall clock moved by exactly n days (time of day and offset kept)
        let w2 = wall_of(inst(&v.naive_utc()) + off as i64);
        let dn2 = if add { w.n + n as i64 } else { w.n - n as i64 };
        if w2.n != dn2 || w2.sod != w.sod || v.naive_utc().time().nanosecond() != u.time().nanosecond() {
            fl.hit(c, "DateTime +- Days did not move the wall clock by whole days", &keyd);
        }
    }
}

/// the derived `Ord` / `Hash` of `NaiveDateTime` (on which eq / ord / hash of `DateTime` rest): DATE first, then TIME
/// (seconds, then the nanosecond field); hash words `yof, secs, frac` in this order.  A swapped field order or a
/// hand-written impl would leave every source pin of a function body unchanged — this oracle would notice.
fn check_ord_shape(c: &mut Ctx, fl: &mut Fails, tl: &mut Tally) {
    use std::cmp::Ordering;
    let d1 = gen_day(c);
    let mut d2 = gen_day(c);
    if d2 == d1 {
        d2 = d1.succ_opt().or(d1.pred_opt()).unwrap();
    }
    let (s1, s2) = (c.rng.below(86_400) as u32, c.rng.below(86_400) as u32);
    let (f1, f2) = (gen_frac(c), gen_frac(c));
    let sign = |o: Ordering| match o { Ordering::Less => -1i64, Ordering::Equal => 0, Ordering::Greater => 1 };
    // (a) differ in the date only, with the times ordered the OTHER way; (b) same date, seconds differ, fractions the
    // other way; (c) same date and second, fractions differ
    let day_of = |d: &NaiveDate| day_num(d.year() as i64, d.month() as i64, d.day() as i64);
    let (lo_d, hi_d) = if day_of(&d1) < day_of(&d2) { (d1, d2) } else { (d2, d1) };
    let (lo_s, hi_s) = (s1.min(s2), s1.max(s2));
    let (lo_f, hi_f) = (f1.min(f2), f1.max(f2));
    let cases = [
        (mk_n(lo_d, hi_s, hi_f), mk_n(hi_d, lo_s, lo_f), -1i64, "date decides before time"),
        (mk_n(d1, lo_s, hi_f), mk_n(d1, hi_s, lo_f), if lo_s == hi_s { if hi_f == lo_f { 0 } else { 1 } } else { -1 }, "second decides before the nanosecond field"),
        (mk_n(d1, s1, lo_f), mk_n(d1, s1, hi_f), if lo_f == hi_f { 0 } else { -1 }, "nanosecond field decides last"),
    ];
    for (a, b, want, what) in cases {
        let got = sign(a.cmp(&b));
        let (za, zb) = (mk_z(&a, gen_off(c)), mk_z(&b, gen_off(c)));
        let hw = hash_words(&a);
        c.op(&format!("znf.ordshape {} {}", enc_n(&a), enc_n(&b)), &format!("{got} | {}", join(&hw)));
        tl.add("ord/hash shape of NaiveDateTime (date, then second, then nanosecond field)");
        let (ra, _) = (raw_n(&a), ());
        if got != want || sign(b.cmp(&a)) != -want || sign(za.cmp(&zb)) != want || a.partial_cmp(&b).map(sign) != Some(want) || (a == b) != (want == 0) || (za == zb) != (want == 0)
            || hw != vec![ra.0, ra.1, ra.2] || hash_words(&za) != hw
        {
            fl.hit(c, "derived Ord / Hash of NaiveDateTime (hence of DateTime) is not: date first, then second, then nanosecond field", &format!("znf.ordshape {} {} ({what}): cmp {got} expected {want}, hash {}", enc_n(&a), enc_n(&b), join(&hw)));
        }
    }
}

pub fn run(c: &mut Ctx) {
    crate::aliases::c04(c);
    let mut fl = Fails(BTreeMap::new());
    let mut tl = Tally(BTreeMap::new());
    let thorough = c.tier == Tier::Thorough;

    // ---- FixedOffset::east_opt / west_opt: the whole boundary neighbourhood + extremes ---------------
    {
        let mut args: Vec<i64> = vec![];
        for b in [0i64, 86_400, -86_400, 86_399, -86_399, 43_200, 3600] {
            for d in -2..=2 {
                args.push(b + d);
            }
        }
        args.extend(int_extremes().into_iter().filter(|x| *x >= i32::MIN as i128 && *x <= i32::MAX as i128).map(|x| x as i64));
        for _ in 0..c.n(2_000, 20_000) {
            args.push(if c.rng.chance(1, 2) { c.rng.range(-90_000, 90_000) } else { c.rng.range(i32::MIN as i64, i32::MAX as i64) });
        }
        for s in args {
            let s32 = s as i32;
            let e = guard(|| FixedOffset::east_opt(s32));
            let w = guard(|| FixedOffset::west_opt(s32));
            let show = |r: &Result<Option<FixedOffset>, ()>| match r {
                Ok(Some(f)) => f.local_minus_utc().to_string(),
                Ok(None) => "none".into(),
                Err(()) => "panic".into(),
            };
            c.op(&format!("zn.east {s}"), &show(&e));
            c.op(&format!("zn.west {s}"), &show(&w));
            let valid = -86_400 < s && s < 86_400;
            tl.add(if valid { "offset:accepted" } else { "offset:rejected" });
            let good = |r: &Result<Option<FixedOffset>, ()>, sign: i64| match r {
                Ok(Some(f)) => valid && f.local_minus_utc() as i64 == sign * s && f.utc_minus_local() as i64 == -sign * s,
                Ok(None) => !valid,
                Err(()) => false,
            };
            if !good(&e, 1) || !good(&w, -1) {
                fl.hit(c, "east_opt / west_opt must accept exactly the offsets strictly between -86400 and 86400 seconds", &format!("zn.east {s}"));
            }
        }
    }

    // ---- exhaustive over all 172,799 offsets at MIN, MIN+1d, MAX-1d, MAX (digest per block) ----------
    // (the digest lines are interleaved with the random cases below so that the model side, which is
    // split over several processes by line ranges, shares the work)
    let mut blocks: Vec<(String, String)> = vec![];
    {
        let mut variants: Vec<(usize, Option<(u32, u32)>)> = (0..4).map(|i| (i, None)).collect();
        // further times of day on the same four dates: noon, a leap second in the last minute
        let extra: &[(u32, u32)] = if thorough {
            &[(43_200, 0), (86_399, 1_500_000_000), (0, 999_999_999), (86_399, 0), (1, 1_000_000_000)]
        } else {
            &[(43_200, 1), (86_399, 1_500_000_000)]
        };
        for i in 0..4 {
            for t in extra {
                variants.push((i, Some(*t)));
            }
        }
        for (i, t) in variants {
            let base = end_value(i);
            let u = match t {
                None => base,
                Some((s, f)) => mk_n(base.date(), s, f),
            };
            let mut lo = -86_399i32;
            while lo <= 86_399 {
                let hi = (lo + 999).min(86_399);
                let mut h = (1i64, 1i64);
                for off in lo..=hi {
                    let z = mk_z(&u, off);
                    let obs = obs_of(&z);
                    check_value(c, &mut fl, &mut tl, &u, off, &obs);
                    let r = guard(|| lr(fo(off).from_local_datetime(&u)).map_err(|_| ())).and_then(|x| x);
                    check_from_local(c, &mut fl, &mut tl, &u, off, &r);
                    h = mix_l(mix_l(h, &obs), &fl_list(off, &u));
                }
                let line = match t {
                    None => format!("zn.blk {i} {lo} {hi}"),
                    Some((s, f)) => format!("zn.blkt {i} {s} {f} {lo} {hi}"),
                };
                blocks.push((line, format!("{} {}", h.0, h.1)));
                c.count_n("exhaustive:(end value, offset) pairs", (hi - lo + 1) as u64);
                lo = hi + 1;
            }
        }
    }

    // ---- random (utc, offset) pairs ---------------------------------------------------------------------
    let n_pairs = c.n(120_000, 600_000);
    let every = (n_pairs / blocks.len().max(1)).max(1);
    blocks.reverse();
    for k in 0..n_pairs {
        if k % every == 0 {
            if let Some((l, g)) = blocks.pop() {
                c.op(&l, &g);
            }
        }
        let (u, off) = gen_value(c);
        let z = mk_z(&u, off);
        let obs = obs_of(&z);
        c.op(&format!("zn.obs {} {off}", enc_n(&u)), &join(&obs));
        check_value(c, &mut fl, &mut tl, &u, off, &obs);
        // formatting acts on the wall-clock reading as well (also in the one-day headroom): Display,
        // Debug, format() and to_rfc3339 must not panic and must show the fields the accessors return
        {
            use chrono::{Datelike, Timelike};
            let texts = guard(|| (z.to_string(), format!("{:?}", z), z.format("%Y-%m-%d %H:%M:%S").to_string(), z.to_rfc3339()));
            match texts {
                Err(()) => fl.hit(c, "formatting a zone-aware value panicked", &format!("zn.obs {} {off}", enc_n(&u))),
                Ok((disp, dbg, f, r3)) => {
                    let y = z.year();
                    let ys = if (0..=9999).contains(&y) { format!("{:04}", y) } else { format!("{:+05}", y) };
                    let sec = z.second() + z.nanosecond() / 1_000_000_000;
                    let want_d = format!("{}-{:02}-{:02}", ys, z.month(), z.day());
                    let want_t = format!("{:02}:{:02}:{:02}", z.hour(), z.minute(), sec);
                    let ok = disp.starts_with(&format!("{} {}", want_d, want_t))
                        && dbg.starts_with(&format!("{}T{}", want_d, want_t))
                        && r3.starts_with(&format!("{}T{}", want_d, want_t))
                        && f == format!("{} {}", want_d, want_t);
                    if !ok {
                        fl.hit(c, "formatted text does not show the wall-clock fields", &format!("zn.obs {} {off}: {disp} | {dbg} | {f} | {r3}", enc_n(&u)));
                    }
                    tl.add("formatting vs accessors");
                }
            }
        }
        if k < 3 {
            c.sample(&format!("zn.obs {} {off} -> {}", enc_n(&u), join(&obs)));
        }
        // building from UTC and reading UTC back
        if z.naive_utc() != u || off_of(&z) != off as i64 {
            fl.hit(c, "reading UTC back after from_utc_datetime is not the identity", &format!("zn.obs {} {off}", enc_n(&u)));
        }
        // the same naive value read as a wall clock
        let r = guard(|| lr(fo(off).from_local_datetime(&u)).map_err(|_| ())).and_then(|x| x);
        c.op(&format!("zn.fl {} {off}", enc_n(&u)), &show_oz(&r));
        check_from_local(c, &mut fl, &mut tl, &u, off, &r);
        // Utc is the zone with offset 0: same readings as FixedOffset(0)
        if off == 0 || k % 16 == 0 {
            let zu = Utc.from_utc_datetime(&u);
            let o0 = obs_of(&zu);
            c.op(&format!("zn.obs {} 0", enc_n(&u)), &join(&o0));
            if o0 != obs_of(&mk_z(&u, 0)) || zu.naive_utc() != u {
                fl.hit(c, "DateTime<Utc> must read like offset 0", &format!("zn.obs {} 0", enc_n(&u)));
            }
            let ru = guard(|| lr(Utc.from_local_datetime(&u)).map_err(|_| ())).and_then(|x| x);
            c.op(&format!("zn.fl {} 0", enc_n(&u)), &show_oz(&ru));
            if ru.as_ref().map(|o| o.map(|z| z.naive_utc())) != Ok(Some(u)) {
                fl.hit(c, "Utc.from_local_datetime must be the identity", &format!("zn.fl {} 0", enc_n(&u)));
            }
            tl.add("utc-zone cases");
        }
        // NaiveDateTime::checked_add_offset / checked_sub_offset directly
        if k % 4 == 0 {
            let a = guard(|| u.checked_add_offset(fo(off)));
            let s = guard(|| u.checked_sub_offset(fo(off)));
            let show = |r: &Result<Option<NaiveDateTime>, ()>| match r {
                Ok(Some(n)) => enc_n(n),
                Ok(None) => "none".into(),
                Err(()) => "panic".into(),
            };
            c.op(&format!("zn.ndtoff add {} {off}", enc_n(&u)), &show(&a));
            c.op(&format!("zn.ndtoff sub {} {off}", enc_n(&u)), &show(&s));
            for (r, sign) in [(&a, 1i64), (&s, -1i64)] {
                let t = inst(&u) + sign * off as i64;
                let tn = t.div_euclid(86_400) + EPOCH;
                let ok = min_day() <= tn && tn <= max_day();
                let good = match r {
                    Ok(Some(n)) => ok && inst(n) == t && n.time().nanosecond() == u.time().nanosecond(),
                    Ok(None) => !ok,
                    Err(()) => false,
                };
                if !good {
                    fl.hit(c, "checked_add_offset / checked_sub_offset must shift by exactly the offset or refuse exactly outside the range", &format!("zn.ndtoff {} {} {off}", if sign == 1 { "add" } else { "sub" }, enc_n(&u)));
                }
            }
        }
        // converting to another zone keeps the instant
        if k % 4 == 1 {
            let off2 = gen_off(c);
            let z2 = z.with_timezone(&fo(off2));
            c.op(&format!("zn.tz {} {off} {off2}", enc_n(&u)), &enc_z(&z2));
            let zu = z.with_timezone(&Utc);
            let zf = z.fixed_offset();
            let ztu = z.to_utc();
            if z2.naive_utc() != u || off_of(&z2) != off2 as i64 || z2 != z || zu != z || zu.naive_utc() != u || zf.naive_utc() != u
                || off_of(&zf) != off as i64 || ztu.naive_utc() != u || z2.cmp(&z) != std::cmp::Ordering::Equal
                || hash_words(&z2) != hash_words(&z) || hash_words(&zu) != hash_words(&z)
            {
                fl.hit(c, "converting to another zone changed the instant (or eq / ord / hash saw the zone)", &format!("zn.tz {} {off} {off2}", enc_n(&u)));
            }
            // wall clocks of the two views differ by exactly the offset difference
            let o2 = obs_of(&z2);
            check_value(c, &mut fl, &mut tl, &u, off2, &o2);
        }
    }

    while let Some((l, g)) = blocks.pop() {
        c.op(&l, &g);
    }

    // ---- eq / ord / hash on pairs -----------------------------------------------------------------------
    for k in 0..c.n(40_000, 200_000) {
        let (ua, oa) = gen_value(c);
        let ob = gen_off(c);
        let ub = match c.rng.below(8) {
            0 | 1 => ua,
            2 => {
                // one nanosecond / one second / a leap-second representation away
                let (s, f) = (ua.time().num_seconds_from_midnight(), ua.time().nanosecond());
                match c.rng.below(4) {
                    0 => mk_n(ua.date(), s, if f > 0 { f - 1 } else { 1 }),
                    1 => mk_n(ua.date(), if s > 0 { s - 1 } else { 1 }, f),
                    2 => mk_n(ua.date(), s, (f + NS as u32) % (2 * NS as u32)),
                    _ => mk_n(ua.date(), (s + 1) % 86_400, f % NS as u32),
                }
            }
            3 => {
                // the value whose WALL clock at offset ob equals a's wall clock at oa (different instant)
                match fo(ob).from_local_datetime(&ua) {
                    LocalResult::Single(z) => z.naive_utc(),
                    _ => ua,
                }
            }
            4 => mk_n(ua.date().succ_opt().unwrap_or(ua.date()), ua.time().num_seconds_from_midnight(), ua.time().nanosecond()),
            _ => gen_value(c).0,
        };
        let (a, b) = (mk_z(&ua, oa), mk_z(&ub, ob));
        let eq = guard(|| a == b);
        let cm = guard(|| a.cmp(&b) as i64);
        let pc = guard(|| a.partial_cmp(&b).map(|x| x as i64));
        c.op(&format!("zn.cmp {} {oa} {} {ob}", enc_n(&ua), enc_n(&ub)), &match (&eq, &cm) { (Ok(e), Ok(o)) => format!("{} {o}", b01(*e)), _ => "panic".into() });
        let (ha, hb) = (hash_words(&a), hash_words(&b));
        if k % 2 == 0 {
            c.op(&format!("zn.hash {} {oa}", enc_n(&ua)), &join(&ha));
        }
        let ka = (inst(&ua), ua.time().nanosecond());
        let kb = (inst(&ub), ub.time().nanosecond());
        let exp = ka.cmp(&kb) as i64;
        tl.add(match exp { 0 => "cmp:equal-instants", 1 => "cmp:greater", _ => "cmp:less" });
        if oa != ob && exp == 0 {
            tl.add("cmp:equal-instants-different-offsets");
        }
        if eq != Ok(exp == 0) || cm != Ok(exp) || pc != Ok(Some(exp)) || (ha == hb) != (exp == 0) {
            fl.hit(c, "equality, ordering and hashing must depend on the instant only", &format!("zn.cmp {} {oa} {} {ob}", enc_n(&ua), enc_n(&ub)));
        }
        // across zone types as well
        let bu = Utc.from_utc_datetime(&ub);
        if guard(|| a == bu) != Ok(exp == 0) || guard(|| a.partial_cmp(&bu).map(|x| x as i64)) != Ok(Some(exp)) {
            fl.hit(c, "comparison across zone types must depend on the instant only", &format!("zn.cmp {} {oa} {} 0", enc_n(&ua), enc_n(&ub)));
        }
        if ha != hash_words(&ua) {
            fl.hit(c, "Hash of a zone-aware value must be the hash of its UTC reading", &format!("zn.hash {} {oa}", enc_n(&ua)));
        }
    }

    // ---- field replacement through map_local, with_time ---------------------------------------------------
    let fields = ["year", "month", "month0", "day", "day0", "ordinal", "ordinal0", "hour", "minute", "second", "nano"];
    for k in 0..c.n(60_000, 400_000) {
        let (u, off) = if k % 3 == 0 {
            // at a range end with an offset that pushes the wall clock into the headroom day (or just not)
            let i = c.rng.below(4) as usize;
            let base = end_value(i);
            let off = gen_off(c);
            if c.rng.chance(1, 2) { (base, off) } else { (mk_n(base.date(), gen_secs(c, off), gen_frac(c)), off) }
        } else {
            gen_value(c)
        };
        let z = mk_z(&u, off);
        let frac = u.time().nanosecond() as i64;
        let w = wall_of(inst(&u) + off as i64);
        let headroom = w.n < min_day() || w.n > max_day();
        let field = fields[(k % fields.len() as usize) as usize];
        let v: i64 = match field {
            "year" => match c.rng.below(6) {
                0 => w.y,
                1 => w.y + c.rng.range(-2, 2),
                2 => *c.rng.pick(&[MIN_YEAR as i64, MIN_YEAR as i64 - 1, MIN_YEAR as i64 + 1, MAX_YEAR as i64, MAX_YEAR as i64 + 1, MAX_YEAR as i64 - 1, i32::MIN as i64, i32::MAX as i64, 0]),
                3 => *c.rng.pick(&[2000i64, 1900, 2024, 2023, -4, -100, 400]),
                _ => super::c01::gen_year(c) as i64,
            },
            "month" => match c.rng.below(3) { 0 => *c.rng.pick(&[0i64, 1, 2, 12, 13, u32::MAX as i64, w.m]), _ => c.rng.range(0, 13) },
            "month0" => match c.rng.below(3) { 0 => *c.rng.pick(&[0i64, 1, 11, 12, u32::MAX as i64, u32::MAX as i64 - 1]), _ => c.rng.range(0, 12) },
            "day" => match c.rng.below(3) { 0 => *c.rng.pick(&[0i64, 1, 28, 29, 30, 31, 32, u32::MAX as i64, w.d]), _ => c.rng.range(0, 32) },
            "day0" => match c.rng.below(3) { 0 => *c.rng.pick(&[0i64, 27, 28, 29, 30, 31, u32::MAX as i64, u32::MAX as i64 - 1]), _ => c.rng.range(0, 31) },
            "ordinal" => match c.rng.below(3) { 0 => *c.rng.pick(&[0i64, 1, 59, 60, 365, 366, 367, u32::MAX as i64, w.o]), _ => c.rng.range(0, 367) },
            "ordinal0" => match c.rng.below(3) { 0 => *c.rng.pick(&[0i64, 364, 365, 366, u32::MAX as i64, u32::MAX as i64 - 1]), _ => c.rng.range(0, 366) },
            "hour" => match c.rng.below(3) { 0 => *c.rng.pick(&[0i64, 23, 24, u32::MAX as i64, w.sod / 3600]), _ => c.rng.range(0, 24) },
            "minute" | "second" => match c.rng.below(3) { 0 => *c.rng.pick(&[0i64, 59, 60, u32::MAX as i64]), _ => c.rng.range(0, 60) },
            _ => *c.rng.pick(&[0i64, 1, 999_999_999, 1_000_000_000, 1_999_999_999, 2_000_000_000, u32::MAX as i64, 123_456_789]),
        };
        let r: Result<Option<DateTime<FixedOffset>>, ()> = guard(|| match field {
            "year" => z.with_year(v as i32),
            "month" => z.with_month(v as u32),
            "month0" => z.with_month0(v as u32),
            "day" => z.with_day(v as u32),
            "day0" => z.with_day0(v as u32),
            "ordinal" => z.with_ordinal(v as u32),
            "ordinal0" => z.with_ordinal0(v as u32),
            "hour" => z.with_hour(v as u32),
            "minute" => z.with_minute(v as u32),
            "second" => z.with_second(v as u32),
            _ => z.with_nanosecond(v as u32),
        });
        let key = format!("zn.with {field} {} {off} {v}", enc_n(&u));
        c.op(&key, &show_oz(&r));
        if k < 2 {
            c.sample(&format!("{key} -> {}", show_oz(&r)));
        }
        tl.add(if headroom { "with:wall-clock-in-headroom" } else { "with:wall-clock-in-range" });
        let exp = replaced(&w, frac, field, v);
        if field == "year" && v != w.y && (v < MIN_YEAR as i64 || v > MAX_YEAR as i64) && (v == MIN_YEAR as i64 - 1 || v == MAX_YEAR as i64 + 1) {
            tl.add("with_year:target year in the headroom is refused (not claimed either way)");
        }
        check_wall_result(c, &mut fl, &mut tl, &format!("with_{field}"), &key, off, exp, true, true, &r);
        // Utc view
        if off == 0 {
            let zu = Utc.from_utc_datetime(&u);
            let ru = guard(|| match field {
                "year" => zu.with_year(v as i32),
                "month" => zu.with_month(v as u32),
                "day" => zu.with_day(v as u32),
                "ordinal" => zu.with_ordinal(v as u32),
                "hour" => zu.with_hour(v as u32),
                "minute" => zu.with_minute(v as u32),
                "second" => zu.with_second(v as u32),
                "nano" => zu.with_nanosecond(v as u32),
                "month0" => zu.with_month0(v as u32),
                "day0" => zu.with_day0(v as u32),
                _ => zu.with_ordinal0(v as u32),
            });
            if ru.as_ref().map(|o| o.map(|x| x.naive_utc())) != r.as_ref().map(|o| o.map(|x| x.naive_utc())) {
                fl.hit(c, "DateTime<Utc> field replacement differs from offset 0", &key);
            }
        }
        // with_time
        if k % 2 == 0 {
            let (ts, tf) = (gen_secs(c, off), gen_frac(c));
            let t = mk_t(ts, tf);
            let r = guard(|| lr(z.with_time(t)).map_err(|_| ())).and_then(|x| x);
            let key = format!("zn.wt {} {off} {ts} {tf}", enc_n(&u));
            c.op(&key, &show_oz(&r));
            check_wall_result(c, &mut fl, &mut tl, "with_time", &key, off, Some((w.n, ts as i64, tf as i64)), true, true, &r);
        }
    }

    // ---- day and month stepping -------------------------------------------------------------------------
    for k in 0..c.n(40_000, 250_000) {
        let (u, off) = if k % 3 == 0 {
            let base = end_value(c.rng.below(4) as usize);
            let off = gen_off(c);
            (mk_n(base.date(), gen_secs(c, off), gen_frac(c)), off)
        } else if k % 3 == 1 && c.rng.chance(1, 2) {
            // the time of day of MIN_UTC / MAX_UTC, so that exact distances land exactly on a range end
            let off = gen_off(c);
            let d = gen_day(c);
            (if c.rng.chance(1, 2) { mk_n(d, 0, 0) } else { mk_n(d, 86_399, 999_999_999) }, off)
        } else {
            gen_value(c)
        };
        let z = mk_z(&u, off);
        let frac = u.time().nanosecond() as i64;
        let w = wall_of(inst(&u) + off as i64);
        let un = inst(&u).div_euclid(86_400) + EPOCH;
        if k % 2 == 0 {
            // days: 0, 1, 2, the exact distance to either range end (+-1), around i32::MAX, u64 extremes
            let add = c.rng.chance(1, 2);
            let dist = if add { max_day() - un } else { un - min_day() };
            let n: u64 = match c.rng.below(6) {
                0 => c.rng.below(3),
                1 => (dist + c.rng.range(-2, 2)).max(0) as u64,
                2 => *c.rng.pick(&[i32::MAX as u64 - 1, i32::MAX as u64, i32::MAX as u64 + 1, u32::MAX as u64, u64::MAX, 1 << 40]),
                3 => c.rng.below(800),
                _ => c.rng.below(191_491_530 + 10),
            };
            let r = guard(|| if add { z.checked_add_days(Days::new(n)) } else { z.checked_sub_days(Days::new(n)) });
            let key = format!("zn.days {} {} {off} {n}", if add { "add" } else { "sub" }, enc_n(&u));
            c.op(&key, &show_oz(&r));
            let what = if add { "checked_add_days" } else { "checked_sub_days" };
            let nl = if n > i32::MAX as u64 { None } else { Some(w.n + if add { n as i64 } else { -(n as i64) }) };
            // a result whose own wall clock would lie in the headroom day is refused by the code unless
            // n = 0 (NaiveDate::add_days validates the year); counted, not claimed either way
            let exp = match nl {
                Some(n2) if n == 0 || (min_day() <= n2 && n2 <= max_day()) => Some((n2, w.sod, frac)),
                Some(n2) => {
                    let ut = (n2 - EPOCH) * 86_400 + w.sod - off as i64;
                    if in_utc_range(ut, frac) {
                        tl.add(&format!("{what}:result wall clock in the headroom day is refused (not claimed either way)"));
                    }
                    None
                }
                None => None,
            };
            tl.add(&format!("{what}:{}", if n == 0 { "zero" } else if n > i32::MAX as u64 { "count>i32" } else { "count" }));
            // Days(0) on add returns `self` unfiltered (also a leap-second reading at the very end of MAX)
            check_wall_result(c, &mut fl, &mut tl, what, &key, off, exp, !add, add && n != 0, &r);
            rule_oracle_days(c, &mut fl, &mut tl, &key, &u, off, add, n, &r);
        } else {
            let add = c.rng.chance(1, 2);
            let months_to_end = if add { (MAX_YEAR as i64 - w.y) * 12 + 12 - w.m } else { (w.y - MIN_YEAR as i64) * 12 + w.m - 1 };
            let n: u32 = match c.rng.below(6) {
                0 => c.rng.below(3) as u32,
                1 => (months_to_end + c.rng.range(-2, 2)).clamp(0, u32::MAX as i64) as u32,
                2 => *c.rng.pick(&[i32::MAX as u32 - 1, i32::MAX as u32, i32::MAX as u32 + 1, u32::MAX, 12 * 400]),
                3 => c.rng.below(30) as u32,
                _ => c.rng.below(6_300_000) as u32,
            };
            let r = guard(|| if add { z.checked_add_months(Months::new(n)) } else { z.checked_sub_months(Months::new(n)) });
            let key = format!("zn.months {} {} {off} {n}", if add { "add" } else { "sub" }, enc_n(&u));
            c.op(&key, &show_oz(&r));
            let what = if add { "checked_add_months" } else { "checked_sub_months" };
            let exp = if n == 0 {
                Some((w.n, w.sod, frac))
            } else if n > i32::MAX as u32 {
                None
            } else {
                let t = w.y * 12 + w.m - 1 + if add { n as i64 } else { -(n as i64) };
                let (y2, m2) = (t.div_euclid(12), t.rem_euclid(12) + 1);
                if y2 < MIN_YEAR as i64 || y2 > MAX_YEAR as i64 { None } else { Some((day_num(y2, m2, w.d.min(month_len(y2, m2))), w.sod, frac)) }
            };
            tl.add(&format!("{what}:{}", if n == 0 { "zero" } else if w.d > 28 { "day>28(clamp candidates)" } else { "count" }));
            check_wall_result(c, &mut fl, &mut tl, what, &key, off, exp, false, false, &r);
            rule_oracle_months(c, &mut fl, &mut tl, &key, &u, off, add, n, &r);
        }
    }

    // ---- stepping directed at the exceptions of the pure instant rule (audit 2026-09-30) ---------------------
    for k in 0..c.n(6_000, 40_000) {
        let kind = k % 5;
        let off_out = |c: &mut Ctx, pos: bool| { let o = match c.rng.below(3) { 0 => *c.rng.pick(&[1i32, 59, 60, 3600, 43_200, 86_399]), 1 => c.rng.range(1, 23) as i32 * 3600, _ => c.rng.range(1, 86_399) as i32 }; if pos { o } else { -o } };
        let frac = gen_frac(c);
        match kind {
            0 | 1 => {
                // days: the stepped instant on the last / first day of the range, the stepped wall clock next to it
                let add = kind == 0;
                let kd = c.rng.range(1, 400) as u64;
                let off = if c.rng.chance(1, 6) { gen_off(c) } else { off_out(c, add) };
                let d = if add { NaiveDate::MAX - Days::new(kd) } else { NaiveDate::MIN + Days::new(kd) };
                // a time of day that carries the wall clock over midnight in the direction of the offset (mostly)
                let secs = if c.rng.chance(1, 5) { gen_secs(c, off) } else if add { (86_400 - off.max(1) as i64 + c.rng.range(0, off.max(1) as i64 - 1)).clamp(0, 86_399) as u32 } else { c.rng.range(0, ((-off).max(1) as i64 - 1).min(86_399)) as u32 };
                let u = mk_n(d, secs, frac);
                let n = (kd as i64 + *c.rng.pick(&[0i64, 0, 0, -1, 1])).max(0) as u64;
                let z = mk_z(&u, off);
                let r = guard(|| if add { z.checked_add_days(Days::new(n)) } else { z.checked_sub_days(Days::new(n)) });
                let key = format!("zn.days {} {} {off} {n}", if add { "add" } else { "sub" }, enc_n(&u));
                c.op(&key, &show_oz(&r));
                rule_oracle_days(c, &mut fl, &mut tl, &key, &u, off, add, n, &r);
            }
            2 | 3 => {
                // months: wall clock on the first / 31st of a month near the end, stepping onto Jan 1 of MAX_YEAR+1 /
                // Dec 31 of MIN_YEAR-1
                let add = kind == 2;
                let off = if c.rng.chance(1, 6) { gen_off(c) } else { off_out(c, add) };
                let km = c.rng.range(1, 30);
                let t = if add { (MAX_YEAR as i64 + 1) * 12 - km } else { (MIN_YEAR as i64 - 1) * 12 + 11 + km };
                let (y, m) = (t.div_euclid(12), t.rem_euclid(12) + 1);
                let day = if add { 1 } else { month_len(y, m) as u32 };
                let tl_secs = if c.rng.chance(1, 5) { gen_secs(c, off) } else if add { c.rng.range(0, (off.max(1) as i64 - 1).min(86_399)) as u32 } else { (86_400 + off.min(-1) as i64 + c.rng.range(0, (-off).max(1) as i64 - 1)).clamp(0, 86_399) as u32 };
                let Some(ld) = NaiveDate::from_ymd_opt(y as i32, m as u32, day) else { continue };
                let LocalResult::Single(z) = fo(off).from_local_datetime(&mk_n(ld, tl_secs, frac)) else { continue };
                let u = z.naive_utc();
                let n = (km + *c.rng.pick(&[0i64, 0, 0, -1, 1])).max(0) as u32;
                let r = guard(|| if add { z.checked_add_months(Months::new(n)) } else { z.checked_sub_months(Months::new(n)) });
                let key = format!("zn.months {} {} {off} {n}", if add { "add" } else { "sub" }, enc_n(&u));
                c.op(&key, &show_oz(&r));
                rule_oracle_months(c, &mut fl, &mut tl, &key, &u, off, add, n, &r);
            }
            _ => {
                // months onto the last second of the range with a leap-second representation: returned above MAX_UTC
                let off = if c.rng.chance(1, 2) { 0 } else { -off_out(c, true) };
                let km = *c.rng.pick(&[2i64, 4, 5, 7, 9, 11, 12, 14, 24]);
                let t = (MAX_YEAR as i64) * 12 + 11 - km;
                let (y, m) = (t.div_euclid(12), t.rem_euclid(12) + 1);
                let Some(ld) = NaiveDate::from_ymd_opt(y as i32, m as u32, 31) else { continue };
                let sod = (86_399 + off as i64 + *c.rng.pick(&[0i64, 0, 0, -1])).clamp(0, 86_399) as u32;
                let fr = if c.rng.chance(3, 4) { 1_000_000_000 + c.rng.nanos() } else { frac };
                let LocalResult::Single(z) = fo(off).from_local_datetime(&mk_n(ld, sod, fr)) else { continue };
                let u = z.naive_utc();
                let n = km as u32;
                let r = guard(|| z.checked_add_months(Months::new(n)));
                let key = format!("zn.months add {} {off} {n}", enc_n(&u));
                c.op(&key, &show_oz(&r));
                rule_oracle_months(c, &mut fl, &mut tl, &key, &u, off, true, n, &r);
                // the day stepper filters exactly this value
                let zd = mk_z(&mk_n(NaiveDate::MAX.pred_opt().unwrap(), u.time().num_seconds_from_midnight(), fr), off);
                let rd = guard(|| zd.checked_add_days(Days::new(1)));
                let keyd = format!("zn.days add {} {off} 1", enc_n(&zd.naive_utc()));
                c.op(&keyd, &show_oz(&rd));
                rule_oracle_days(c, &mut fl, &mut tl, &keyd, &zd.naive_utc(), off, true, 1, &rd);
            }
        }
    }

    // ---- from_local_datetime / with_ymd_and_hms exactly ON the boundary, for EVERY offset (audit 2026-09-30) ------
    // wall clock = MIN_UTC + off + d resp. MAX_UTC + off + d seconds, d in {-1, 0, 1}: the UTC reading is one second
    // outside / exactly on / one second inside the range end
    {
        let edge_local = |hi_end: bool, off: i32, d: i32| -> Option<(NaiveDate, u32)> {
            if hi_end {
                let sod = 86_399 + off + d;
                if sod >= 86_400 { None } else if sod < 0 { Some((NaiveDate::MAX.pred_opt().unwrap(), (sod + 86_400) as u32)) } else { Some((NaiveDate::MAX, sod as u32)) }
            } else {
                let sod = off + d;
                if sod < 0 { None } else if sod >= 86_400 { Some((NaiveDate::MIN.succ_opt().unwrap(), (sod - 86_400) as u32)) } else { Some((NaiveDate::MIN, sod as u32)) }
            }
        };
        let mut lo = -86_399i32;
        while lo <= 86_399 {
            let hi = (lo + 999).min(86_399);
            let mut h = (1i64, 1i64);
            for off in lo..=hi {
                let mut obs: Vec<i64> = vec![];
                for hi_end in [false, true] {
                    for d in [-1, 0, 1] {
                        let Some((date, sod)) = edge_local(hi_end, off, d) else { obs.push(-2); continue };
                        for frac in [0u32, 1_000_000_000] {
                            let l = mk_n(date, sod, frac);
                            let r = guard(|| lr(fo(off).from_local_datetime(&l)).map_err(|_| ())).and_then(|x| x);
                            check_from_local(c, &mut fl, &mut tl, &l, off, &r);
                            obs.extend(fl_list(off, &l));
                            // the exact expectation at the boundary: inside iff d points inwards (or is 0)
                            let inside = if hi_end { d <= 0 } else { d >= 0 };
                            if matches!(r, Ok(Some(_))) != inside {
                                fl.hit(c, "from_local_datetime at the range end must fail exactly when the UTC reading is outside", &format!("zn.fl {} {off}", enc_n(&l)));
                            }
                        }
                        let (y, m, dd) = (date.year(), date.month(), date.day());
                        let r = guard(|| lr(fo(off).with_ymd_and_hms(y, m, dd, sod / 3600, sod / 60 % 60, sod % 60)).map_err(|_| ())).and_then(|x| x);
                        let key = format!("zn.ymd {off} {y} {m} {dd} {} {} {}", sod / 3600, sod / 60 % 60, sod % 60);
                        check_wall_result(c, &mut fl, &mut tl, "with_ymd_and_hms(boundary)", &key, off, Some((day_num(y as i64, m as i64, dd as i64), sod as i64, 0)), false, false, &r);
                        match &r {
                            Ok(Some(z)) => { let (yy, s, f) = raw_n(&z.naive_utc()); obs.extend([1, yy, s, f]); }
                            Ok(None) => obs.push(0),
                            Err(()) => obs.push(-1),
                        }
                    }
                }
                h = mix_l(h, &obs);
            }
            c.op(&format!("znf.edge {lo} {hi}"), &format!("{} {}", h.0, h.1));
            c.count_n("exhaustive:(range end, offset, delta) boundary wall clocks", ((hi - lo + 1) * 6) as u64);
            lo = hi + 1;
        }
    }

    // ---- formatting, derived views, zone changes: headroom-directed + random (audit 2026-09-30) -----------------
    for k in 0..c.n(30_000, 200_000) {
        let (u, off) = if k % 2 == 0 {
            let base = end_value(c.rng.below(4) as usize);
            let off = gen_off(c);
            if c.rng.chance(1, 3) { (base, off) } else { (mk_n(base.date(), gen_secs(c, off), gen_frac(c)), off) }
        } else if k % 16 == 1 {
            // wall-clock years around 0 / 9999 / 10000 (RFC 2822 panic boundary, signed year form)
            let y = *c.rng.pick(&[-1i32, 0, 1, 9999, 10_000, 99_999, 100_000, -9999, -10_000]);
            let (m, d) = *c.rng.pick(&[(1u32, 1u32), (12, 31)]);
            let off = gen_off(c);
            (mk_n(NaiveDate::from_ymd_opt(y, m, d).unwrap(), gen_secs(c, off), gen_frac(c)), off)
        } else {
            gen_value(c)
        };
        check_texts_and_views(c, &mut fl, &mut tl, &u, off);
        if k % 3 == 0 || k < 64 {
            check_conversions(c, &mut fl, &mut tl, &u, off);
        }
        if k % 16 == 0 {
            check_ord_shape(c, &mut fl, &mut tl);
        }
        if k < 2 {
            c.sample(&format!("znf.text {} {off} -> {}", enc_n(&u), mk_z(&u, off)));
        }
    }

    // ---- with_ymd_and_hms ---------------------------------------------------------------------------------
    for _ in 0..c.n(20_000, 100_000) {
        let off = gen_off(c);
        let y: i64 = match c.rng.below(4) {
            0 => *c.rng.pick(&[MIN_YEAR as i64, MIN_YEAR as i64 - 1, MAX_YEAR as i64, MAX_YEAR as i64 + 1, i32::MIN as i64, i32::MAX as i64]),
            _ => super::c01::gen_year(c) as i64,
        };
        let (m, d) = match c.rng.below(4) {
            0 => *c.rng.pick(&[(1i64, 1i64), (12, 31), (2, 29), (2, 30), (0, 1), (13, 1), (1, 0), (1, 32), (u32::MAX as i64, 1), (1, u32::MAX as i64), (4, 31)]),
            _ => (c.rng.range(1, 12), c.rng.range(1, 31)),
        };
        let (h, mi, s) = match c.rng.below(4) {
            0 => *c.rng.pick(&[(0i64, 0i64, 0i64), (23, 59, 59), (24, 0, 0), (0, 60, 0), (0, 0, 60), (u32::MAX as i64, 0, 0), (23, 59, 60)]),
            _ => {
                let sod = gen_secs(c, -off) as i64;
                (sod / 3600, sod / 60 % 60, sod % 60)
            }
        };
        let r = guard(|| lr(fo(off).with_ymd_and_hms(y as i32, m as u32, d as u32, h as u32, mi as u32, s as u32)).map_err(|_| ())).and_then(|x| x);
        let key = format!("zn.ymd {off} {y} {m} {d} {h} {mi} {s}");
        c.op(&key, &show_oz(&r));
        let valid = y >= MIN_YEAR as i64 && y <= MAX_YEAR as i64 && (1..=12).contains(&m) && d >= 1 && d <= month_len(y, m) && h < 24 && mi < 60 && s < 60;
        let exp = if valid { Some((day_num(y, m, d), h * 3600 + mi * 60 + s, 0)) } else { None };
        check_wall_result(c, &mut fl, &mut tl, "with_ymd_and_hms", &key, off, exp, false, false, &r);
        if let Ok(Some(z)) = &r {
            if (z.year() as i64, z.month() as i64, z.day() as i64, z.hour() as i64, z.minute() as i64, z.second() as i64) != (y, m, d, h, mi, s) {
                fl.hit(c, "with_ymd_and_hms: the fields do not read back", &key);
            }
        }
        if off == 0 {
            let ru = guard(|| lr(Utc.with_ymd_and_hms(y as i32, m as u32, d as u32, h as u32, mi as u32, s as u32)).map_err(|_| ())).and_then(|x| x);
            if ru.as_ref().map(|o| o.map(|x| x.naive_utc())) != r.as_ref().map(|o| o.map(|x| x.naive_utc())) {
                fl.hit(c, "Utc.with_ymd_and_hms differs from offset 0", &key);
            }
        }
    }

    for (k, v) in std::mem::take(&mut tl.0) {
        c.count_n(&k, v);
    }
    for (k, v) in std::mem::take(&mut fl.0) {
        c.count_n(&format!("ORACLE-FAILURES {k}"), v as u64);
    }
}
