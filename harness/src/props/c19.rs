//! C19 — Weekday, Month, WeekdaySet.
use crate::ctx::*;
use chrono::{Month, Weekday, WeekdaySet};
use num_traits::FromPrimitive;

const WD: [Weekday; 7] =
    [Weekday::Mon, Weekday::Tue, Weekday::Wed, Weekday::Thu, Weekday::Fri, Weekday::Sat, Weekday::Sun];
const MO: [Month; 12] = [
    Month::January,
    Month::February,
    Month::March,
    Month::April,
    Month::May,
    Month::June,
    Month::July,
    Month::August,
    Month::September,
    Month::October,
    Month::November,
    Month::December,
];

fn wi(w: Weekday) -> usize {
    w as usize
}
fn mi(m: Month) -> usize {
    m as usize
}
fn ow(o: Option<Weekday>) -> String {
    opt(o.map(wi))
}
fn om(o: Option<Month>) -> String {
    opt(o.map(mi))
}
fn set_of(word: u8) -> WeekdaySet {
    WD.iter().filter(|d| word >> (**d as u8) & 1 == 1).copied().collect()
}
/// the word is observed through the set's own membership test
fn word_of(s: WeekdaySet) -> u8 {
    let mut w = 0u8;
    for d in WD {
        if s.contains(d) {
            w |= 1 << (d as u8);
        }
    }
    w
}

/// `WeekdaySet::from_array` is const-generic in the length: one instantiation per length up to 12
fn from_array_dyn(d: &[Weekday]) -> Option<WeekdaySet> {
    macro_rules! arr {
        ($($n:literal),*) => {
            match d.len() {
                $($n => {
                    let a: [Weekday; $n] = d.try_into().unwrap();
                    Some(WeekdaySet::from_array(a))
                })*
                _ => None,
            }
        };
    }
    arr!(0, 1, 2, 3, 4, 5, 6, 7, 8, 9, 10, 11, 12)
}

/// every `FromPrimitive` integer entry point of `T` on `n`, when `n` is a value of that type
fn from_prim<T: FromPrimitive>(ty: &str, n: i128) -> Option<Option<T>> {
    Some(match ty {
        "i8" => T::from_i8(i8::try_from(n).ok()?),
        "i16" => T::from_i16(i16::try_from(n).ok()?),
        "i32" => T::from_i32(i32::try_from(n).ok()?),
        "i64" => T::from_i64(i64::try_from(n).ok()?),
        "isize" => T::from_isize(isize::try_from(n).ok()?),
        "i128" => T::from_i128(n),
        "u8" => T::from_u8(u8::try_from(n).ok()?),
        "u16" => T::from_u16(u16::try_from(n).ok()?),
        "u32" => T::from_u32(u32::try_from(n).ok()?),
        "u64" => T::from_u64(u64::try_from(n).ok()?),
        "usize" => T::from_usize(usize::try_from(n).ok()?),
        _ => return None,
    })
}
/// `Display for Weekday` under a format spec; `align`: d = none written, l `<`, r `>`, c `^`; `star`: fill `*`
fn fmt_wd(w: Weekday, width: Option<usize>, prec: Option<usize>, align: char, star: bool) -> String {
    macro_rules! f {
        ($sw:literal, $sp:literal, $swp:literal, $sn:literal) => {
            match (width, prec) {
                (Some(wd), Some(p)) => format!($swp, w, wd = wd, p = p),
                (Some(wd), None) => format!($sw, w, wd = wd),
                (None, Some(p)) => format!($sp, w, p = p),
                (None, None) => format!($sn, w),
            }
        };
    }
    match (align, star) {
        ('l', false) => f!("{:<wd$}", "{:<.p$}", "{:<wd$.p$}", "{:<}"),
        ('l', true) => f!("{:*<wd$}", "{:*<.p$}", "{:*<wd$.p$}", "{:*<}"),
        ('r', false) => f!("{:>wd$}", "{:>.p$}", "{:>wd$.p$}", "{:>}"),
        ('r', true) => f!("{:*>wd$}", "{:*>.p$}", "{:*>wd$.p$}", "{:*>}"),
        ('c', false) => f!("{:^wd$}", "{:^.p$}", "{:^wd$.p$}", "{:^}"),
        ('c', true) => f!("{:*^wd$}", "{:*^.p$}", "{:*^wd$.p$}", "{:*^}"),
        _ => f!("{:wd$}", "{:.p$}", "{:wd$.p$}", "{}"),
    }
}
const PRIM_TYPES: [&str; 11] = ["i8", "i16", "i32", "i64", "isize", "i128", "u8", "u16", "u32", "u64", "usize"];
const WD_NAMES: [&str; 7] = ["Mon", "Tue", "Wed", "Thu", "Fri", "Sat", "Sun"];

pub fn run(c: &mut Ctx) {
    crate::aliases::c19(c);
    // ---- finite parts, exhaustive -------------------------------------------------------------
    for (i, w) in WD.iter().enumerate() {
        c.op(&format!("wd.succ {i}"), &gs(|| w.succ(), |x| wi(x).to_string()));
        c.op(&format!("wd.pred {i}"), &gs(|| w.pred(), |x| wi(x).to_string()));
        c.op(
            &format!("wd.num {i}"),
            &gs(
                || (w.num_days_from_monday(), w.number_from_monday(), w.num_days_from_sunday(), w.number_from_sunday()),
                |t| format!("{} {} {} {}", t.0, t.1, t.2, t.3),
            ),
        );
        c.op(&format!("wd.display {i}"), &gs(|| w.to_string(), |s| hex(s.as_bytes())));
        for (j, v) in WD.iter().enumerate() {
            c.op(&format!("wd.since {i} {j}"), &gs(|| w.days_since(*v), |x| x.to_string()));
        }
        // direct oracles on the implementation
        if guard(|| w.to_string().parse::<Weekday>().ok() == Some(*w)) != Ok(true) {
            c.fail("weekday Display does not parse back", &format!("{:?}", w));
        }
        if guard(|| format!("{:?}", w).parse::<Weekday>().ok() == Some(*w)) != Ok(true) {
            c.fail("weekday Debug does not parse back", &format!("{:?}", w));
        }
        if guard(|| Weekday::try_from(w.num_days_from_monday() as u8).ok() == Some(*w)) != Ok(true) {
            c.fail("Weekday::try_from(num_days_from_monday) is not the weekday", &format!("{:?}", w));
        }
        // Display under format flags (`f.pad`): precision cuts, width fills on the side the alignment says
        for width in [None, Some(0usize), Some(2), Some(3), Some(4), Some(5), Some(8)] {
            for prec in [None, Some(0usize), Some(1), Some(2), Some(3), Some(4)] {
                for (align, star) in [('d', false), ('l', false), ('l', true), ('r', false), ('r', true), ('c', false), ('c', true)] {
                    let got = guard(|| fmt_wd(*w, width, prec, align, star));
                    let fill = if star { '*' } else { ' ' };
                    c.op(
                        &format!("wd.fmt {i} {} {} {align} {}", opt(width), opt(prec), fill as u32),
                        &match &got { Ok(s) => hex(s.as_bytes()), Err(()) => "panic".into() },
                    );
                    c.count("fmt:weekday-flags");
                    // direct oracle, by hand
                    let core = &WD_NAMES[i][..prec.unwrap_or(3).min(3)];
                    let n = width.unwrap_or(0).saturating_sub(core.len());
                    let (pre, post) = match align { 'r' => (n, 0), 'c' => (n / 2, n - n / 2), _ => (0, n) };
                    let want = format!("{}{}{}", fill.to_string().repeat(pre), core, fill.to_string().repeat(post));
                    if got != Ok(want.clone()) {
                        c.fail("weekday Display under width/precision flags is not the padded, cut name", &format!("{:?} width {:?} precision {:?} align {align}: {:?}, expected {:?}", w, width, prec, got, want));
                    }
                }
            }
        }
        let mut x = *w;
        for k in 1..=7 {
            x = x.succ();
            if (x == *w) != (k == 7) {
                c.fail("weekday succ is not a 7-cycle", &format!("{:?} after {} steps", w, k));
            }
        }
    }
    for (i, m) in MO.iter().enumerate() {
        c.op(&format!("mo.succ {i}"), &gs(|| m.succ(), |x| mi(x).to_string()));
        c.op(&format!("mo.pred {i}"), &gs(|| m.pred(), |x| mi(x).to_string()));
        c.op(&format!("mo.num {i}"), &gs(|| m.number_from_month(), |x| x.to_string()));
        c.op(&format!("mo.name {i}"), &gs(|| m.name().to_string(), |s| hex(s.as_bytes())));
        if guard(|| m.name().parse::<Month>().ok() == Some(*m)) != Ok(true) {
            c.fail("month name does not parse back", &format!("{:?}", m));
        }
        if guard(|| format!("{:?}", m).parse::<Month>().ok() == Some(*m)) != Ok(true) {
            c.fail("month Debug does not parse back", &format!("{:?}", m));
        }
        if guard(|| m.name()[..3].parse::<Month>().ok() == Some(*m)) != Ok(true) {
            c.fail("month short name does not parse back", &format!("{:?}", m));
        }
        if guard(|| Month::try_from(m.number_from_month() as u8).ok() == Some(*m)) != Ok(true) {
            c.fail("Month::try_from(number_from_month) is not the month", &format!("{:?}", m));
        }
        let mut x = *m;
        for k in 1..=12 {
            x = x.succ();
            if (x == *m) != (k == 12) {
                c.fail("month succ is not a 12-cycle", &format!("{:?} after {} steps", m, k));
            }
        }
    }
    // sets: all 128 words, all pairs, all (word, day), all (word, start, schedule)
    for a in 0u8..128 {
        let sa = set_of(a);
        if word_of(sa) != a {
            c.fail("set built from members does not contain exactly them", &format!("word {a}"));
        }
        c.op(
            &format!("ws.un {a}"),
            &gs(
                || (sa.len(), sa.is_empty(), sa.first(), sa.last(), sa.single_day()),
                |t| format!("{} {} {} {} {}", t.0, b01(t.1), ow(t.2), ow(t.3), ow(t.4)),
            ),
        );
        for b in 0u8..128 {
            let sb = set_of(b);
            c.op(
                &format!("ws.bin {a} {b}"),
                &gs(
                    || {
                        (
                            word_of(sa.union(sb)),
                            word_of(sa.intersection(sb)),
                            word_of(sa.symmetric_difference(sb)),
                            word_of(sa.difference(sb)),
                            sa.is_subset(sb),
                        )
                    },
                    |t| format!("{} {} {} {} {}", t.0, t.1, t.2, t.3, b01(t.4)),
                ),
            );
            // equality of sets is equality of member sets
            if (sa == sb) != (a == b) {
                c.fail("set equality differs from member equality", &format!("{a} {b}"));
            }
        }
        for (j, d) in WD.iter().enumerate() {
            c.op(
                &format!("ws.elem {a} {j}"),
                &gs(
                    || {
                        let mut i = sa;
                        let fi = i.insert(*d);
                        let mut r = sa;
                        let fr = r.remove(*d);
                        (sa.contains(*d), word_of(i), fi, word_of(r), fr, word_of(WeekdaySet::single(*d)))
                    },
                    |t| format!("{} {} {} {} {} {}", b01(t.0), t.1, b01(t.2), t.3, b01(t.4), t.5),
                ),
            );
        }
    }
    // the declared constants
    c.op("ws.const", &gs(|| (word_of(WeekdaySet::EMPTY), word_of(WeekdaySet::ALL)), |t| format!("{} {}", t.0, t.1)));
    for d in WD {
        if WeekdaySet::EMPTY.contains(d) || !WeekdaySet::ALL.contains(d) {
            c.fail("EMPTY contains a weekday or ALL lacks one", &format!("{:?}", d));
        }
    }
    if !WeekdaySet::EMPTY.is_empty() || WeekdaySet::EMPTY.len() != 0 || WeekdaySet::ALL.len() != 7 || WeekdaySet::default() != WeekdaySet::EMPTY {
        c.fail("EMPTY / ALL / default have the wrong size", "");
    }
    // text forms of all 128 sets
    for a in 0u8..128 {
        let sa = set_of(a);
        c.op(
            &format!("ws.fmt {a}"),
            &gs(|| (sa.to_string(), format!("{:?}", sa)), |t| format!("{} {}", hex(t.0.as_bytes()), hex(t.1.as_bytes()))),
        );
        // direct oracle, independent reference: the members' names in week order / the seven bits
        let names: Vec<&str> = (0..7).filter(|i| a >> i & 1 == 1).map(|i| WD_NAMES[i]).collect();
        let want_display = format!("[{}]", names.join(", "));
        let want_debug = format!("WeekdaySet({})", (0..7).rev().map(|i| if a >> i & 1 == 1 { '1' } else { '0' }).collect::<String>());
        if guard(|| sa.to_string()) != Ok(want_display.clone()) {
            c.fail("Display of a weekday set is not the list of its members in week order", &format!("word {a}: expected {want_display}"));
        }
        if guard(|| format!("{:?}", sa)) != Ok(want_debug.clone()) {
            c.fail("Debug of a weekday set is not its seven membership bits", &format!("word {a}: expected {want_debug}"));
        }
        c.count("fmt:set");
    }
    // observation, not judged (outside the statement): the iterator overrides `len` but not `size_hint`
    c.sample(&format!(
        "not judged: WeekdaySet::ALL.iter(Mon).size_hint() = {:?} while len() = {}",
        WeekdaySet::ALL.iter(Weekday::Mon).size_hint(),
        WeekdaySet::ALL.iter(Weekday::Mon).len()
    ));
    let nsched = c.n(7, 9);
    for a in 0u8..128 {
        let sa = set_of(a);
        for (j, st) in WD.iter().enumerate() {
            // plain forward / backward drains as direct oracles
            let fwd: Vec<Weekday> = sa.iter(*st).collect();
            let mut bwd: Vec<Weekday> = sa.iter(*st).rev().collect();
            bwd.reverse();
            let mut exp = vec![];
            let mut d = *st;
            for _ in 0..7 {
                if sa.contains(d) {
                    exp.push(d);
                }
                d = d.succ();
            }
            if fwd != exp {
                c.fail("forward iteration is not cyclic weekday order", &format!("word {a} start {j}: {:?}", fwd));
            }
            if bwd != exp {
                c.fail("backward iteration is not the reverse of cyclic order", &format!("word {a} start {j}"));
            }
            if sa.iter(*st).len() != exp.len() {
                c.fail("iterator length hint is not the number of members", &format!("word {a} start {j}"));
            }
            // the Iterator / DoubleEndedIterator methods std provides (or an impl may override: seed R5-C19-a overrode
            // `last`) must agree with the drain by `next`
            {
                let it = || sa.iter(*st);
                let ok = it().last() == exp.last().copied()
                    && it().count() == exp.len()
                    && it().rev().last() == exp.first().copied()
                    && it().min_by_key(|d| d.days_since(*st)) == exp.first().copied()
                    && it().max_by_key(|d| d.days_since(*st)) == exp.last().copied()
                    && it().fold(Vec::new(), |mut v, d| {
                        v.push(d);
                        v
                    }) == exp
                    && it().rfold(Vec::new(), |mut v, d| {
                        v.push(d);
                        v
                    }) == exp.iter().rev().copied().collect::<Vec<_>>()
                    && (0..8).all(|k| it().nth(k) == exp.get(k).copied() && it().nth_back(k) == exp.iter().rev().nth(k).copied())
                    && it().position(|d| Some(d) == exp.last().copied()) == exp.len().checked_sub(1)
                    && it().skip(1).next() == exp.get(1).copied()
                    && it().step_by(2).collect::<Vec<_>>() == exp.iter().step_by(2).copied().collect::<Vec<_>>();
                if !ok {
                    c.fail(
                        "a provided iterator method (last, count, nth, nth_back, fold, rfold, min/max_by_key, position, skip, step_by, rev) disagrees with the cyclic order from the start day",
                        &format!("word {a} start {j}: expected order {:?}, last() = {:?}", exp, it().last()),
                    );
                }
            }
            for k in 0u32..(1 << nsched) {
                // only schedules that differ within the first len+1 pulls are distinct; keep all in thorough
                if c.tier == Tier::Quick && (k >> (sa.len() + 1)) != 0 {
                    continue;
                }
                let got = gs(
                    || {
                        let mut it = sa.iter(*st);
                        let (mut fs, mut ks) = (vec![], vec![]);
                        for i in 0..nsched {
                            if k >> i & 1 == 1 {
                                if let Some(x) = it.next() {
                                    fs.push(wi(x).to_string())
                                }
                            } else if let Some(x) = it.next_back() {
                                ks.push(wi(x).to_string())
                            }
                        }
                        let left: WeekdaySet = it.collect();
                        (fs, ks, word_of(left))
                    },
                    |t| format!("f={} b={} left={}", t.0.join(" "), t.1.join(" "), t.2),
                );
                c.op(&format!("ws.iter {a} {j} {k} {nsched}"), &got);
                // ExactSizeIterator::len before / after the same schedule, then drained; FusedIterator
                let lens = guard(|| {
                    let mut it = sa.iter(*st);
                    let len0 = it.len();
                    let mut pulled = 0usize;
                    for i in 0..nsched {
                        let r = if k >> i & 1 == 1 { it.next() } else { it.next_back() };
                        pulled += r.is_some() as usize;
                    }
                    let len = it.len();
                    while it.next().is_some() {}
                    let drained = it.len();
                    let fused = (0..3).all(|_| it.next().is_none() && it.next_back().is_none());
                    (len0, len, drained, fused, pulled)
                });
                match lens {
                    Ok((len0, len, drained, fused, pulled)) => {
                        c.op(
                            &format!("ws.iterx {a} {j} {k} {nsched}"),
                            &format!("len0={len0} len={len} drained={drained} fused={}", b01(fused)),
                        );
                        let members = a.count_ones() as usize;
                        if len0 != members || len + pulled != members || drained != 0 {
                            c.fail("iterator len is not the number of members still to come", &format!("word {a} start {j} schedule {k}: {len0} {len} {drained}, pulled {pulled}"));
                        }
                        if !fused {
                            c.fail("iterator returned an item after returning None", &format!("word {a} start {j} schedule {k}"));
                        }
                    }
                    Err(()) => c.op(&format!("ws.iterx {a} {j} {k} {nsched}"), "panic"),
                }
            }
        }
    }
    // ---- numeric conversions ------------------------------------------------------------------
    let mut nums: Vec<i128> = (-20..=300).collect();
    nums.extend(int_extremes());
    for k in [1i128, 2, 3, 255, 256, 65536, 1 << 31, (1 << 31) - 1] {
        for j in -1i128..=13 {
            nums.push(k * (1i128 << 32) + j);
            nums.push(-(k * (1i128 << 32)) + j);
            nums.push(k * 256 + j);
            nums.push(k * 65536 + j);
        }
    }
    let extra = c.n(2000, 50000);
    for _ in 0..extra {
        let v = c.rng.log_i64() as i128;
        nums.push(v);
        nums.push((c.rng.next() as i128) << 3 | c.rng.below(8) as i128);
    }
    for base in [i128::MIN, i128::MAX, u64::MAX as i128 + 1, i64::MIN as i128 - 1, 1i128 << 64, 1i128 << 100, -(1i128 << 64), -(1i128 << 100)] {
        for j in 0i128..=13 {
            nums.push(base.saturating_add(j));
            nums.push(base.saturating_sub(j));
            // numbers that a narrowing cast to 8/16/32/64 bits would turn into a weekday / month number
            nums.push((1i128 << 64) + j);
            nums.push((1i128 << 16) + j);
            nums.push(-(1i128 << 8) + j);
            nums.push(-(1i128 << 16) + j);
        }
    }
    nums.sort();
    nums.dedup();
    // every FromPrimitive integer entry point (the ones the impls do not write are num_traits' defaults)
    for &n in &nums {
        for ty in PRIM_TYPES {
            let (Some(w), Some(m)) = (guard(|| from_prim::<Weekday>(ty, n)).unwrap_or(None), guard(|| from_prim::<Month>(ty, n)).unwrap_or(None)) else {
                continue;
            };
            c.op(&format!("wd.from_prim {ty} {n}"), &ow(w));
            c.op(&format!("mo.from_prim {ty} {n}"), &om(m));
            c.count(&format!("prim:{ty}"));
            // direct oracle: accepted exactly on the numbers 0..=6 / 1..=12, with that value
            let want_w = if (0..=6).contains(&n) { Some(WD[n as usize]) } else { None };
            let want_m = if (1..=12).contains(&n) { Some(MO[n as usize - 1]) } else { None };
            if w != want_w {
                c.fail("Weekday FromPrimitive conversion is not the inverse of the numbering", &format!("from_{ty}({n}) -> {:?}", w));
            }
            if m != want_m {
                c.fail("Month FromPrimitive conversion is not the inverse of the numbering", &format!("from_{ty}({n}) -> {:?}", m));
            }
        }
        if let Ok(v) = u128::try_from(n) {
            c.op(&format!("wd.from_prim u128 {n}"), &gs(|| Weekday::from_u128(v), ow));
            c.op(&format!("mo.from_prim u128 {n}"), &gs(|| Month::from_u128(v), om));
            c.count("prim:u128");
        }
    }
    for v in [u128::MAX, u128::MAX - 1, (1u128 << 127) + 3, (1u128 << 127) + 12] {
        c.op(&format!("wd.from_prim u128 {v}"), &gs(|| Weekday::from_u128(v), ow));
        c.op(&format!("mo.from_prim u128 {v}"), &gs(|| Month::from_u128(v), om));
        if guard(|| Weekday::from_u128(v).is_none() && Month::from_u128(v).is_none()) != Ok(true) {
            c.fail("from_u128 accepts a huge number", &format!("{v}"));
        }
    }
    // TryFrom<u8>: exhaustive, both directions, and the error value
    for v in 0u8..=255 {
        let want_w = if v <= 6 { Some(WD[v as usize]) } else { None };
        let want_m = if (1..=12).contains(&v) { Some(MO[v as usize - 1]) } else { None };
        if guard(|| Weekday::try_from(v).ok()) != Ok(want_w) {
            c.fail("Weekday::try_from(u8) is not the inverse of the numbering", &format!("{v}"));
        }
        if guard(|| Month::try_from(v).ok()) != Ok(want_m) {
            c.fail("Month::try_from(u8) is not the inverse of the numbering", &format!("{v}"));
        }
        if let Ok(Err(e)) = guard(|| Month::try_from(v)) {
            if e.to_string() != "out of range" || Weekday::try_from(200u8).err() != Some(e) {
                c.fail("Month::try_from(u8) error is not the OutOfRange value", &format!("{v}: {e}"));
            }
        }
    }
    // floats are outside the property's quantifier (num_traits' from_f64 truncates): recorded, not judged
    c.sample(&format!(
        "outside the quantifier: Weekday::from_f64(0.5) = {:?}, Month::from_f64(1.9) = {:?}, Weekday::from_f32(-0.9) = {:?}",
        Weekday::from_f64(0.5),
        Month::from_f64(1.9),
        Weekday::from_f32(-0.9)
    ));
    for &n in &nums {
        if let Ok(v) = u8::try_from(n) {
            c.op(&format!("wd.from_u8 {n}"), &gs(|| Weekday::try_from(v).ok(), ow));
            c.op(&format!("mo.from_u8 {n}"), &gs(|| Month::try_from(v).ok(), om));
            c.count("num:u8");
        }
        if let Ok(v) = u32::try_from(n) {
            c.op(&format!("wd.from_u32 {n}"), &gs(|| Weekday::from_u32(v), ow));
            c.op(&format!("mo.from_u32 {n}"), &gs(|| Month::from_u32(v), om));
            c.count("num:u32");
        }
        if let Ok(v) = i32::try_from(n) {
            c.op(&format!("wd.from_i32 {n}"), &gs(|| Weekday::from_i32(v), ow));
            c.op(&format!("mo.from_i32 {n}"), &gs(|| Month::from_i32(v), om));
            c.count("num:i32");
        }
        if let Ok(v) = u64::try_from(n) {
            c.op(&format!("wd.from_u64 {n}"), &gs(|| Weekday::from_u64(v), ow));
            c.op(&format!("mo.from_u64 {n}"), &gs(|| Month::from_u64(v), om));
            c.count(if v > u32::MAX as u64 { "num:u64>2^32" } else { "num:u64" });
            // direct oracle: accepted iff it is the number of the result
            if let Ok(Some(m)) = guard(|| Month::from_u64(v)) {
                if m.number_from_month() as u64 != v {
                    c.fail("Month::from_u64 accepts a number that is no month number", &format!("mo.from_u64 {v} -> {:?}", m));
                }
            }
            if let Ok(Some(w)) = guard(|| Weekday::from_u64(v)) {
                if w.num_days_from_monday() as u64 != v {
                    c.fail("Weekday::from_u64 accepts a number that is no weekday number", &format!("wd.from_u64 {v} -> {:?}", w));
                }
            }
        }
        if let Ok(v) = i64::try_from(n) {
            c.op(&format!("wd.from_i64 {n}"), &gs(|| Weekday::from_i64(v), ow));
            c.op(&format!("mo.from_i64 {n}"), &gs(|| Month::from_i64(v), om));
            c.count(if v < 0 { "num:i64<0" } else { "num:i64" });
            if let Ok(Some(m)) = guard(|| Month::from_i64(v)) {
                if m.number_from_month() as i64 != v {
                    c.fail("Month::from_i64 accepts a number that is no month number", &format!("mo.from_i64 {v} -> {:?}", m));
                }
            }
            if let Ok(Some(w)) = guard(|| Weekday::from_i64(v)) {
                if w.num_days_from_monday() as i64 != v {
                    c.fail("Weekday::from_i64 accepts a number that is no weekday number", &format!("wd.from_i64 {v} -> {:?}", w));
                }
            }
        }
    }
    // ---- strings ------------------------------------------------------------------------------
    let long_wd = ["monday", "tuesday", "wednesday", "thursday", "friday", "saturday", "sunday"];
    let long_mo = [
        "january", "february", "march", "april", "may", "june", "july", "august", "september", "october",
        "november", "december",
    ];
    let mut strs: Vec<String> = vec![
        "".into(), "m".into(), "mo".into(), "é".into(), "éa".into(), "mon ".into(), " mon".into(), "mön".into(),
        "Ｍon".into(), "mo\u{1d5c7}".into(), "MAY".into(), "mayy".into(), "ma".into(), "sept".into(), "septem".into(),
        "augustin".into(), "tues".into(), "thur".into(), "thurs".into(), "wednes".into(), "monday\0".into(),
        "JANUARY".into(), "janUARY".into(), "Kon".into(), "[on".into(), "{on".into(), "@pr".into(), "`pr".into(),
        "\u{212a}on".into(), "mo\u{0}".into(),
    ];
    let n_str = c.n(20000, 200000);
    for i in 0..n_str {
        let base: String = match c.rng.below(4) {
            0 => (*c.rng.pick(&long_wd)).to_string(),
            1 => (*c.rng.pick(&long_mo)).to_string(),
            2 => c.rng.pick(&long_wd)[..3].to_string(),
            _ => c.rng.pick(&long_mo)[..3].to_string(),
        };
        let mut chars: Vec<char> = base.chars().collect();
        // random case
        for ch in chars.iter_mut() {
            if c.rng.chance(1, 2) {
                *ch = ch.to_ascii_uppercase();
            }
        }
        match c.rng.below(8) {
            0 | 1 | 2 => {}
            3 => {
                let k = c.rng.below(chars.len() as u64 + 1) as usize;
                chars.truncate(k);
            }
            4 => {
                let extra = *c.rng.pick(&['s', 'y', ' ', 'é', 'x', '.', '0', '\u{3000}']);
                chars.push(extra);
            }
            5 => {
                if !chars.is_empty() {
                    let k = c.rng.below(chars.len() as u64) as usize;
                    chars[k] = *c.rng.pick(&['a', 'e', 'Z', 'é', '@', '[', '`', '{', '\u{212a}', '\u{17f}', '1']);
                }
            }
            6 => {
                if !chars.is_empty() {
                    let k = c.rng.below(chars.len() as u64) as usize;
                    chars.remove(k);
                }
            }
            _ => {
                let k = c.rng.below(chars.len() as u64 + 1) as usize;
                let ch = *c.rng.pick(&['n', 'u', ' ', 'd']);
                chars.insert(k, ch);
            }
        }
        strs.push(chars.into_iter().collect());
        if i % 16 == 0 {
            // arbitrary text
            let len = c.rng.below(12);
            let s: String = (0..len)
                .map(|_| char::from_u32(c.rng.below(0x250) as u32).unwrap_or('?'))
                .collect();
            strs.push(s);
        }
    }
    // every name (short and long, in lower and upper case) with every single byte replaced by every
    // ASCII byte: whatever bit trick a reader uses to fold the case must not let another byte through
    for name in long_wd.iter().chain(long_mo.iter()) {
        for full in [true, false] {
            let base: Vec<u8> = if full { name.as_bytes().to_vec() } else { name.as_bytes()[..3].to_vec() };
            for upper in [false, true] {
                let b0: Vec<u8> = if upper { base.to_ascii_uppercase() } else { base.clone() };
                for k in 0..b0.len() {
                    for v in 0u8..128 {
                        let mut b = b0.clone();
                        b[k] = v;
                        strs.push(String::from_utf8(b).unwrap());
                    }
                }
            }
        }
    }
    c.count_n("str:single-byte-substitutions", 0);
    strs.sort();
    strs.dedup();
    let mut sampled = 0;
    for s in &strs {
        let pw = gs(|| s.parse::<Weekday>().ok(), ow);
        let pm = gs(|| s.parse::<Month>().ok(), om);
        c.count(if pw != "none" { "str:weekday-ok" } else { "str:weekday-err" });
        c.count(if pm != "none" { "str:month-ok" } else { "str:month-err" });
        c.op(&format!("wd.parse {}", hex(s.as_bytes())), &pw);
        c.op(&format!("mo.parse {}", hex(s.as_bytes())), &pm);
        if sampled < 6 && (pw != "none" || pm != "none") && s.len() > 3 {
            sampled += 1;
            c.sample(&format!("parse {:?} -> weekday {} month {}", s, pw, pm));
        }
        // direct oracle: accepted strings are names, case-insensitively
        let low = s.to_ascii_lowercase();
        let is_wd = long_wd.iter().any(|n| low == *n || low == n[..3]);
        let is_mo = long_mo.iter().any(|n| low == *n || low == n[..3]);
        if (pw != "none") != is_wd {
            c.fail("weekday parsing accepts a non-name or rejects a name", &format!("{:?} -> {}", s, pw));
        }
        if (pm != "none") != is_mo {
            c.fail("month parsing accepts a non-name or rejects a name", &format!("{:?} -> {}", s, pm));
        }
    }
    // collecting a sequence of any length (repetitions, more than seven items) gives exactly its members
    for _ in 0..c.n(3000, 30000) {
        let len = match c.rng.below(4) {
            0 => c.rng.below(8),
            1 => 7 + c.rng.below(4),
            _ => c.rng.below(40),
        } as usize;
        let bias = *c.rng.pick(&WD);
        let seq: Vec<Weekday> = (0..len).map(|_| if c.rng.chance(2, 3) { bias } else { *c.rng.pick(&WD) }).collect();
        let want = seq.iter().fold(0u8, |w, d| w | 1 << (*d as u8));
        let got = guard(|| word_of(seq.iter().copied().collect::<WeekdaySet>()));
        c.count(if len > 7 { "collect:longer-than-7" } else { "collect:up-to-7" });
        let line: String = seq.iter().map(|d| format!(" {}", wi(*d))).collect();
        c.op(&format!("ws.collect{line}"), &match got { Ok(w) => w.to_string(), Err(()) => "panic".into() });
        if let Ok(Some(arr)) = guard(|| from_array_dyn(&seq)) {
            c.op(&format!("ws.from_array{line}"), &word_of(arr).to_string());
            c.count("collect:from_array");
            if word_of(arr) != want {
                c.fail("from_array does not give exactly the members of the array", &format!("{:?} -> word {}, expected word {want}", seq, word_of(arr)));
            }
        }
        if got != Ok(want) {
            c.fail("collecting weekdays into a set does not give exactly the members of the sequence", &format!("{:?} -> {:?}, expected word {want}", seq, got));
        }
    }
    c.sample("ws.iter 74 2 5 7 (set {Tue,Thu,Sun} from Wed, schedule front/back/front/back...)");
}
