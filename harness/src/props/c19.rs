//! C19 — Weekday, Month, WeekdaySet.
use crate::ctx::*;
use chrono::{Month, Weekday, WeekdaySet};
use num_traits::FromPrimitive;

const WD: [Weekday; 7] =
    [Weekday::Mon, Weekday::Tue, Weekday::Wed, Weekday::Thu, Weekday::Fri, Weekday::Sat, Weekday::Sun];
const MO: [Month; 12] = [
    Month::January,
    Month::February,
    Month::March,
    Month::April,
    Month::May,
    Month::June,
    Month::July,
    Month::August,
    Month::September,
    Month::October,
    Month::November,
    Month::December,
];

fn wi(w: Weekday) -> usize {
    w as usize
}
fn mi(m: Month) -> usize {
    m as usize
}
fn ow(o: Option<Weekday>) -> String {
    opt(o.map(wi))
}
fn om(o: Option<Month>) -> String {
    opt(o.map(mi))
}
fn set_of(word: u8) -> WeekdaySet {
    WD.iter().filter(|d| word >> (**d as u8) & 1 == 1).copied().collect()
}
/// the word is observed through the set's own membership test
fn word_of(s: WeekdaySet) -> u8 {
    let mut w = 0u8;
    for d in WD {
        if s.contains(d) {
            w |= 1 << (d as u8);
        }
    }
    w
}

pub fn run(c: &mut Ctx) {
    crate::aliases::c19(c);
    // ---- finite parts, exhaustive -------------------------------------------------------------
    for (i, w) in WD.iter().enumerate() {
        c.op(&format!("wd.succ {i}"), &gs(|| w.succ(), |x| wi(x).to_string()));
        c.op(&format!("wd.pred {i}"), &gs(|| w.pred(), |x| wi(x).to_string()));
        c.op(
            &format!("wd.num {i}"),
            &gs(
                || (w.num_days_from_monday(), w.number_from_monday(), w.num_days_from_sunday(), w.number_from_sunday()),
                |t| format!("{} {} {} {}", t.0, t.1, t.2, t.3),
            ),
        );
        c.op(&format!("wd.display {i}"), &gs(|| w.to_string(), |s| hex(s.as_bytes())));
        for (j, v) in WD.iter().enumerate() {
            c.op(&format!("wd.since {i} {j}"), &gs(|| w.days_since(*v), |x| x.to_string()));
        }
        // direct oracles on the implementation
        if guard(|| w.to_string().parse::<Weekday>().ok() == Some(*w)) != Ok(true) {
            c.fail("weekday Display does not parse back", &format!("{:?}", w));
        }
        if guard(|| format!("{:?}", w).parse::<Weekday>().ok() == Some(*w)) != Ok(true) {
            c.fail("weekday Debug does not parse back", &format!("{:?}", w));
        }
        if guard(|| Weekday::try_from(w.num_days_from_monday() as u8).ok() == Some(*w)) != Ok(true) {
            c.fail("Weekday::try_from(num_days_from_monday) is not the weekday", &format!("{:?}", w));
        }
        let mut x = *w;
        for k in 1..=7 {
            x = x.succ();
            if (x == *w) != (k == 7) {
                c.fail("weekday succ is not a 7-cycle", &format!("{:?} after {} steps", w, k));
            }
        }
    }
    for (i, m) in MO.iter().enumerate() {
        c.op(&format!("mo.succ {i}"), &gs(|| m.succ(), |x| mi(x).to_string()));
        c.op(&format!("mo.pred {i}"), &gs(|| m.pred(), |x| mi(x).to_string()));
        c.op(&format!("mo.num {i}"), &gs(|| m.number_from_month(), |x| x.to_string()));
        c.op(&format!("mo.name {i}"), &gs(|| m.name().to_string(), |s| hex(s.as_bytes())));
        if guard(|| m.name().parse::<Month>().ok() == Some(*m)) != Ok(true) {
            c.fail("month name does not parse back", &format!("{:?}", m));
        }
        if guard(|| format!("{:?}", m).parse::<Month>().ok() == Some(*m)) != Ok(true) {
            c.fail("month Debug does not parse back", &format!("{:?}", m));
        }
        if guard(|| m.name()[..3].parse::<Month>().ok() == Some(*m)) != Ok(true) {
            c.fail("month short name does not parse back", &format!("{:?}", m));
        }
        if guard(|| Month::try_from(m.number_from_month() as u8).ok() == Some(*m)) != Ok(true) {
            c.fail("Month::try_from(number_from_month) is not the month", &format!("{:?}", m));
        }
        let mut x = *m;
        for k in 1..=12 {
            x = x.succ();
            if (x == *m) != (k == 12) {
                c.fail("month succ is not a 12-cycle", &format!("{:?} after {} steps", m, k));
            }
        }
    }
    // sets: all 128 words, all pairs, all (word, day), all (word, start, schedule)
    for a in 0u8..128 {
        let sa = set_of(a);
        if word_of(sa) != a {
            c.fail("set built from members does not contain exactly them", &format!("word {a}"));
        }
        c.op(
            &format!("ws.un {a}"),
            &gs(
                || (sa.len(), sa.is_empty(), sa.first(), sa.last(), sa.single_day()),
                |t| format!("{} {} {} {} {}", t.0, b01(t.1), ow(t.2), ow(t.3), ow(t.4)),
            ),
        );
        for b in 0u8..128 {
            let sb = set_of(b);
            c.op(
                &format!("ws.bin {a} {b}"),
                &gs(
                    || {
                        (
                            word_of(sa.union(sb)),
                            word_of(sa.intersection(sb)),
                            word_of(sa.symmetric_difference(sb)),
                            word_of(sa.difference(sb)),
                            sa.is_subset(sb),
                        )
                    },
                    |t| format!("{} {} {} {} {}", t.0, t.1, t.2, t.3, b01(t.4)),
                ),
            );
            // equality of sets is equality of member sets
            if (sa == sb) != (a == b) {
                c.fail("set equality differs from member equality", &format!("{a} {b}"));
            }
        }
        for (j, d) in WD.iter().enumerate() {
            c.op(
                &format!("ws.elem {a} {j}"),
                &gs(
                    || {
                        let mut i = sa;
                        let fi = i.insert(*d);
                        let mut r = sa;
                        let fr = r.remove(*d);
                        (sa.contains(*d), word_of(i), fi, word_of(r), fr, word_of(WeekdaySet::single(*d)))
                    },
                    |t| format!("{} {} {} {} {} {}", b01(t.0), t.1, b01(t.2), t.3, b01(t.4), t.5),
                ),
            );
        }
    }
    let nsched = c.n(7, 9);
    for a in 0u8..128 {
        let sa = set_of(a);
        for (j, st) in WD.iter().enumerate() {
            // plain forward / backward drains as direct oracles
            let fwd: Vec<Weekday> = sa.iter(*st).collect();
            let mut bwd: Vec<Weekday> = sa.iter(*st).rev().collect();
            bwd.reverse();
            let mut exp = vec![];
            let mut d = *st;
            for _ in 0..7 {
                if sa.contains(d) {
                    exp.push(d);
                }
                d = d.succ();
            }
            if fwd != exp {
                c.fail("forward iteration is not cyclic weekday order", &format!("word {a} start {j}: {:?}", fwd));
            }
            if bwd != exp {
                c.fail("backward iteration is not the reverse of cyclic order", &format!("word {a} start {j}"));
            }
            if sa.iter(*st).len() != exp.len() {
                c.fail("iterator length hint is not the number of members", &format!("word {a} start {j}"));
            }
            for k in 0u32..(1 << nsched) {
                // only schedules that differ within the first len+1 pulls are distinct; keep all in thorough
                if c.tier == Tier::Quick && (k >> (sa.len() + 1)) != 0 {
                    continue;
                }
                let got = gs(
                    || {
                        let mut it = sa.iter(*st);
                        let (mut fs, mut ks) = (vec![], vec![]);
                        for i in 0..nsched {
                            if k >> i & 1 == 1 {
                                if let Some(x) = it.next() {
                                    fs.push(wi(x).to_string())
                                }
                            } else if let Some(x) = it.next_back() {
                                ks.push(wi(x).to_string())
                            }
                        }
                        let left: WeekdaySet = it.collect();
                        (fs, ks, word_of(left))
                    },
                    |t| format!("f={} b={} left={}", t.0.join(" "), t.1.join(" "), t.2),
                );
                c.op(&format!("ws.iter {a} {j} {k} {nsched}"), &got);
            }
        }
    }
    // ---- numeric conversions ------------------------------------------------------------------
    let mut nums: Vec<i128> = (-20..=300).collect();
    nums.extend(int_extremes());
    for k in [1i128, 2, 3, 255, 256, 65536, 1 << 31, (1 << 31) - 1] {
        for j in -1i128..=13 {
            nums.push(k * (1i128 << 32) + j);
            nums.push(-(k * (1i128 << 32)) + j);
            nums.push(k * 256 + j);
            nums.push(k * 65536 + j);
        }
    }
    let extra = c.n(2000, 50000);
    for _ in 0..extra {
        let v = c.rng.log_i64() as i128;
        nums.push(v);
        nums.push((c.rng.next() as i128) << 3 | c.rng.below(8) as i128);
    }
    nums.sort();
    nums.dedup();
    for &n in &nums {
        if let Ok(v) = u8::try_from(n) {
            c.op(&format!("wd.from_u8 {n}"), &gs(|| Weekday::try_from(v).ok(), ow));
            c.op(&format!("mo.from_u8 {n}"), &gs(|| Month::try_from(v).ok(), om));
            c.count("num:u8");
        }
        if let Ok(v) = u32::try_from(n) {
            c.op(&format!("wd.from_u32 {n}"), &gs(|| Weekday::from_u32(v), ow));
            c.op(&format!("mo.from_u32 {n}"), &gs(|| Month::from_u32(v), om));
            c.count("num:u32");
        }
        if let Ok(v) = i32::try_from(n) {
            c.op(&format!("wd.from_i32 {n}"), &gs(|| Weekday::from_i32(v), ow));
            c.op(&format!("mo.from_i32 {n}"), &gs(|| Month::from_i32(v), om));
            c.count("num:i32");
        }
        if let Ok(v) = u64::try_from(n) {
            c.op(&format!("wd.from_u64 {n}"), &gs(|| Weekday::from_u64(v), ow));
            c.op(&format!("mo.from_u64 {n}"), &gs(|| Month::from_u64(v), om));
            c.count(if v > u32::MAX as u64 { "num:u64>2^32" } else { "num:u64" });
            // direct oracle: accepted iff it is the number of the result
            if let Ok(Some(m)) = guard(|| Month::from_u64(v)) {
                if m.number_from_month() as u64 != v {
                    c.fail("Month::from_u64 accepts a number that is no month number", &format!("mo.from_u64 {v} -> {:?}", m));
                }
            }
            if let Ok(Some(w)) = guard(|| Weekday::from_u64(v)) {
                if w.num_days_from_monday() as u64 != v {
                    c.fail("Weekday::from_u64 accepts a number that is no weekday number", &format!("wd.from_u64 {v} -> {:?}", w));
                }
            }
        }
        if let Ok(v) = i64::try_from(n) {
            c.op(&format!("wd.from_i64 {n}"), &gs(|| Weekday::from_i64(v), ow));
            c.op(&format!("mo.from_i64 {n}"), &gs(|| Month::from_i64(v), om));
            c.count(if v < 0 { "num:i64<0" } else { "num:i64" });
            if let Ok(Some(m)) = guard(|| Month::from_i64(v)) {
                if m.number_from_month() as i64 != v {
                    c.fail("Month::from_i64 accepts a number that is no month number", &format!("mo.from_i64 {v} -> {:?}", m));
                }
            }
            if let Ok(Some(w)) = guard(|| Weekday::from_i64(v)) {
                if w.num_days_from_monday() as i64 != v {
                    c.fail("Weekday::from_i64 accepts a number that is no weekday number", &format!("wd.from_i64 {v} -> {:?}", w));
                }
            }
        }
    }
    // ---- strings ------------------------------------------------------------------------------
    let long_wd = ["monday", "tuesday", "wednesday", "thursday", "friday", "saturday", "sunday"];
    let long_mo = [
        "january", "february", "march", "april", "may", "june", "july", "august", "september", "october",
        "november", "december",
    ];
    let mut strs: Vec<String> = vec![
        "".into(), "m".into(), "mo".into(), "é".into(), "éa".into(), "mon ".into(), " mon".into(), "mön".into(),
        "Ｍon".into(), "mo\u{1d5c7}".into(), "MAY".into(), "mayy".into(), "ma".into(), "sept".into(), "septem".into(),
        "augustin".into(), "tues".into(), "thur".into(), "thurs".into(), "wednes".into(), "monday\0".into(),
        "JANUARY".into(), "janUARY".into(), "Kon".into(), "[on".into(), "{on".into(), "@pr".into(), "`pr".into(),
        "\u{212a}on".into(), "mo\u{0}".into(),
    ];
    let n_str = c.n(20000, 200000);
    for i in 0..n_str {
        let base: String = match c.rng.below(4) {
            0 => (*c.rng.pick(&long_wd)).to_string(),
            1 => (*c.rng.pick(&long_mo)).to_string(),
            2 => c.rng.pick(&long_wd)[..3].to_string(),
            _ => c.rng.pick(&long_mo)[..3].to_string(),
        };
        let mut chars: Vec<char> = base.chars().collect();
        // random case
        for ch in chars.iter_mut() {
            if c.rng.chance(1, 2) {
                *ch = ch.to_ascii_uppercase();
            }
        }
        match c.rng.below(8) {
            0 | 1 | 2 => {}
            3 => {
                let k = c.rng.below(chars.len() as u64 + 1) as usize;
                chars.truncate(k);
            }
            4 => {
                let extra = *c.rng.pick(&['s', 'y', ' ', 'é', 'x', '.', '0', '\u{3000}']);
                chars.push(extra);
            }
            5 => {
                if !chars.is_empty() {
                    let k = c.rng.below(chars.len() as u64) as usize;
                    chars[k] = *c.rng.pick(&['a', 'e', 'Z', 'é', '@', '[', '`', '{', '\u{212a}', '\u{17f}', '1']);
                }
            }
            6 => {
                if !chars.is_empty() {
                    let k = c.rng.below(chars.len() as u64) as usize;
                    chars.remove(k);
                }
            }
            _ => {
                let k = c.rng.below(chars.len() as u64 + 1) as usize;
                let ch = *c.rng.pick(&['n', 'u', ' ', 'd']);
                chars.insert(k, ch);
            }
        }
        strs.push(chars.into_iter().collect());
        if i % 16 == 0 {
            // arbitrary text
            let len = c.rng.below(12);
            let s: String = (0..len)
                .map(|_| char::from_u32(c.rng.below(0x250) as u32).unwrap_or('?'))
                .collect();
            strs.push(s);
        }
    }
    // every name (short and long, in lower and upper case) with every single byte replaced by every
    // ASCII byte: whatever bit trick a reader uses to fold the case must not let another byte through
    for name in long_wd.iter().chain(long_mo.iter()) {
        for full in [true, false] {
            let base: Vec<u8> = if full { name.as_bytes().to_vec() } else { name.as_bytes()[..3].to_vec() };
            for upper in [false, true] {
                let b0: Vec<u8> = if upper { base.to_ascii_uppercase() } else { base.clone() };
                for k in 0..b0.len() {
                    for v in 0u8..128 {
                        let mut b = b0.clone();
                        b[k] = v;
                        strs.push(String::from_utf8(b).unwrap());
                    }
                }
            }
        }
    }
    c.count_n("str:single-byte-substitutions", 0);
    strs.sort();
    strs.dedup();
    let mut sampled = 0;
    for s in &strs {
        let pw = gs(|| s.parse::<Weekday>().ok(), ow);
        let pm = gs(|| s.parse::<Month>().ok(), om);
        c.count(if pw != "none" { "str:weekday-ok" } else { "str:weekday-err" });
        c.count(if pm != "none" { "str:month-ok" } else { "str:month-err" });
        c.op(&format!("wd.parse {}", hex(s.as_bytes())), &pw);
        c.op(&format!("mo.parse {}", hex(s.as_bytes())), &pm);
        if sampled < 6 && (pw != "none" || pm != "none") && s.len() > 3 {
            sampled += 1;
            c.sample(&format!("parse {:?} -> weekday {} month {}", s, pw, pm));
        }
        // direct oracle: accepted strings are names, case-insensitively
        let low = s.to_ascii_lowercase();
        let is_wd = long_wd.iter().any(|n| low == *n || low == n[..3]);
        let is_mo = long_mo.iter().any(|n| low == *n || low == n[..3]);
        if (pw != "none") != is_wd {
            c.fail("weekday parsing accepts a non-name or rejects a name", &format!("{:?} -> {}", s, pw));
        }
        if (pm != "none") != is_mo {
            c.fail("month parsing accepts a non-name or rejects a name", &format!("{:?} -> {}", s, pm));
        }
    }
    // collecting a sequence of any length (repetitions, more than seven items) gives exactly its members
    for _ in 0..c.n(3000, 30000) {
        let len = match c.rng.below(4) {
            0 => c.rng.below(8),
            1 => 7 + c.rng.below(4),
            _ => c.rng.below(40),
        } as usize;
        let bias = *c.rng.pick(&WD);
        let seq: Vec<Weekday> = (0..len).map(|_| if c.rng.chance(2, 3) { bias } else { *c.rng.pick(&WD) }).collect();
        let want = seq.iter().fold(0u8, |w, d| w | 1 << (*d as u8));
        let got = guard(|| word_of(seq.iter().copied().collect::<WeekdaySet>()));
        c.count(if len > 7 { "collect:longer-than-7" } else { "collect:up-to-7" });
        if got != Ok(want) {
            c.fail("collecting weekdays into a set does not give exactly the members of the sequence", &format!("{:?} -> {:?}, expected word {want}", seq, got));
        }
    }
    c.sample("ws.iter 74 2 5 7 (set {Tue,Thu,Sun} from Wed, schedule front/back/front/back...)");
}
