//! C20 — serialized forms deserialize to the same value (serde feature).
//!
//! Three layers:
//!  * correspondence (`sd.*` ops): the sixteen `ts_*` modules' `serialize` / `visit_i64` / `visit_u64` /
//!    option handling, the `TimeDelta` tuple form and the weekday / month names are run on the crate and on
//!    the Lean model.  The visitor methods are reached through a hand-made wire deserializer (`WI`/`WO`)
//!    that calls exactly `visit_i64(v)` / `visit_u64(v)` / `visit_none` / `visit_unit` / `visit_some`, and
//!    — end to end — through `serde_json` (non-negative integers arrive as `u64`, negative ones as `i64`)
//!    and `bincode` (eight bytes arrive as `i64`).
//!  * direct oracles on the implementation: exact integer written (independent calendar + i128), round
//!    trip at the module's precision, acceptance exactly inside the representable range, no panic.
//!  * the string forms (dates, times, naive and zone-aware date-times): the text `Serialize` writes (as
//!    `serde_json` stores it) and what `Deserialize` makes of that text and of single-edit mutations of it are
//!    compared with the models of the writer / reader each impl names (`sd.nd.*`, `sd.nt.*`, `sd.ndt.*`,
//!    `sd.dt.*`; Model/SerdeStr.lean); the value after a trip through `serde_json` and through `bincode` is
//!    judged on the implementation by direct oracles.
use super::c01::{day_num, gen_date, yof, MAX_YEAR, MIN_YEAR};
use super::c06::raw;
use crate::ctx::*;
use bincode::Options;
use chrono::{
    DateTime, Datelike, FixedOffset, Local, Month, NaiveDate, NaiveDateTime, NaiveTime, TimeDelta, TimeZone,
    Timelike, Utc, Weekday,
};
use serde::de::{Deserializer, Visitor};
use serde::ser::Serializer;
use serde::{Deserialize, Serialize};

const WD: [Weekday; 7] =
    [Weekday::Mon, Weekday::Tue, Weekday::Wed, Weekday::Thu, Weekday::Fri, Weekday::Sat, Weekday::Sun];
const MO: [Month; 12] = [
    Month::January,
    Month::February,
    Month::March,
    Month::April,
    Month::May,
    Month::June,
    Month::July,
    Month::August,
    Month::September,
    Month::October,
    Month::November,
    Month::December,
];

// ---- independent reference arithmetic (shares nothing with chrono's timestamp code) --------------
/// first / last representable second, from the independent calendar of c01
fn ts_min() -> i128 {
    (day_num(MIN_YEAR as i64, 1, 1) - 719_163) as i128 * 86_400
}
fn ts_max() -> i128 {
    (day_num(MAX_YEAR as i64, 12, 31) - 719_163) as i128 * 86_400 + 86_399
}
fn inst_secs(n: &NaiveDateTime) -> i128 {
    let d = n.date();
    (day_num(d.year() as i64, d.month() as i64, d.day() as i64) - 719_163) as i128 * 86_400
        + n.time().num_seconds_from_midnight() as i128
}
/// nanoseconds since the epoch (a leap-second representation counts its fraction ≥ 10^9 as is)
fn inst_ns(n: &NaiveDateTime) -> i128 {
    inst_secs(n) * 1_000_000_000 + n.time().nanosecond() as i128
}
fn is_leap(n: &NaiveDateTime) -> bool {
    n.time().nanosecond() >= 1_000_000_000
}
fn is_strict(t: &NaiveTime) -> bool {
    t.nanosecond() < 1_000_000_000 || t.num_seconds_from_midnight() % 60 == 59
}
fn mk_time(secs: u32, frac: u32) -> NaiveTime {
    NaiveTime::from_num_seconds_from_midnight_opt(secs, 0).unwrap().with_nanosecond(frac).unwrap()
}
fn show_ndt(n: &NaiveDateTime) -> String {
    format!("{} {} {}", yof(&n.date()), n.time().num_seconds_from_midnight(), n.time().nanosecond())
}
/// the value cut down to a multiple of `q` nanoseconds
fn trunc(n: &NaiveDateTime, q: u32) -> NaiveDateTime {
    n.date().and_time(mk_time(n.time().num_seconds_from_midnight(), n.time().nanosecond() / q * q))
}

// ---- the data formats -----------------------------------------------------------------------------
fn bopts() -> impl Options + Copy {
    bincode::DefaultOptions::new().with_fixint_encoding().allow_trailing_bytes()
}

/// what `deserialize_i64` hands to the visitor
#[derive(Clone, Copy, Debug)]
enum WInt {
    I(i64),
    U(u64),
    X(u8),
}
/// what `deserialize_option` hands to the visitor
#[derive(Clone, Copy, Debug)]
enum WOpt {
    None,
    Unit,
    Other,
    Some(WInt),
}
fn wint_s(w: WInt) -> String {
    match w {
        WInt::I(v) => format!("i {v}"),
        WInt::U(v) => format!("u {v}"),
        WInt::X(_) => "x".into(),
    }
}
fn wopt_s(w: WOpt) -> String {
    match w {
        WOpt::None => "none".into(),
        WOpt::Unit => "unit".into(),
        WOpt::Other => "other".into(),
        WOpt::Some(w) => format!("some {}", wint_s(w)),
    }
}
type WErr = serde::de::value::Error;
/// a deserializer that calls exactly one chosen visitor method
struct WI(WInt);
impl<'de> Deserializer<'de> for WI {
    type Error = WErr;
    fn deserialize_any<V: Visitor<'de>>(self, v: V) -> Result<V::Value, WErr> {
        match self.0 {
            WInt::I(x) => v.visit_i64(x),
            WInt::U(x) => v.visit_u64(x),
            WInt::X(0) => v.visit_str("1"),
            WInt::X(1) => v.visit_f64(1.0),
            WInt::X(2) => v.visit_bool(true),
            WInt::X(3) => v.visit_unit(),
            WInt::X(4) => v.visit_none(),
            WInt::X(_) => v.visit_bytes(b"1"),
        }
    }
    serde::forward_to_deserialize_any! {
        bool i8 i16 i32 i64 i128 u8 u16 u32 u64 u128 f32 f64 char str string bytes byte_buf option unit
        unit_struct newtype_struct seq tuple tuple_struct map struct enum identifier ignored_any
    }
}
struct WO(WOpt);
impl<'de> Deserializer<'de> for WO {
    type Error = WErr;
    fn deserialize_any<V: Visitor<'de>>(self, v: V) -> Result<V::Value, WErr> {
        match self.0 {
            WOpt::None => v.visit_none(),
            WOpt::Unit => v.visit_unit(),
            WOpt::Other => v.visit_str("x"),
            WOpt::Some(w) => v.visit_some(WI(w)),
        }
    }
    serde::forward_to_deserialize_any! {
        bool i8 i16 i32 i64 i128 u8 u16 u32 u64 u128 f32 f64 char str string bytes byte_buf option unit
        unit_struct newtype_struct seq tuple tuple_struct map struct enum identifier ignored_any
    }
}

// ---- the sixteen modules behind one interface ------------------------------------------------------
trait TsMod {
    type V: Clone + PartialEq + std::fmt::Debug;
    const TG: &'static str;
    const UNIT: &'static str;
    /// units per second
    const P: i128;
    fn ser<S: Serializer>(v: &Self::V, s: S) -> Result<S::Ok, S::Error>;
    fn de<'de, D: Deserializer<'de>>(d: D) -> Result<Self::V, D::Error>;
    fn ser_o<S: Serializer>(v: &Option<Self::V>, s: S) -> Result<S::Ok, S::Error>;
    fn de_o<'de, D: Deserializer<'de>>(d: D) -> Result<Option<Self::V>, D::Error>;
    fn naive(v: &Self::V) -> NaiveDateTime;
    fn wrap(n: NaiveDateTime) -> Self::V;
}
macro_rules! ts_mod {
    ($name:ident, $v:ty, $tg:expr, $unit:expr, $p:expr, $m:path, $mo:path, $naive:expr, $wrap:expr) => {
        struct $name;
        impl TsMod for $name {
            type V = $v;
            const TG: &'static str = $tg;
            const UNIT: &'static str = $unit;
            const P: i128 = $p;
            fn ser<S: Serializer>(v: &$v, s: S) -> Result<S::Ok, S::Error> {
                use $m as m;
                m::serialize(v, s)
            }
            fn de<'de, D: Deserializer<'de>>(d: D) -> Result<$v, D::Error> {
                use $m as m;
                m::deserialize(d)
            }
            fn ser_o<S: Serializer>(v: &Option<$v>, s: S) -> Result<S::Ok, S::Error> {
                use $mo as m;
                m::serialize(v, s)
            }
            fn de_o<'de, D: Deserializer<'de>>(d: D) -> Result<Option<$v>, D::Error> {
                use $mo as m;
                m::deserialize(d)
            }
            fn naive(v: &$v) -> NaiveDateTime {
                $naive(v)
            }
            fn wrap(n: NaiveDateTime) -> $v {
                $wrap(n)
            }
        }
    };
}
fn u_naive(v: &DateTime<Utc>) -> NaiveDateTime {
    v.naive_utc()
}
fn u_wrap(n: NaiveDateTime) -> DateTime<Utc> {
    n.and_utc()
}
fn n_naive(v: &NaiveDateTime) -> NaiveDateTime {
    *v
}
fn n_wrap(n: NaiveDateTime) -> NaiveDateTime {
    n
}
ts_mod!(US, DateTime<Utc>, "utc", "s", 1, chrono::serde::ts_seconds, chrono::serde::ts_seconds_option, u_naive, u_wrap);
ts_mod!(UMs, DateTime<Utc>, "utc", "ms", 1_000, chrono::serde::ts_milliseconds, chrono::serde::ts_milliseconds_option, u_naive, u_wrap);
ts_mod!(UUs, DateTime<Utc>, "utc", "us", 1_000_000, chrono::serde::ts_microseconds, chrono::serde::ts_microseconds_option, u_naive, u_wrap);
ts_mod!(UNs, DateTime<Utc>, "utc", "ns", 1_000_000_000, chrono::serde::ts_nanoseconds, chrono::serde::ts_nanoseconds_option, u_naive, u_wrap);
ts_mod!(NS, NaiveDateTime, "naive", "s", 1, chrono::naive::serde::ts_seconds, chrono::naive::serde::ts_seconds_option, n_naive, n_wrap);
ts_mod!(NMs, NaiveDateTime, "naive", "ms", 1_000, chrono::naive::serde::ts_milliseconds, chrono::naive::serde::ts_milliseconds_option, n_naive, n_wrap);
ts_mod!(NUs, NaiveDateTime, "naive", "us", 1_000_000, chrono::naive::serde::ts_microseconds, chrono::naive::serde::ts_microseconds_option, n_naive, n_wrap);
ts_mod!(NNs, NaiveDateTime, "naive", "ns", 1_000_000_000, chrono::naive::serde::ts_nanoseconds, chrono::naive::serde::ts_nanoseconds_option, n_naive, n_wrap);

// ---- `#[serde(with = "ts_*")]` fields ------------------------------------------------------------------
// The shape `#[derive(Serialize, Deserialize)] struct W { #[serde(with = "m")] t: V }` expands to
// (serde_derive: `serialize_struct` + `serialize_field("t", &__SerializeWith)`, `deserialize_struct` with a visitor
// whose `visit_seq` / `visit_map` ask for a `__DeserializeWith` element whose `Deserialize` is `m::deserialize`),
// written out by hand for all sixteen modules at once: the harness's `serde` dependency is built without the
// `derive` feature (harness/Cargo.toml is not editable in a builder round).  What this adds over calling
// `M::de(&mut Deserializer)` directly: the module runs in FIELD position of a struct, i.e. behind
// serde_json's `MapAccess::next_value_seed` (`{"t":v}`) and bincode's `SeqAccess::next_element_seed`.
struct W<M: TsMod>(M::V);
struct WOp<M: TsMod>(Option<M::V>);
struct SerWith<'a, M: TsMod>(&'a M::V);
struct SerWithO<'a, M: TsMod>(&'a Option<M::V>);
struct DeWith<M: TsMod>(M::V);
struct DeWithO<M: TsMod>(Option<M::V>);
impl<M: TsMod> Serialize for SerWith<'_, M> {
    fn serialize<S: Serializer>(&self, s: S) -> Result<S::Ok, S::Error> {
        M::ser(self.0, s)
    }
}
impl<M: TsMod> Serialize for SerWithO<'_, M> {
    fn serialize<S: Serializer>(&self, s: S) -> Result<S::Ok, S::Error> {
        M::ser_o(self.0, s)
    }
}
impl<'de, M: TsMod> Deserialize<'de> for DeWith<M> {
    fn deserialize<D: Deserializer<'de>>(d: D) -> Result<Self, D::Error> {
        M::de(d).map(DeWith)
    }
}
impl<'de, M: TsMod> Deserialize<'de> for DeWithO<M> {
    fn deserialize<D: Deserializer<'de>>(d: D) -> Result<Self, D::Error> {
        M::de_o(d).map(DeWithO)
    }
}
impl<M: TsMod> Serialize for W<M> {
    fn serialize<S: Serializer>(&self, s: S) -> Result<S::Ok, S::Error> {
        use serde::ser::SerializeStruct;
        let mut st = s.serialize_struct("W", 1)?;
        st.serialize_field("t", &SerWith::<M>(&self.0))?;
        st.end()
    }
}
impl<M: TsMod> Serialize for WOp<M> {
    fn serialize<S: Serializer>(&self, s: S) -> Result<S::Ok, S::Error> {
        use serde::ser::SerializeStruct;
        let mut st = s.serialize_struct("WOp", 1)?;
        st.serialize_field("t", &SerWithO::<M>(&self.0))?;
        st.end()
    }
}
struct FieldVisitor<X>(std::marker::PhantomData<X>);
impl<'de, X: Deserialize<'de>> Visitor<'de> for FieldVisitor<X> {
    type Value = X;
    fn expecting(&self, f: &mut std::fmt::Formatter) -> std::fmt::Result {
        f.write_str("struct with the field t")
    }
    fn visit_seq<A: serde::de::SeqAccess<'de>>(self, mut seq: A) -> Result<X, A::Error> {
        match seq.next_element::<X>()? {
            Some(x) => Ok(x),
            None => Err(serde::de::Error::invalid_length(0, &self)),
        }
    }
    fn visit_map<A: serde::de::MapAccess<'de>>(self, mut map: A) -> Result<X, A::Error> {
        let mut t: Option<X> = None;
        while let Some(k) = map.next_key::<String>()? {
            if k == "t" {
                if t.is_some() {
                    return Err(serde::de::Error::duplicate_field("t"));
                }
                t = Some(map.next_value::<X>()?);
            } else {
                map.next_value::<serde::de::IgnoredAny>()?;
            }
        }
        t.ok_or_else(|| serde::de::Error::missing_field("t"))
    }
}
impl<'de, M: TsMod> Deserialize<'de> for W<M> {
    fn deserialize<D: Deserializer<'de>>(d: D) -> Result<Self, D::Error> {
        d.deserialize_struct("W", &["t"], FieldVisitor::<DeWith<M>>(std::marker::PhantomData)).map(|x| W(x.0))
    }
}
impl<'de, M: TsMod> Deserialize<'de> for WOp<M> {
    fn deserialize<D: Deserializer<'de>>(d: D) -> Result<Self, D::Error> {
        d.deserialize_struct("WOp", &["t"], FieldVisitor::<DeWithO<M>>(std::marker::PhantomData)).map(|x| WOp(x.0))
    }
}

// ---- generators -------------------------------------------------------------------------------------
const FRACS: [u32; 14] = [
    0, 1, 999, 1_000, 1_001, 999_999, 1_000_000, 1_000_001, 999_000_000, 999_999_000, 999_999_999, 500_000_000,
    123_456_789, 854_775_807,
];
const SECS: [u32; 10] = [0, 1, 59, 60, 3_599, 3_600, 43_200, 86_340, 86_398, 86_399];

fn gen_time(c: &mut Ctx) -> NaiveTime {
    let secs = if c.rng.chance(1, 2) { *c.rng.pick(&SECS) } else { c.rng.below(86_400) as u32 };
    let frac = if c.rng.chance(1, 2) { *c.rng.pick(&FRACS) } else { c.rng.nanos() };
    match c.rng.below(32) {
        // a leap second where the constructors allow it
        0 | 1 => mk_time(secs / 60 * 60 + 59, frac + 1_000_000_000),
        // a leap-second representation on another second (only `with_nanosecond` builds it)
        2 => mk_time(secs, frac + 1_000_000_000),
        _ => mk_time(secs, frac),
    }
}
/// boundary instants as (seconds, nanoseconds): range ends, epoch, the ends of the 64-bit nanosecond
/// window, the last instants whose milli/microsecond counts fit
fn special_instants() -> Vec<(i64, u32)> {
    let lo = NaiveDateTime::MIN.and_utc().timestamp();
    let hi = NaiveDateTime::MAX.and_utc().timestamp();
    let mut v = vec![
        (lo, 0),
        (lo, 1),
        (lo, 999_999_999),
        (lo + 1, 0),
        (lo + 86_399, 999_999_999),
        (hi, 0),
        (hi, 999_999_999),
        (hi, 999_999_998),
        (hi, 1_999_999_999),
        (hi - 1, 999_999_999),
        (hi - 86_399, 0),
        (0, 0),
        (0, 1),
        (0, 999_999_999),
        (1, 0),
        (-1, 0),
        (-1, 999_999_999),
        (-1, 999_999_000),
        (-1, 999_000_000),
        (-1, 1),
        (-2, 500_000_000),
        (59, 1_500_000_000),
        (-1, 1_000_000_000),
    ];
    // i64::MIN ns = -9223372037 s + 145224192 ns ; i64::MAX ns = 9223372036 s + 854775807 ns
    for d in -2i64..=2 {
        let a = i64::MIN as i128 + d as i128;
        let b = i64::MAX as i128 + d as i128;
        for x in [a, b] {
            v.push((x.div_euclid(1_000_000_000) as i64, x.rem_euclid(1_000_000_000) as u32));
        }
    }
    v
}
fn gen_ndt(c: &mut Ctx, special: &[(i64, u32)]) -> NaiveDateTime {
    match c.rng.below(8) {
        0 => {
            let (s, n) = *c.rng.pick(special);
            DateTime::from_timestamp(s, n).map(|d| d.naive_utc()).unwrap_or(NaiveDateTime::MAX)
        }
        1 => {
            // within a few seconds of the nanosecond window ends / the epoch / the range ends
            let base = *c.rng.pick(&[-9_223_372_037i64, 9_223_372_036, 0, special[0].0 + 3, special[5].0 - 3]);
            let s = base + c.rng.range(-3, 3);
            let n = if c.rng.chance(1, 2) { *c.rng.pick(&FRACS) } else { c.rng.nanos() };
            DateTime::from_timestamp(s, n).map(|d| d.naive_utc()).unwrap_or(NaiveDateTime::MIN)
        }
        // inside the 64-bit nanosecond window (1677-09-21 … 2262-04-11)
        2 => DateTime::from_timestamp_nanos(c.rng.range(i64::MIN, i64::MAX)).naive_utc(),
        _ => gen_date(c).and_time(gen_time(c)),
    }
}
/// integers to feed to a module whose unit is 1/P second: machine extremes, both range ends ±1 unit and
/// ± one second, negative sub-second counts, small and large magnitudes
fn gen_ints(c: &mut Ctx, p: i128, n: usize) -> Vec<i128> {
    let lo = NaiveDateTime::MIN.and_utc().timestamp() as i128;
    let hi = NaiveDateTime::MAX.and_utc().timestamp() as i128;
    let mut v: Vec<i128> = int_extremes();
    for d in [-2i128, -1, 0, 1, 2] {
        v.push(lo * p + d);
        v.push(lo * p - p + d);
        v.push(hi * p + d);
        v.push(hi * p + p - 1 + d);
        v.push(hi * p + p + d);
        v.push(d * p);
        v.push(d * p + d);
        v.push(-p + d);
        v.push(p + d);
        v.push(-86_400 * p + d);
        v.push(59 * p + d);
        v.push(i64::MAX as i128 / p + d);
        v.push(i64::MAX as i128 / p * p + d);
        v.push(i64::MIN as i128 / p * p + d);
        v.push(u64::MAX as i128 / p * p + d);
    }
    // where the day count of the instant meets the i32 range, with and without the shift from the Unix
    // epoch to day 1 of the common era (719_163 days): the narrowing inside `from_timestamp`
    for days in [i32::MAX as i128, i32::MIN as i128, i32::MAX as i128 - 719_163, i32::MIN as i128 - 719_163, i32::MAX as i128 + 719_163, i32::MIN as i128 + 719_163] {
        for d in [-2i128, -1, 0, 1, 2] {
            v.push((days + d) * 86_400 * p);
            v.push((days + d) * 86_400 * p + 86_399 * p + p - 1);
        }
    }
    v.retain(|x| *x >= i64::MIN as i128 && *x <= u64::MAX as i128);
    let boundary = v.len();
    while v.len() < boundary + n {
        let x: i128 = match c.rng.below(8) {
            0 => c.rng.log_i64() as i128,
            1 => -(c.rng.below(3 * p as u64 + 3) as i128), // negative sub-second counts
            2 => c.rng.range(lo as i64, hi as i64) as i128 * p + c.rng.below(p as u64) as i128,
            3 => (c.rng.next() >> c.rng.below(64)) as i128, // u64 of every magnitude
            4 => c.rng.range(-5_000_000_000, 5_000_000_000) as i128 * p / 1_000 + c.rng.range(-2, 2) as i128,
            5 => (if c.rng.chance(1, 2) { lo } else { hi }) * p + c.rng.range(-3, 3) as i128 * p + c.rng.range(-2, 2) as i128,
            6 => c.rng.range(i64::MIN, i64::MAX) as i128,
            _ if c.rng.chance(1, 2) => {
                // day counts within a million days of the i32 ends (past the calendar, inside the narrowing)
                let days = (if c.rng.chance(1, 2) { i32::MAX as i128 } else { i32::MIN as i128 }) + c.rng.range(-1_000_000, 1_000_000) as i128;
                days * 86_400 * p + c.rng.below(86_400 * p as u64) as i128
            }
            _ => c.rng.range(-100_000, 100_000) as i128,
        };
        if x >= i64::MIN as i128 && x <= u64::MAX as i128 {
            v.push(x);
        }
    }
    v
}

// ---- one module -------------------------------------------------------------------------------------
fn sde<E>(r: &Result<Result<NaiveDateTime, E>, ()>) -> String {
    match r {
        Ok(Ok(n)) => format!("ok {}", show_ndt(n)),
        Ok(Err(_)) => "err".into(),
        Err(()) => "panic".into(),
    }
}
fn sdeo<E>(r: &Result<Result<Option<NaiveDateTime>, E>, ()>) -> String {
    match r {
        Ok(Ok(Some(n))) => format!("ok {}", show_ndt(n)),
        Ok(Ok(None)) => "ok none".into(),
        Ok(Err(_)) => "err".into(),
        Err(()) => "panic".into(),
    }
}

/// the property's own verdict on feeding integer `v` (unit 1/P s) to a module: accepted exactly when the
/// floor second is representable, and then the value lies exactly `v` units from the epoch
fn judge_de<M: TsMod>(c: &mut Ctx, wire: &str, v: i128, got: &str, val: Option<NaiveDateTime>) {
    let sec = v.div_euclid(M::P);
    let want_ok = ts_min() <= sec && sec <= ts_max();
    let id = format!("{}.{} {} {}", M::TG, M::UNIT, wire, v);
    c.count(&format!("de:{}.{}:{}:{}", M::TG, M::UNIT, wire, if want_ok { "in-range" } else { "out-of-range" }));
    if got == "panic" {
        c.fail("timestamp module panics on an integer instead of returning an error", &id);
        return;
    }
    match (want_ok, val) {
        (true, None) => c.fail("timestamp module rejects an integer inside the representable range", &id),
        (false, Some(n)) => c.fail(
            "timestamp module accepts an integer outside the representable range",
            &format!("{id} -> {:?}", n),
        ),
        (true, Some(n)) => {
            if is_leap(&n) || inst_ns(&n) != v * (1_000_000_000 / M::P) {
                c.fail(
                    "timestamp module reads an integer as a different instant",
                    &format!("{id} -> {:?} (ns {})", n, inst_ns(&n)),
                );
            }
        }
        (false, None) => {}
    }
}

fn run_ints<M: TsMod>(c: &mut Ctx, n: usize) {
    let (tg, unit) = (M::TG, M::UNIT);
    for v in gen_ints(c, M::P, n) {
        let mut wires: Vec<WInt> = vec![];
        if v >= i64::MIN as i128 && v <= i64::MAX as i128 {
            wires.push(WInt::I(v as i64));
        }
        if v >= 0 {
            wires.push(WInt::U(v as u64));
        }
        let mut shown: Vec<String> = vec![];
        for w in &wires {
            let w = *w;
            let r = guard(|| M::de(WI(w)).map(|x| M::naive(&x)));
            let got = sde(&r);
            c.op(&format!("sd.de {tg} {unit} {}", wint_s(w)), &got);
            judge_de::<M>(c, if matches!(w, WInt::I(_)) { "i" } else { "u" }, v, &got, r.ok().and_then(|x| x.ok()));
            // the option module must treat `Some(integer)` alike, with its own inner visitor
            let ro = guard(|| M::de_o(WO(WOpt::Some(w))).map(|x| x.map(|y| M::naive(&y))));
            let goto = sdeo(&ro);
            c.op(&format!("sd.deo {tg} {unit} {}", wopt_s(WOpt::Some(w))), &goto);
            if goto != got {
                c.fail(
                    "option timestamp module disagrees with the plain module on Some(integer)",
                    &format!("{tg}.{unit} {} plain={got} option={goto}", wint_s(w)),
                );
            }
            shown.push(got);
        }
        // end to end: serde_json hands a negative integer to visit_i64 and a non-negative one to
        // visit_u64; bincode hands eight bytes to visit_i64
        let text = v.to_string();
        let rj = guard(|| {
            let mut d = serde_json::Deserializer::from_str(&text);
            M::de(&mut d).map(|x| M::naive(&x))
        });
        let want = if v < 0 { &shown[0] } else { shown.last().unwrap() };
        if &sde(&rj) != want {
            c.fail(
                "through serde_json the module answers differently than its visitor",
                &format!("{tg}.{unit} text {text}: json={} visitor={want}", sde(&rj)),
            );
        }
        let rjo = guard(|| {
            let mut d = serde_json::Deserializer::from_str(&text);
            M::de_o(&mut d).map(|x| x.map(|y| M::naive(&y)))
        });
        if &sdeo(&rjo) != want {
            c.fail(
                "through serde_json the option module answers differently than its visitor",
                &format!("{tg}.{unit} text {text}: json={} visitor={want}", sdeo(&rjo)),
            );
        }
        c.count_n("call:ts.json.de", 2);
        // the module in FIELD position of a struct (`#[serde(with = "ts_*")] t`): `{"t":v}`
        let doc = format!("{{\"t\":{text}}}");
        let rw = guard(|| serde_json::from_str::<W<M>>(&doc).map(|x| M::naive(&x.0)));
        let rwo = guard(|| serde_json::from_str::<WOp<M>>(&doc).map(|x| x.0.map(|y| M::naive(&y))));
        if &sde(&rw) != want || &sdeo(&rwo) != want {
            c.fail(
                "as a struct field through serde_json the module answers differently than its visitor",
                &format!("{tg}.{unit} {doc}: field={} option field={} visitor={want}", sde(&rw), sdeo(&rwo)),
            );
        }
        c.count_n("call:ts.field.json.de", 2);
        if v >= i64::MIN as i128 && v <= i64::MAX as i128 {
            let bytes = (v as i64).to_le_bytes();
            let rw = guard(|| bincode::deserialize::<W<M>>(&bytes).map(|x| M::naive(&x.0)));
            let mut ob = vec![1u8];
            ob.extend_from_slice(&bytes);
            let rwo = guard(|| bincode::deserialize::<WOp<M>>(&ob).map(|x| x.0.map(|y| M::naive(&y))));
            if sde(&rw) != shown[0] || sdeo(&rwo) != shown[0] {
                c.fail(
                    "as a struct field through bincode the module answers differently than visit_i64",
                    &format!("{tg}.{unit} {v}: field={} option field={} visitor={}", sde(&rw), sdeo(&rwo), shown[0]),
                );
            }
            // and what was read is written back as the same document / the same bytes
            if let Ok(Ok(x)) = guard(|| bincode::deserialize::<W<M>>(&bytes)) {
                let back = guard(|| (serde_json::to_string(&x).ok(), bincode::serialize(&x).ok()));
                let o = WOp::<M>(Some(x.0.clone()));
                let backo = guard(|| (serde_json::to_string(&o).ok(), bincode::serialize(&o).ok()));
                if back != Ok((Some(doc.clone()), Some(bytes.to_vec()))) || backo != Ok((Some(doc.clone()), Some(ob.clone()))) {
                    c.fail(
                        "a struct field read from an integer is not written back as that integer",
                        &format!("{tg}.{unit} {v}: {:?} / {:?}", back, backo),
                    );
                }
            }
            c.count_n("call:ts.field.bincode", 4);
        }
        if v <= i64::MAX as i128 {
            let bytes = (v as i64).to_le_bytes();
            let rb = guard(|| {
                let mut d = bincode::Deserializer::from_slice(&bytes, bopts());
                M::de(&mut d).map(|x| M::naive(&x))
            });
            if sde(&rb) != shown[0] {
                c.fail(
                    "through bincode the module answers differently than visit_i64",
                    &format!("{tg}.{unit} {v}: bincode={} visitor={}", sde(&rb), shown[0]),
                );
            }
            let mut ob = vec![1u8];
            ob.extend_from_slice(&bytes);
            let rbo = guard(|| {
                let mut d = bincode::Deserializer::from_slice(&ob, bopts());
                M::de_o(&mut d).map(|x| x.map(|y| M::naive(&y)))
            });
            if sdeo(&rbo) != shown[0] {
                c.fail(
                    "through bincode the option module answers differently than visit_i64",
                    &format!("{tg}.{unit} {v}: bincode={} visitor={}", sdeo(&rbo), shown[0]),
                );
            }
            c.count_n("call:ts.bincode.de", 2);
        }
    }
    // everything that is not an integer: an error, never a panic; None / unit / null -> Ok(None)
    for k in 0..6u8 {
        let r = guard(|| M::de(WI(WInt::X(k))).map(|x| M::naive(&x)));
        c.op(&format!("sd.de {tg} {unit} x"), &sde(&r));
        let ro = guard(|| M::de_o(WO(WOpt::Some(WInt::X(k)))).map(|x| x.map(|y| M::naive(&y))));
        c.op(&format!("sd.deo {tg} {unit} some x"), &sdeo(&ro));
    }
    for w in [WOpt::None, WOpt::Unit, WOpt::Other] {
        let ro = guard(|| M::de_o(WO(w)).map(|x| x.map(|y| M::naive(&y))));
        c.op(&format!("sd.deo {tg} {unit} {}", wopt_s(w)), &sdeo(&ro));
    }
    for text in ["\"1\"", "1.5", "1e3", "true", "null", "[1]", "{}", "18446744073709551616", "-9223372036854775809", "1e400", "", "-", "01"] {
        let rj = guard(|| {
            let mut d = serde_json::Deserializer::from_str(text);
            M::de(&mut d).map(|x| M::naive(&x))
        });
        if sde(&rj) != "err" {
            c.fail("timestamp module does not refuse a non-integer JSON value", &format!("{tg}.{unit} {text:?} -> {}", sde(&rj)));
        }
        let rjo = guard(|| {
            let mut d = serde_json::Deserializer::from_str(text);
            M::de_o(&mut d).map(|x| x.map(|y| M::naive(&y)))
        });
        let want = if text == "null" { "ok none" } else { "err" };
        if sdeo(&rjo) != want {
            c.fail("option timestamp module mishandles a non-integer JSON value", &format!("{tg}.{unit} {text:?} -> {}", sdeo(&rjo)));
        }
    }
    for bytes in [&[][..], &[0u8][..], &[1u8][..], &[2u8, 0, 0, 0, 0, 0, 0, 0, 0][..], &[1u8, 0, 0][..]] {
        let rb = guard(|| {
            let mut d = bincode::Deserializer::from_slice(bytes, bopts());
            M::de_o(&mut d).map(|x| x.map(|y| M::naive(&y)))
        });
        let want = if bytes == [0u8] { "ok none" } else { "err" };
        if sdeo(&rb) != want {
            c.fail("option timestamp module mishandles a short / wrong bincode input", &format!("{tg}.{unit} {bytes:?} -> {}", sdeo(&rb)));
        }
    }
}

/// serialize through bincode and report which serializer call was made: 8 bytes = `serialize_i64(n)`,
/// tag 1 + 8 bytes = `serialize_some(&n)`, tag 0 = `serialize_none()`
fn ser_bin<M: TsMod>(v: &M::V) -> Result<Result<Vec<u8>, ()>, ()> {
    guard(|| {
        let mut buf = Vec::new();
        let mut s = bincode::Serializer::new(&mut buf, bopts());
        match M::ser(v, &mut s) {
            Ok(()) => Ok(buf),
            Err(_) => Err(()),
        }
    })
}
fn ser_bin_o<M: TsMod>(v: &Option<M::V>) -> Result<Result<Vec<u8>, ()>, ()> {
    guard(|| {
        let mut buf = Vec::new();
        let mut s = bincode::Serializer::new(&mut buf, bopts());
        match M::ser_o(v, &mut s) {
            Ok(()) => Ok(buf),
            Err(_) => Err(()),
        }
    })
}
fn ser_json<M: TsMod>(v: &M::V) -> Result<Result<String, ()>, ()> {
    guard(|| {
        let mut buf = Vec::new();
        let mut s = serde_json::Serializer::new(&mut buf);
        match M::ser(v, &mut s) {
            Ok(()) => Ok(String::from_utf8(buf).unwrap()),
            Err(_) => Err(()),
        }
    })
}
fn ser_json_o<M: TsMod>(v: &Option<M::V>) -> Result<Result<String, ()>, ()> {
    guard(|| {
        let mut buf = Vec::new();
        let mut s = serde_json::Serializer::new(&mut buf);
        match M::ser_o(v, &mut s) {
            Ok(()) => Ok(String::from_utf8(buf).unwrap()),
            Err(_) => Err(()),
        }
    })
}
fn show_bin(r: &Result<Result<Vec<u8>, ()>, ()>) -> String {
    match r {
        Err(()) => "panic".into(),
        Ok(Err(())) => "err".into(),
        Ok(Ok(b)) => match b.len() {
            8 => format!("ok i64 {}", i64::from_le_bytes(b[..8].try_into().unwrap())),
            9 if b[0] == 1 => format!("ok some {}", i64::from_le_bytes(b[1..9].try_into().unwrap())),
            1 if b[0] == 0 => "ok none".into(),
            _ => format!("ok bytes {:?}", b),
        },
    }
}

fn run_values<M: TsMod>(c: &mut Ctx, n: usize, special: &[(i64, u32)]) {
    let (tg, unit) = (M::TG, M::UNIT);
    let q = (1_000_000_000 / M::P) as u32; // nanoseconds per unit
    {
        let none: Option<M::V> = None;
        c.op(&format!("sd.sero {tg} {unit} none"), &show_bin(&ser_bin_o::<M>(&none)));
        if ser_json_o::<M>(&none) != Ok(Ok("null".to_string())) {
            c.fail("option timestamp module does not write None as null", &format!("{tg}.{unit}"));
        }
        let back = guard(|| {
            let mut d = serde_json::Deserializer::from_str("null");
            M::de_o(&mut d).ok()
        });
        if back != Ok(Some(None)) {
            c.fail("option timestamp module does not read None back", &format!("{tg}.{unit} json"));
        }
        let back = guard(|| {
            let mut d = bincode::Deserializer::from_slice(&[0u8], bopts());
            M::de_o(&mut d).ok()
        });
        if back != Ok(Some(None)) {
            c.fail("option timestamp module does not read None back", &format!("{tg}.{unit} bincode"));
        }
    }
    for i in 0..n {
        let nd = if i < special.len() {
            let (s, f) = special[i];
            match DateTime::from_timestamp(s, f) {
                Some(d) => d.naive_utc(),
                None => continue,
            }
        } else {
            gen_ndt(c, special)
        };
        let v = M::wrap(nd);
        let id = format!("{tg}.{unit} {:?}", nd);
        let bin = ser_bin::<M>(&v);
        let shown = show_bin(&bin);
        c.op(&format!("sd.ser {tg} {unit} {}", show_ndt(&nd)), &shown);
        let some = Some(v.clone());
        let bin_o = ser_bin_o::<M>(&some);
        c.op(&format!("sd.sero {tg} {unit} {}", show_ndt(&nd)), &show_bin(&bin_o));
        let js = ser_json::<M>(&v);
        let js_o = ser_json_o::<M>(&some);
        c.count_n("call:ts.ser", 4);
        if shown == "panic" || js.is_err() || bin_o.is_err() || js_o.is_err() {
            c.fail("timestamp module panics while serializing", &id);
            continue;
        }
        let leap = is_leap(&nd);
        // the exact integer: floor of the nanosecond position in the module's unit
        let exact = if leap { inst_secs(&nd) } else { inst_ns(&nd).div_euclid(q as i128) };
        let fits = exact >= i64::MIN as i128 && exact <= i64::MAX as i128;
        let cls = if leap {
            "leap"
        } else if !fits {
            "outside-i64"
        } else if exact < 0 {
            "negative"
        } else {
            "non-negative"
        };
        c.count(&format!("ser:{tg}.{unit}:{cls}"));
        if !leap || unit == "s" {
            let want = if fits { format!("ok i64 {exact}") } else { "err".to_string() };
            if shown != want {
                c.fail("timestamp module does not write the exact integer timestamp", &format!("{id}: wrote {shown}, exact {want}"));
            }
            let want_o = if fits { format!("ok some {exact}") } else { "err".to_string() };
            if show_bin(&bin_o) != want_o {
                c.fail("option timestamp module does not write the exact integer timestamp", &format!("{id}: wrote {}, exact {want_o}", show_bin(&bin_o)));
            }
            let want_j = if fits { Ok(exact.to_string()) } else { Err(()) };
            if js != Ok(want_j.clone()) || js_o != Ok(want_j) {
                c.fail("timestamp module does not write the exact integer timestamp as JSON", &format!("{id}: wrote {:?} / {:?}, exact {exact}", js, js_o));
            }
        }
        // round trip at the module's precision (a timestamp cannot carry a leap second)
        if !leap && fits {
            let want = trunc(&nd, q);
            let text = js.clone().unwrap().unwrap();
            let bytes = bin.clone().unwrap().unwrap();
            let bytes_o = bin_o.clone().unwrap().unwrap();
            let text_o = js_o.clone().unwrap().unwrap();
            let r1 = guard(|| {
                let mut d = serde_json::Deserializer::from_str(&text);
                M::de(&mut d).ok().map(|x| M::naive(&x))
            });
            let r2 = guard(|| {
                let mut d = bincode::Deserializer::from_slice(&bytes, bopts());
                M::de(&mut d).ok().map(|x| M::naive(&x))
            });
            let r3 = guard(|| {
                let mut d = serde_json::Deserializer::from_str(&text_o);
                M::de_o(&mut d).ok().map(|x| x.map(|y| M::naive(&y)))
            });
            let r4 = guard(|| {
                let mut d = bincode::Deserializer::from_slice(&bytes_o, bopts());
                M::de_o(&mut d).ok().map(|x| x.map(|y| M::naive(&y)))
            });
            c.count_n("call:ts.roundtrip", 4);
            if r1 != Ok(Some(want)) || r2 != Ok(Some(want)) {
                c.fail(
                    "timestamp module does not read its own output back at its precision",
                    &format!("{id}: json {:?} bincode {:?} want {:?}", r1, r2, want),
                );
            }
            if r3 != Ok(Some(Some(want))) || r4 != Ok(Some(Some(want))) {
                c.fail(
                    "option timestamp module does not read its own output back at its precision",
                    &format!("{id}: json {:?} bincode {:?} want {:?}", r3, r4, want),
                );
            }
        }
    }
}

// ---- known findings (known_findings.json F20, F21, F22): the what-strings are matched there, verbatim ----
/// F20: the RFC 3339 writer rounds a sub-minute offset to whole minutes and keeps the wall clock
const F_A: &str = "zone-aware round trip changes the instant for a sub-minute offset";
/// F21: the wall-clock date lies outside NaiveDate::MIN..=MAX; written (F06 repaired) but refused on reading
const F_B: &str = "serialized zone-aware value near the range end is not readable";
/// F22: nanosecond field >= 10^9 on a second other than :59 prints as the following second
const F_C: &str = "leap-second representation on a second other than :59 does not round-trip";

// ---- string forms ------------------------------------------------------------------------------------
/// a single edit of a serialized text
fn mutate_text(c: &mut Ctx, text: &str) -> String {
    let mut b = text.as_bytes().to_vec();
    if b.is_empty() {
        return "0".to_string();
    }
    let k = c.rng.below(b.len() as u64) as usize;
    match c.rng.below(6) {
        0 => {
            b.remove(k);
        }
        1 => b.insert(k, *c.rng.pick(b"0159 :-+TZtz.")),
        2 => b[k] = *c.rng.pick(b"0123456789:-+ TZtz."),
        3 => b = String::from_utf8(b).unwrap().replace('T', " ").into_bytes(),
        4 => b.insert(0, b' '),
        _ => b.extend_from_slice(*c.rng.pick(&[&b" "[..], &b"Z"[..], &b".5"[..], &b":00"[..], &b"x"[..]])),
    }
    String::from_utf8(b).unwrap()
}
/// correspondence for one value of a naive string-form type: the text `Serialize` produces (as serde_json
/// stores it; the texts are plain ASCII, so the JSON string is the text between the quotes) against the model
/// of the writer (`<pfx>.ser`), and `Deserialize` on that text — when `edit` is set also on a
/// single-edit mutation of it — against the model of `visit_str` (`<pfx>.de`)
fn str_corr<T: Serialize + for<'a> Deserialize<'a>>(
    c: &mut Ctx,
    pfx: &str,
    arg: &str,
    v: &T,
    show: fn(&T) -> String,
    edit: bool,
) {
    let text = match guard(|| serde_json::to_string(v)) {
        Ok(Ok(s)) => {
            let t = s.trim_matches('"').to_string();
            c.op(&format!("{pfx}.ser {arg}"), &hex(t.as_bytes()));
            // wire oracles (audit2 LOW-1): the JSON document is the text between two quotes, nothing escaped;
            // the bincode document is the u64-LE byte length followed by the very same text
            if s != format!("\"{t}\"") || t.bytes().any(|b| b == b'"' || b == b'\\' || b < 0x20 || b >= 0x7f) {
                c.fail("wire: JSON form of a string type is not the quoted plain ASCII text", &format!("{pfx} {arg} -> {s}"));
            }
            c.count_n("call:wire.str.bincode", 1);
            match guard(|| bincode::serialize(v)) {
                Ok(Ok(b)) => {
                    let mut want = (t.len() as u64).to_le_bytes().to_vec();
                    want.extend_from_slice(t.as_bytes());
                    if b != want {
                        c.fail("wire: bincode bytes of a string type differ from u64-LE length ++ text", &format!("{pfx} {arg} -> {}", hex(&b)));
                    }
                }
                Ok(Err(e)) => c.fail("wire: bincode refuses a string type that serde_json writes", &format!("{pfx} {arg}: {e}")),
                Err(()) => c.fail("wire: bincode serialization of a string type panics", &format!("{pfx} {arg}")),
            }
            t
        }
        Ok(Err(_)) => {
            c.op(&format!("{pfx}.ser {arg}"), "err");
            return;
        }
        Err(()) => {
            c.op(&format!("{pfx}.ser {arg}"), "panic");
            return;
        }
    };
    let mut texts = vec![text.clone()];
    if edit {
        texts.push(mutate_text(c, &text));
    }
    for t in &texts {
        let q = serde_json::to_string(t).unwrap();
        let r = guard(|| serde_json::from_str::<T>(&q));
        let shown = match &r {
            Ok(Ok(x)) => format!("ok {}", show(x)),
            Ok(Err(_)) => "err".to_string(),
            Err(()) => "panic".to_string(),
        };
        c.op(&format!("{pfx}.de {}", hex(t.as_bytes())), &shown);
        // the same text (original and edited) reaches `visit_str` through bincode too: same answer
        let mut bytes = (t.len() as u64).to_le_bytes().to_vec();
        bytes.extend_from_slice(t.as_bytes());
        let rb = guard(|| bincode::deserialize::<T>(&bytes));
        let shown_b = match &rb {
            Ok(Ok(x)) => format!("ok {}", show(x)),
            Ok(Err(_)) => "err".to_string(),
            Err(()) => "panic".to_string(),
        };
        c.count_n("call:wire.str.bincode.de", 1);
        if shown_b != shown {
            c.fail(
                "wire: a text read through bincode gives another answer than through serde_json",
                &format!("{pfx} {:?}: json {shown}, bincode {shown_b}", t),
            );
        }
    }
}
fn show_date(d: &NaiveDate) -> String {
    format!("{}", yof(d))
}
fn show_time(t: &NaiveTime) -> String {
    format!("{} {}", t.num_seconds_from_midnight(), t.nanosecond())
}
fn via_json<T: Serialize, U: for<'a> Deserialize<'a>>(v: &T) -> Result<Result<U, String>, ()> {
    guard(|| {
        let s = serde_json::to_string(v).map_err(|e| format!("ser: {e}"))?;
        serde_json::from_str::<U>(&s).map_err(|e| format!("de {s}: {e}"))
    })
}
fn via_bin<T: Serialize, U: for<'a> Deserialize<'a>>(v: &T) -> Result<Result<U, String>, ()> {
    guard(|| {
        let b = bincode::serialize(v).map_err(|e| format!("ser: {e}"))?;
        bincode::deserialize::<U>(&b).map_err(|e| format!("de: {e}"))
    })
}
/// both formats must give back exactly `v`
fn same<T: Serialize + for<'a> Deserialize<'a> + PartialEq + std::fmt::Debug>(c: &mut Ctx, what: &str, v: &T) {
    let a = via_json::<T, T>(v);
    let b = via_bin::<T, T>(v);
    c.count_n(&format!("call:{what}"), 2);
    if a.as_ref().ok().and_then(|x| x.as_ref().ok()) != Some(v) {
        c.fail(&format!("{what} does not come back through serde_json"), &format!("{:?} -> {:?}", v, a));
    }
    if b.as_ref().ok().and_then(|x| x.as_ref().ok()) != Some(v) {
        c.fail(&format!("{what} does not come back through bincode"), &format!("{:?} -> {:?}", v, b));
    }
}

fn gen_offset(c: &mut Ctx, i: usize) -> i32 {
    match c.rng.below(8) {
        // every whole-minute offset in turn
        0..=3 => ((i % 2879) as i32 - 1439) * 60,
        4 => *c.rng.pick(&[0, 60, -60, 3600, -3600, 86_340, -86_340, 50_400, -43_200, 19_800, 20_700]),
        // offsets with a seconds part (the RFC 3339 writer cannot show them)
        5 => *c.rng.pick(&[1, -1, 29, 30, 31, -29, -30, -31, 59, -59, 3650, 86_399, -86_399, 3_629, 3_630]),
        6 => c.rng.range(-86_399, 86_399) as i32,
        _ => c.rng.range(-1439, 1439) as i32 * 60,
    }
}

fn run_zoned(c: &mut Ctx, n: usize, special: &[(i64, u32)]) {
    let mut whole_seen = std::collections::BTreeSet::new();
    for i in 0..n {
        let nd = if i < 4 * special.len() {
            let (s, f) = special[i % special.len()];
            match DateTime::from_timestamp(s, f) {
                Some(d) => d.naive_utc(),
                None => continue,
            }
        } else {
            gen_ndt(c, special)
        };
        // boundary instants at four offsets, then every whole-minute offset once, then the generator
        let off = if i < 4 * special.len() {
            [0, 3600, -3600, 86_340][i / special.len()]
        } else if i < 4 * special.len() + 2879 {
            ((i - 4 * special.len()) as i32 - 1439) * 60
        } else {
            gen_offset(c, i)
        };
        if off % 60 == 0 {
            whole_seen.insert(off);
        }
        let fo = FixedOffset::east_opt(off).unwrap();
        let u: DateTime<Utc> = nd.and_utc();
        let z: DateTime<FixedOffset> = u.with_timezone(&fo);
        let wall = inst_secs(&nd) + off as i128;
        let out_of_range_wall = wall < ts_min() || wall > ts_max();
        let strict = is_strict(&nd.time());
        // a leap second seen through an offset with a seconds part no longer sits on a second :59
        let local_strict =
            !is_leap(&nd) || (nd.time().num_seconds_from_midnight() as i64 + off as i64).rem_euclid(60) == 59;
        let whole = off % 60 == 0;
        let cls = if out_of_range_wall {
            "wall-clock-outside-range"
        } else if !strict || !local_strict {
            "leap-on-other-second"
        } else if !whole {
            "offset-with-seconds"
        } else if is_leap(&nd) {
            "leap-second"
        } else {
            "regular"
        };
        c.count(&format!("zoned:{cls}"));
        // UTC source: always the plain case unless the leap representation is irregular
        if strict {
            same(c, "DateTime<Utc>", &u);
            let a = via_json::<_, DateTime<FixedOffset>>(&u);
            if !matches!(&a, Ok(Ok(x)) if *x == u && x.offset().local_minus_utc() == 0) {
                c.fail("DateTime<Utc> read as DateTime<FixedOffset> is not the same instant at +00:00", &format!("{:?} -> {:?}", u, a));
            }
        } else {
            // only this class may be excused as F22: nanosecond field >= 10^9 on a second other than :59
            let a = via_json::<_, DateTime<Utc>>(&u);
            match &a {
                Ok(Ok(x)) if x.naive_utc() == nd => c.count("leap-on-other-second:utc:kept"),
                Ok(_) => c.fail(F_C, &format!("DateTime<Utc> {:?} -> {:?}", u, a)),
                Err(()) => c.fail("DateTime<Utc> round trip panics", &format!("{:?}", u)),
            }
        }
        // fixed-offset source through both formats into the three targets
        let sj = guard(|| serde_json::to_string(&z));
        let sb = guard(|| bincode::serialize(&z));
        c.count_n("call:DateTime<FixedOffset>.ser", 2);
        let (sj, sb) = match (sj, sb) {
            (Ok(Ok(a)), Ok(Ok(b))) => (a, b),
            (a, b) => {
                // the direct oracle of finding F06: serializing returns normally for every value
                c.fail("Serialize for DateTime<FixedOffset> does not return normally", &format!("{:?} at {off}: {:?} / {:?}", nd, a, b.map(|x| x.map(|_| ()))));
                continue;
            }
        };
        if i < 8 {
            c.sample(&format!("DateTime<FixedOffset> {:?} -> {}", z, sj));
        }
        // correspondence with the composed writer / reader models (Model/SerdeStr.lean)
        let text = sj.trim_matches('"').to_string();
        c.op(&format!("sd.dt.ser {} {off}", show_ndt(&nd)), &hex(text.as_bytes()));
        let shown = |r: Result<Result<DateTime<FixedOffset>, serde_json::Error>, ()>| match r {
            Ok(Ok(x)) => format!("ok {} {}", show_ndt(&x.naive_utc()), x.offset().local_minus_utc()),
            Ok(Err(_)) => "err".to_string(),
            Err(()) => "panic".to_string(),
        };
        let mut texts = vec![text.clone()];
        if i % 4 == 0 && !text.is_empty() {
            // a single edit of the text: the reader's acceptance is compared as well
            let mut b = text.clone().into_bytes();
            let k = c.rng.below(b.len() as u64) as usize;
            match c.rng.below(6) {
                0 => {
                    b.remove(k);
                }
                1 => b.insert(k, *c.rng.pick(b"0159 :-+TZtz.")),
                2 => b[k] = *c.rng.pick(b"0123456789:-+ TZtz."),
                3 => b = String::from_utf8(b).unwrap().replace('T', " ").into_bytes(),
                4 => b = String::from_utf8(b).unwrap().to_lowercase().into_bytes(),
                _ => b.extend_from_slice(*c.rng.pick(&[&b" "[..], &b"Z"[..], &b"+00"[..], &b" UTC"[..], &b"x"[..]])),
            }
            texts.push(String::from_utf8(b).unwrap());
        }
        for t in &texts {
            let q = serde_json::to_string(t).unwrap();
            let rf = guard(|| serde_json::from_str::<DateTime<FixedOffset>>(&q));
            c.op(&format!("sd.dt.de fixed {}", hex(t.as_bytes())), &shown(rf));
            let ru = guard(|| serde_json::from_str::<DateTime<Utc>>(&q).map(|x| x.fixed_offset()));
            c.op(&format!("sd.dt.de utc {}", hex(t.as_bytes())), &shown(ru));
        }
        let tf = guard(|| serde_json::from_str::<DateTime<FixedOffset>>(&sj).map_err(|e| e.to_string()));
        let tu = guard(|| serde_json::from_str::<DateTime<Utc>>(&sj).map_err(|e| e.to_string()));
        let bf = guard(|| bincode::deserialize::<DateTime<FixedOffset>>(&sb).map_err(|e| e.to_string()));
        let bu = guard(|| bincode::deserialize::<DateTime<Utc>>(&sb).map_err(|e| e.to_string()));
        c.count_n("call:DateTime<FixedOffset>.de", 4);
        if tf.is_err() || tu.is_err() || bf.is_err() || bu.is_err() {
            c.fail("Deserialize for DateTime panics", &format!("{sj}"));
            continue;
        }
        let (tf, tu, bf, bu) = (tf.unwrap(), tu.unwrap(), bf.unwrap(), bu.unwrap());
        if tf.as_ref().ok() != bf.as_ref().ok() || tu.as_ref().ok() != bu.as_ref().ok() {
            c.fail("serde_json and bincode disagree on a zone-aware value", &format!("{sj}: {:?} {:?} {:?} {:?}", tf, bf, tu, bu));
        }
        // the whole-domain characterisation (theorems datetime_roundtrip_any_offset / _wall_out_of_range), with
        // independent arithmetic: refused exactly when the wall clock is outside the range, the rounded offset
        // is a whole day, or the shown wall clock minus the rounded offset leaves the range; otherwise the
        // rounded offset, and the instant moved by exactly the rounding error (any leap representation)
        {
            let rounded = off.signum() * ((off.abs() + 30) / 60 * 60);
            let shown_wall = wall + if !is_leap(&nd) || wall.rem_euclid(60) == 59 { 0 } else { 1 };
            let refused = out_of_range_wall
                || rounded.abs() == 86_400
                || shown_wall - (rounded as i128) < ts_min()
                || shown_wall - (rounded as i128) > ts_max();
            let good = |r: &Result<DateTime<FixedOffset>, String>, want_off: i32| match r {
                Err(_) => refused,
                Ok(x) => {
                    !refused
                        && x.offset().local_minus_utc() == want_off
                        && inst_ns(&x.naive_utc()) - inst_ns(&nd) == (off - rounded) as i128 * 1_000_000_000
                }
            };
            let tu_f = tu.clone().map(|x| x.fixed_offset());
            c.count(if refused { "zoned:characterised:refused" } else { "zoned:characterised:read" });
            if !good(&tf, rounded) || !good(&tu_f, 0) {
                c.fail(
                    "zone-aware round trip differs from its characterisation (rounded offset, wall clock kept)",
                    &format!("{:?} at offset {off} s ({sj}) -> {:?} / {:?}", nd, tf, tu),
                );
            }
        }
        match cls {
            "regular" | "leap-second" => {
                match &tf {
                    Ok(x) if *x == z && x.naive_utc() == nd && x.offset().local_minus_utc() == off => {}
                    other => c.fail(
                        "DateTime<FixedOffset> does not come back as the same instant with the same offset",
                        &format!("{:?} ({sj}) -> {:?}", z, other),
                    ),
                }
                match &tu {
                    Ok(x) if x.naive_utc() == nd => {}
                    other => c.fail("DateTime<FixedOffset> read as DateTime<Utc> is not the same instant", &format!("{:?} ({sj}) -> {:?}", z, other)),
                }
                if i % 16 == 0 {
                    let tl = guard(|| serde_json::from_str::<DateTime<Local>>(&sj).map_err(|e| e.to_string()));
                    match &tl {
                        Ok(Ok(x)) if x.naive_utc() == nd => {}
                        other => c.fail("DateTime<FixedOffset> read as DateTime<Local> is not the same instant", &format!("{:?} ({sj}) -> {:?}", z, other)),
                    }
                    let l = Local.from_utc_datetime(&nd);
                    let a = via_json::<_, DateTime<Local>>(&l);
                    let b = via_bin::<_, DateTime<Local>>(&l);
                    if !matches!((&a, &b), (Ok(Ok(x)), Ok(Ok(y))) if x.naive_utc() == nd && y.naive_utc() == nd) {
                        c.fail("DateTime<Local> does not come back as the same instant", &format!("{:?} -> {:?} {:?}", l, a, b));
                    }
                    c.count_n("call:DateTime<Local>", 3);
                }
            }
            "offset-with-seconds" => {
                // The writer rounds the offset to whole minutes and keeps the wall clock, so the instant moves
                // by the rounding error (known finding F20; pinned by chrono's own test
                // `test_serde_serialize`).  What must still hold: readable, wall clock kept, offset = rounded.
                // (the magnitude is rounded half up, the sign kept; ±23:59:30 and beyond print as ±24:00,
                // which the reader refuses)
                let rounded = off.signum() * ((off.abs() + 30) / 60 * 60);
                match &tf {
                    Ok(x) if x.naive_local() == z.naive_local() && x.offset().local_minus_utc() == rounded => {
                        let moved = (inst_ns(&x.naive_utc()) - inst_ns(&nd)).abs();
                        if moved == 0 {
                            c.count("offset-with-seconds:instant-kept");
                        } else if moved < 60_000_000_000 {
                            // F20, and nothing else: offset not a whole minute, wall clock and rounded offset
                            // kept, instant off by less than a minute
                            c.fail(F_A, &format!("{:?} at offset {off} s -> {sj} -> {:?} (instant moved by {} s)", nd, x, (off - rounded)));
                        } else {
                            c.fail("zone-aware value with a sub-minute offset comes back a minute or more away", &format!("{:?} ({sj}) -> {:?}", z, x));
                        }
                    }
                    // two further consequences of the same rounding, with their own what-strings:
                    // an offset of ±23:59:30 or more is written as ±24:00, which the reader refuses
                    Err(_) if rounded.abs() == 86_400 => c.fail(
                        "zone-aware value with an offset beyond 23:59:30 is written with offset 24:00 and is not readable",
                        &format!("{:?} at offset {off} s -> {sj} -> {:?}", nd, tf),
                    ),
                    // at a range end the moved instant falls outside the representable range and is refused
                    Err(_) if wall - (rounded as i128) < ts_min() || wall - (rounded as i128) > ts_max() => c.fail(
                        "zone-aware value with a sub-minute offset next to the range end is not readable",
                        &format!("{:?} at offset {off} s -> {sj} -> {:?}", nd, tf),
                    ),
                    other => c.fail(
                        "DateTime<FixedOffset> with a seconds offset: wall clock or rounded offset not kept",
                        &format!("{:?} ({sj}) -> {:?}", z, other),
                    ),
                }
            }
            "wall-clock-outside-range" => {
                // serializing returned normally (F06); reading the text back is refused because the wall
                // clock date is outside NaiveDate's range (known finding F21)
                match &tf {
                    // F21, and nothing else: the wall-clock date is outside NaiveDate::MIN..=MAX and the text is refused
                    Err(_) => c.fail(F_B, &format!("{:?} at offset {off} s -> {sj} -> {:?}", nd, tf)),
                    Ok(x) if x.naive_utc() == nd => c.count("wall-clock-outside-range:readable"),
                    other => c.fail("value near the range end comes back as a different instant", &format!("{:?} ({sj}) -> {:?}", z, other)),
                }
            }
            _ => {
                // known finding F22: a leap-second representation on a second other than :59 prints as the next
                // second and is read back as that non-leap second
                // (F22: the UTC time or the wall-clock time has nanosecond >= 10^9 on a second other than :59)
                match &tf {
                    Ok(x) if x.naive_utc() == nd => c.count("leap-on-other-second:zoned:kept"),
                    other => c.fail(F_C, &format!("DateTime<FixedOffset> {:?} ({sj}) -> {:?}", z, other)),
                }
            }
        }
    }
    c.count_n("zoned:distinct-whole-minute-offsets(of 2879)", whole_seen.len() as u64);
}


// ---- DateTime<Local> as deserialization target and as source (audit gap MEDIUM-3) ---------------------
/// `Deserialize for DateTime<Local>` is the same visitor followed by `with_timezone(&Local)`.  The process
/// time zone is set to fixed-offset POSIX zones (whole-minute ones, one with a seconds part, zero); `Local`
/// is used on a fresh thread per zone (it caches the zone per thread).  Correspondence: `sd.dt.de local
/// <off> <text>` against `DateTimeStr.deserialize_local`; a `Local` source against `DateTimeStr.serialize` at
/// the offset the value reports.  Direct oracles: the `Local` reading is the `FixedOffset` reading of the same
/// text with the offset replaced by the zone's; on the property's domain the instant is the original one.
fn run_local(c: &mut Ctx, special: &[(i64, u32)]) {
    const ZONES: [(&str, i32); 6] = [
        ("UTC0", 0),
        ("AAA-05:30", 19_800),
        ("BBB+03", -10_800),
        ("CCC-13:59", 50_340),
        ("DDD-01:00:50", 3_650),
        ("EEE+00:00:29", -29),
    ];
    let n = c.n(600, 6_000);
    let old = std::env::var("TZ").ok();
    for (tz, zoff) in ZONES {
        // the cases: a value, the offset it is seen at, the text its fixed-offset form serializes to, and an
        // optional single-edit mutation of that text
        let mut cases: Vec<(NaiveDateTime, i32, Vec<String>)> = vec![];
        for i in 0..n {
            let nd = if i < special.len() {
                match DateTime::from_timestamp(special[i].0, special[i].1) {
                    Some(d) => d.naive_utc(),
                    None => continue,
                }
            } else {
                gen_ndt(c, special)
            };
            let off = if i % 3 == 0 { zoff } else { gen_offset(c, i) };
            let z = nd.and_utc().with_timezone(&FixedOffset::east_opt(off).unwrap());
            let text = match guard(|| serde_json::to_string(&z)) {
                Ok(Ok(s)) => s.trim_matches('"').to_string(),
                _ => continue, // judged by run_zoned
            };
            let mut texts = vec![text.clone()];
            if i % 4 == 0 {
                texts.push(mutate_text(c, &text));
            }
            cases.push((nd, off, texts));
        }
        std::env::set_var("TZ", tz);
        let cs = cases.clone();
        type R = Result<Result<(NaiveDateTime, i32), ()>, ()>;
        // per case: the Local reading of every text; the Local source: offset, text, value after the trip
        let out: Vec<(Vec<R>, Option<(i32, String, R, R)>)> = std::thread::spawn(move || {
            cs.iter()
                .map(|(nd, _, texts)| {
                    let reads = texts
                        .iter()
                        .map(|t| {
                            let q = serde_json::to_string(t).unwrap();
                            guard(|| {
                                serde_json::from_str::<DateTime<Local>>(&q)
                                    .map(|x| (x.naive_utc(), x.offset().local_minus_utc()))
                                    .map_err(|_| ())
                            })
                        })
                        .collect();
                    let src = guard(|| {
                        let l = Local.from_utc_datetime(nd);
                        let s = serde_json::to_string(&l).ok()?;
                        let a = guard(|| {
                            serde_json::from_str::<DateTime<Local>>(&s)
                                .map(|x| (x.naive_utc(), x.offset().local_minus_utc()))
                                .map_err(|_| ())
                        });
                        let b = guard(|| {
                            let bytes = bincode::serialize(&l).map_err(|_| ())?;
                            bincode::deserialize::<DateTime<Local>>(&bytes)
                                .map(|x| (x.naive_utc(), x.offset().local_minus_utc()))
                                .map_err(|_| ())
                        });
                        Some((l.offset().local_minus_utc(), s.trim_matches('"').to_string(), a, b))
                    })
                    .ok()
                    .flatten();
                    (reads, src)
                })
                .collect()
        })
        .join()
        .unwrap_or_default();
        match &old {
            Some(v) => std::env::set_var("TZ", v),
            None => std::env::remove_var("TZ"),
        }
        if out.len() != cases.len() {
            c.fail("DateTime<Local> worker thread died", tz);
            continue;
        }
        let shown = |r: &R| match r {
            Ok(Ok((u, o))) => format!("ok {} {o}", show_ndt(u)),
            Ok(Err(())) => "err".to_string(),
            Err(()) => "panic".to_string(),
        };
        for ((nd, off, texts), (reads, src)) in cases.iter().zip(out.iter()) {
            // --- target DateTime<Local> ---
            for (k, (t, r)) in texts.iter().zip(reads.iter()).enumerate() {
                c.op(&format!("sd.dt.de local {zoff} {}", hex(t.as_bytes())), &shown(r));
                c.count("call:DateTime<Local>.de");
                let q = serde_json::to_string(t).unwrap();
                let rf = guard(|| serde_json::from_str::<DateTime<FixedOffset>>(&q).map(|x| x.naive_utc()).map_err(|_| ()));
                // the Local reading = the FixedOffset reading of the same text, offset replaced by the zone's
                let want: Result<Result<(NaiveDateTime, i32), ()>, ()> = rf.map(|x| x.map(|u| (u, zoff)));
                if *r != want {
                    c.fail(
                        "DateTime<Local> target is not the DateTime<FixedOffset> reading at the local offset",
                        &format!("TZ={tz} {t}: {} want {}", shown(r), shown(&want)),
                    );
                }
                // on the domain of the instant clause: whole-minute offset, wall clock inside the range
                let wall = inst_secs(nd) + *off as i128;
                if k == 0 && off % 60 == 0 && wall >= ts_min() && wall <= ts_max() {
                    c.count("local:target:instant-clause");
                    match r {
                        Ok(Ok((u, o))) if inst_ns(u) == inst_ns(nd) && *o == zoff && (!is_strict(&nd.time()) || u == nd) => {}
                        other => c.fail(
                            "DateTime<FixedOffset> read as DateTime<Local> is not the same instant",
                            &format!("TZ={tz} {:?} at {off} ({t}) -> {}", nd, shown(other)),
                        ),
                    }
                }
            }
            // --- source DateTime<Local> ---
            match src {
                None => c.fail("Serialize for DateTime<Local> does not return normally", &format!("TZ={tz} {:?}", nd)),
                Some((lo, text, a, b)) => {
                    c.count_n("call:DateTime<Local>.src", 3);
                    if *lo != zoff {
                        c.fail("Local does not report the offset of the fixed-offset TZ", &format!("TZ={tz}: {lo}"));
                    }
                    c.op(&format!("sd.dt.ser {} {lo}", show_ndt(nd)), &hex(text.as_bytes()));
                    if a != b {
                        c.fail("serde_json and bincode disagree on a DateTime<Local>", &format!("TZ={tz} {:?}: {} vs {}", nd, shown(a), shown(b)));
                    }
                    let wall = inst_secs(nd) + zoff as i128;
                    if wall < ts_min() || wall > ts_max() {
                        c.count("local:source:wall-clock-outside-range");
                        // F21 on a Local source: written, refused on reading
                        match a {
                            Ok(Err(())) => c.fail(F_B, &format!("Local TZ={tz} {:?} -> {text} -> err", nd)),
                            other => c.fail("Local value near the range end: not refused by value", &format!("TZ={tz} {:?} -> {}", nd, shown(other))),
                        }
                    } else if zoff % 60 == 0 {
                        c.count("local:source:instant-clause");
                        match a {
                            Ok(Ok((u, o))) if inst_ns(u) == inst_ns(nd) && *o == zoff && (!is_strict(&nd.time()) || u == nd) => {}
                            other => c.fail(
                                "DateTime<Local> does not come back as the same instant",
                                &format!("TZ={tz} {:?} ({text}) -> {}", nd, shown(other)),
                            ),
                        }
                    } else {
                        // a zone whose offset has a seconds part: F20 (the instant moves by the rounding error),
                        // F24 next to a range end; anything else is a violation
                        c.count("local:source:offset-with-seconds");
                        let rounded = zoff.signum() * ((zoff.abs() + 30) / 60 * 60);
                        let shown_wall = wall + if !is_leap(nd) || wall.rem_euclid(60) == 59 { 0 } else { 1 };
                        match a {
                            Ok(Ok((u, o))) if *o == zoff && inst_ns(u) - inst_ns(nd) == (zoff - rounded) as i128 * 1_000_000_000 => {
                                c.fail(F_A, &format!("Local TZ={tz} {:?} -> {text} -> {} (instant moved by {} s)", nd, shown(a), zoff - rounded))
                            }
                            Ok(Err(())) if shown_wall - (rounded as i128) < ts_min() || shown_wall - (rounded as i128) > ts_max() => c.fail(
                                "zone-aware value with a sub-minute offset next to the range end is not readable",
                                &format!("Local TZ={tz} {:?} -> {text} -> err", nd),
                            ),
                            other => c.fail(
                                "DateTime<Local> with a seconds offset: instant not moved by exactly the rounding error",
                                &format!("TZ={tz} {:?} ({text}) -> {}", nd, shown(other)),
                            ),
                        }
                    }
                }
            }
        }
    }
}

/// `Deserialize for DateTime<Local>` with zones whose offset is NOT a constant of the harness: a real DST
/// zone (a zoneinfo TZif file and the POSIX rule of the same zone), zones at the last representable offset,
/// and — F32, repaired by 770977e — `TZ` values stating an offset of 24 hours or more, which must be
/// treated as unreadable zone data (the answers of the fallback zone), never panic.
fn run_local_real_zones(c: &mut Ctx) {
    // (text, offset of America/New_York at that instant: US rule since 2007, second Sunday of March /
    // first Sunday of November, 02:00 local)
    const NY: [(&str, i32); 10] = [
        ("2024-01-15T12:00:00Z", -18_000),
        ("2024-03-10T06:59:59Z", -18_000),
        ("2024-03-10T07:00:00Z", -14_400),
        ("2024-07-01T00:00:00+05:30", -14_400),
        ("2024-11-03T05:59:59.999999999Z", -14_400),
        ("2024-11-03T06:00:00Z", -18_000),
        ("2016-12-31T23:59:60Z", -18_000),
        ("2037-06-01T12:00:00-07:00", -14_400),
        ("2010-03-14T02:00:00-05:00", -14_400),
        ("2010-11-07T01:59:59-04:00", -14_400),
    ];
    let texts: Vec<String> = NY.iter().map(|x| x.0.to_string()).chain(
        ["-262143-01-01T00:00:00Z", "+262142-12-31T23:59:59Z", "+262142-12-31T23:59:60.5Z", "1970-01-01T00:00:00-23:59", "not a date", ""].iter().map(|x| x.to_string())).collect();
    type R = Result<Result<(NaiveDateTime, i32), ()>, ()>;
    let old = std::env::var("TZ").ok();
    let read_all = |tz: &str| -> Vec<R> {
        std::env::set_var("TZ", tz);
        let ts = texts.clone();
        std::thread::spawn(move || {
            ts.iter()
                .map(|t| {
                    let q = serde_json::to_string(t).unwrap();
                    guard(|| serde_json::from_str::<DateTime<Local>>(&q).map(|x| (x.naive_utc(), x.offset().local_minus_utc())).map_err(|_| ()))
                })
                .collect()
        })
        .join()
        .unwrap_or_default()
    };
    let shown = |r: &R| match r {
        Ok(Ok((u, o))) => format!("ok {} {o}", show_ndt(u)),
        Ok(Err(())) => "err".to_string(),
        Err(()) => "panic".to_string(),
    };
    let fixed_reading = |t: &str| -> Result<Result<NaiveDateTime, ()>, ()> {
        let q = serde_json::to_string(t).unwrap();
        guard(|| serde_json::from_str::<DateTime<FixedOffset>>(&q).map(|x| x.naive_utc()).map_err(|_| ()))
    };
    let fallback = read_all("/nonexistent/zone/of/c20");
    let ny_file = "/usr/share/zoneinfo/America/New_York";
    let mut zones: Vec<(String, u8)> = vec![
        // kind 1: New York (offsets from the table above); 2: fixed +86399; 3: fixed -86399; 0: must be refused
        ("EST5EDT,M3.2.0,M11.1.0".into(), 1),
        ("XXX-23:59:59".into(), 2),
        ("XXX23:59:59".into(), 3),
        ("XXX-24".into(), 0),
        ("XXX24".into(), 0),
        ("XXX-24:00:01".into(), 0),
        ("XXX-24:59:59".into(), 0),
        ("XXX-24:30".into(), 0),
        ("XXX0YYY-24,M3.2.0,M11.1.0".into(), 0),
        ("XXX-23YYY,M3.2.0,M11.1.0".into(), 0),
    ];
    if std::path::Path::new(ny_file).exists() {
        zones.push((format!(":{ny_file}"), 1));
    } else {
        c.count("local-real:no zoneinfo file for America/New_York");
    }
    for (tz, kind) in &zones {
        let out = read_all(tz);
        if out.len() != texts.len() {
            c.fail("DateTime<Local> worker thread died", tz);
            continue;
        }
        for (k, (t, r)) in texts.iter().zip(out.iter()).enumerate() {
            c.count("call:DateTime<Local>.de(real zone)");
            if r.is_err() {
                c.fail("Deserialize for DateTime<Local> panicked (zone from the environment)", &format!("TZ={tz} {t:?}"));
                continue;
            }
            // the instant is the one the text states, whatever the zone
            let want_inst = fixed_reading(t);
            let got_inst: Result<Result<NaiveDateTime, ()>, ()> = r.clone().map(|x| x.map(|p| p.0));
            if got_inst != want_inst {
                c.fail("DateTime<Local> target is not the DateTime<FixedOffset> reading of the same text", &format!("TZ={tz} {t:?}: {}", shown(r)));
            }
            if let Ok(Ok((_, o))) = r {
                let want_off = match kind {
                    1 if k < NY.len() => Some(NY[k].1),
                    2 => Some(86_399),
                    3 => Some(-86_399),
                    0 => match fallback.get(k) {
                        Some(Ok(Ok((_, fo)))) => Some(*fo),
                        _ => None,
                    },
                    _ => None,
                };
                if let Some(w) = want_off {
                    if *o != w {
                        let what = if *kind == 0 {
                            "a TZ value stating a UTC offset of 24 hours or more is not treated as unreadable zone data (F32)"
                        } else {
                            "DateTime<Local> does not carry the offset the zone prescribes at that instant"
                        };
                        c.fail(what, &format!("TZ={tz} {t:?}: {} want offset {w}", shown(r)));
                    }
                }
            }
        }
    }
    match &old {
        Some(v) => std::env::set_var("TZ", v),
        None => std::env::remove_var("TZ"),
    }
}

fn run_strings(c: &mut Ctx, special: &[(i64, u32)]) {
    let n = c.n(20_000, 200_000);
    // NaiveDate
    same(c, "NaiveDate", &NaiveDate::MIN);
    same(c, "NaiveDate", &NaiveDate::MAX);
    str_corr(c, "sd.nd", &show_date(&NaiveDate::MIN), &NaiveDate::MIN, show_date, true);
    str_corr(c, "sd.nd", &show_date(&NaiveDate::MAX), &NaiveDate::MAX, show_date, true);
    for i in 0..n {
        let d = gen_date(c);
        same(c, "NaiveDate", &d);
        str_corr(c, "sd.nd", &show_date(&d), &d, show_date, i % 4 == 0);
    }
    // NaiveTime
    for i in 0..n {
        let t = gen_time(c);
        str_corr(c, "sd.nt", &show_time(&t), &t, show_time, i % 4 == 0);
        if is_strict(&t) {
            c.count(if t.nanosecond() >= 1_000_000_000 { "time:leap-second" } else { "time:regular" });
            same(c, "NaiveTime", &t);
        } else {
            c.count("time:leap-on-other-second");
            let a = via_json::<_, NaiveTime>(&t);
            match &a {
                Ok(Ok(x)) if *x == t => c.count("leap-on-other-second:time:kept"),
                Ok(_) => c.fail(F_C, &format!("NaiveTime {:?} -> {:?}", t, a)),
                Err(()) => c.fail("NaiveTime round trip panics", &format!("{:?}", t)),
            }
            // what F22 is, exactly (theorem time_roundtrip_nonstrict): the following second, fraction - 10^9
            let want = mk_time(t.num_seconds_from_midnight() + 1, t.nanosecond() - 1_000_000_000);
            if !matches!(&a, Ok(Ok(x)) if *x == want) || via_bin::<_, NaiveTime>(&t).ok().and_then(|r| r.ok()) != Some(want) {
                c.fail("leap representation off second :59 is not read back as the following second", &format!("NaiveTime {:?} -> {:?}", t, a));
            }
        }
    }
    // NaiveDateTime
    same(c, "NaiveDateTime", &NaiveDateTime::MIN);
    same(c, "NaiveDateTime", &NaiveDateTime::MAX);
    str_corr(c, "sd.ndt", &show_ndt(&NaiveDateTime::MIN), &NaiveDateTime::MIN, show_ndt, true);
    str_corr(c, "sd.ndt", &show_ndt(&NaiveDateTime::MAX), &NaiveDateTime::MAX, show_ndt, true);
    for i in 0..n {
        let nd = if i < special.len() {
            match DateTime::from_timestamp(special[i].0, special[i].1) {
                Some(d) => d.naive_utc(),
                None => continue,
            }
        } else {
            gen_ndt(c, special)
        };
        str_corr(c, "sd.ndt", &show_ndt(&nd), &nd, show_ndt, i % 4 == 0);
        if is_strict(&nd.time()) {
            same(c, "NaiveDateTime", &nd);
        } else {
            c.count("datetime:leap-on-other-second");
            let a = via_json::<_, NaiveDateTime>(&nd);
            match &a {
                Ok(Ok(x)) if *x == nd => c.count("leap-on-other-second:datetime:kept"),
                Ok(_) => c.fail(F_C, &format!("NaiveDateTime {:?} -> {:?}", nd, a)),
                Err(()) => c.fail("NaiveDateTime round trip panics", &format!("{:?}", nd)),
            }
            // theorem naive_roundtrip_nonstrict: same date, the following second, fraction - 10^9 (same instant)
            let want = nd.date().and_time(mk_time(nd.time().num_seconds_from_midnight() + 1, nd.time().nanosecond() - 1_000_000_000));
            if !matches!(&a, Ok(Ok(x)) if *x == want && inst_ns(x) == inst_ns(&nd)) {
                c.fail("leap representation off second :59 is not read back as the following second", &format!("NaiveDateTime {:?} -> {:?}", nd, a));
            }
        }
    }
    // zone-aware
    run_zoned(c, n, special);
}

fn run_delta(c: &mut Ctx) {
    const MAX_S: i64 = i64::MAX / 1000;
    const MIN_S: i64 = -i64::MAX / 1000 - 1;
    const NS_MAX: i128 = i64::MAX as i128 * 1_000_000;
    let secs_b: Vec<i64> = {
        let mut v = vec![0, 1, -1, i64::MAX, i64::MIN, i64::MAX - 1, i64::MIN + 1, 86_400, -86_400];
        for d in -2..=2 {
            v.push(MAX_S + d);
            v.push(MIN_S + d);
        }
        v
    };
    let nanos_b: Vec<i32> = {
        let mut v = vec![0, 1, -1, i32::MAX, i32::MIN, i32::MAX - 1, i32::MIN + 1, 500_000_000];
        for d in -2..=2 {
            for b in [807_000_000i32, 193_000_000, 1_000_000_000, 2_000_000_000, -1_000_000_000] {
                v.push(b + d);
            }
        }
        v
    };
    let n = c.n(20_000, 200_000);
    let mut pairs: Vec<(i64, i32)> = vec![];
    for &s in &secs_b {
        for &x in &nanos_b {
            pairs.push((s, x));
        }
    }
    for _ in 0..n {
        let s = match c.rng.below(4) {
            0 => *c.rng.pick(&secs_b),
            1 => c.rng.range(MIN_S, MAX_S),
            2 => c.rng.log_i64(),
            _ => c.rng.range(-100_000, 100_000),
        };
        let x = match c.rng.below(4) {
            0 => *c.rng.pick(&nanos_b),
            1 => c.rng.range(i32::MIN as i64, i32::MAX as i64) as i32,
            _ => c.rng.below(1_000_000_000) as i32,
        };
        pairs.push((s, x));
    }
    for (s, x) in pairs {
        // reading an arbitrary (i64, i32) tuple
        let text = format!("[{s},{x}]");
        let mut bytes = s.to_le_bytes().to_vec();
        bytes.extend_from_slice(&x.to_le_bytes());
        let rj = guard(|| serde_json::from_str::<TimeDelta>(&text).ok());
        let rb = guard(|| bincode::deserialize::<TimeDelta>(&bytes).ok());
        c.count_n("call:TimeDelta.de", 2);
        let show = |r: &Result<Option<TimeDelta>, ()>| match r {
            Ok(Some(d)) => {
                let (a, b) = raw(d);
                format!("ok {a} {b}")
            }
            Ok(None) => "err".to_string(),
            Err(()) => "panic".to_string(),
        };
        c.op(&format!("sd.td.de {s} {x}"), &show(&rj));
        if show(&rj) != show(&rb) {
            c.fail("TimeDelta: serde_json and bincode disagree", &format!("({s},{x}): {} vs {}", show(&rj), show(&rb)));
        }
        let ns = s as i128 * 1_000_000_000 + x as i128;
        let valid = (0..1_000_000_000).contains(&x) && -NS_MAX <= ns && ns <= NS_MAX;
        c.count(if valid { "delta:de:valid" } else if !(0..1_000_000_000).contains(&x) { "delta:de:bad-nanos" } else { "delta:de:out-of-range" });
        let want = if valid { format!("ok {s} {x}") } else { "err".to_string() };
        if show(&rj) != want {
            c.fail("TimeDelta deserialization does not accept exactly the in-range tuples", &format!("({s},{x}) -> {} want {want}", show(&rj)));
        }
        // writing a valid value and reading it back
        if let Some(d) = TimeDelta::new(s, x as u32).filter(|_| x >= 0) {
            let (a, b) = raw(&d);
            let js = guard(|| serde_json::to_string(&d).ok());
            let bs = guard(|| bincode::serialize(&d).ok());
            let wrote = match &bs {
                Ok(Some(v)) if v.len() == 12 => format!(
                    "{} {}",
                    i64::from_le_bytes(v[..8].try_into().unwrap()),
                    i32::from_le_bytes(v[8..].try_into().unwrap())
                ),
                other => format!("{:?}", other),
            };
            c.op(&format!("sd.td.ser {a} {b}"), &wrote);
            if js != Ok(Some(format!("[{a},{b}]"))) {
                c.fail("TimeDelta is not written as the (secs, nanos) tuple", &format!("{:?} -> {:?}", d, js));
            }
            same(c, "TimeDelta", &d);
        }
    }
    same(c, "TimeDelta", &TimeDelta::MAX);
    same(c, "TimeDelta", &TimeDelta::MIN);
    same(c, "TimeDelta", &TimeDelta::zero());
}

fn run_names(c: &mut Ctx) {
    for (i, w) in WD.iter().enumerate() {
        same(c, "Weekday", w);
        let js = guard(|| serde_json::to_string(w).unwrap());
        let text = js.clone().map(|s| s.trim_matches('"').to_string());
        c.op(&format!("sd.wd.ser {i}"), &match &text {
            Ok(s) => hex(s.as_bytes()),
            Err(()) => "panic".into(),
        });
        let bs = guard(|| bincode::serialize(w).unwrap());
        if let (Ok(t), Ok(b)) = (&text, &bs) {
            if b.len() != 8 + t.len() || &b[8..] != t.as_bytes() {
                c.fail("Weekday: bincode does not carry the same text as serde_json", &format!("{:?}", w));
            }
        }
    }
    for (i, m) in MO.iter().enumerate() {
        same(c, "Month", m);
        let js = guard(|| serde_json::to_string(m).unwrap());
        let text = js.map(|s| s.trim_matches('"').to_string());
        c.op(&format!("sd.mo.ser {i}"), &match &text {
            Ok(s) => hex(s.as_bytes()),
            Err(()) => "panic".into(),
        });
    }
    // reading names: every short / long name in three spellings, truncations, extensions, noise
    let mut texts: Vec<String> = vec![];
    for w in WD {
        let long = format!("{}", w); // "Mon"
        texts.push(long.clone());
    }
    for s in [
        "Mon", "Monday", "tue", "TUESDAY", "Wednesday", "wednes", "Thu", "Thur", "Thurs", "thursday", "Fri", "friday", "Sat",
        "Saturday", "Sun", "sunday", "Sund", "Mo", "", " Mon", "Mon ", "Monday!", "mon\u{0}", "Mönday", "January", "Jan",
        "january", "FEBRUARY", "Feb", "Febr", "March", "mar", "Apr", "April", "May", "may", "June", "Jun", "July", "Jul",
        "August", "Aug", "Sept", "Sep", "September", "Oct", "October", "Nov", "November", "Dec", "December", "Decem", "J", "1",
        "Marc", "Mayy", "Ma",
    ] {
        texts.push(s.to_string());
    }
    let n = c.n(300, 3000);
    for _ in 0..n {
        let base = c.rng.pick(&texts[..]).clone();
        let mut b: Vec<u8> = base.into_bytes();
        match c.rng.below(4) {
            0 if !b.is_empty() => {
                let i = c.rng.below(b.len() as u64) as usize;
                b[i] ^= 0x20;
            }
            1 if !b.is_empty() => {
                b.pop();
            }
            2 => b.push(*c.rng.pick(b"aeyns ")),
            _ => {}
        }
        if let Ok(s) = String::from_utf8(b) {
            texts.push(s);
        }
    }
    for t in &texts {
        let js = serde_json::to_string(t).unwrap();
        let mut bs = (t.len() as u64).to_le_bytes().to_vec();
        bs.extend_from_slice(t.as_bytes());
        let w = guard(|| serde_json::from_str::<Weekday>(&js).ok());
        let wb = guard(|| bincode::deserialize::<Weekday>(&bs).ok());
        c.op(&format!("sd.wd.de {}", hex(t.as_bytes())), &match &w {
            Ok(Some(x)) => format!("ok {}", *x as usize),
            Ok(None) => "err".into(),
            Err(()) => "panic".into(),
        });
        if w != wb {
            c.fail("Weekday: serde_json and bincode disagree", t);
        }
        let m = guard(|| serde_json::from_str::<Month>(&js).ok());
        let mb = guard(|| bincode::deserialize::<Month>(&bs).ok());
        c.op(&format!("sd.mo.de {}", hex(t.as_bytes())), &match &m {
            Ok(Some(x)) => format!("ok {}", *x as usize),
            Ok(None) => "err".into(),
            Err(()) => "panic".into(),
        });
        if m != mb {
            c.fail("Month: serde_json and bincode disagree", t);
        }
        c.count_n("call:names.de", 4);
    }
}

pub fn run(c: &mut Ctx) {
    let special = special_instants();
    // ---- the sixteen timestamp modules ------------------------------------------------------------
    let ni = c.n(2_500, 25_000);
    let nv = c.n(2_500, 25_000);
    run_ints::<US>(c, ni);
    run_ints::<UMs>(c, ni);
    run_ints::<UUs>(c, ni);
    run_ints::<UNs>(c, ni);
    run_ints::<NS>(c, ni);
    run_ints::<NMs>(c, ni);
    run_ints::<NUs>(c, ni);
    run_ints::<NNs>(c, ni);
    run_values::<US>(c, nv, &special);
    run_values::<UMs>(c, nv, &special);
    run_values::<UUs>(c, nv, &special);
    run_values::<UNs>(c, nv, &special);
    run_values::<NS>(c, nv, &special);
    run_values::<NMs>(c, nv, &special);
    run_values::<NUs>(c, nv, &special);
    run_values::<NNs>(c, nv, &special);
    // ---- TimeDelta, weekday and month names ----------------------------------------------------------
    run_delta(c);
    run_names(c);
    // ---- string forms --------------------------------------------------------------------------------
    run_strings(c, &special);
    run_local(c, &special);
    run_local_real_zones(c);
}
