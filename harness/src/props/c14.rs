//! C14 — field resolution never returns a value that contradicts a supplied field.
//!
//! `Parsed` values are built through the public fields (so every value of the field's machine type
//! can occur), resolved with the crate, and the outcome — value or error KIND — is compared with the
//! model (ops `pr.*`, lean/Chrono/Drv/ParsedResolve.lean).  Direct oracles on the implementation:
//!   * soundness: a successful result agrees with every supplied field (date, time, date-time,
//!     timestamp with the one-second leap allowance, offset);
//!   * completeness: a field set derived from one real value, with determinate year groups and a
//!     documented sufficient combination, resolves to exactly that value; a derived set that is not
//!     sufficient is reported as NotEnough;
//!   * a second `set_*` of a field is accepted iff the stored values are equal;
//!   * zones that are NOT fixed (`run_step_zones`): `to_datetime_with_timezone(&StepZone)` for a custom
//!     `chrono::TimeZone` with one transition (fold or gap), field sets derived from real values inside
//!     the fold / the gap / at the boundary seconds / far away, offset field absent / = o1 / = o2 /
//!     neither, timestamp field absent / true / that of the other candidate / off by one.  Compared with
//!     the model op `pr.tzstep` (Model/ParsedZone.lean), the zone itself with `pr.steplocal` /
//!     `pr.steputc`; direct oracles: result offset == offset field, result instant == timestamp field,
//!     result is one of `zone.from_local_datetime(resolved local)`, wall clock agrees with the fields,
//!     and the expected resolution of derived sets (which candidate, NotEnough, Impossible).
//!   * `run_seams` (stream `seams:*`, deterministic): every subset of the 14 date fields at the seam days, and
//!     every present field off by one — digests compared with the model (`pr.seam`) + direct oracles;
//!   * `run_tz_local` (stream `tzlocal:*`): `to_datetime_with_timezone(&Local)` under TZ = Europe/Berlin,
//!     America/New_York, Australia/Lord_Howe, Europe/London (1968/1971), per worker thread, around reference
//!     transitions taken from zdump; compared with the model's step-zone resolver and judged directly.
use super::c01::{gen_date, gen_year, yof, MAX_YEAR, MIN_YEAR};
use super::c13::{dump_parsed, err_kind};
use crate::ctx::*;
use chrono::format::{ParseResult, Parsed};
use chrono::offset::LocalResult;
use chrono::{DateTime, Datelike, FixedOffset, NaiveDate, NaiveDateTime, NaiveTime, Offset, TimeZone, Timelike, Weekday};

const WD: [Weekday; 7] =
    [Weekday::Mon, Weekday::Tue, Weekday::Wed, Weekday::Thu, Weekday::Fri, Weekday::Sat, Weekday::Sun];

// field indices, in `Parsed` declaration order (= `dump_parsed` order)
const YEAR: usize = 0;
const YDIV: usize = 1;
const YMOD: usize = 2;
const IYEAR: usize = 3;
const IDIV: usize = 4;
const IMOD: usize = 5;
const QUARTER: usize = 6;
const MONTH: usize = 7;
const WSUN: usize = 8;
const WMON: usize = 9;
const IWEEK: usize = 10;
const WDAY: usize = 11;
const ORD: usize = 12;
const DAY: usize = 13;
const HDIV: usize = 14;
const HMOD: usize = 15;
const MIN: usize = 16;
const SEC: usize = 17;
const NANO: usize = 18;
const TS: usize = 19;
const OFF: usize = 20;
const NF: usize = 21;
const NAMES: [&str; NF] = [
    "year", "year_div_100", "year_mod_100", "isoyear", "isoyear_div_100", "isoyear_mod_100", "quarter", "month",
    "week_from_sun", "week_from_mon", "isoweek", "weekday", "ordinal", "day", "hour_div_12", "hour_mod_12", "minute",
    "second", "nanosecond", "timestamp", "offset",
];
/// the range each setter accepts (lo, hi); weekday 0..=6
const SET_RANGE: [(i64, i64); NF] = [
    (i32::MIN as i64, i32::MAX as i64), (0, i32::MAX as i64), (0, 99),
    (i32::MIN as i64, i32::MAX as i64), (0, i32::MAX as i64), (0, 99),
    (1, 4), (1, 12), (0, 53), (0, 53), (1, 53), (0, 6), (1, 366), (1, 31),
    (0, 1), (0, 11), (0, 59), (0, 60), (0, 999_999_999),
    (i64::MIN, i64::MAX), (i32::MIN as i64, i32::MAX as i64),
];
/// the machine type of each public field
fn type_range(i: usize) -> (i64, i64) {
    match i {
        YEAR | YDIV | YMOD | IYEAR | IDIV | IMOD | OFF => (i32::MIN as i64, i32::MAX as i64),
        TS => (i64::MIN, i64::MAX),
        WDAY => (0, 6),
        _ => (0, u32::MAX as i64),
    }
}

type Fields = [Option<i64>; NF];

fn build(f: &Fields) -> Parsed {
    let mut p = Parsed::new();
    p.year = f[YEAR].map(|v| v as i32);
    p.year_div_100 = f[YDIV].map(|v| v as i32);
    p.year_mod_100 = f[YMOD].map(|v| v as i32);
    p.isoyear = f[IYEAR].map(|v| v as i32);
    p.isoyear_div_100 = f[IDIV].map(|v| v as i32);
    p.isoyear_mod_100 = f[IMOD].map(|v| v as i32);
    p.quarter = f[QUARTER].map(|v| v as u32);
    p.month = f[MONTH].map(|v| v as u32);
    p.week_from_sun = f[WSUN].map(|v| v as u32);
    p.week_from_mon = f[WMON].map(|v| v as u32);
    p.isoweek = f[IWEEK].map(|v| v as u32);
    p.weekday = f[WDAY].map(|v| WD[(v.rem_euclid(7)) as usize]);
    p.ordinal = f[ORD].map(|v| v as u32);
    p.day = f[DAY].map(|v| v as u32);
    p.hour_div_12 = f[HDIV].map(|v| v as u32);
    p.hour_mod_12 = f[HMOD].map(|v| v as u32);
    p.minute = f[MIN].map(|v| v as u32);
    p.second = f[SEC].map(|v| v as u32);
    p.nanosecond = f[NANO].map(|v| v as u32);
    p.timestamp = f[TS];
    p.offset = f[OFF].map(|v| v as i32);
    p
}

// ---- rendering -------------------------------------------------------------------------------
fn st(t: &NaiveTime) -> String {
    format!("{} {}", t.num_seconds_from_midnight(), t.nanosecond())
}
fn sdt(d: &NaiveDateTime) -> String {
    format!("{} {}", yof(&d.date()), st(&d.time()))
}
fn sz(z: &DateTime<FixedOffset>) -> String {
    format!("{} {}", sdt(&z.naive_utc()), z.offset().local_minus_utc())
}
fn show<T>(r: Result<ParseResult<T>, ()>, f: impl Fn(&T) -> String) -> String {
    match r {
        Ok(Ok(v)) => format!("ok {}", f(&v)),
        Ok(Err(e)) => format!("err {}", err_kind(&e)),
        Err(()) => "panic".into(),
    }
}
fn kind_of(s: &str) -> &str {
    if s.starts_with("ok") {
        "ok"
    } else if s == "panic" {
        "panic"
    } else {
        &s[4..]
    }
}

// ---- the fields of a real value ----------------------------------------------------------------
/// every field as derived from the local date-time `l` at offset `off`; `None` where the field is
/// documented to be empty (century / two-digit year of a negative year)
fn fields_of(l: &NaiveDateTime, off: i32) -> Fields {
    let d = l.date();
    let t = l.time();
    let mut f: Fields = [None; NF];
    let y = d.year() as i64;
    f[YEAR] = Some(y);
    if y >= 0 {
        f[YDIV] = Some(y / 100);
        f[YMOD] = Some(y % 100);
    }
    let iw = d.iso_week();
    let iy = iw.year() as i64;
    f[IYEAR] = Some(iy);
    if iy >= 0 {
        f[IDIV] = Some(iy / 100);
        f[IMOD] = Some(iy % 100);
    }
    f[QUARTER] = Some((d.month0() / 3 + 1) as i64);
    f[MONTH] = Some(d.month() as i64);
    // week numbers as the documentation defines them: days before the first Sunday/Monday are week 0
    let o = d.ordinal() as i64;
    let wd_mon = d.weekday().num_days_from_monday() as i64;
    let wd_sun = d.weekday().num_days_from_sunday() as i64;
    f[WSUN] = Some((o - wd_sun + 6) / 7);
    f[WMON] = Some((o - wd_mon + 6) / 7);
    f[IWEEK] = Some(iw.week() as i64);
    f[WDAY] = Some(wd_mon);
    f[ORD] = Some(o);
    f[DAY] = Some(d.day() as i64);
    f[HDIV] = Some((t.hour() / 12) as i64);
    f[HMOD] = Some((t.hour() % 12) as i64);
    f[MIN] = Some(t.minute() as i64);
    let leap = t.nanosecond() >= 1_000_000_000;
    f[SEC] = Some(if leap { 60 } else { t.second() as i64 });
    f[NANO] = Some((t.nanosecond() % 1_000_000_000) as i64);
    f[TS] = Some(l.and_utc().timestamp() - off as i64);
    f[OFF] = Some(off as i64);
    f
}

fn gen_offset(c: &mut Ctx) -> i32 {
    match c.rng.below(4) {
        0 => 0,
        1 => *c.rng.pick(&[3600, -3600, 19800, -12600, 86399, -86399, 1, -1, 45296, 43200, -43200]),
        2 => (c.rng.range(-95, 95) * 900) as i32,
        _ => c.rng.range(-86399, 86399) as i32,
    }
}

fn gen_secs(c: &mut Ctx) -> u32 {
    match c.rng.below(3) {
        0 => *c.rng.pick(&[0u32, 1, 59, 60, 3599, 3600, 43199, 43200, 43259, 86340, 86399, 86398, 46799]),
        _ => c.rng.below(86400) as u32,
    }
}
fn gen_nano(c: &mut Ctx) -> u32 {
    match c.rng.below(3) {
        0 => *c.rng.pick(&[0u32, 1, 999_999_999, 500_000_000, 123_456_789, 1000]),
        1 => 0,
        _ => c.rng.nanos(),
    }
}

/// a random subset of the 21 fields whose size is uniform in 0..=21
fn gen_mask(c: &mut Ctx) -> [bool; NF] {
    let k = c.rng.below(NF as u64 + 1) as usize;
    let mut idx: Vec<usize> = (0..NF).collect();
    for i in 0..k {
        let j = i + c.rng.below((NF - i) as u64) as usize;
        idx.swap(i, j);
    }
    let mut m = [false; NF];
    for &i in &idx[..k] {
        m[i] = true;
    }
    m
}

/// a value for field `i`: inside the setter's range, at its ends, just outside, or at the ends of the
/// machine type
fn gen_value(c: &mut Ctx, i: usize) -> i64 {
    let (lo, hi) = SET_RANGE[i];
    let (tlo, thi) = type_range(i);
    let v = match c.rng.below(10) {
        0 => lo,
        1 => hi,
        2 => lo.saturating_sub(1),
        3 => hi.saturating_add(1),
        4 => *c.rng.pick(&[tlo, thi, tlo.saturating_add(1), thi.saturating_sub(1), 0, 1]),
        5 => match i {
            YEAR | IYEAR => gen_year(c) as i64,
            YDIV | IDIV => *c.rng.pick(&[0i64, 19, 20, 99, 100, 2621, 2622, 21474836, 21474837, -1]),
            YMOD | IMOD => *c.rng.pick(&[0i64, 68, 69, 70, 71, 99]),
            TS => *c.rng.pick(&[
                0i64, -1, 1, 86399, 86400, -86400, 8210266876799, 8210266876800, -8334601228800, -8334601228801, 8210266790400,
                -8334601142400, 1_700_000_000, 951782400, 68256000, i64::MAX - 86399, i64::MIN + 86399,
            ]),
            OFF => gen_offset(c) as i64 + *c.rng.pick(&[0i64, 0, 0, 86400, -86400]),
            SEC => *c.rng.pick(&[59i64, 60, 61, 0]),
            WSUN | WMON | IWEEK => c.rng.range(0, 54),
            _ => c.rng.range(lo.max(tlo), hi.min(thi)),
        },
        6 => match i {
            // a narrowing cast would confuse these with small values
            WSUN | WMON => (1i64 << 32) - c.rng.range(1, 60),
            _ => c.rng.range(lo.max(tlo), hi.min(thi)),
        },
        _ => match i {
            YEAR | IYEAR => c.rng.range(1900, 2100),
            YDIV | IDIV => c.rng.range(0, 30),
            TS => c.rng.range(-3_000_000_000, 5_000_000_000),
            OFF => gen_offset(c) as i64,
            _ => c.rng.range(lo.max(tlo), hi.min(thi)),
        },
    };
    v.clamp(tlo, thi)
}

// ---- sufficiency, as documented ---------------------------------------------------------------
#[derive(Clone, Copy, PartialEq)]
enum Grp {
    Empty,
    Determinate,
    /// century without two-digit year: documented as not enough
    CenturyOnly,
    /// two-digit year alone outside 1970..=2069: the pivot yields another year
    PivotMiss,
}
fn group(m: &[bool; NF], y: usize, real: i64) -> Grp {
    match (m[y], m[y + 1], m[y + 2]) {
        (false, false, false) => Grp::Empty,
        (true, _, _) => Grp::Determinate,
        (false, true, true) => Grp::Determinate,
        (false, true, false) => Grp::CenturyOnly,
        (false, false, true) => {
            if (1970..=2069).contains(&real) {
                Grp::Determinate
            } else {
                Grp::PivotMiss
            }
        }
    }
}
fn date_sufficient(m: &[bool; NF], gy: Grp, gi: Grp) -> bool {
    (gy == Grp::Determinate && ((m[MONTH] && m[DAY]) || m[ORD] || (m[WSUN] && m[WDAY]) || (m[WMON] && m[WDAY])))
        || (gi == Grp::Determinate && m[IWEEK] && m[WDAY])
}
/// `DateSufficient` / `TimeSufficient` of Spec/ParsedSpec.lean by field PRESENCE (any record)
fn present_date_sufficient(f: &Fields) -> bool {
    let p = |i: usize| f[i].is_some();
    let usable = |y: usize| !(!p(y) && p(y + 1) && !p(y + 2));
    let has_year = |y: usize| p(y) || p(y + 2);
    usable(YEAR)
        && usable(IYEAR)
        && ((has_year(YEAR) && ((p(MONTH) && p(DAY)) || p(ORD) || (p(WSUN) && p(WDAY)) || (p(WMON) && p(WDAY))))
            || (has_year(IYEAR) && p(IWEEK) && p(WDAY)))
}
fn present_time_sufficient(f: &Fields) -> bool {
    let p = |i: usize| f[i].is_some();
    p(HDIV) && p(HMOD) && p(MIN) && (!p(NANO) || p(SEC))
}
fn time_sufficient(m: &[bool; NF]) -> bool {
    m[HDIV] && m[HMOD] && m[MIN] && (!m[NANO] || m[SEC])
}

// ---- soundness oracles -------------------------------------------------------------------------
fn date_agrees(f: &Fields, d: &NaiveDate) -> Option<&'static str> {
    let y = d.year() as i64;
    let iw = d.iso_week();
    let iy = iw.year() as i64;
    let o = d.ordinal() as i64;
    let chk = |i: usize, v: i64| f[i].map_or(true, |x| x == v);
    if !chk(YEAR, y) {
        return Some("year");
    }
    if f[YDIV].is_some() && !(y >= 0 && chk(YDIV, y / 100)) {
        return Some("year_div_100");
    }
    if f[YMOD].is_some() && !(y >= 0 && chk(YMOD, y % 100)) {
        return Some("year_mod_100");
    }
    if !chk(IYEAR, iy) {
        return Some("isoyear");
    }
    if f[IDIV].is_some() && !(iy >= 0 && chk(IDIV, iy / 100)) {
        return Some("isoyear_div_100");
    }
    if f[IMOD].is_some() && !(iy >= 0 && chk(IMOD, iy % 100)) {
        return Some("isoyear_mod_100");
    }
    if !chk(QUARTER, (d.month() as i64 + 2) / 3) {
        return Some("quarter");
    }
    if !chk(MONTH, d.month() as i64) {
        return Some("month");
    }
    if !chk(WSUN, (o - d.weekday().num_days_from_sunday() as i64 + 6) / 7) {
        return Some("week_from_sun");
    }
    if !chk(WMON, (o - d.weekday().num_days_from_monday() as i64 + 6) / 7) {
        return Some("week_from_mon");
    }
    if !chk(IWEEK, iw.week() as i64) {
        return Some("isoweek");
    }
    if !chk(WDAY, d.weekday().num_days_from_monday() as i64) {
        return Some("weekday");
    }
    if !chk(ORD, o) {
        return Some("ordinal");
    }
    if !chk(DAY, d.day() as i64) {
        return Some("day");
    }
    None
}
fn time_agrees(f: &Fields, t: &NaiveTime) -> Option<&'static str> {
    let chk = |i: usize, v: i64| f[i].map_or(true, |x| x == v);
    if !chk(HDIV, (t.hour() / 12) as i64) {
        return Some("hour_div_12");
    }
    if !chk(HMOD, (t.hour() % 12) as i64) {
        return Some("hour_mod_12");
    }
    if !chk(MIN, t.minute() as i64) {
        return Some("minute");
    }
    let leap = t.nanosecond() >= 1_000_000_000;
    match f[SEC] {
        Some(60) => {
            if !(leap && t.second() == 59) {
                return Some("second(60)");
            }
        }
        Some(s) => {
            if leap || t.second() as i64 != s {
                return Some("second");
            }
        }
        None => {
            if leap || t.second() != 0 {
                return Some("second(absent)");
            }
        }
    }
    match f[NANO] {
        Some(n) => {
            if (t.nanosecond() % 1_000_000_000) as i64 != n {
                return Some("nanosecond");
            }
        }
        None => {
            if t.nanosecond() % 1_000_000_000 != 0 {
                return Some("nanosecond(absent)");
            }
        }
    }
    None
}
/// timestamp of the local reading minus the offset equals the supplied timestamp, with the
/// documented allowance of one second when the result is a leap second
fn ts_agrees(f: &Fields, l: &NaiveDateTime, off: i64) -> bool {
    match f[TS] {
        None => true,
        Some(g) => {
            let ts = l.and_utc().timestamp() - off;
            g == ts || (l.time().nanosecond() >= 1_000_000_000 && g == ts + 1)
        }
    }
}

struct Case {
    f: Fields,
    /// the real value the fields were derived from (local reading, offset), when there is one and no
    /// field was perturbed
    real: Option<(NaiveDateTime, i32)>,
    mask: [bool; NF],
    class: &'static str,
    /// offset to resolve with when there is no unperturbed real value
    hint: Option<i32>,
    /// class derived-leap-plus-one: the leap-second value the fields were derived from, the timestamp
    /// field being that of the FOLLOWING second (the documented allowance)
    plus_one: Option<(NaiveDateTime, i32)>,
}

fn run_case(c: &mut Ctx, case: &Case, offs: &[i32]) {
    let p = build(&case.f);
    let f = &case.f;
    let dump = dump_parsed(&p);
    let cl = case.class;

    // ---- to_naive_date ----
    let rd = guard(|| p.to_naive_date());
    let sd = show(rd.clone(), |d| yof(d).to_string());
    c.op(&format!("pr.date {}", dump), &sd);
    c.count(&format!("date:{}:{}", cl, kind_of(&sd)));
    {
        // which combination the resolver is expected to pick (first applicable, by field presence)
        let has_y = f[YEAR].is_some() || f[YMOD].is_some();
        let has_iy = f[IYEAR].is_some() || f[IMOD].is_some();
        let arm = if has_y && f[MONTH].is_some() && f[DAY].is_some() {
            "ymd"
        } else if has_y && f[ORD].is_some() {
            "yo"
        } else if has_y && f[WSUN].is_some() && f[WDAY].is_some() {
            "week-sun"
        } else if has_y && f[WMON].is_some() && f[WDAY].is_some() {
            "week-mon"
        } else if has_iy && f[IWEEK].is_some() && f[WDAY].is_some() {
            "iso"
        } else {
            "none"
        };
        c.count(&format!("date:arm:{}:{}", arm, kind_of(&sd)));
    }
    if let Ok(Ok(d)) = &rd {
        if let Some(w) = date_agrees(f, d) {
            c.fail("to_naive_date result contradicts a supplied field", &format!("field {} of [{}] -> {}", w, dump, d));
        }
    }
    if rd.is_err() {
        c.fail("to_naive_date panicked", &dump);
    }
    // ---- to_naive_time ----
    let rt = guard(|| p.to_naive_time());
    let stt = show(rt.clone(), st);
    c.op(&format!("pr.time {}", dump), &stt);
    c.count(&format!("time:{}:{}", cl, kind_of(&stt)));
    if let Ok(Ok(t)) = &rt {
        if let Some(w) = time_agrees(f, t) {
            c.fail("to_naive_time result contradicts a supplied field", &format!("field {} of [{}] -> {}", w, dump, t));
        }
    }
    if rt.is_err() {
        c.fail("to_naive_time panicked", &dump);
    }
    // ---- to_fixed_offset ----
    let rf = guard(|| p.to_fixed_offset());
    let sf = show(rf.clone(), |o| o.local_minus_utc().to_string());
    c.op(&format!("pr.fixed {}", dump), &sf);
    if let Ok(Ok(o)) = &rf {
        if f[OFF] != Some(o.local_minus_utc() as i64) {
            c.fail("to_fixed_offset result differs from the offset field", &dump);
        }
    }
    // ---- to_naive_datetime_with_offset ----
    for &off in offs {
        let r = guard(|| p.to_naive_datetime_with_offset(off));
        let s = show(r.clone(), sdt);
        c.op(&format!("pr.dt {} {}", dump, off), &s);
        c.count(&format!("dt:{}:{}", cl, kind_of(&s)));
        if let Ok(Ok(l)) = &r {
            let path = if matches!(rd, Ok(Ok(_))) && matches!(rt, Ok(Ok(_))) { "fields" } else { "timestamp" };
            c.count(&format!("dt:path:{}", path));
            if l.time().nanosecond() >= 1_000_000_000 {
                c.count(&format!("dt:leap:{}", path));
                if let Some(g) = f[TS] {
                    let ts = l.and_utc().timestamp() - off as i64;
                    c.count(if g == ts { "dt:leap:ts-same" } else { "dt:leap:ts-plus-one" });
                }
            }
            if let Some(w) = date_agrees(f, &l.date()) {
                c.fail("to_naive_datetime_with_offset: date contradicts a supplied field", &format!("field {} of [{}] off {} -> {}", w, dump, off, l));
            }
            // in the timestamp path an absent second / minute / hour is taken from the timestamp
            let mut ft = *f;
            if path == "timestamp" {
                let t = l.time();
                if ft[HDIV].is_none() {
                    ft[HDIV] = Some((t.hour() / 12) as i64);
                }
                if ft[HMOD].is_none() {
                    ft[HMOD] = Some((t.hour() % 12) as i64);
                }
                if ft[MIN].is_none() {
                    ft[MIN] = Some(t.minute() as i64);
                }
                if ft[SEC].is_none() {
                    ft[SEC] = Some(t.second() as i64);
                }
            }
            if let Some(w) = time_agrees(&ft, &l.time()) {
                c.fail("to_naive_datetime_with_offset: time contradicts a supplied field", &format!("field {} of [{}] off {} -> {}", w, dump, off, l));
            }
            if !ts_agrees(f, l, off as i64) {
                c.fail("to_naive_datetime_with_offset: result contradicts the timestamp field", &format!("[{}] off {} -> {}", dump, off, l));
            }
        }
        if r.is_err() {
            c.fail("to_naive_datetime_with_offset panicked", &format!("[{}] off {}", dump, off));
        }
        // which error (every record; theorems datetime_error_kinds / datetime_not_enough_iff): judged from
        // the results of the two component resolvers and from field presence only
        if !s.starts_with("panic") && !sd.starts_with("panic") && !stt.starts_with("panic") {
            let both = sd.starts_with("ok") && stt.starts_with("ok");
            if f[TS].is_none() {
                let want = if sd.starts_with("err") {
                    sd.clone()
                } else if stt.starts_with("err") {
                    stt.clone()
                } else {
                    format!("ok {} {}", &sd[3..], &stt[3..])
                };
                c.count("kinds:dt:no-timestamp");
                if s != want {
                    c.fail("to_naive_datetime_with_offset without timestamp: not the date's error, else the time's error, else the pair", &format!("[{}] off {} -> {} (date {}, time {})", dump, off, s, sd, stt));
                }
            } else if !both {
                let oor = sd == "err OutOfRange" || stt == "err OutOfRange";
                let imp = sd == "err Impossible" || stt == "err Impossible";
                if oor {
                    c.count("kinds:dt:ts:out-of-range-first");
                    if s != "err OutOfRange" {
                        c.fail("to_naive_datetime_with_offset with timestamp: an out-of-range field must be reported as OutOfRange", &format!("[{}] off {} -> {}", dump, off, s));
                    }
                } else if imp {
                    c.count("kinds:dt:ts:impossible-first");
                    if s != "err Impossible" {
                        c.fail("to_naive_datetime_with_offset with timestamp: contradicting fields must be reported as Impossible", &format!("[{}] off {} -> {}", dump, off, s));
                    }
                } else {
                    c.count("kinds:dt:ts:fallback");
                }
            }
            if s == "err NotEnough" {
                c.count(if f[TS].is_some() { "kinds:dt:not-enough:with-timestamp" } else { "kinds:dt:not-enough:no-timestamp" });
                if present_date_sufficient(f) && present_time_sufficient(f) {
                    c.fail("to_naive_datetime_with_offset: NotEnough for a set holding a sufficient date and time combination", &format!("[{}] off {}", dump, off));
                }
                if f[TS].is_some() && !(f[IYEAR].is_none() && f[IDIV].is_some() && f[IMOD].is_none()) {
                    c.fail("to_naive_datetime_with_offset: NotEnough although a timestamp is supplied (and the ISO year group is not century-only)", &format!("[{}] off {}", dump, off));
                }
            }
        }
    }
    // ---- to_datetime ----
    let rz = guard(|| p.to_datetime());
    let szs = show(rz.clone(), sz);
    c.op(&format!("pr.datetime {}", dump), &szs);
    c.count(&format!("datetime:{}:{}", cl, kind_of(&szs)));
    if let Ok(Ok(z)) = &rz {
        let off = z.offset().local_minus_utc() as i64;
        let l = z.naive_local();
        if f[OFF].map_or(false, |o| o != off) || (f[OFF].is_none() && off != 0) {
            c.fail("to_datetime: offset contradicts the offset field", &format!("[{}] -> {}", dump, z));
        }
        if date_agrees(f, &l.date()).is_some() || !ts_agrees(f, &l, off) {
            c.fail("to_datetime: result contradicts a supplied field", &format!("[{}] -> {}", dump, z));
        }
    }
    if rz.is_err() {
        c.fail("to_datetime panicked", &dump);
    }
    // which error (theorems to_datetime_error_kinds / to_datetime_not_enough_iff)
    if !szs.starts_with("panic") {
        if f[OFF].is_none() && f[TS].is_none() {
            c.count("kinds:datetime:no-offset-no-timestamp");
            if szs != "err NotEnough" {
                c.fail("to_datetime: neither offset nor timestamp must be NotEnough", &format!("[{}] -> {}", dump, szs));
            }
        } else {
            let o = f[OFF].unwrap_or(0) as i32;
            let rn = guard(|| p.to_naive_datetime_with_offset(o));
            let sn = show(rn.clone(), sdt);
            if sn.starts_with("err") {
                c.count("kinds:datetime:naive-error");
                if szs != sn {
                    c.fail("to_datetime: the error of the naive stage must be passed on", &format!("[{}] -> {} (naive stage at {}: {})", dump, szs, o, sn));
                }
            } else if let Ok(Ok(l)) = &rn {
                let valid = -86400 < o && o < 86400;
                let rep = valid && l.checked_sub_offset(FixedOffset::east_opt(o).unwrap()).is_some();
                let want_kind = if !valid { "err OutOfRange" } else if !rep { "err Impossible" } else { "ok" };
                c.count(&format!("kinds:datetime:naive-ok:{}", kind_of(want_kind)));
                if !szs.starts_with(want_kind) {
                    c.fail("to_datetime: wrong outcome after a successful naive stage", &format!("[{}] -> {} (expected {})", dump, szs, want_kind));
                }
            }
        }
    }
    // ---- to_datetime_with_timezone (fixed zones, incl. Utc) ----
    let z = match (case.real, c.rng.below(3)) {
        (Some((_, o)), 0 | 1) => o,
        (None, 0 | 1) if case.class == "zone-stage" => case.hint.unwrap(),
        (_, 2) => 0,
        _ => gen_offset(c),
    };
    let tz = FixedOffset::east_opt(z).unwrap();
    let rw = guard(|| p.to_datetime_with_timezone(&tz));
    let sw = show(rw.clone(), sz);
    c.op(&format!("pr.tz {} {}", dump, z), &sw);
    c.count(&format!("tz:{}:{}", cl, kind_of(&sw)));
    if z == 0 {
        let ru = guard(|| p.to_datetime_with_timezone(&chrono::Utc));
        let su = show(ru, |u| sz(&u.fixed_offset()));
        if su != sw {
            c.fail("to_datetime_with_timezone: Utc and FixedOffset(0) differ", &format!("[{}] {} vs {}", dump, su, sw));
        }
    }
    if let Ok(Ok(w)) = &rw {
        let l = w.naive_local();
        if w.offset().local_minus_utc() != z || f[OFF].map_or(false, |o| o != z as i64) {
            c.fail("to_datetime_with_timezone: offset contradicts zone or offset field", &format!("[{}] tz {} -> {}", dump, z, w));
        }
        if date_agrees(f, &l.date()).is_some() || !ts_agrees(f, &l, z as i64) {
            c.fail("to_datetime_with_timezone: result contradicts a supplied field", &format!("[{}] tz {} -> {}", dump, z, w));
        }
    }
    if rw.is_err() {
        c.fail("to_datetime_with_timezone panicked", &format!("[{}] tz {}", dump, z));
    }
    // which error (theorems to_datetime_with_timezone_error_kinds / …_not_enough_iff)
    if !sw.starts_with("panic") {
        let guessed = match f[TS] {
            None => Some(0),
            Some(ts) => {
                let n = f[NANO].unwrap_or(0);
                // representable instant: inside [MIN_UTC, MAX_UTC], sub-second count below 10^9 (or a leap
                // second representation on a second :59)
                let rep = (MIN_TS..=MAX_TS).contains(&ts) && (n < 1_000_000_000 || (n < 2_000_000_000 && ts.rem_euclid(60) == 59));
                if rep { Some(z) } else { None }
            }
        };
        match guessed {
            None => {
                c.count("kinds:tz:timestamp-unrepresentable");
                if sw != "err OutOfRange" {
                    c.fail("to_datetime_with_timezone: an unrepresentable timestamp must be OutOfRange", &format!("[{}] tz {} -> {}", dump, z, sw));
                }
            }
            Some(g) => {
                let rn = guard(|| p.to_naive_datetime_with_offset(g));
                let sn = show(rn.clone(), sdt);
                if sn.starts_with("err") {
                    c.count("kinds:tz:naive-error");
                    if sw != sn {
                        c.fail("to_datetime_with_timezone: the error of the naive stage must be passed on", &format!("[{}] tz {} -> {} (naive stage at {}: {})", dump, z, sw, g, sn));
                    }
                } else if let Ok(Ok(l)) = &rn {
                    let rep = l.checked_sub_offset(tz).is_some();
                    let off_ok = f[OFF].map_or(true, |o| o == z as i64);
                    let want_kind = if rep && off_ok { "ok" } else { "err Impossible" };
                    c.count(&format!("kinds:tz:naive-ok:{}", kind_of(want_kind)));
                    if !sw.starts_with(want_kind) {
                        c.fail("to_datetime_with_timezone: wrong outcome after a successful naive stage", &format!("[{}] tz {} -> {} (expected {})", dump, z, sw, want_kind));
                    }
                }
            }
        }
    }

    // ---- completeness / error-kind oracles for unperturbed derived sets ----
    if let Some((l, off)) = case.real {
        let m = &case.mask;
        let gy = group(m, YEAR, l.date().year() as i64);
        let gi = group(m, IYEAR, l.date().iso_week().year() as i64);
        let det = |g: Grp| g == Grp::Determinate || g == Grp::Empty;
        let dsuf = date_sufficient(m, gy, gi);
        let tsuf = time_sufficient(m);
        // date
        if gy == Grp::CenturyOnly || gi == Grp::CenturyOnly {
            c.count("complete:date:century-only");
            if sd != "err NotEnough" {
                c.fail("century without two-digit year must be NotEnough", &format!("[{}] -> {}", dump, sd));
            }
        } else if det(gy) && det(gi) {
            let want = if dsuf { format!("ok {}", yof(&l.date())) } else { "err NotEnough".to_string() };
            c.count(if dsuf { "complete:date:sufficient" } else { "complete:date:insufficient" });
            if sd != want {
                c.fail("derived date fields: wrong resolution", &format!("[{}] real {} -> {} (expected {})", dump, l, sd, want));
            }
        } else {
            c.count("complete:date:pivot-miss");
        }
        // time: the real value has zero second / nanosecond where that field is not supplied
        {
            let want = if tsuf { format!("ok {}", st(&l.time())) } else { "err NotEnough".to_string() };
            c.count(if tsuf { "complete:time:sufficient" } else { "complete:time:insufficient" });
            if stt != want {
                c.fail("derived time fields: wrong resolution", &format!("[{}] real {} -> {} (expected {})", dump, l, stt, want));
            }
        }
        // date-time with the real offset
        if det(gy) && det(gi) && gy != Grp::CenturyOnly && gi != Grp::CenturyOnly {
            let r = guard(|| p.to_naive_datetime_with_offset(off));
            let s = show(r, sdt);
            let suff = (dsuf && tsuf) || m[TS];
            let want = if suff { format!("ok {}", sdt(&l)) } else { "err NotEnough".to_string() };
            c.count(if suff { "complete:dt:sufficient" } else { "complete:dt:insufficient" });
            if m[TS] && !(dsuf && tsuf) {
                c.count("complete:dt:via-timestamp");
            }
            if s != want {
                c.fail("derived date-time fields: wrong resolution", &format!("[{}] real {} off {} -> {} (expected {})", dump, l, off, s, want));
            }
            // zone-aware: needs the offset field (or a timestamp when the real offset is 0)
            let zsuff = suff && (m[OFF] || (m[TS] && off == 0));
            if zsuff {
                c.count("complete:datetime:sufficient");
                // (shifting by an offset moves whole seconds and keeps a leap-second fraction)
                let u = l.checked_sub_offset(FixedOffset::east_opt(off).unwrap()).unwrap();
                let want = format!("ok {} {}", sdt(&u), off);
                if szs != want {
                    c.fail("derived zone-aware fields: wrong resolution", &format!("[{}] real {} off {} -> {} (expected {})", dump, l, off, szs, want));
                }
            } else if !m[OFF] && !m[TS] {
                c.count("complete:datetime:no-offset");
                if szs != "err NotEnough" {
                    c.fail("to_datetime without offset and timestamp must be NotEnough", &format!("[{}] -> {}", dump, szs));
                }
            }
            // to_datetime_with_timezone in the fixed zone of the real offset (the offset field is optional
            // there): theorems to_datetime_with_timezone_complete_fields / _complete_timestamp /
            // to_datetime_with_timezone_not_enough_iff
            if z == off {
                let want = if suff {
                    let u = l.checked_sub_offset(FixedOffset::east_opt(off).unwrap()).unwrap();
                    format!("ok {} {}", sdt(&u), off)
                } else {
                    "err NotEnough".to_string()
                };
                c.count(if suff { "complete:tz:sufficient" } else { "complete:tz:insufficient" });
                if sw != want {
                    c.fail("derived zone-aware fields (to_datetime_with_timezone, fixed zone): wrong resolution", &format!("[{}] real {} tz {} -> {} (expected {})", dump, l, z, sw, want));
                }
            }
        }
    }
    // ---- a leap-second value with the timestamp of the FOLLOWING second (theorems datetime_sound_fields for the
    // field path, datetime_complete_timestamp_leap for the fall-back path, to_datetime_complete_*) ----
    if let Some((l, off)) = case.plus_one {
        let m = &case.mask;
        let gy = group(m, YEAR, l.date().year() as i64);
        let gi = group(m, IYEAR, l.date().iso_week().year() as i64);
        let det = |g: Grp| g == Grp::Determinate || g == Grp::Empty;
        if det(gy) && det(gi) {
            let fields_path = date_sufficient(m, gy, gi) && time_sufficient(m);
            // on the fall-back path the following second must itself be a representable local date-time
            let next_ok = l.and_utc().timestamp() + 1 <= MAX_TS;
            let r = guard(|| p.to_naive_datetime_with_offset(off));
            let s = show(r, sdt);
            let want = if fields_path || next_ok { format!("ok {}", sdt(&l)) } else { "err OutOfRange".to_string() };
            c.count(if fields_path { "complete:leap-plus-one:fields" } else { "complete:leap-plus-one:via-timestamp" });
            if s != want {
                c.fail("leap second with the timestamp of the following second: wrong resolution", &format!("[{}] real {} off {} -> {} (expected {})", dump, l, off, s, want));
            }
            if (fields_path || next_ok) && (m[OFF] || off == 0) {
                let u = l.checked_sub_offset(FixedOffset::east_opt(off).unwrap()).unwrap();
                let want = format!("ok {} {}", sdt(&u), off);
                c.count("complete:leap-plus-one:datetime");
                if szs != want {
                    c.fail("leap second with the timestamp of the following second (to_datetime): wrong resolution", &format!("[{}] real {} off {} -> {} (expected {})", dump, l, off, szs, want));
                }
            }
        }
    }
}

/// a real local date-time with offset whose UTC reading is representable; second and nanosecond
/// are zero where the mask omits the field (so that the fields describe the value completely)
fn gen_real(c: &mut Ctx, m: &[bool; NF]) -> (NaiveDateTime, i32) {
    loop {
        let d = if c.rng.chance(1, 6) {
            // around the two-digit-year pivot and the century seams
            let y = *c.rng.pick(&[1969i32, 1970, 2069, 2070, 1999, 2000, 1900, 2100, 99, 100, 0, -1]);
            NaiveDate::from_yo_opt(y, c.rng.range(1, 365) as u32).unwrap()
        } else {
            gen_date(c)
        };
        let mut secs = gen_secs(c);
        let mut nano = gen_nano(c);
        if !m[SEC] {
            secs -= secs % 60;
        }
        if !m[NANO] {
            nano = 0;
        }
        // a leap second needs the second field (60)
        if m[SEC] && secs % 60 == 59 && c.rng.chance(1, 3) {
            nano += 1_000_000_000;
        }
        let t = NaiveTime::from_num_seconds_from_midnight_opt(secs, nano).unwrap();
        let off = gen_offset(c);
        let l = d.and_time(t);
        if l.checked_sub_offset(FixedOffset::east_opt(off).unwrap()).is_some() {
            return (l, off);
        }
    }
}

fn offsets_for(c: &mut Ctx, real: Option<i32>) -> Vec<i32> {
    let mut v = vec![];
    match real {
        Some(o) => {
            v.push(o);
            if c.rng.chance(1, 4) {
                v.push(if o == 0 { 3600 } else { 0 });
            }
        }
        None => {
            v.push(match c.rng.below(8) {
                0 => i32::MAX,
                1 => i32::MIN,
                2 | 3 => 0,
                _ => gen_offset(c),
            });
        }
    }
    v
}

fn setter(p: &mut Parsed, i: usize, v: i64) -> ParseResult<()> {
    match i {
        YEAR => p.set_year(v),
        YDIV => p.set_year_div_100(v),
        YMOD => p.set_year_mod_100(v),
        IYEAR => p.set_isoyear(v),
        IDIV => p.set_isoyear_div_100(v),
        IMOD => p.set_isoyear_mod_100(v),
        QUARTER => p.set_quarter(v),
        MONTH => p.set_month(v),
        WSUN => p.set_week_from_sun(v),
        WMON => p.set_week_from_mon(v),
        IWEEK => p.set_isoweek(v),
        WDAY => p.set_weekday(WD[v.rem_euclid(7) as usize]),
        ORD => p.set_ordinal(v),
        DAY => p.set_day(v),
        HDIV => p.set_ampm(v != 0),
        HMOD => p.set_hour12(v),
        MIN => p.set_minute(v),
        SEC => p.set_second(v),
        NANO => p.set_nanosecond(v),
        TS => p.set_timestamp(v),
        OFF => p.set_offset(v),
        _ => p.set_hour(v),
    }
}
fn setter_name(i: usize) -> &'static str {
    match i {
        HDIV => "ampm",
        HMOD => "hour12",
        21 => "hour",
        _ => NAMES[i],
    }
}
/// the argument range of each setter (differs from the stored range for hour12 / hour)
fn setter_range(i: usize) -> (i64, i64) {
    match i {
        HMOD => (1, 12),
        21 => (0, 23),
        WDAY => (0, 6),
        _ => SET_RANGE[i],
    }
}

fn run_set_twice(c: &mut Ctx) {
    let n = c.n(20000, 200000);
    for k in 0..n {
        let i = c.rng.below(22) as usize;
        let (lo, hi) = setter_range(i);
        let gen = |c: &mut Ctx| -> i64 {
            match c.rng.below(8) {
                0 => lo,
                1 => hi,
                2 => lo.saturating_sub(1),
                3 => hi.saturating_add(1),
                4 => *c.rng.pick(&[i64::MIN, i64::MAX, u32::MAX as i64 + 1, (1i64 << 32) + lo, -(1i64 << 32) + hi, i32::MAX as i64 + 1, i32::MIN as i64 - 1]),
                _ => c.rng.range(lo.max(-5000), hi.min(5000)),
            }
        };
        let a = gen(c);
        let b = if c.rng.chance(1, 3) { a } else { gen(c) };
        let (a, b) = match i {
            WDAY => (a.rem_euclid(7), b.rem_euclid(7)),
            HDIV => (a.rem_euclid(2), b.rem_euclid(2)), // set_ampm takes a bool
            _ => (a, b),
        };
        let in_range = |v: i64| lo <= v && v <= hi;
        // start from an empty record or from a random partly filled one
        let mut p = Parsed::new();
        if c.rng.chance(1, 3) {
            let m = gen_mask(c);
            let mut f: Fields = [None; NF];
            for j in 0..NF {
                if m[j] {
                    let (slo, shi) = SET_RANGE[j];
                    f[j] = Some(c.rng.range(slo.max(-3000), shi.min(3000)));
                }
            }
            p = build(&f);
        }
        let before = dump_parsed(&p);
        let mut p1 = p.clone();
        let r1 = setter(&mut p1, i, a);
        let s1 = match &r1 {
            Ok(()) => format!("ok {}", dump_parsed(&p1)),
            Err(e) => format!("err {}", err_kind(e)),
        };
        c.op(&format!("pr.set {} {} {}", setter_name(i), a, before), &s1);
        c.count(&format!("set:first:{}", kind_of(&s1)));
        if !in_range(a) && s1 != "err OutOfRange" {
            c.fail("setter accepted a value outside its documented range", &format!("{} {} -> {}", setter_name(i), a, s1));
        }
        if r1.is_ok() {
            let mid = dump_parsed(&p1);
            let mut p2 = p1.clone();
            let r2 = setter(&mut p2, i, b);
            let s2 = match &r2 {
                Ok(()) => format!("ok {}", dump_parsed(&p2)),
                Err(e) => format!("err {}", err_kind(e)),
            };
            c.op(&format!("pr.set {} {} {}", setter_name(i), b, mid), &s2);
            // the property: accepted exactly when the two values are equal
            let want = if !in_range(b) {
                "err OutOfRange".to_string()
            } else if a == b {
                format!("ok {}", mid)
            } else {
                "err Impossible".to_string()
            };
            c.count(&format!("set:second:{}", kind_of(&s2)));
            if s2 != want {
                c.fail("setting a field twice: accepted iff equal", &format!("{} {} then {} on [{}] -> {} (expected {})", setter_name(i), a, b, before, s2, want));
            }
            if k < 2 {
                c.sample(&format!("set {} {} then {} -> {}", setter_name(i), a, b, s2));
            }
        }
    }
}

/// cross-setter consistency of the hour fields, exhaustively (theorems hour_setters_consistent /
/// hour_setters_consistent_conv): after `set_hour(h)`, `set_ampm(pm)` is accepted iff `pm == (h >= 12)` and
/// `set_hour12(v)` iff `v` is the 12-hour-clock reading of `h`; conversely after `set_ampm` + `set_hour12`,
/// `set_hour(h)` is accepted iff `h` is that hour; an accepted call leaves the record unchanged
fn run_hour_cross(c: &mut Ctx) {
    let outcome = |r: &ParseResult<()>, p: &Parsed| match r {
        Ok(()) => format!("ok {}", dump_parsed(p)),
        Err(e) => format!("err {}", err_kind(e)),
    };
    for h in -1i64..=24 {
        let mut p1 = Parsed::new();
        let r1 = p1.set_hour(h);
        c.op(&format!("pr.set hour {} {}", h, dump_parsed(&Parsed::new())), &outcome(&r1, &p1));
        if r1.is_ok() != (0..=23).contains(&h) {
            c.fail("set_hour: accepted range is not 0..=23", &format!("{}", h));
        }
        if r1.is_err() {
            continue;
        }
        let mid = dump_parsed(&p1);
        for pm in [false, true] {
            let mut p2 = p1.clone();
            let r2 = p2.set_ampm(pm);
            let s2 = outcome(&r2, &p2);
            c.op(&format!("pr.set ampm {} {}", pm as i64, mid), &s2);
            let want = if pm == (h >= 12) { format!("ok {}", mid) } else { "err Impossible".to_string() };
            c.count("hourcross:ampm-after-hour");
            if s2 != want {
                c.fail("set_ampm after set_hour: accepted iff it is the half of the day of the hour", &format!("hour {} then pm {} -> {} (expected {})", h, pm, s2, want));
            }
        }
        for v in 0i64..=13 {
            let mut p2 = p1.clone();
            let r2 = p2.set_hour12(v);
            let s2 = outcome(&r2, &p2);
            c.op(&format!("pr.set hour12 {} {}", v, mid), &s2);
            let want = if !(1..=12).contains(&v) {
                "err OutOfRange".to_string()
            } else if v % 12 == h % 12 {
                format!("ok {}", mid)
            } else {
                "err Impossible".to_string()
            };
            c.count("hourcross:hour12-after-hour");
            if s2 != want {
                c.fail("set_hour12 after set_hour: accepted iff it is the 12-hour-clock reading of the hour", &format!("hour {} then hour12 {} -> {} (expected {})", h, v, s2, want));
            }
        }
    }
    for pm in [false, true] {
        for v in 1i64..=12 {
            let mut p2 = Parsed::new();
            p2.set_ampm(pm).unwrap();
            p2.set_hour12(v).unwrap();
            let mid = dump_parsed(&p2);
            for h in -1i64..=24 {
                let mut p3 = p2.clone();
                let r3 = p3.set_hour(h);
                let s3 = outcome(&r3, &p3);
                c.op(&format!("pr.set hour {} {}", h, mid), &s3);
                let want = if !(0..=23).contains(&h) {
                    "err OutOfRange".to_string()
                } else if h == (if pm { 12 } else { 0 }) + v % 12 {
                    format!("ok {}", mid)
                } else {
                    "err Impossible".to_string()
                };
                c.count("hourcross:hour-after-ampm-hour12");
                if s3 != want {
                    c.fail("set_hour after set_ampm and set_hour12: accepted iff it is the hour they denote", &format!("pm {} hour12 {} then hour {} -> {} (expected {})", pm, v, h, s3, want));
                }
            }
            // the resolved time has that hour
            p2.set_minute(0).unwrap();
            let want_h = (if pm { 12 } else { 0 }) + (v % 12) as u32;
            if p2.to_naive_time().map(|t| t.hour()) != Ok(want_h) {
                c.fail("to_naive_time: hour is not the one denoted by am/pm and the 12-hour clock", &format!("pm {} hour12 {}", pm, v));
            }
        }
    }
    // Parsed::new() / default: NotEnough everywhere (theorem new_resolves_not_enough)
    {
        let p = Parsed::default();
        let all_ne = p.to_naive_date().map_err(|e| err_kind(&e)) == Err("NotEnough".into())
            && p.to_naive_time().map_err(|e| err_kind(&e)) == Err("NotEnough".into())
            && p.to_naive_datetime_with_offset(0).map_err(|e| err_kind(&e)) == Err("NotEnough".into())
            && p.to_naive_datetime_with_offset(i32::MIN).map_err(|e| err_kind(&e)) == Err("NotEnough".into())
            && p.to_fixed_offset().map_err(|e| err_kind(&e)) == Err("NotEnough".into())
            && p.to_datetime().map_err(|e| err_kind(&e)) == Err("NotEnough".into())
            && p.to_datetime_with_timezone(&chrono::Utc).map_err(|e| err_kind(&e)) == Err("NotEnough".into())
            && p.to_datetime_with_timezone(&FixedOffset::east_opt(-3600).unwrap()).map_err(|e| err_kind(&e)) == Err("NotEnough".into())
            && dump_parsed(&p) == dump_parsed(&Parsed::new());
        c.count("new:not-enough");
        if !all_ne {
            c.fail("Parsed::new() / default must be NotEnough for every resolver", "");
        }
    }
}

// ---- a time zone with one transition -----------------------------------------------------------
/// Offset `o1` (seconds east) for every instant before `t` (seconds since the epoch), `o2` from `t`
/// on: `o1 > o2` gives a fold of `o1 - o2` seconds, `o1 < o2` a gap.  The Lean model is
/// `StepZone` in lean/Chrono/Model/ParsedZone.lean: the two REQUIRED lookups below are defined there
/// by the same formulas, and `from_local_datetime` is the trait's PROVIDED method on both sides (a
/// candidate whose UTC reading leaves the representable range turns the whole result into `None`).
#[derive(Clone, Copy, Debug, PartialEq, Eq)]
pub struct StepZone {
    pub t: i64,
    pub o1: i32,
    pub o2: i32,
}
#[derive(Clone, Copy, Debug, PartialEq, Eq)]
pub struct StepOffset {
    zone: StepZone,
    off: FixedOffset,
}
impl Offset for StepOffset {
    fn fix(&self) -> FixedOffset {
        self.off
    }
}
impl StepZone {
    fn offset_at(&self, u: i64) -> i32 {
        if u < self.t {
            self.o1
        } else {
            self.o2
        }
    }
    fn mk(&self, o: i32) -> StepOffset {
        StepOffset { zone: *self, off: FixedOffset::east_opt(o).unwrap() }
    }
    /// local seconds `s` lie in the fold (two instants read `s`)
    fn in_fold(&self, s: i64) -> bool {
        s - (self.o1 as i64) < self.t && self.t <= s - (self.o2 as i64)
    }
}
impl TimeZone for StepZone {
    type Offset = StepOffset;
    fn from_offset(offset: &StepOffset) -> StepZone {
        offset.zone
    }
    fn offset_from_local_date(&self, local: &NaiveDate) -> LocalResult<StepOffset> {
        self.offset_from_local_datetime(&local.and_time(NaiveTime::MIN))
    }
    fn offset_from_local_datetime(&self, local: &NaiveDateTime) -> LocalResult<StepOffset> {
        let s = local.and_utc().timestamp();
        match (s - (self.o1 as i64) < self.t, self.t <= s - (self.o2 as i64)) {
            (true, true) => LocalResult::Ambiguous(self.mk(self.o1), self.mk(self.o2)),
            (true, false) => LocalResult::Single(self.mk(self.o1)),
            (false, true) => LocalResult::Single(self.mk(self.o2)),
            (false, false) => LocalResult::None,
        }
    }
    fn offset_from_utc_date(&self, utc: &NaiveDate) -> StepOffset {
        self.offset_from_utc_datetime(&utc.and_time(NaiveTime::MIN))
    }
    fn offset_from_utc_datetime(&self, utc: &NaiveDateTime) -> StepOffset {
        self.mk(self.offset_at(utc.and_utc().timestamp()))
    }
}
fn szs(z: &DateTime<StepZone>) -> String {
    format!("{} {}", sdt(&z.naive_utc()), z.offset().fix().local_minus_utc())
}
fn smapped(m: &LocalResult<DateTime<StepZone>>) -> String {
    match m {
        LocalResult::None => "none".into(),
        LocalResult::Single(a) => format!("single {}", szs(a)),
        LocalResult::Ambiguous(a, b) => format!("ambiguous {} {}", szs(a), szs(b)),
    }
}
fn cands(m: &LocalResult<DateTime<StepZone>>) -> Vec<DateTime<StepZone>> {
    match m {
        LocalResult::None => vec![],
        LocalResult::Single(a) => vec![a.clone()],
        LocalResult::Ambiguous(a, b) => vec![a.clone(), b.clone()],
    }
}

const MIN_TS: i64 = -8334601228800; // NaiveDateTime::MIN as a timestamp
const MAX_TS: i64 = 8210266876799; // NaiveDateTime::MAX

pub fn gen_step_zone(c: &mut Ctx) -> (StepZone, &'static str) {
    let (o1, o2, kind) = match c.rng.below(10) {
        0 => (7200, 3600, "fold"),
        1 => (3600, 7200, "gap"),
        2 => {
            let o = gen_offset(c);
            (o, o, "flat")
        }
        3 => {
            // one-second fold / gap: the leap-second tolerance of the timestamp test matters here
            let o = c.rng.range(-86398, 86398) as i32;
            if c.rng.chance(1, 2) {
                (o + 1, o, "fold")
            } else {
                (o, o + 1, "gap")
            }
        }
        4 => *c.rng.pick(&[(86399, -86399, "fold"), (-86399, 86399, "gap"), (0, -1800, "fold"), (-1800, 0, "gap"), (1, -1, "fold")]),
        _ => {
            let a = gen_offset(c);
            let b = gen_offset(c);
            (a, b, if a > b { "fold" } else if a < b { "gap" } else { "flat" })
        }
    };
    let t = match c.rng.below(10) {
        0 | 1 => 1_635_642_000,
        2 => 0,
        3 => *c.rng.pick(&[MIN_TS + 3600, MIN_TS + 100_000, MAX_TS - 3600, MAX_TS - 100_000, MIN_TS, MAX_TS]),
        4 => c.rng.range(-62_000_000_000, 250_000_000_000),
        _ => c.rng.range(-3_000_000_000, 5_000_000_000),
    };
    (StepZone { t, o1, o2 }, kind)
}

/// `to_datetime_with_timezone` for zones with a transition
fn run_step_zones(c: &mut Ctx) {
    let n = c.n(40_000, 400_000);
    for k in 0..n {
        let (zone, kind) = gen_step_zone(c);
        let (o1, o2) = (zone.o1 as i64, zone.o2 as i64);
        let w = (o1 - o2).abs(); // width of the fold / gap
        let near_end = zone.t < MIN_TS + 400_000 || zone.t > MAX_TS - 400_000;
        // ---- where: an instant `u` (or, for the gap, a local second) relative to the transition ----
        // local seconds of the fold: t+o2 ..< t+o1 (instants t-w ..< t first pass, t ..< t+w second pass)
        let place = c.rng.below(8);
        let mut gap_local: Option<i64> = None;
        let u: i64 = match (place, kind) {
            (0, "fold") => zone.t - 1 - c.rng.below(w as u64) as i64, // inside the fold, first pass
            (1, "fold") => zone.t + c.rng.below(w as u64) as i64,      // inside the fold, second pass
            (0 | 1, "gap") => {
                gap_local = Some(zone.t + o1 + c.rng.below(w as u64) as i64);
                zone.t
            }
            (2 | 3, _) => zone.t + *c.rng.pick(&[-1i64, 0, 1, -w, -w - 1, -w + 1, w, w - 1, w + 1, -2, 2]), // boundary seconds
            (4, _) => zone.t + *c.rng.pick(&[-1i64, 1]) * c.rng.range(100_000, 2_000_000_000), // far away
            (5, _) => zone.t + c.rng.range(-2 * w - 3, 2 * w + 3),
            _ => zone.t + c.rng.range(-100_000, 100_000),
        };
        if u < MIN_TS + 90_000 || u > MAX_TS - 90_000 {
            c.count("tzstep:skipped:instant-out-of-range");
            continue;
        }
        let mut nano = gen_nano(c);
        // ---- which fields ----
        let mode = c.rng.below(10);
        let mut m = [false; NF];
        match mode {
            0..=5 => {
                // a complete date and time
                for i in [HDIV, HMOD, MIN, SEC, NANO] {
                    m[i] = true;
                }
                match c.rng.below(4) {
                    0 => m[ORD] = true,
                    1 => {
                        m[WSUN] = true;
                        m[WDAY] = true;
                    }
                    _ => {
                        m[MONTH] = true;
                        m[DAY] = true;
                    }
                }
                m[YEAR] = true;
            }
            6 | 7 => {
                // the timestamp alone (with or without the nanosecond)
                m[TS] = true;
                if c.rng.chance(1, 2) {
                    m[NANO] = true;
                } else {
                    nano = 0;
                }
            }
            _ => m = gen_mask(c),
        }
        let real_off = zone.offset_at(u);
        let (l, real): (NaiveDateTime, bool) = match gap_local {
            Some(s) => (DateTime::from_timestamp(s, nano).unwrap().naive_utc(), false),
            None => {
                let s = u + real_off as i64;
                // a leap second needs the second field
                if m[SEC] && s.rem_euclid(60) == 59 && c.rng.chance(1, 3) {
                    nano += 1_000_000_000;
                }
                if !m[SEC] && mode >= 8 {
                    // random masks: keep the fields a complete description of the value
                    nano = if m[NANO] { nano } else { 0 };
                }
                (DateTime::from_timestamp(s, nano).unwrap().naive_utc(), true)
            }
        };
        let ls = l.and_utc().timestamp();
        let in_fold = zone.in_fold(ls);
        let all = fields_of(&l, real_off);
        let mut f: Fields = [None; NF];
        for i in 0..NF {
            if m[i] {
                f[i] = all[i];
            }
        }
        // ---- the offset field: absent / o1 / o2 / neither ----
        let offv = c.rng.below(5);
        f[OFF] = match offv {
            0 | 1 => None,
            2 => Some(o1),
            3 => Some(o2),
            _ => Some(match c.rng.below(4) {
                0 => o1 + 1,
                1 => o2 - 1,
                2 => 0,
                _ => gen_offset(c) as i64,
            }),
        };
        // ---- the timestamp field: absent / true / the other candidate's / off by one / random ----
        let other_u = if real_off as i64 == o1 { u + (o1 - o2) } else { u - (o1 - o2) };
        let tsv = if m[TS] && mode >= 6 && mode <= 7 { 1 } else { c.rng.below(8) };
        f[TS] = match tsv {
            0 | 2 | 3 => None,
            1 | 4 => Some(if real { u } else { ls - *c.rng.pick(&[o1, o2]) }),
            5 => Some(other_u),
            6 => Some(u + *c.rng.pick(&[1i64, -1])),
            _ => Some(u + c.rng.range(-2 * w - 2, 2 * w + 2)),
        };
        let p = build(&f);
        let dump = dump_parsed(&p);
        let ztxt = format!("{} {} {}", zone.t, zone.o1, zone.o2);
        let cls = if !real {
            "gap"
        } else if in_fold {
            if real_off as i64 == o1 {
                "fold-first"
            } else {
                "fold-second"
            }
        } else if (u - zone.t).abs() <= w + 2 {
            "boundary"
        } else {
            "away"
        };

        // ---- the zone itself against its model ----
        if k % 4 == 0 {
            let ml = guard(|| zone.from_local_datetime(&l));
            c.op(&format!("pr.steplocal {} {}", ztxt, sdt(&l)), &match &ml {
                Ok(x) => smapped(x),
                Err(()) => "panic".into(),
            });
            if let Ok(x) = &ml {
                c.count(&format!("tzstep:zone:local:{}", &smapped(x)[..4]));
                // first principles: every candidate reads `l`, carries the zone's offset at its instant
                for z in cands(x) {
                    if z.naive_local() != l || z.offset().fix().local_minus_utc() != zone.offset_at(z.timestamp()) {
                        c.fail("step zone: a candidate of from_local_datetime is not an instant that reads the local time", &format!("zone {} local {} -> {}", ztxt, l, szs(&z)));
                    }
                }
            }
            if real {
                if let Some(ud) = DateTime::from_timestamp(u, 0) {
                    c.op(&format!("pr.steputc {} {}", ztxt, sdt(&ud.naive_utc())), &zone.offset_from_utc_datetime(&ud.naive_utc()).fix().local_minus_utc().to_string());
                }
            }
        }

        // ---- the resolver ----
        let r = guard(|| p.to_datetime_with_timezone(&zone));
        let s = show(r.clone(), szs);
        c.op(&format!("pr.tzstep {} {}", dump, ztxt), &s);
        let fkey = if f[OFF].is_none() {
            "none"
        } else if f[OFF] == Some(o1) && f[OFF] == Some(o2) {
            "both"
        } else if f[OFF] == Some(o1) {
            "o1"
        } else if f[OFF] == Some(o2) {
            "o2"
        } else {
            "neither"
        };
        c.count(&format!("tzstep:{}:{}:{}", kind, cls, kind_of(&s)));
        c.count(&format!("tzstep:fields:{}:off-{}:ts-{}:{}", if in_fold { "in-fold" } else { "elsewhere" }, fkey, if f[TS].is_some() { "given" } else { "none" }, kind_of(&s)));
        if k < 3 {
            c.sample(&format!("step zone {} [{}] ({}, {}) -> {}", ztxt, dump, kind, cls, s));
        }
        if r.is_err() {
            c.fail("to_datetime_with_timezone (step zone) panicked", &format!("[{}] zone {}", dump, ztxt));
        }
        if kind == "flat" {
            // a step zone without a step is a fixed zone
            let fx = show(guard(|| p.to_datetime_with_timezone(&FixedOffset::east_opt(zone.o1).unwrap())), sz);
            if fx != s {
                c.fail("to_datetime_with_timezone: a zone with constant offset and FixedOffset differ", &format!("[{}] zone {} -> {} vs {}", dump, ztxt, s, fx));
            }
        }
        if let Ok(Ok(v)) = &r {
            let voff = v.offset().fix().local_minus_utc() as i64;
            // (b) the offset field
            if f[OFF].map_or(false, |o| o != voff) {
                c.fail("to_datetime_with_timezone (zone with a fold): result offset differs from the supplied offset field", &format!("[{}] zone {} -> {}", dump, ztxt, s));
            }
            // the timestamp field (one less allowed for a leap-second result)
            if let Some(g) = f[TS] {
                let t = v.timestamp();
                if !(g == t || (v.nanosecond() >= 1_000_000_000 && g == t + 1)) {
                    c.fail("to_datetime_with_timezone (zone with a fold): result contradicts the timestamp field", &format!("[{}] zone {} -> {} (timestamp {})", dump, ztxt, s, t));
                }
            }
            // the value is coherent with the zone
            if voff != zone.offset_at(v.timestamp()) as i64 {
                c.fail("to_datetime_with_timezone (step zone): result offset is not the zone's offset at the result instant", &format!("[{}] zone {} -> {}", dump, ztxt, s));
            }
            // (a) one of the candidates for the resolved local date-time
            let guessed = match f[TS] {
                Some(g) => DateTime::from_timestamp(g, f[NANO].unwrap_or(0) as u32).map(|d| zone.offset_from_utc_datetime(&d.naive_utc()).fix().local_minus_utc()),
                None => Some(0),
            };
            match guessed.and_then(|g| p.to_naive_datetime_with_offset(g).ok()) {
                Some(res) => {
                    let cs = cands(&zone.from_local_datetime(&res));
                    if !cs.iter().any(|x| x.naive_utc() == v.naive_utc() && x.offset().fix() == v.offset().fix()) {
                        c.fail("to_datetime_with_timezone (step zone): result is not a candidate of from_local_datetime(resolved local)", &format!("[{}] zone {} -> {} (local {})", dump, ztxt, s, res));
                    }
                    if v.naive_local() != res {
                        c.fail("to_datetime_with_timezone (step zone): wall clock of the result is not the resolved local date-time", &format!("[{}] zone {} -> {} (local {})", dump, ztxt, s, res));
                    }
                }
                None => c.fail("to_datetime_with_timezone (step zone): Ok although the naive resolution fails", &format!("[{}] zone {} -> {}", dump, ztxt, s)),
            }
            // (c) the wall clock agrees with the supplied fields
            let wl = v.naive_local();
            if let Some(wf) = date_agrees(&f, &wl.date()) {
                c.fail("to_datetime_with_timezone (step zone): date contradicts a supplied field", &format!("field {} of [{}] zone {} -> {}", wf, dump, ztxt, s));
            }
            let mut ft = f;
            let t = wl.time();
            if f[TS].is_some() {
                // in the timestamp path omitted hour / minute / second are taken from the timestamp
                if ft[HDIV].is_none() {
                    ft[HDIV] = Some((t.hour() / 12) as i64);
                }
                if ft[HMOD].is_none() {
                    ft[HMOD] = Some((t.hour() % 12) as i64);
                }
                if ft[MIN].is_none() {
                    ft[MIN] = Some(t.minute() as i64);
                }
                if ft[SEC].is_none() {
                    ft[SEC] = Some(t.second() as i64);
                }
            }
            if let Some(wf) = time_agrees(&ft, &t) {
                c.fail("to_datetime_with_timezone (step zone): time contradicts a supplied field", &format!("field {} of [{}] zone {} -> {}", wf, dump, ztxt, s));
            }
        }

        // ---- expected resolution of derived sets (complete date and time, or the timestamp alone) ----
        if mode <= 7 && !near_end && w != 1 {
            let render = |off: i64| -> String {
                let ud = l.checked_sub_offset(FixedOffset::east_opt(off as i32).unwrap()).unwrap();
                format!("ok {} {}", sdt(&ud), off)
            };
            let ro = real_off as i64;
            let oo = if ro == o1 { o2 } else { o1 }; // the offset on the other side of the transition
            let want: Option<String> = if !real {
                // a local time that does not exist
                if f[TS].is_none() {
                    Some("err Impossible".into())
                } else {
                    None
                }
            } else if mode >= 6 && f[TS] != Some(u) {
                None
            } else if f[TS] == Some(u) {
                // the timestamp decides, also inside the fold; a contradicting offset is impossible
                match f[OFF] {
                    None => Some(render(ro)),
                    Some(o) if o == ro => Some(render(ro)),
                    Some(_) => Some("err Impossible".into()),
                }
            } else if f[TS].is_none() {
                match f[OFF] {
                    None => Some(if in_fold { "err NotEnough".into() } else { render(ro) }),
                    Some(o) if o == ro => Some(render(ro)),
                    Some(o) if o == oo && in_fold => Some(render(oo)),
                    Some(_) => Some("err Impossible".into()),
                }
            } else {
                None
            };
            if let Some(want) = want {
                c.count(&format!("tzstep:expected:{}:{}", cls, kind_of(&want)));
                if s != want {
                    c.fail("to_datetime_with_timezone (step zone): derived fields resolve wrongly", &format!("[{}] zone {} ({}, local {}) -> {} (expected {})", dump, ztxt, cls, l, s, want));
                }
            }
        }
    }

    // ---- the two inputs of finding F26 and their neighbours, literally ----
    let zone = StepZone { t: 1_635_642_000, o1: 7200, o2: 3600 };
    for (ts, off, want) in [
        (1_635_640_200i64, Some(3600i64), "err Impossible"),
        (1_635_643_800, Some(7200), "err Impossible"),
        (1_635_640_200, Some(7200), "ok 16560907 1800 0 7200"),
        (1_635_643_800, Some(3600), "ok 16560907 5400 0 3600"),
        (1_635_640_200, None, "ok 16560907 1800 0 7200"),
        (1_635_643_800, None, "ok 16560907 5400 0 3600"),
    ] {
        let mut f: Fields = [None; NF];
        f[TS] = Some(ts);
        f[OFF] = off;
        let p = build(&f);
        let s = show(guard(|| p.to_datetime_with_timezone(&zone)), szs);
        c.op(&format!("pr.tzstep {} {} {} {}", dump_parsed(&p), zone.t, zone.o1, zone.o2), &s);
        if s != want {
            c.fail("to_datetime_with_timezone (zone with a fold): result contradicts the timestamp field", &format!("[{}] zone +02:00 -> +01:00 at 1635642000 -> {} (expected {})", dump_parsed(&p), s, want));
        }
    }
}


// ---- `Local` (tz-database zones) as the zone of to_datetime_with_timezone (audit 2, MEDIUM-3) ------
/// reference transitions `(instant, offset before, offset from then on)` read off `zdump -v` / Python
/// zoneinfo — NOT through chrono: Berlin 2021 (gap, fold), New York 2021 (gap, fold), Lord Howe 2021
/// (30-minute fold, gap), London 1968 (gap into BST; the change BST(dst) -> BST(standard time) on
/// 1968-10-26 23:00 UTC that keeps the offset: a "flat" transition) and 1971 (fold out of it)
const LOCAL_ZONES: [(&str, &[(i64, i32, i32)]); 4] = [
    ("Europe/Berlin", &[(1_616_893_200, 3600, 7200), (1_635_642_000, 7200, 3600)]),
    ("America/New_York", &[(1_615_705_200, -18000, -14400), (1_636_264_800, -14400, -18000)]),
    ("Australia/Lord_Howe", &[(1_617_462_000, 39600, 37800), (1_633_188_600, 37800, 39600)]),
    ("Europe/London", &[(-59_004_000, 0, 3600), (-37_242_000, 3600, 3600), (57_722_400, 3600, 0)]),
];
fn szg<Z: TimeZone>(z: &DateTime<Z>) -> String {
    format!("{} {}", sdt(&z.naive_utc()), z.offset().fix().local_minus_utc())
}
fn candsg<Z: TimeZone>(m: &LocalResult<DateTime<Z>>) -> Vec<DateTime<Z>> {
    match m {
        LocalResult::None => vec![],
        LocalResult::Single(a) => vec![a.clone()],
        LocalResult::Ambiguous(a, b) => vec![a.clone(), b.clone()],
    }
}
/// Stream `tzlocal:*`: `Parsed::to_datetime_with_timezone(&Local)` with `TZ` set per worker thread.
/// Around each reference transition the zone is, for every instant the resolver can ask about, the
/// one-transition zone `StepZone { t, o1, o2 }`; so the outcome is compared with the model's step-zone
/// resolver (`pr.tzstep`) AND judged by the direct oracles of `run_step_zones`: result offset == offset
/// field, result instant == timestamp field (one less for a leap second), result is one of
/// `Local.from_local_datetime(resolved local)`, result offset is the reference offset at its instant,
/// wall clock agrees with the supplied fields, and the expected resolution of derived sets.
fn run_tz_local(c: &mut Ctx) {
    for (name, trs) in LOCAL_ZONES {
        let old = std::env::var("TZ").ok();
        std::env::set_var("TZ", name);
        let joined = std::thread::scope(|s| s.spawn(|| tz_local_zone(&mut *c, name, trs)).join().is_ok());
        match old {
            Some(v) => std::env::set_var("TZ", v),
            None => std::env::remove_var("TZ"),
        }
        if !joined {
            c.fail("tzlocal: worker thread panicked", name);
        }
    }
}
fn tz_local_zone(c: &mut Ctx, name: &str, trs: &[(i64, i32, i32)]) {
    use chrono::Local;
    let tz = Local;
    // the zone file must be the one the reference was read from (else: counted, not judged)
    for &(t, o1, o2) in trs {
        let at = |u: i64| tz.offset_from_utc_datetime(&DateTime::from_timestamp(u, 0).unwrap().naive_utc()).fix().local_minus_utc();
        if at(t - 1) != o1 || at(t) != o2 || at(t - 40 * 86400) != o1 || at(t + 40 * 86400) != o2 {
            c.count(&format!("tzlocal:zone-unavailable:{}", name));
            c.sample(&format!("tzlocal: TZ={} does not show the reference transition at {} ({} -> {})", name, t, o1, o2));
            return;
        }
    }
    let n = c.n(1200, 12000);
    for &(tt, ro1, ro2) in trs {
        let zone = StepZone { t: tt, o1: ro1, o2: ro2 };
        let kind = if ro1 > ro2 { "fold" } else if ro1 < ro2 { "gap" } else { "flat" };
        let (o1, o2) = (zone.o1 as i64, zone.o2 as i64);
        let w = (o1 - o2).abs();
        for k in 0..n {
            let place = c.rng.below(8);
            let mut gap_local: Option<i64> = None;
            let u: i64 = match (place, kind) {
                (0, "fold") => zone.t - 1 - c.rng.below(w as u64) as i64,
                (1, "fold") => zone.t + c.rng.below(w as u64) as i64,
                (0 | 1, "gap") => {
                    gap_local = Some(zone.t + o1 + c.rng.below(w as u64) as i64);
                    zone.t
                }
                (2 | 3, _) => zone.t + *c.rng.pick(&[-1i64, 0, 1, -w, -w - 1, -w + 1, w, w - 1, w + 1, -2, 2]),
                (4, _) => zone.t + *c.rng.pick(&[-1i64, 1]) * c.rng.range(100_000, 1_700_000), // up to 20 days away
                (5, _) => zone.t + c.rng.range(-2 * w - 3, 2 * w + 3),
                _ => zone.t + c.rng.range(-100_000, 100_000),
            };
            let mut nano = gen_nano(c);
            let mode = c.rng.below(10);
            let mut m = [false; NF];
            match mode {
                0..=5 => {
                    for i in [HDIV, HMOD, MIN, SEC, NANO] {
                        m[i] = true;
                    }
                    match c.rng.below(4) {
                        0 => m[ORD] = true,
                        1 => {
                            m[WSUN] = true;
                            m[WDAY] = true;
                        }
                        _ => {
                            m[MONTH] = true;
                            m[DAY] = true;
                        }
                    }
                    m[YEAR] = true;
                }
                6 | 7 => {
                    m[TS] = true;
                    if c.rng.chance(1, 2) {
                        m[NANO] = true;
                    } else {
                        nano = 0;
                    }
                }
                _ => m = gen_mask(c),
            }
            let real_off = zone.offset_at(u);
            let (l, real): (NaiveDateTime, bool) = match gap_local {
                Some(s) => (DateTime::from_timestamp(s, nano).unwrap().naive_utc(), false),
                None => {
                    let s = u + real_off as i64;
                    if m[SEC] && s.rem_euclid(60) == 59 && c.rng.chance(1, 3) {
                        nano += 1_000_000_000;
                    }
                    if !m[SEC] && mode >= 8 {
                        nano = if m[NANO] { nano } else { 0 };
                    }
                    (DateTime::from_timestamp(s, nano).unwrap().naive_utc(), true)
                }
            };
            let ls = l.and_utc().timestamp();
            let in_fold = zone.in_fold(ls);
            let all = fields_of(&l, real_off);
            let mut f: Fields = [None; NF];
            for i in 0..NF {
                if m[i] {
                    f[i] = all[i];
                }
            }
            f[OFF] = match c.rng.below(5) {
                0 | 1 => None,
                2 => Some(o1),
                3 => Some(o2),
                _ => Some(match c.rng.below(4) {
                    0 => o1 + 1,
                    1 => o2 - 1,
                    2 => 0,
                    _ => gen_offset(c) as i64,
                }),
            };
            let other_u = if real_off as i64 == o1 { u + (o1 - o2) } else { u - (o1 - o2) };
            let tsv = if m[TS] && mode >= 6 && mode <= 7 { 1 } else { c.rng.below(8) };
            f[TS] = match tsv {
                0 | 2 | 3 => None,
                1 | 4 => Some(if real { u } else { ls - *c.rng.pick(&[o1, o2]) }),
                5 => Some(other_u),
                6 => Some(u + *c.rng.pick(&[1i64, -1])),
                _ => Some(u + c.rng.range(-2 * w - 2, 2 * w + 2)),
            };
            let p = build(&f);
            let dump = dump_parsed(&p);
            let ztxt = format!("{} {} {}", zone.t, zone.o1, zone.o2);
            let cls = if !real {
                "gap"
            } else if in_fold {
                if real_off as i64 == o1 {
                    "fold-first"
                } else {
                    "fold-second"
                }
            } else if (u - zone.t).abs() <= w + 2 {
                "boundary"
            } else {
                "away"
            };
            // The wall-clock second `t + o1` (the second that ENDS the repeated interval, resp. the first skipped
            // one) is the boundary second C05's statement excepts: `Local` answers it Ambiguous (fold) / Single
            // (gap) with a candidate that does not read it, the step zone of the model answers from first
            // principles.  Cases whose wall clock — `l`, or the timestamp field seen through either offset — is
            // that second are only judged by the oracles that hold for any zone answer.
            let bsec = zone.t + o1;
            // the wall clock the record resolves to has second 0 when the second field is not supplied
            let ls_res = if m[SEC] { ls } else { ls - ls.rem_euclid(60) };
            let excepted = kind != "flat"
                && (ls == bsec || ls_res == bsec || f[TS].map_or(false, |g| g + o1 == bsec || g + o2 == bsec || g + o1 - 1 == bsec || g + o2 - 1 == bsec));
            // The one-transition step zone describes `Local` only near the reference transition (the zone was checked
            // 40 days to both sides).  A random field subset (mode 8, 9) can resolve somewhere else altogether — a
            // two-digit year without its century reads 1968 as 2068 — so such records are compared with the model and
            // judged against the reference offset only when they carry the full year or the timestamp.
            let anchored = mode <= 7 || m[YEAR] || m[TS];
            let near = |ts: i64| (ts - zone.t).abs() <= 35 * 86_400;
            if excepted {
                c.count("tzlocal:boundary-second(excepted by C05)");
            }
            // ---- the zone itself: Local's lookup for this wall clock against the reference transition ----
            if k % 4 == 0 && !excepted {
                let ml = guard(|| tz.from_local_datetime(&l));
                let sm = match &ml {
                    Ok(LocalResult::None) => "none".to_string(),
                    Ok(LocalResult::Single(a)) => format!("single {}", szg(a)),
                    Ok(LocalResult::Ambiguous(a, b)) => format!("ambiguous {} {}", szg(a), szg(b)),
                    Err(()) => "panic".into(),
                };
                c.op(&format!("pr.steplocal {} {}", ztxt, sdt(&l)), &sm);
                c.count(&format!("tzlocal:zone:local:{}", &sm[..4]));
            }
            // ---- the resolver ----
            let r = guard(|| p.to_datetime_with_timezone(&tz));
            let s = show(r.clone(), szg);
            let result_near = match &r {
                Ok(Ok(v)) => near(v.timestamp()),
                _ => true,
            };
            if !excepted && anchored && result_near {
                c.op(&format!("pr.tzstep {} {}", dump, ztxt), &s);
            } else if !excepted {
                c.count("tzlocal:not-compared(resolves away from the reference transition)");
            }
            c.count(&format!("tzlocal:{}:{}:{}:{}", name, kind, cls, kind_of(&s)));
            if k < 1 {
                c.sample(&format!("TZ={} [{}] ({}, {}) -> {}", name, dump, kind, cls, s));
            }
            if r.is_err() {
                c.fail("to_datetime_with_timezone (Local) panicked", &format!("TZ={} [{}]", name, dump));
            }
            if let Ok(Ok(v)) = &r {
                let voff = v.offset().fix().local_minus_utc() as i64;
                if f[OFF].map_or(false, |o| o != voff) {
                    c.fail("to_datetime_with_timezone (Local): result offset differs from the supplied offset field", &format!("TZ={} [{}] -> {}", name, dump, s));
                }
                if let Some(g) = f[TS] {
                    let t = v.timestamp();
                    if !(g == t || (v.nanosecond() >= 1_000_000_000 && g == t + 1)) {
                        c.fail("to_datetime_with_timezone (Local): result contradicts the timestamp field", &format!("TZ={} [{}] -> {} (timestamp {})", name, dump, s, t));
                    }
                }
                if !excepted && near(v.timestamp()) && voff != zone.offset_at(v.timestamp()) as i64 {
                    c.fail("to_datetime_with_timezone (Local): result offset is not the zone's reference offset at the result instant", &format!("TZ={} [{}] -> {}", name, dump, s));
                }
                let guessed = match f[TS] {
                    Some(g) => DateTime::from_timestamp(g, f[NANO].unwrap_or(0) as u32).map(|d| tz.offset_from_utc_datetime(&d.naive_utc()).fix().local_minus_utc()),
                    None => Some(0),
                };
                match guessed.and_then(|g| p.to_naive_datetime_with_offset(g).ok()) {
                    Some(res) => {
                        let cs = candsg(&tz.from_local_datetime(&res));
                        if !cs.iter().any(|x| x.naive_utc() == v.naive_utc() && x.offset().fix() == v.offset().fix()) {
                            c.fail("to_datetime_with_timezone (Local): result is not a candidate of Local.from_local_datetime(resolved local)", &format!("TZ={} [{}] -> {} (local {})", name, dump, s, res));
                        }
                        if v.naive_local() != res {
                            c.fail("to_datetime_with_timezone (Local): wall clock of the result is not the resolved local date-time", &format!("TZ={} [{}] -> {} (local {})", name, dump, s, res));
                        }
                    }
                    None => c.fail("to_datetime_with_timezone (Local): Ok although the naive resolution fails", &format!("TZ={} [{}] -> {}", name, dump, s)),
                }
                let wl = v.naive_local();
                if let Some(wf) = date_agrees(&f, &wl.date()) {
                    c.fail("to_datetime_with_timezone (Local): date contradicts a supplied field", &format!("field {} of TZ={} [{}] -> {}", wf, name, dump, s));
                }
                let mut ft = f;
                let t = wl.time();
                if f[TS].is_some() {
                    if ft[HDIV].is_none() {
                        ft[HDIV] = Some((t.hour() / 12) as i64);
                    }
                    if ft[HMOD].is_none() {
                        ft[HMOD] = Some((t.hour() % 12) as i64);
                    }
                    if ft[MIN].is_none() {
                        ft[MIN] = Some(t.minute() as i64);
                    }
                    if ft[SEC].is_none() {
                        ft[SEC] = Some(t.second() as i64);
                    }
                }
                if let Some(wf) = time_agrees(&ft, &t) {
                    c.fail("to_datetime_with_timezone (Local): time contradicts a supplied field", &format!("field {} of TZ={} [{}] -> {}", wf, name, dump, s));
                }
            }
            // ---- expected resolution of derived sets (complete date and time, or the timestamp alone) ----
            if mode <= 7 && !excepted {
                let render = |off: i64| -> String {
                    let ud = l.checked_sub_offset(FixedOffset::east_opt(off as i32).unwrap()).unwrap();
                    format!("ok {} {}", sdt(&ud), off)
                };
                let ro = real_off as i64;
                let oo = if ro == o1 { o2 } else { o1 };
                let want: Option<String> = if !real {
                    if f[TS].is_none() {
                        Some("err Impossible".into())
                    } else {
                        None
                    }
                } else if mode >= 6 && f[TS] != Some(u) {
                    None
                } else if f[TS] == Some(u) {
                    match f[OFF] {
                        None => Some(render(ro)),
                        Some(o) if o == ro => Some(render(ro)),
                        Some(_) => Some("err Impossible".into()),
                    }
                } else if f[TS].is_none() {
                    match f[OFF] {
                        None => Some(if in_fold { "err NotEnough".into() } else { render(ro) }),
                        Some(o) if o == ro => Some(render(ro)),
                        Some(o) if o == oo && in_fold => Some(render(oo)),
                        Some(_) => Some("err Impossible".into()),
                    }
                } else {
                    None
                };
                if let Some(want) = want {
                    c.count(&format!("tzlocal:expected:{}:{}", cls, kind_of(&want)));
                    if s != want {
                        c.fail("to_datetime_with_timezone (Local): derived fields resolve wrongly", &format!("TZ={} [{}] ({}, local {}) -> {} (expected {})", name, dump, cls, l, s, want));
                    }
                }
            }
        }
    }
}

// ---- deterministic seams stream (audit 2, MEDIUM-1 interim) ---------------------------------------
/// the years whose first / last days and 28 Feb .. 1 Mar are the seam days: both range ends (ISO year
/// 262143 / -262144 at the ends), year 0 and its neighbours (ISO year -1), the century seams, the
/// 1970 / 2069 pivot of the two-digit year
fn seam_years() -> Vec<i32> {
    let mut v = vec![MIN_YEAR, MIN_YEAR + 1];
    v.extend(-3..=3);
    v.extend(98..=101);
    v.extend(1968..=1972);
    v.extend(1999..=2001);
    v.extend(2067..=2072);
    v.extend(9998..=10001);
    v.extend([MAX_YEAR - 1, MAX_YEAR]);
    v
}
fn seam_code(r: &Result<ParseResult<NaiveDate>, ()>) -> u64 {
    match r {
        Err(()) => 3,
        Ok(Err(e)) => match err_kind(e).as_str() {
            "NotEnough" => 0,
            "Impossible" => 1,
            "OutOfRange" => 2,
            _ => 4,
        },
        Ok(Ok(d)) => 5 + (yof(d) + 2147483648) as u64,
    }
}
#[derive(Default)]
struct SeamAcc {
    h: u64,
    n: [u64; 5], // ok, NotEnough, Impossible, OutOfRange, other
}
impl SeamAcc {
    fn push(&mut self, code: u64) {
        self.h = (self.h * 1000003 + code) % 2147483647;
        let k = match code {
            0 => 1,
            1 => 2,
            2 => 3,
            3 | 4 => 4,
            _ => 0,
        };
        self.n[k] += 1;
    }
    fn show(&self) -> String {
        format!("{} {} {} {} {} {}", self.h, self.n[0], self.n[1], self.n[2], self.n[3], self.n[4])
    }
}
fn date_tokens(all: &Fields) -> String {
    (0..14).map(|i| all[i].map_or("-".to_string(), |v| v.to_string())).collect::<Vec<_>>().join(" ")
}
/// Stream `seams:*`: EVERY subset of the 14 date fields (2^14) of each seam day, resolved with the crate;
/// then, for fewer days, every subset with every present field moved by +1 / -1.  Correspondence: the
/// model computes the same digest of all outcomes (`pr.seam`).  Direct oracles: a determinate and
/// sufficient subset resolves to exactly the day, an insufficient one is NotEnough, century-only is
/// NotEnough, every success agrees with every supplied field, nothing panics.  Quick tier: one residue
/// class of the masks per day (the class rotates with the day), thorough: all of them.
fn run_seams(c: &mut Ctx) {
    let years = seam_years();
    let mut days: Vec<NaiveDate> = vec![];
    let mut pert_days: Vec<NaiveDate> = vec![];
    for &y in &years {
        let last = NaiveDate::from_ymd_opt(y, 12, 31).unwrap().ordinal();
        for o in (1..=8).chain(59..=61).chain(last - 8..=last) {
            days.push(NaiveDate::from_yo_opt(y, o).unwrap());
        }
        pert_days.push(NaiveDate::from_yo_opt(y, 1).unwrap());
        pert_days.push(NaiveDate::from_yo_opt(y, last).unwrap());
        if [MIN_YEAR, -1, 0, 100, 1970, 2000, 2069, 2070, 10000, MAX_YEAR].contains(&y) {
            pert_days.push(NaiveDate::from_yo_opt(y, 60).unwrap());
        }
    }
    let stride = c.n(4, 1) as u64;
    let pstride = c.n(16, 1) as u64;
    let mut cnt: std::collections::BTreeMap<&'static str, u64> = Default::default();
    for (k, d) in days.iter().enumerate() {
        let all = fields_of(&d.and_time(NaiveTime::MIN), 0);
        let phase = k as u64 % stride;
        let mut acc = SeamAcc::default();
        for mbits in 0u32..(1 << 14) {
            if mbits as u64 % stride != phase {
                continue;
            }
            let mut f: Fields = [None; NF];
            let mut m = [false; NF];
            for i in 0..14 {
                if mbits >> i & 1 == 1 && all[i].is_some() {
                    f[i] = all[i];
                    m[i] = true;
                }
            }
            let p = build(&f);
            let r = guard(|| p.to_naive_date());
            acc.push(seam_code(&r));
            let gy = group(&m, YEAR, d.year() as i64);
            let gi = group(&m, IYEAR, d.iso_week().year() as i64);
            let det = |g: Grp| g == Grp::Determinate || g == Grp::Empty;
            let kind: &'static str = match &r {
                Err(()) => {
                    c.fail("seams: to_naive_date panicked", &dump_parsed(&p));
                    "panic"
                }
                Ok(Ok(got)) => {
                    if let Some(w) = date_agrees(&f, got) {
                        c.fail("seams: to_naive_date result contradicts a supplied field", &format!("field {} of [{}] -> {}", w, dump_parsed(&p), got));
                    }
                    "ok"
                }
                Ok(Err(_)) => "err",
            };
            if gy == Grp::CenturyOnly || gi == Grp::CenturyOnly {
                *cnt.entry("seams:subsets:century-only").or_default() += 1;
                if seam_code(&r) != 0 {
                    c.fail("seams: century without two-digit year must be NotEnough", &format!("[{}]", dump_parsed(&p)));
                }
            } else if det(gy) && det(gi) {
                if date_sufficient(&m, gy, gi) {
                    *cnt.entry("seams:subsets:sufficient").or_default() += 1;
                    if r != Ok(Ok(*d)) {
                        c.fail("seams: determinate and sufficient date fields of one day do not resolve to that day", &format!("[{}] day {} -> {}", dump_parsed(&p), d, show(r.clone(), |x| x.to_string())));
                    }
                } else {
                    *cnt.entry("seams:subsets:insufficient").or_default() += 1;
                    if seam_code(&r) != 0 {
                        c.fail("seams: insufficient date fields of one day must be NotEnough", &format!("[{}] day {} -> {}", dump_parsed(&p), d, show(r.clone(), |x| x.to_string())));
                    }
                }
            } else {
                *cnt.entry(if kind == "ok" { "seams:subsets:pivot-miss:ok" } else { "seams:subsets:pivot-miss:err" }).or_default() += 1;
            }
        }
        c.op(&format!("pr.seam {} {} {} 0", date_tokens(&all), stride, phase), &acc.show());
        if k < 1 {
            c.sample(&format!("seams {} stride {} phase {} -> {}", d, stride, phase, acc.show()));
        }
    }
    for (k, d) in pert_days.iter().enumerate() {
        let all = fields_of(&d.and_time(NaiveTime::MIN), 0);
        let phase = k as u64 % pstride;
        let mut acc = SeamAcc::default();
        for mbits in 0u32..(1 << 14) {
            if mbits as u64 % pstride != phase {
                continue;
            }
            let mut f: Fields = [None; NF];
            for i in 0..14 {
                if mbits >> i & 1 == 1 {
                    f[i] = all[i];
                }
            }
            for i in 0..14 {
                if mbits >> i & 1 == 0 {
                    continue;
                }
                let Some(v) = all[i] else { continue };
                for delta in [1i64, -1] {
                    let w = if i == WDAY { (v + delta).rem_euclid(7) } else { v + delta };
                    if i >= 6 && w < 0 {
                        continue;
                    }
                    let mut g = f;
                    g[i] = Some(w);
                    let p = build(&g);
                    let r = guard(|| p.to_naive_date());
                    acc.push(seam_code(&r));
                    match &r {
                        Err(()) => c.fail("seams: to_naive_date panicked (one field off by one)", &dump_parsed(&p)),
                        Ok(Ok(got)) => {
                            *cnt.entry("seams:off-by-one:ok").or_default() += 1;
                            if let Some(wf) = date_agrees(&g, got) {
                                c.fail("seams: to_naive_date result contradicts a supplied field (one field off by one)", &format!("field {} of [{}] -> {}", wf, dump_parsed(&p), got));
                            }
                        }
                        Ok(Err(_)) => *cnt.entry("seams:off-by-one:err").or_default() += 1,
                    }
                }
            }
        }
        c.op(&format!("pr.seam {} {} {} 1", date_tokens(&all), pstride, phase), &acc.show());
    }
    for (k, v) in cnt {
        c.count_n(k, v);
    }
    c.count_n("seams:days", days.len() as u64);
    c.count_n("seams:off-by-one:days", pert_days.len() as u64);
}

pub fn run(c: &mut Ctx) {
    crate::aliases::c14(c);
    let n = c.n(100_000, 1_000_000);
    for k in 0..n {
        let case = if k % 2 == 0 {
            // ---- derived from a real value ----
            let m = gen_mask(c);
            let (l, off) = gen_real(c, &m);
            let all = fields_of(&l, off);
            let mut f: Fields = [None; NF];
            let mut mask = m;
            for i in 0..NF {
                if m[i] {
                    f[i] = all[i];
                    if all[i].is_none() {
                        mask[i] = false; // century / two-digit year of a negative year: documented empty
                    }
                }
            }
            if k % 8 == 6 {
                // one field perturbed
                let present: Vec<usize> = (0..NF).filter(|&i| f[i].is_some()).collect();
                let i = if present.is_empty() || c.rng.chance(1, 6) { c.rng.below(NF as u64) as usize } else { *c.rng.pick(&present) };
                let old = f[i];
                let (tlo, thi) = type_range(i);
                let nv = match (old, c.rng.below(4)) {
                    (Some(v), 0) => v.saturating_add(1),
                    (Some(v), 1) => v.saturating_sub(1),
                    (Some(v), 2) if i == TS => v + *c.rng.pick(&[60i64, -60, 3600, 86400, -86400, 2, -2]),
                    _ => gen_value(c, i),
                }
                .clamp(tlo, thi);
                f[i] = Some(nv);
                let unchanged = old == Some(nv) || (i == WDAY && old.map(|v| v.rem_euclid(7)) == Some(nv.rem_euclid(7)));
                Case { f, real: None, mask, class: if unchanged { "derived-same" } else { "perturbed" }, hint: if c.rng.chance(1, 2) { Some(off) } else { None }, plus_one: None }
            } else if l.time().nanosecond() >= 1_000_000_000 && f[TS].is_some() && c.rng.chance(1, 2) {
                // a leap second may also carry the timestamp of the following second
                f[TS] = f[TS].map(|v| v + 1);
                Case { f, real: None, mask, class: "derived-leap-plus-one", hint: Some(off), plus_one: Some((l, off)) }
            } else {
                Case { f, real: Some((l, off)), mask, class: "derived", hint: None, plus_one: None }
            }
        } else {
            // ---- independent random values ----
            let m = gen_mask(c);
            let mut f: Fields = [None; NF];
            let directed = k % 4 == 1;
            for i in 0..NF {
                if m[i] {
                    f[i] = Some(if directed {
                        // small coherent-looking values: many of these reach the verifier closures
                        let (lo, hi) = SET_RANGE[i];
                        match i {
                            YEAR | IYEAR => c.rng.range(2019, 2026),
                            YDIV | IDIV => 20,
                            YMOD | IMOD => c.rng.range(19, 26),
                            TS => c.rng.range(1_546_300_800, 1_767_225_600),
                            OFF => *c.rng.pick(&[0i64, 3600, -3600]),
                            NANO => *c.rng.pick(&[0i64, 5]),
                            WSUN | WMON => c.rng.range(0, 54),
                            _ => c.rng.range(lo, hi + 1).min(type_range(i).1),
                        }
                    } else {
                        gen_value(c, i)
                    });
                }
            }
            Case { f, real: None, mask: m, class: if directed { "random-small" } else { "random" }, hint: None, plus_one: None }
        };
        c.count(&format!("fields:{:02}", case.f.iter().filter(|x| x.is_some()).count()));
        // 1 in 8 derived cases: the same record through the 22 SETTERS (audit 2, LOW-6) — `set_hour12(12)` stores
        // 0, `set_hour` stores both halves, the `i64` arguments are narrowed — must be the record built through
        // the public fields, so everything the resolvers are shown to do for it holds for parsed input too
        if case.real.is_some() && k % 16 == 0 {
            let f = &case.f;
            let mut p2 = Parsed::new();
            let mut all_ok = true;
            let via_hour = f[HDIV].is_some() && f[HMOD].is_some() && c.rng.chance(1, 2);
            for i in 0..NF {
                let Some(v) = f[i] else { continue };
                let r = match i {
                    HDIV | HMOD if via_hour => {
                        if i == HDIV {
                            p2.set_hour(f[HDIV].unwrap() * 12 + f[HMOD].unwrap())
                        } else {
                            Ok(())
                        }
                    }
                    HMOD => p2.set_hour12(if v == 0 { 12 } else { v }),
                    _ => setter(&mut p2, i, v),
                };
                all_ok &= r.is_ok();
            }
            c.count(if via_hour { "setters-then-resolve:via-set_hour" } else { "setters-then-resolve:via-ampm-hour12" });
            if !all_ok || p2 != build(f) {
                c.fail("a record filled through the setters differs from the record built through the public fields", &format!("[{}] vs [{}]", dump_parsed(&p2), dump_parsed(&build(f))));
            }
            let (l, off) = case.real.unwrap();
            if p2.to_naive_date() != build(f).to_naive_date() || p2.to_naive_time() != build(f).to_naive_time() || p2.to_naive_datetime_with_offset(off) != build(f).to_naive_datetime_with_offset(off) {
                c.fail("resolvers differ between the setter-built and the field-built record", &format!("[{}] real {}", dump_parsed(&p2), l));
            }
        }
        let offs = offsets_for(c, case.real.map(|r| r.1).or(case.hint));
        run_case(c, &case, &offs);
        if k < 4 {
            c.sample(&format!("{} [{}] -> date {}", case.class, dump_parsed(&build(&case.f)), show(guard(|| build(&case.f).to_naive_date()), |d| d.to_string())));
        }
    }

    // ---- the zone stage after a successful naive stage: offsets outside +-24 h, UTC readings outside the
    // representable range, offset fields contradicting the zone (classes kinds:datetime:naive-ok:*, kinds:tz:naive-ok:*) ----
    for k in 0..c.n(3000, 30000) {
        let mut m = [false; NF];
        for i in [YEAR, MONTH, DAY, HDIV, HMOD, MIN, SEC, OFF] {
            m[i] = true;
        }
        let (l, off) = if k % 3 == 0 {
            // next to the ends of the range: the UTC reading may not be representable
            let first = k % 2 == 0;
            let d = if first { NaiveDate::MIN } else { NaiveDate::MAX };
            let secs = if first { c.rng.range(0, 7200) as u32 } else { 86399 - c.rng.range(0, 7200) as u32 };
            let t = NaiveTime::from_num_seconds_from_midnight_opt(secs, 0).unwrap();
            let o = c.rng.range(1, 10800) as i32;
            (d.and_time(t), if first { o } else { -o })
        } else {
            gen_real(c, &m)
        };
        let all = fields_of(&l, off);
        let mut f: Fields = [None; NF];
        for i in 0..NF {
            if m[i] {
                f[i] = all[i];
            }
        }
        let hint = off;
        if k % 3 == 1 {
            f[OFF] = Some(*c.rng.pick(&[86400i64, -86400, 86401, 90000, -90000, i32::MAX as i64, i32::MIN as i64, 86399, -86399]));
        } else if k % 3 == 2 {
            // an offset field next to the zone's offset: run_case resolves in the zone `hint`
            f[OFF] = Some(off as i64 + *c.rng.pick(&[1i64, -1, 3600, 0]));
        }
        let case = Case { f, real: None, mask: m, class: "zone-stage", hint: Some(hint), plus_one: None };
        run_case(c, &case, &[off]);
    }

    // ---- week-number resolution: every (week, weekday) for boundary years ----
    let years: Vec<i32> = {
        let mut v = vec![MIN_YEAR - 1, MIN_YEAR, MIN_YEAR + 1, MAX_YEAR - 1, MAX_YEAR, MAX_YEAR + 1, 0, -1, 1];
        for y in 2000..2000 + c.n(28, 400) as i32 {
            v.push(y);
        }
        v
    };
    for &y in &years {
        for w in 0..=54i64 {
            for wd in 0..7i64 {
                for which in [WSUN, WMON, IWEEK] {
                    let mut f: Fields = [None; NF];
                    f[if which == IWEEK { IYEAR } else { YEAR }] = Some(y as i64);
                    f[which] = Some(w);
                    f[WDAY] = Some(wd);
                    let p = build(&f);
                    let r = guard(|| p.to_naive_date());
                    let s = show(r.clone(), |d| yof(d).to_string());
                    c.op(&format!("pr.date {}", dump_parsed(&p)), &s);
                    c.count(&format!("weekgrid:{}:{}", NAMES[which], kind_of(&s)));
                    if let Ok(Ok(d)) = &r {
                        if let Some(wh) = date_agrees(&f, d) {
                            c.fail("week grid: result contradicts a supplied field", &format!("{} [{}] -> {}", wh, dump_parsed(&p), d));
                        }
                    }
                }
            }
        }
    }

    // ---- the timestamp path near its limits, with and without second = 60 ----
    let lim: [i64; 12] = [
        -8334601228800, // MIN_UTC
        -8334601228801,
        -8334601228799,
        8210266876799, // MAX_UTC
        8210266876800,
        8210266876798,
        0,
        -1,
        59,
        60,
        i64::MAX,
        i64::MIN,
    ];
    for &ts in &lim {
        for sec in [None, Some(0i64), Some(59), Some(60), Some(61)] {
            for off in [0i32, 1, -1, 60, -60, 86399, -86399, i32::MAX, i32::MIN] {
                let mut f: Fields = [None; NF];
                f[TS] = Some(ts);
                f[SEC] = sec;
                let p = build(&f);
                let r = guard(|| p.to_naive_datetime_with_offset(off));
                let s = show(r.clone(), sdt);
                c.op(&format!("pr.dt {} {}", dump_parsed(&p), off), &s);
                c.count(&format!("tslimits:{}", kind_of(&s)));
                if r.is_err() {
                    c.fail("to_naive_datetime_with_offset panicked", &format!("[{}] off {}", dump_parsed(&p), off));
                }
            }
        }
    }

    run_set_twice(c);
    run_hour_cross(c);
    run_step_zones(c);
    run_seams(c);
    run_tz_local(c);
}
