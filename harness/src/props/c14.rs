//! C14 — field resolution never returns a value that contradicts a supplied field.
//!
//! `Parsed` values are built through the public fields (so every value of the field's machine type
//! can occur), resolved with the crate, and the outcome — value or error KIND — is compared with the
//! model (ops `pr.*`, lean/Chrono/Drv/ParsedResolve.lean).  Direct oracles on the implementation:
//!   * soundness: a successful result agrees with every supplied field (date, time, date-time,
//!     timestamp with the one-second leap allowance, offset);
//!   * completeness: a field set derived from one real value, with determinate year groups and a
//!     documented sufficient combination, resolves to exactly that value; a derived set that is not
//!     sufficient is reported as NotEnough;
//!   * a second `set_*` of a field is accepted iff the stored values are equal.
use super::c01::{gen_date, gen_year, yof, MAX_YEAR, MIN_YEAR};
use super::c13::{dump_parsed, err_kind};
use crate::ctx::*;
use chrono::format::{ParseResult, Parsed};
use chrono::{DateTime, Datelike, FixedOffset, NaiveDate, NaiveDateTime, NaiveTime, Timelike, Weekday};

const WD: [Weekday; 7] =
    [Weekday::Mon, Weekday::Tue, Weekday::Wed, Weekday::Thu, Weekday::Fri, Weekday::Sat, Weekday::Sun];

// field indices, in `Parsed` declaration order (= `dump_parsed` order)
const YEAR: usize = 0;
const YDIV: usize = 1;
const YMOD: usize = 2;
const IYEAR: usize = 3;
const IDIV: usize = 4;
const IMOD: usize = 5;
const QUARTER: usize = 6;
const MONTH: usize = 7;
const WSUN: usize = 8;
const WMON: usize = 9;
const IWEEK: usize = 10;
const WDAY: usize = 11;
const ORD: usize = 12;
const DAY: usize = 13;
const HDIV: usize = 14;
const HMOD: usize = 15;
const MIN: usize = 16;
const SEC: usize = 17;
const NANO: usize = 18;
const TS: usize = 19;
const OFF: usize = 20;
const NF: usize = 21;
const NAMES: [&str; NF] = [
    "year", "year_div_100", "year_mod_100", "isoyear", "isoyear_div_100", "isoyear_mod_100", "quarter", "month",
    "week_from_sun", "week_from_mon", "isoweek", "weekday", "ordinal", "day", "hour_div_12", "hour_mod_12", "minute",
    "second", "nanosecond", "timestamp", "offset",
];
/// the range each setter accepts (lo, hi); weekday 0..=6
const SET_RANGE: [(i64, i64); NF] = [
    (i32::MIN as i64, i32::MAX as i64), (0, i32::MAX as i64), (0, 99),
    (i32::MIN as i64, i32::MAX as i64), (0, i32::MAX as i64), (0, 99),
    (1, 4), (1, 12), (0, 53), (0, 53), (1, 53), (0, 6), (1, 366), (1, 31),
    (0, 1), (0, 11), (0, 59), (0, 60), (0, 999_999_999),
    (i64::MIN, i64::MAX), (i32::MIN as i64, i32::MAX as i64),
];
/// the machine type of each public field
fn type_range(i: usize) -> (i64, i64) {
    match i {
        YEAR | YDIV | YMOD | IYEAR | IDIV | IMOD | OFF => (i32::MIN as i64, i32::MAX as i64),
        TS => (i64::MIN, i64::MAX),
        WDAY => (0, 6),
        _ => (0, u32::MAX as i64),
    }
}

type Fields = [Option<i64>; NF];

fn build(f: &Fields) -> Parsed {
    let mut p = Parsed::new();
    p.year = f[YEAR].map(|v| v as i32);
    p.year_div_100 = f[YDIV].map(|v| v as i32);
    p.year_mod_100 = f[YMOD].map(|v| v as i32);
    p.isoyear = f[IYEAR].map(|v| v as i32);
    p.isoyear_div_100 = f[IDIV].map(|v| v as i32);
    p.isoyear_mod_100 = f[IMOD].map(|v| v as i32);
    p.quarter = f[QUARTER].map(|v| v as u32);
    p.month = f[MONTH].map(|v| v as u32);
    p.week_from_sun = f[WSUN].map(|v| v as u32);
    p.week_from_mon = f[WMON].map(|v| v as u32);
    p.isoweek = f[IWEEK].map(|v| v as u32);
    p.weekday = f[WDAY].map(|v| WD[(v.rem_euclid(7)) as usize]);
    p.ordinal = f[ORD].map(|v| v as u32);
    p.day = f[DAY].map(|v| v as u32);
    p.hour_div_12 = f[HDIV].map(|v| v as u32);
    p.hour_mod_12 = f[HMOD].map(|v| v as u32);
    p.minute = f[MIN].map(|v| v as u32);
    p.second = f[SEC].map(|v| v as u32);
    p.nanosecond = f[NANO].map(|v| v as u32);
    p.timestamp = f[TS];
    p.offset = f[OFF].map(|v| v as i32);
    p
}

// ---- rendering -------------------------------------------------------------------------------
fn st(t: &NaiveTime) -> String {
    format!("{} {}", t.num_seconds_from_midnight(), t.nanosecond())
}
fn sdt(d: &NaiveDateTime) -> String {
    format!("{} {}", yof(&d.date()), st(&d.time()))
}
fn sz(z: &DateTime<FixedOffset>) -> String {
    format!("{} {}", sdt(&z.naive_utc()), z.offset().local_minus_utc())
}
fn show<T>(r: Result<ParseResult<T>, ()>, f: impl Fn(&T) -> String) -> String {
    match r {
        Ok(Ok(v)) => format!("ok {}", f(&v)),
        Ok(Err(e)) => format!("err {}", err_kind(&e)),
        Err(()) => "panic".into(),
    }
}
fn kind_of(s: &str) -> &str {
    if s.starts_with("ok") {
        "ok"
    } else if s == "panic" {
        "panic"
    } else {
        &s[4..]
    }
}

// ---- the fields of a real value ----------------------------------------------------------------
/// every field as derived from the local date-time `l` at offset `off`; `None` where the field is
/// documented to be empty (century / two-digit year of a negative year)
fn fields_of(l: &NaiveDateTime, off: i32) -> Fields {
    let d = l.date();
    let t = l.time();
    let mut f: Fields = [None; NF];
    let y = d.year() as i64;
    f[YEAR] = Some(y);
    if y >= 0 {
        f[YDIV] = Some(y / 100);
        f[YMOD] = Some(y % 100);
    }
    let iw = d.iso_week();
    let iy = iw.year() as i64;
    f[IYEAR] = Some(iy);
    if iy >= 0 {
        f[IDIV] = Some(iy / 100);
        f[IMOD] = Some(iy % 100);
    }
    f[QUARTER] = Some((d.month0() / 3 + 1) as i64);
    f[MONTH] = Some(d.month() as i64);
    // week numbers as the documentation defines them: days before the first Sunday/Monday are week 0
    let o = d.ordinal() as i64;
    let wd_mon = d.weekday().num_days_from_monday() as i64;
    let wd_sun = d.weekday().num_days_from_sunday() as i64;
    f[WSUN] = Some((o - wd_sun + 6) / 7);
    f[WMON] = Some((o - wd_mon + 6) / 7);
    f[IWEEK] = Some(iw.week() as i64);
    f[WDAY] = Some(wd_mon);
    f[ORD] = Some(o);
    f[DAY] = Some(d.day() as i64);
    f[HDIV] = Some((t.hour() / 12) as i64);
    f[HMOD] = Some((t.hour() % 12) as i64);
    f[MIN] = Some(t.minute() as i64);
    let leap = t.nanosecond() >= 1_000_000_000;
    f[SEC] = Some(if leap { 60 } else { t.second() as i64 });
    f[NANO] = Some((t.nanosecond() % 1_000_000_000) as i64);
    f[TS] = Some(l.and_utc().timestamp() - off as i64);
    f[OFF] = Some(off as i64);
    f
}

fn gen_offset(c: &mut Ctx) -> i32 {
    match c.rng.below(4) {
        0 => 0,
        1 => *c.rng.pick(&[3600, -3600, 19800, -12600, 86399, -86399, 1, -1, 45296, 43200, -43200]),
        2 => (c.rng.range(-95, 95) * 900) as i32,
        _ => c.rng.range(-86399, 86399) as i32,
    }
}

fn gen_secs(c: &mut Ctx) -> u32 {
    match c.rng.below(3) {
        0 => *c.rng.pick(&[0u32, 1, 59, 60, 3599, 3600, 43199, 43200, 43259, 86340, 86399, 86398, 46799]),
        _ => c.rng.below(86400) as u32,
    }
}
fn gen_nano(c: &mut Ctx) -> u32 {
    match c.rng.below(3) {
        0 => *c.rng.pick(&[0u32, 1, 999_999_999, 500_000_000, 123_456_789, 1000]),
        1 => 0,
        _ => c.rng.nanos(),
    }
}

/// a random subset of the 21 fields whose size is uniform in 0..=21
fn gen_mask(c: &mut Ctx) -> [bool; NF] {
    let k = c.rng.below(NF as u64 + 1) as usize;
    let mut idx: Vec<usize> = (0..NF).collect();
    for i in 0..k {
        let j = i + c.rng.below((NF - i) as u64) as usize;
        idx.swap(i, j);
    }
    let mut m = [false; NF];
    for &i in &idx[..k] {
        m[i] = true;
    }
    m
}

/// a value for field `i`: inside the setter's range, at its ends, just outside, or at the ends of the
/// machine type
fn gen_value(c: &mut Ctx, i: usize) -> i64 {
    let (lo, hi) = SET_RANGE[i];
    let (tlo, thi) = type_range(i);
    let v = match c.rng.below(10) {
        0 => lo,
        1 => hi,
        2 => lo.saturating_sub(1),
        3 => hi.saturating_add(1),
        4 => *c.rng.pick(&[tlo, thi, tlo.saturating_add(1), thi.saturating_sub(1), 0, 1]),
        5 => match i {
            YEAR | IYEAR => gen_year(c) as i64,
            YDIV | IDIV => *c.rng.pick(&[0i64, 19, 20, 99, 100, 2621, 2622, 21474836, 21474837, -1]),
            YMOD | IMOD => *c.rng.pick(&[0i64, 68, 69, 70, 71, 99]),
            TS => *c.rng.pick(&[
                0i64, -1, 1, 86399, 86400, -86400, 8210266876799, 8210266876800, -8334601228800, -8334601228801, 8210266790400,
                -8334601142400, 1_700_000_000, 951782400, 68256000, i64::MAX - 86399, i64::MIN + 86399,
            ]),
            OFF => gen_offset(c) as i64 + *c.rng.pick(&[0i64, 0, 0, 86400, -86400]),
            SEC => *c.rng.pick(&[59i64, 60, 61, 0]),
            WSUN | WMON | IWEEK => c.rng.range(0, 54),
            _ => c.rng.range(lo.max(tlo), hi.min(thi)),
        },
        6 => match i {
            // a narrowing cast would confuse these with small values
            WSUN | WMON => (1i64 << 32) - c.rng.range(1, 60),
            _ => c.rng.range(lo.max(tlo), hi.min(thi)),
        },
        _ => match i {
            YEAR | IYEAR => c.rng.range(1900, 2100),
            YDIV | IDIV => c.rng.range(0, 30),
            TS => c.rng.range(-3_000_000_000, 5_000_000_000),
            OFF => gen_offset(c) as i64,
            _ => c.rng.range(lo.max(tlo), hi.min(thi)),
        },
    };
    v.clamp(tlo, thi)
}

// ---- sufficiency, as documented ---------------------------------------------------------------
#[derive(Clone, Copy, PartialEq)]
enum Grp {
    Empty,
    Determinate,
    /// century without two-digit year: documented as not enough
    CenturyOnly,
    /// two-digit year alone outside 1970..=2069: the pivot yields another year
    PivotMiss,
}
fn group(m: &[bool; NF], y: usize, real: i64) -> Grp {
    match (m[y], m[y + 1], m[y + 2]) {
        (false, false, false) => Grp::Empty,
        (true, _, _) => Grp::Determinate,
        (false, true, true) => Grp::Determinate,
        (false, true, false) => Grp::CenturyOnly,
        (false, false, true) => {
            if (1970..=2069).contains(&real) {
                Grp::Determinate
            } else {
                Grp::PivotMiss
            }
        }
    }
}
fn date_sufficient(m: &[bool; NF], gy: Grp, gi: Grp) -> bool {
    (gy == Grp::Determinate && ((m[MONTH] && m[DAY]) || m[ORD] || (m[WSUN] && m[WDAY]) || (m[WMON] && m[WDAY])))
        || (gi == Grp::Determinate && m[IWEEK] && m[WDAY])
}
fn time_sufficient(m: &[bool; NF]) -> bool {
    m[HDIV] && m[HMOD] && m[MIN] && (!m[NANO] || m[SEC])
}

// ---- soundness oracles -------------------------------------------------------------------------
fn date_agrees(f: &Fields, d: &NaiveDate) -> Option<&'static str> {
    let y = d.year() as i64;
    let iw = d.iso_week();
    let iy = iw.year() as i64;
    let o = d.ordinal() as i64;
    let chk = |i: usize, v: i64| f[i].map_or(true, |x| x == v);
    if !chk(YEAR, y) {
        return Some("year");
    }
    if f[YDIV].is_some() && !(y >= 0 && chk(YDIV, y / 100)) {
        return Some("year_div_100");
    }
    if f[YMOD].is_some() && !(y >= 0 && chk(YMOD, y % 100)) {
        return Some("year_mod_100");
    }
    if !chk(IYEAR, iy) {
        return Some("isoyear");
    }
    if f[IDIV].is_some() && !(iy >= 0 && chk(IDIV, iy / 100)) {
        return Some("isoyear_div_100");
    }
    if f[IMOD].is_some() && !(iy >= 0 && chk(IMOD, iy % 100)) {
        return Some("isoyear_mod_100");
    }
    if !chk(QUARTER, (d.month() as i64 + 2) / 3) {
        return Some("quarter");
    }
    if !chk(MONTH, d.month() as i64) {
        return Some("month");
    }
    if !chk(WSUN, (o - d.weekday().num_days_from_sunday() as i64 + 6) / 7) {
        return Some("week_from_sun");
    }
    if !chk(WMON, (o - d.weekday().num_days_from_monday() as i64 + 6) / 7) {
        return Some("week_from_mon");
    }
    if !chk(IWEEK, iw.week() as i64) {
        return Some("isoweek");
    }
    if !chk(WDAY, d.weekday().num_days_from_monday() as i64) {
        return Some("weekday");
    }
    if !chk(ORD, o) {
        return Some("ordinal");
    }
    if !chk(DAY, d.day() as i64) {
        return Some("day");
    }
    None
}
fn time_agrees(f: &Fields, t: &NaiveTime) -> Option<&'static str> {
    let chk = |i: usize, v: i64| f[i].map_or(true, |x| x == v);
    if !chk(HDIV, (t.hour() / 12) as i64) {
        return Some("hour_div_12");
    }
    if !chk(HMOD, (t.hour() % 12) as i64) {
        return Some("hour_mod_12");
    }
    if !chk(MIN, t.minute() as i64) {
        return Some("minute");
    }
    let leap = t.nanosecond() >= 1_000_000_000;
    match f[SEC] {
        Some(60) => {
            if !(leap && t.second() == 59) {
                return Some("second(60)");
            }
        }
        Some(s) => {
            if leap || t.second() as i64 != s {
                return Some("second");
            }
        }
        None => {
            if leap || t.second() != 0 {
                return Some("second(absent)");
            }
        }
    }
    match f[NANO] {
        Some(n) => {
            if (t.nanosecond() % 1_000_000_000) as i64 != n {
                return Some("nanosecond");
            }
        }
        None => {
            if t.nanosecond() % 1_000_000_000 != 0 {
                return Some("nanosecond(absent)");
            }
        }
    }
    None
}
/// timestamp of the local reading minus the offset equals the supplied timestamp, with the
/// documented allowance of one second when the result is a leap second
fn ts_agrees(f: &Fields, l: &NaiveDateTime, off: i64) -> bool {
    match f[TS] {
        None => true,
        Some(g) => {
            let ts = l.and_utc().timestamp() - off;
            g == ts || (l.time().nanosecond() >= 1_000_000_000 && g == ts + 1)
        }
    }
}

struct Case {
    f: Fields,
    /// the real value the fields were derived from (local reading, offset), when there is one and no
    /// field was perturbed
    real: Option<(NaiveDateTime, i32)>,
    mask: [bool; NF],
    class: &'static str,
    /// offset to resolve with when there is no unperturbed real value
    hint: Option<i32>,
}

fn run_case(c: &mut Ctx, case: &Case, offs: &[i32]) {
    let p = build(&case.f);
    let f = &case.f;
    let dump = dump_parsed(&p);
    let cl = case.class;

    // ---- to_naive_date ----
    let rd = guard(|| p.to_naive_date());
    let sd = show(rd.clone(), |d| yof(d).to_string());
    c.op(&format!("pr.date {}", dump), &sd);
    c.count(&format!("date:{}:{}", cl, kind_of(&sd)));
    {
        // which combination the resolver is expected to pick (first applicable, by field presence)
        let has_y = f[YEAR].is_some() || f[YMOD].is_some();
        let has_iy = f[IYEAR].is_some() || f[IMOD].is_some();
        let arm = if has_y && f[MONTH].is_some() && f[DAY].is_some() {
            "ymd"
        } else if has_y && f[ORD].is_some() {
            "yo"
        } else if has_y && f[WSUN].is_some() && f[WDAY].is_some() {
            "week-sun"
        } else if has_y && f[WMON].is_some() && f[WDAY].is_some() {
            "week-mon"
        } else if has_iy && f[IWEEK].is_some() && f[WDAY].is_some() {
            "iso"
        } else {
            "none"
        };
        c.count(&format!("date:arm:{}:{}", arm, kind_of(&sd)));
    }
    if let Ok(Ok(d)) = &rd {
        if let Some(w) = date_agrees(f, d) {
            c.fail("to_naive_date result contradicts a supplied field", &format!("field {} of [{}] -> {}", w, dump, d));
        }
    }
    if rd.is_err() {
        c.fail("to_naive_date panicked", &dump);
    }
    // ---- to_naive_time ----
    let rt = guard(|| p.to_naive_time());
    let stt = show(rt.clone(), st);
    c.op(&format!("pr.time {}", dump), &stt);
    c.count(&format!("time:{}:{}", cl, kind_of(&stt)));
    if let Ok(Ok(t)) = &rt {
        if let Some(w) = time_agrees(f, t) {
            c.fail("to_naive_time result contradicts a supplied field", &format!("field {} of [{}] -> {}", w, dump, t));
        }
    }
    if rt.is_err() {
        c.fail("to_naive_time panicked", &dump);
    }
    // ---- to_fixed_offset ----
    let rf = guard(|| p.to_fixed_offset());
    let sf = show(rf.clone(), |o| o.local_minus_utc().to_string());
    c.op(&format!("pr.fixed {}", dump), &sf);
    if let Ok(Ok(o)) = &rf {
        if f[OFF] != Some(o.local_minus_utc() as i64) {
            c.fail("to_fixed_offset result differs from the offset field", &dump);
        }
    }
    // ---- to_naive_datetime_with_offset ----
    for &off in offs {
        let r = guard(|| p.to_naive_datetime_with_offset(off));
        let s = show(r.clone(), sdt);
        c.op(&format!("pr.dt {} {}", dump, off), &s);
        c.count(&format!("dt:{}:{}", cl, kind_of(&s)));
        if let Ok(Ok(l)) = &r {
            let path = if matches!(rd, Ok(Ok(_))) && matches!(rt, Ok(Ok(_))) { "fields" } else { "timestamp" };
            c.count(&format!("dt:path:{}", path));
            if l.time().nanosecond() >= 1_000_000_000 {
                c.count(&format!("dt:leap:{}", path));
                if let Some(g) = f[TS] {
                    let ts = l.and_utc().timestamp() - off as i64;
                    c.count(if g == ts { "dt:leap:ts-same" } else { "dt:leap:ts-plus-one" });
                }
            }
            if let Some(w) = date_agrees(f, &l.date()) {
                c.fail("to_naive_datetime_with_offset: date contradicts a supplied field", &format!("field {} of [{}] off {} -> {}", w, dump, off, l));
            }
            // in the timestamp path an absent second / minute / hour is taken from the timestamp
            let mut ft = *f;
            if path == "timestamp" {
                let t = l.time();
                if ft[HDIV].is_none() {
                    ft[HDIV] = Some((t.hour() / 12) as i64);
                }
                if ft[HMOD].is_none() {
                    ft[HMOD] = Some((t.hour() % 12) as i64);
                }
                if ft[MIN].is_none() {
                    ft[MIN] = Some(t.minute() as i64);
                }
                if ft[SEC].is_none() {
                    ft[SEC] = Some(t.second() as i64);
                }
            }
            if let Some(w) = time_agrees(&ft, &l.time()) {
                c.fail("to_naive_datetime_with_offset: time contradicts a supplied field", &format!("field {} of [{}] off {} -> {}", w, dump, off, l));
            }
            if !ts_agrees(f, l, off as i64) {
                c.fail("to_naive_datetime_with_offset: result contradicts the timestamp field", &format!("[{}] off {} -> {}", dump, off, l));
            }
        }
        if r.is_err() {
            c.fail("to_naive_datetime_with_offset panicked", &format!("[{}] off {}", dump, off));
        }
    }
    // ---- to_datetime ----
    let rz = guard(|| p.to_datetime());
    let szs = show(rz.clone(), sz);
    c.op(&format!("pr.datetime {}", dump), &szs);
    c.count(&format!("datetime:{}:{}", cl, kind_of(&szs)));
    if let Ok(Ok(z)) = &rz {
        let off = z.offset().local_minus_utc() as i64;
        let l = z.naive_local();
        if f[OFF].map_or(false, |o| o != off) || (f[OFF].is_none() && off != 0) {
            c.fail("to_datetime: offset contradicts the offset field", &format!("[{}] -> {}", dump, z));
        }
        if date_agrees(f, &l.date()).is_some() || !ts_agrees(f, &l, off) {
            c.fail("to_datetime: result contradicts a supplied field", &format!("[{}] -> {}", dump, z));
        }
    }
    if rz.is_err() {
        c.fail("to_datetime panicked", &dump);
    }
    // ---- to_datetime_with_timezone (fixed zones, incl. Utc) ----
    let z = match (case.real, c.rng.below(3)) {
        (Some((_, o)), 0 | 1) => o,
        (_, 2) => 0,
        _ => gen_offset(c),
    };
    let tz = FixedOffset::east_opt(z).unwrap();
    let rw = guard(|| p.to_datetime_with_timezone(&tz));
    let sw = show(rw.clone(), sz);
    c.op(&format!("pr.tz {} {}", dump, z), &sw);
    c.count(&format!("tz:{}:{}", cl, kind_of(&sw)));
    if z == 0 {
        let ru = guard(|| p.to_datetime_with_timezone(&chrono::Utc));
        let su = show(ru, |u| sz(&u.fixed_offset()));
        if su != sw {
            c.fail("to_datetime_with_timezone: Utc and FixedOffset(0) differ", &format!("[{}] {} vs {}", dump, su, sw));
        }
    }
    if let Ok(Ok(w)) = &rw {
        let l = w.naive_local();
        if w.offset().local_minus_utc() != z || f[OFF].map_or(false, |o| o != z as i64) {
            c.fail("to_datetime_with_timezone: offset contradicts zone or offset field", &format!("[{}] tz {} -> {}", dump, z, w));
        }
        if date_agrees(f, &l.date()).is_some() || !ts_agrees(f, &l, z as i64) {
            c.fail("to_datetime_with_timezone: result contradicts a supplied field", &format!("[{}] tz {} -> {}", dump, z, w));
        }
    }
    if rw.is_err() {
        c.fail("to_datetime_with_timezone panicked", &format!("[{}] tz {}", dump, z));
    }

    // ---- completeness / error-kind oracles for unperturbed derived sets ----
    if let Some((l, off)) = case.real {
        let m = &case.mask;
        let gy = group(m, YEAR, l.date().year() as i64);
        let gi = group(m, IYEAR, l.date().iso_week().year() as i64);
        let det = |g: Grp| g == Grp::Determinate || g == Grp::Empty;
        let dsuf = date_sufficient(m, gy, gi);
        let tsuf = time_sufficient(m);
        // date
        if gy == Grp::CenturyOnly || gi == Grp::CenturyOnly {
            c.count("complete:date:century-only");
            if sd != "err NotEnough" {
                c.fail("century without two-digit year must be NotEnough", &format!("[{}] -> {}", dump, sd));
            }
        } else if det(gy) && det(gi) {
            let want = if dsuf { format!("ok {}", yof(&l.date())) } else { "err NotEnough".to_string() };
            c.count(if dsuf { "complete:date:sufficient" } else { "complete:date:insufficient" });
            if sd != want {
                c.fail("derived date fields: wrong resolution", &format!("[{}] real {} -> {} (expected {})", dump, l, sd, want));
            }
        } else {
            c.count("complete:date:pivot-miss");
        }
        // time: the real value has zero second / nanosecond where that field is not supplied
        {
            let want = if tsuf { format!("ok {}", st(&l.time())) } else { "err NotEnough".to_string() };
            c.count(if tsuf { "complete:time:sufficient" } else { "complete:time:insufficient" });
            if stt != want {
                c.fail("derived time fields: wrong resolution", &format!("[{}] real {} -> {} (expected {})", dump, l, stt, want));
            }
        }
        // date-time with the real offset
        if det(gy) && det(gi) && gy != Grp::CenturyOnly && gi != Grp::CenturyOnly {
            let r = guard(|| p.to_naive_datetime_with_offset(off));
            let s = show(r, sdt);
            let suff = (dsuf && tsuf) || m[TS];
            let want = if suff { format!("ok {}", sdt(&l)) } else { "err NotEnough".to_string() };
            c.count(if suff { "complete:dt:sufficient" } else { "complete:dt:insufficient" });
            if m[TS] && !(dsuf && tsuf) {
                c.count("complete:dt:via-timestamp");
            }
            if s != want {
                c.fail("derived date-time fields: wrong resolution", &format!("[{}] real {} off {} -> {} (expected {})", dump, l, off, s, want));
            }
            // zone-aware: needs the offset field (or a timestamp when the real offset is 0)
            let zsuff = suff && (m[OFF] || (m[TS] && off == 0));
            if zsuff {
                c.count("complete:datetime:sufficient");
                // (shifting by an offset moves whole seconds and keeps a leap-second fraction)
                let u = l.checked_sub_offset(FixedOffset::east_opt(off).unwrap()).unwrap();
                let want = format!("ok {} {}", sdt(&u), off);
                if szs != want {
                    c.fail("derived zone-aware fields: wrong resolution", &format!("[{}] real {} off {} -> {} (expected {})", dump, l, off, szs, want));
                }
            } else if !m[OFF] && !m[TS] {
                c.count("complete:datetime:no-offset");
                if szs != "err NotEnough" {
                    c.fail("to_datetime without offset and timestamp must be NotEnough", &format!("[{}] -> {}", dump, szs));
                }
            }
        }
    }
}

/// a real local date-time with offset whose UTC reading is representable; second and nanosecond
/// are zero where the mask omits the field (so that the fields describe the value completely)
fn gen_real(c: &mut Ctx, m: &[bool; NF]) -> (NaiveDateTime, i32) {
    loop {
        let d = if c.rng.chance(1, 6) {
            // around the two-digit-year pivot and the century seams
            let y = *c.rng.pick(&[1969i32, 1970, 2069, 2070, 1999, 2000, 1900, 2100, 99, 100, 0, -1]);
            NaiveDate::from_yo_opt(y, c.rng.range(1, 365) as u32).unwrap()
        } else {
            gen_date(c)
        };
        let mut secs = gen_secs(c);
        let mut nano = gen_nano(c);
        if !m[SEC] {
            secs -= secs % 60;
        }
        if !m[NANO] {
            nano = 0;
        }
        // a leap second needs the second field (60)
        if m[SEC] && secs % 60 == 59 && c.rng.chance(1, 3) {
            nano += 1_000_000_000;
        }
        let t = NaiveTime::from_num_seconds_from_midnight_opt(secs, nano).unwrap();
        let off = gen_offset(c);
        let l = d.and_time(t);
        if l.checked_sub_offset(FixedOffset::east_opt(off).unwrap()).is_some() {
            return (l, off);
        }
    }
}

fn offsets_for(c: &mut Ctx, real: Option<i32>) -> Vec<i32> {
    let mut v = vec![];
    match real {
        Some(o) => {
            v.push(o);
            if c.rng.chance(1, 4) {
                v.push(if o == 0 { 3600 } else { 0 });
            }
        }
        None => {
            v.push(match c.rng.below(8) {
                0 => i32::MAX,
                1 => i32::MIN,
                2 | 3 => 0,
                _ => gen_offset(c),
            });
        }
    }
    v
}

fn setter(p: &mut Parsed, i: usize, v: i64) -> ParseResult<()> {
    match i {
        YEAR => p.set_year(v),
        YDIV => p.set_year_div_100(v),
        YMOD => p.set_year_mod_100(v),
        IYEAR => p.set_isoyear(v),
        IDIV => p.set_isoyear_div_100(v),
        IMOD => p.set_isoyear_mod_100(v),
        QUARTER => p.set_quarter(v),
        MONTH => p.set_month(v),
        WSUN => p.set_week_from_sun(v),
        WMON => p.set_week_from_mon(v),
        IWEEK => p.set_isoweek(v),
        WDAY => p.set_weekday(WD[v.rem_euclid(7) as usize]),
        ORD => p.set_ordinal(v),
        DAY => p.set_day(v),
        HDIV => p.set_ampm(v != 0),
        HMOD => p.set_hour12(v),
        MIN => p.set_minute(v),
        SEC => p.set_second(v),
        NANO => p.set_nanosecond(v),
        TS => p.set_timestamp(v),
        OFF => p.set_offset(v),
        _ => p.set_hour(v),
    }
}
fn setter_name(i: usize) -> &'static str {
    match i {
        HDIV => "ampm",
        HMOD => "hour12",
        21 => "hour",
        _ => NAMES[i],
    }
}
/// the argument range of each setter (differs from the stored range for hour12 / hour)
fn setter_range(i: usize) -> (i64, i64) {
    match i {
        HMOD => (1, 12),
        21 => (0, 23),
        WDAY => (0, 6),
        _ => SET_RANGE[i],
    }
}

fn run_set_twice(c: &mut Ctx) {
    let n = c.n(20000, 200000);
    for k in 0..n {
        let i = c.rng.below(22) as usize;
        let (lo, hi) = setter_range(i);
        let gen = |c: &mut Ctx| -> i64 {
            match c.rng.below(8) {
                0 => lo,
                1 => hi,
                2 => lo.saturating_sub(1),
                3 => hi.saturating_add(1),
                4 => *c.rng.pick(&[i64::MIN, i64::MAX, u32::MAX as i64 + 1, (1i64 << 32) + lo, -(1i64 << 32) + hi, i32::MAX as i64 + 1, i32::MIN as i64 - 1]),
                _ => c.rng.range(lo.max(-5000), hi.min(5000)),
            }
        };
        let a = gen(c);
        let b = if c.rng.chance(1, 3) { a } else { gen(c) };
        let (a, b) = match i {
            WDAY => (a.rem_euclid(7), b.rem_euclid(7)),
            HDIV => (a.rem_euclid(2), b.rem_euclid(2)), // set_ampm takes a bool
            _ => (a, b),
        };
        let in_range = |v: i64| lo <= v && v <= hi;
        // start from an empty record or from a random partly filled one
        let mut p = Parsed::new();
        if c.rng.chance(1, 3) {
            let m = gen_mask(c);
            let mut f: Fields = [None; NF];
            for j in 0..NF {
                if m[j] {
                    let (slo, shi) = SET_RANGE[j];
                    f[j] = Some(c.rng.range(slo.max(-3000), shi.min(3000)));
                }
            }
            p = build(&f);
        }
        let before = dump_parsed(&p);
        let mut p1 = p.clone();
        let r1 = setter(&mut p1, i, a);
        let s1 = match &r1 {
            Ok(()) => format!("ok {}", dump_parsed(&p1)),
            Err(e) => format!("err {}", err_kind(e)),
        };
        c.op(&format!("pr.set {} {} {}", setter_name(i), a, before), &s1);
        c.count(&format!("set:first:{}", kind_of(&s1)));
        if !in_range(a) && s1 != "err OutOfRange" {
            c.fail("setter accepted a value outside its documented range", &format!("{} {} -> {}", setter_name(i), a, s1));
        }
        if r1.is_ok() {
            let mid = dump_parsed(&p1);
            let mut p2 = p1.clone();
            let r2 = setter(&mut p2, i, b);
            let s2 = match &r2 {
                Ok(()) => format!("ok {}", dump_parsed(&p2)),
                Err(e) => format!("err {}", err_kind(e)),
            };
            c.op(&format!("pr.set {} {} {}", setter_name(i), b, mid), &s2);
            // the property: accepted exactly when the two values are equal
            let want = if !in_range(b) {
                "err OutOfRange".to_string()
            } else if a == b {
                format!("ok {}", mid)
            } else {
                "err Impossible".to_string()
            };
            c.count(&format!("set:second:{}", kind_of(&s2)));
            if s2 != want {
                c.fail("setting a field twice: accepted iff equal", &format!("{} {} then {} on [{}] -> {} (expected {})", setter_name(i), a, b, before, s2, want));
            }
            if k < 2 {
                c.sample(&format!("set {} {} then {} -> {}", setter_name(i), a, b, s2));
            }
        }
    }
}

pub fn run(c: &mut Ctx) {
    let n = c.n(100_000, 1_000_000);
    for k in 0..n {
        let case = if k % 2 == 0 {
            // ---- derived from a real value ----
            let m = gen_mask(c);
            let (l, off) = gen_real(c, &m);
            let all = fields_of(&l, off);
            let mut f: Fields = [None; NF];
            let mut mask = m;
            for i in 0..NF {
                if m[i] {
                    f[i] = all[i];
                    if all[i].is_none() {
                        mask[i] = false; // century / two-digit year of a negative year: documented empty
                    }
                }
            }
            if k % 8 == 6 {
                // one field perturbed
                let present: Vec<usize> = (0..NF).filter(|&i| f[i].is_some()).collect();
                let i = if present.is_empty() || c.rng.chance(1, 6) { c.rng.below(NF as u64) as usize } else { *c.rng.pick(&present) };
                let old = f[i];
                let (tlo, thi) = type_range(i);
                let nv = match (old, c.rng.below(4)) {
                    (Some(v), 0) => v.saturating_add(1),
                    (Some(v), 1) => v.saturating_sub(1),
                    (Some(v), 2) if i == TS => v + *c.rng.pick(&[60i64, -60, 3600, 86400, -86400, 2, -2]),
                    _ => gen_value(c, i),
                }
                .clamp(tlo, thi);
                f[i] = Some(nv);
                let unchanged = old == Some(nv) || (i == WDAY && old.map(|v| v.rem_euclid(7)) == Some(nv.rem_euclid(7)));
                Case { f, real: None, mask, class: if unchanged { "derived-same" } else { "perturbed" }, hint: if c.rng.chance(1, 2) { Some(off) } else { None } }
            } else if l.time().nanosecond() >= 1_000_000_000 && f[TS].is_some() && c.rng.chance(1, 2) {
                // a leap second may also carry the timestamp of the following second
                f[TS] = f[TS].map(|v| v + 1);
                Case { f, real: None, mask, class: "derived-leap-plus-one", hint: Some(off) }
            } else {
                Case { f, real: Some((l, off)), mask, class: "derived", hint: None }
            }
        } else {
            // ---- independent random values ----
            let m = gen_mask(c);
            let mut f: Fields = [None; NF];
            let directed = k % 4 == 1;
            for i in 0..NF {
                if m[i] {
                    f[i] = Some(if directed {
                        // small coherent-looking values: many of these reach the verifier closures
                        let (lo, hi) = SET_RANGE[i];
                        match i {
                            YEAR | IYEAR => c.rng.range(2019, 2026),
                            YDIV | IDIV => 20,
                            YMOD | IMOD => c.rng.range(19, 26),
                            TS => c.rng.range(1_546_300_800, 1_767_225_600),
                            OFF => *c.rng.pick(&[0i64, 3600, -3600]),
                            NANO => *c.rng.pick(&[0i64, 5]),
                            WSUN | WMON => c.rng.range(0, 54),
                            _ => c.rng.range(lo, hi + 1).min(type_range(i).1),
                        }
                    } else {
                        gen_value(c, i)
                    });
                }
            }
            Case { f, real: None, mask: m, class: if directed { "random-small" } else { "random" }, hint: None }
        };
        c.count(&format!("fields:{:02}", case.f.iter().filter(|x| x.is_some()).count()));
        let offs = offsets_for(c, case.real.map(|r| r.1).or(case.hint));
        run_case(c, &case, &offs);
        if k < 4 {
            c.sample(&format!("{} [{}] -> date {}", case.class, dump_parsed(&build(&case.f)), show(guard(|| build(&case.f).to_naive_date()), |d| d.to_string())));
        }
    }

    // ---- week-number resolution: every (week, weekday) for boundary years ----
    let years: Vec<i32> = {
        let mut v = vec![MIN_YEAR - 1, MIN_YEAR, MIN_YEAR + 1, MAX_YEAR - 1, MAX_YEAR, MAX_YEAR + 1, 0, -1, 1];
        for y in 2000..2000 + c.n(28, 400) as i32 {
            v.push(y);
        }
        v
    };
    for &y in &years {
        for w in 0..=54i64 {
            for wd in 0..7i64 {
                for which in [WSUN, WMON, IWEEK] {
                    let mut f: Fields = [None; NF];
                    f[if which == IWEEK { IYEAR } else { YEAR }] = Some(y as i64);
                    f[which] = Some(w);
                    f[WDAY] = Some(wd);
                    let p = build(&f);
                    let r = guard(|| p.to_naive_date());
                    let s = show(r.clone(), |d| yof(d).to_string());
                    c.op(&format!("pr.date {}", dump_parsed(&p)), &s);
                    c.count(&format!("weekgrid:{}:{}", NAMES[which], kind_of(&s)));
                    if let Ok(Ok(d)) = &r {
                        if let Some(wh) = date_agrees(&f, d) {
                            c.fail("week grid: result contradicts a supplied field", &format!("{} [{}] -> {}", wh, dump_parsed(&p), d));
                        }
                    }
                }
            }
        }
    }

    // ---- the timestamp path near its limits, with and without second = 60 ----
    let lim: [i64; 12] = [
        -8334601228800, // MIN_UTC
        -8334601228801,
        -8334601228799,
        8210266876799, // MAX_UTC
        8210266876800,
        8210266876798,
        0,
        -1,
        59,
        60,
        i64::MAX,
        i64::MIN,
    ];
    for &ts in &lim {
        for sec in [None, Some(0i64), Some(59), Some(60), Some(61)] {
            for off in [0i32, 1, -1, 60, -60, 86399, -86399, i32::MAX, i32::MIN] {
                let mut f: Fields = [None; NF];
                f[TS] = Some(ts);
                f[SEC] = sec;
                let p = build(&f);
                let r = guard(|| p.to_naive_datetime_with_offset(off));
                let s = show(r.clone(), sdt);
                c.op(&format!("pr.dt {} {}", dump_parsed(&p), off), &s);
                c.count(&format!("tslimits:{}", kind_of(&s)));
                if r.is_err() {
                    c.fail("to_naive_datetime_with_offset panicked", &format!("[{}] off {}", dump_parsed(&p), off));
                }
            }
        }
    }

    run_set_twice(c);
}
