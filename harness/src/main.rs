//! `chk <property-id>`: run the implementation side of a property's correspondence and direct
//! oracles, writing the protocol described in ctx.rs to stdout.
//! Environment: VERIF_SEED (default 1), VERIF_TIER (quick|thorough, default quick).
mod aliases;
mod ctx;
mod items;
mod props {
    include!(concat!(env!("OUT_DIR"), "/props.rs"));
}

fn main() {
    let args: Vec<String> = std::env::args().collect();
    if args.len() < 2 {
        eprintln!("usage: chk <property-id>   (known: {:?})", props::ALL);
        std::process::exit(2);
    }
    let seed: u64 = std::env::var("VERIF_SEED").ok().and_then(|s| s.parse().ok()).unwrap_or(1);
    let tier = match std::env::var("VERIF_TIER").as_deref() {
        Ok("thorough") => ctx::Tier::Thorough,
        _ => ctx::Tier::Quick,
    };
    // panics are expected events here (they are what C15 is about): keep stderr quiet
    std::panic::set_hook(Box::new(|_| {}));
    let mut c = ctx::Ctx::new(seed, tier);
    let id = args[1].to_lowercase();
    if !props::dispatch(&id, &mut c) {
        eprintln!("unknown property {}", args[1]);
        std::process::exit(2);
    }
    c.finish();
}
