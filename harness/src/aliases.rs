//! Thin public entry points that the property modules would otherwise never call: deprecated and
//! panicking aliases of the fallible constructors, provided trait methods, getters.  Each is defined
//! by the documentation as "the fallible form, unwrapped" or "the same as …"; the oracles here say
//! exactly that (the alias panics exactly when the fallible form refuses, and otherwise returns the
//! same value), on the argument tuples of the owning property's generators.
#![allow(deprecated)]
use crate::ctx::*;
use chrono::format::Parsed;
use chrono::{
    DateTime, Datelike, FixedOffset, LocalResult, NaiveDate, NaiveDateTime, NaiveTime, TimeDelta, TimeZone, Timelike, Utc, Weekday,
    WeekdaySet,
};

fn same<T: PartialEq + std::fmt::Debug>(c: &mut Ctx, what: &str, detail: &str, alias: Result<T, ()>, fallible: Result<Option<T>, ()>) {
    c.count("alias:compared");
    let ok = match (&alias, &fallible) {
        (Ok(a), Ok(Some(b))) => a == b,
        (Err(()), Ok(None)) => true,
        _ => false,
    };
    if !ok {
        c.fail(
            &format!("{what}: the panicking / deprecated alias is not the fallible form unwrapped"),
            &format!("{detail}: alias {:?}, fallible form {:?}", alias, fallible),
        );
    }
}

const WD: [Weekday; 7] = [Weekday::Mon, Weekday::Tue, Weekday::Wed, Weekday::Thu, Weekday::Fri, Weekday::Sat, Weekday::Sun];

fn year(c: &mut Ctx) -> i32 {
    match c.rng.below(6) {
        0 => *c.rng.pick(&[-262144, -262143, -262142, 262141, 262142, 262143, 0, 1, -1, 1970, 2000, 2100]),
        1 => c.rng.range(-262150, 262150) as i32,
        2 => c.rng.range(i32::MIN as i64, i32::MAX as i64) as i32,
        _ => c.rng.range(-10000, 10000) as i32,
    }
}

/// C01: the date constructors
pub fn c01(c: &mut Ctx) {
    for _ in 0..c.n(4000, 40000) {
        let y = year(c);
        let m = c.rng.below(15) as u32;
        let d = c.rng.below(34) as u32;
        let o = c.rng.below(369) as u32;
        let w = c.rng.below(56) as u32;
        let wd = *c.rng.pick(&WD);
        let n = match c.rng.below(3) {
            0 => c.rng.range(-95_746_140, 95_745_410) as i32,
            1 => *c.rng.pick(&[-95_746_130, -95_746_129, 95_745_399, 95_745_400, 0, 1, i32::MAX, i32::MIN]),
            _ => c.rng.range(-1_000_000, 1_000_000) as i32,
        };
        same(c, "NaiveDate::from_ymd", &format!("{y} {m} {d}"), guard(|| NaiveDate::from_ymd(y, m, d)), guard(|| NaiveDate::from_ymd_opt(y, m, d)));
        same(c, "NaiveDate::from_yo", &format!("{y} {o}"), guard(|| NaiveDate::from_yo(y, o)), guard(|| NaiveDate::from_yo_opt(y, o)));
        same(c, "NaiveDate::from_isoywd", &format!("{y} {w} {wd}"), guard(|| NaiveDate::from_isoywd(y, w, wd)), guard(|| NaiveDate::from_isoywd_opt(y, w, wd)));
        same(c, "NaiveDate::from_num_days_from_ce", &format!("{n}"), guard(|| NaiveDate::from_num_days_from_ce(n)), guard(|| NaiveDate::from_num_days_from_ce_opt(n)));
        // the panicking `succ` / `pred` are `succ_opt` / `pred_opt` unwrapped (panic exactly at MAX / MIN)
        let date = match c.rng.below(8) {
            0 => NaiveDate::MAX,
            1 => NaiveDate::MIN,
            2 => NaiveDate::MAX.pred_opt().unwrap(),
            3 => NaiveDate::MIN.succ_opt().unwrap(),
            _ => NaiveDate::from_num_days_from_ce_opt(n).unwrap_or(NaiveDate::MAX),
        };
        same(c, "NaiveDate::succ", &format!("{date:?}"), guard(|| date.succ()), guard(|| date.succ_opt()));
        same(c, "NaiveDate::pred", &format!("{date:?}"), guard(|| date.pred()), guard(|| date.pred_opt()));
    }
}

/// C08: n-th weekday of a month
pub fn c08(c: &mut Ctx) {
    for _ in 0..c.n(4000, 40000) {
        let y = year(c);
        let m = c.rng.below(15) as u32;
        let wd = *c.rng.pick(&WD);
        let n = if c.rng.chance(1, 4) { c.rng.below(256) as u8 } else { c.rng.below(7) as u8 };
        same(
            c,
            "NaiveDate::from_weekday_of_month",
            &format!("{y} {m} {wd} {n}"),
            guard(|| NaiveDate::from_weekday_of_month(y, m, wd, n)),
            guard(|| NaiveDate::from_weekday_of_month_opt(y, m, wd, n)),
        );
    }
}

/// C07: the time constructors and the date's `and_hms*`
pub fn c07(c: &mut Ctx) {
    let date = NaiveDate::from_ymd_opt(2015, 6, 30).unwrap();
    for _ in 0..c.n(6000, 60000) {
        let h = c.rng.below(26) as u32;
        let m = c.rng.below(62) as u32;
        let s = if c.rng.chance(1, 3) { 59 } else { c.rng.below(62) as u32 };
        let milli = if c.rng.chance(1, 2) { c.rng.below(2100) as u32 } else { *c.rng.pick(&[999, 1000, 1999, 2000, u32::MAX, 4_294_968]) };
        let micro = if c.rng.chance(1, 2) { c.rng.below(2_100_000) as u32 } else { *c.rng.pick(&[999_999, 1_000_000, 1_999_999, 2_000_000, u32::MAX, 4_294_968]) };
        let nano = if c.rng.chance(1, 2) { c.rng.nanos() + if c.rng.chance(1, 2) { 1_000_000_000 } else { 0 } } else { *c.rng.pick(&[999_999_999, 1_000_000_000, 1_999_999_999, 2_000_000_000, u32::MAX]) };
        let secs = if c.rng.chance(1, 2) { c.rng.below(86_500) as u32 } else { *c.rng.pick(&[86_399, 86_400, u32::MAX, 59, 60]) };
        let t = format!("{h} {m} {s}");
        same(c, "NaiveTime::from_hms", &t, guard(|| NaiveTime::from_hms(h, m, s)), guard(|| NaiveTime::from_hms_opt(h, m, s)));
        same(c, "NaiveTime::from_hms_milli", &format!("{t} {milli}"), guard(|| NaiveTime::from_hms_milli(h, m, s, milli)), guard(|| NaiveTime::from_hms_milli_opt(h, m, s, milli)));
        same(c, "NaiveTime::from_hms_micro", &format!("{t} {micro}"), guard(|| NaiveTime::from_hms_micro(h, m, s, micro)), guard(|| NaiveTime::from_hms_micro_opt(h, m, s, micro)));
        same(c, "NaiveTime::from_hms_nano", &format!("{t} {nano}"), guard(|| NaiveTime::from_hms_nano(h, m, s, nano)), guard(|| NaiveTime::from_hms_nano_opt(h, m, s, nano)));
        same(
            c,
            "NaiveTime::from_num_seconds_from_midnight",
            &format!("{secs} {nano}"),
            guard(|| NaiveTime::from_num_seconds_from_midnight(secs, nano)),
            guard(|| NaiveTime::from_num_seconds_from_midnight_opt(secs, nano)),
        );
        // the date's and_hms* forms are the date with the time constructor's result
        let with = |t: Result<Option<NaiveTime>, ()>| t.map(|o| o.map(|t| date.and_time(t)));
        same(c, "NaiveDate::and_hms", &t, guard(|| date.and_hms(h, m, s)), with(guard(|| NaiveTime::from_hms_opt(h, m, s))));
        same(c, "NaiveDate::and_hms_opt", &t, guard(|| date.and_hms_opt(h, m, s)).and_then(|o| o.ok_or(())), with(guard(|| NaiveTime::from_hms_opt(h, m, s))));
        same(c, "NaiveDate::and_hms_milli", &format!("{t} {milli}"), guard(|| date.and_hms_milli(h, m, s, milli)), with(guard(|| NaiveTime::from_hms_milli_opt(h, m, s, milli))));
        same(c, "NaiveDate::and_hms_micro", &format!("{t} {micro}"), guard(|| date.and_hms_micro(h, m, s, micro)), with(guard(|| NaiveTime::from_hms_micro_opt(h, m, s, micro))));
        same(c, "NaiveDate::and_hms_nano", &format!("{t} {nano}"), guard(|| date.and_hms_nano(h, m, s, nano)), with(guard(|| NaiveTime::from_hms_nano_opt(h, m, s, nano))));
        same(
            c,
            "NaiveDate::and_hms_nano_opt",
            &format!("{t} {nano}"),
            guard(|| date.and_hms_nano_opt(h, m, s, nano)).and_then(|o| o.ok_or(())),
            with(guard(|| NaiveTime::from_hms_nano_opt(h, m, s, nano))),
        );
    }
}

/// C04: offsets and the deprecated / thin constructors and views of zone-aware values
pub fn c04(c: &mut Ctx) {
    for _ in 0..c.n(4000, 40000) {
        let secs = match c.rng.below(4) {
            0 => *c.rng.pick(&[86_399, 86_400, -86_399, -86_400, 0, 1, -1, i32::MAX, i32::MIN, i32::MIN + 1]),
            1 => c.rng.range(-90_000, 90_000) as i32,
            _ => c.rng.range(-86_399, 86_399) as i32,
        };
        same(c, "FixedOffset::east", &format!("{secs}"), guard(|| FixedOffset::east(secs)), guard(|| FixedOffset::east_opt(secs)));
        same(c, "FixedOffset::west", &format!("{secs}"), guard(|| FixedOffset::west(secs)), guard(|| FixedOffset::west_opt(secs)));
        if let (Some(e), Some(w)) = (FixedOffset::east_opt(secs), secs.checked_neg().and_then(FixedOffset::west_opt)) {
            if e != w || e.local_minus_utc() != secs || e.utc_minus_local() != -secs {
                c.fail("FixedOffset: east(s), west(-s) and the two readings disagree", &format!("{secs}"));
            }
        }
        let Some(off) = FixedOffset::east_opt(secs.clamp(-86_399, 86_399)) else { continue };
        let ts = c.rng.range(-8_334_600_000_000, 8_210_266_000_000);
        let Some(utc) = DateTime::from_timestamp(ts, c.rng.nanos()).map(|x| x.naive_utc()) else { continue };
        let a = off.from_utc_datetime(&utc);
        // from_utc / from_naive_utc_and_offset / from_local are the same value as the zone's own constructor
        let b = guard(|| DateTime::<FixedOffset>::from_utc(utc, off));
        let b2 = guard(|| DateTime::<FixedOffset>::from_naive_utc_and_offset(utc, off));
        if b != Ok(a) || b2 != Ok(a) {
            c.fail("DateTime::from_utc / from_naive_utc_and_offset differ from TimeZone::from_utc_datetime", &format!("{utc:?} {off}"));
        }
        if let Ok(local) = guard(|| a.naive_local()) {
            let l = guard(|| DateTime::<FixedOffset>::from_local(local, off));
            if l != Ok(a) {
                c.fail("DateTime::from_local(naive_local, offset) is not the value", &format!("{a:?}"));
            }
            if guard(|| a.date_naive()) != Ok(local.date()) {
                c.fail("date_naive is not the date of the wall clock", &format!("{a:?}"));
            }
        }
        if a.timezone() != off || a.offset() != &off || a.fixed_offset() != a || a.to_utc().naive_utc() != utc {
            c.fail("timezone / offset / fixed_offset / to_utc do not return the value's own zone and instant", &format!("{a:?}"));
        }
        c.count("alias:zoned-views");
    }
}

/// C05: `MappedLocalTime` accessors (earliest first)
pub fn c05(c: &mut Ctx) {
    for _ in 0..c.n(2000, 20000) {
        let a = c.rng.range(-100, 100);
        let b = c.rng.range(-100, 100);
        for (m, e, l, s) in [
            (LocalResult::None, None, None, None),
            (LocalResult::Single(a), Some(a), Some(a), Some(a)),
            (LocalResult::Ambiguous(a, b), Some(a), Some(b), None),
        ] {
            c.count("alias:mapped-local-time");
            if m.earliest() != e || m.latest() != l || m.single() != s {
                c.fail("MappedLocalTime::earliest / latest / single do not select the documented candidate", &format!("{m:?}"));
            }
            if m.map(|x| x + 1).earliest() != e.map(|x| x + 1) || m.map(|x| x * 2).latest() != l.map(|x| x * 2) {
                c.fail("MappedLocalTime::map changes which candidate is which", &format!("{m:?}"));
            }
        }
    }
}

/// C06: the deprecated bounds
pub fn c06(c: &mut Ctx) {
    c.count("alias:compared");
    if TimeDelta::max_value() != TimeDelta::MAX || TimeDelta::min_value() != TimeDelta::MIN || TimeDelta::zero() != TimeDelta::new(0, 0).unwrap() {
        c.fail("TimeDelta::max_value / min_value / zero are not MAX / MIN / the zero duration", "");
    }
    if !TimeDelta::zero().is_zero() || TimeDelta::nanoseconds(1).is_zero() || TimeDelta::nanoseconds(-1).is_zero() {
        c.fail("TimeDelta::is_zero is wrong next to zero", "");
    }
}

/// C13: the deprecated `TimeZone::datetime_from_str`
pub fn c13(c: &mut Ctx) {
    let off = FixedOffset::east_opt(19_800).unwrap();
    for _ in 0..c.n(600, 6000) {
        let ts = c.rng.range(-60_000_000_000, 250_000_000_000);
        let Some(v) = DateTime::from_timestamp(ts, c.rng.nanos()) else { continue };
        for fmt in ["%Y-%m-%d %H:%M:%S%.f", "%Y-%j %H:%M:%S%.9f", "%s"] {
            let text = v.naive_utc().format(fmt).to_string();
            // date and time fields are a wall clock in the zone; a timestamp is the instant itself
            let want = if fmt == "%s" {
                NaiveDateTime::parse_from_str(&text, fmt).ok().map(|n| off.from_utc_datetime(&n))
            } else {
                NaiveDateTime::parse_from_str(&text, fmt).ok().and_then(|n| off.from_local_datetime(&n).single())
            };
            let got = guard(|| off.datetime_from_str(&text, fmt).ok());
            let want_utc = NaiveDateTime::parse_from_str(&text, fmt).ok().map(|n| Utc.from_utc_datetime(&n));
            let got_utc = guard(|| Utc.datetime_from_str(&text, fmt).ok());
            c.count("alias:compared");
            if got != Ok(want) || got_utc != Ok(want_utc) {
                c.fail("TimeZone::datetime_from_str is not the parsed local date-time read in the zone", &format!("{text:?} {fmt:?}: {:?} / {:?}", got, want));
            }
        }
    }
}

/// C14: the getters return what the setters stored
pub fn c14(c: &mut Ctx) {
    for _ in 0..c.n(2000, 20000) {
        let mut p = Parsed::new();
        let y = c.rng.range(-9999, 9999);
        let (yd, ym) = (c.rng.range(0, 99), c.rng.range(0, 99));
        let (wk, wk2, iw) = (c.rng.range(0, 53), c.rng.range(0, 53), c.rng.range(1, 53));
        let h = c.rng.range(0, 23);
        let ok = p.set_year(y).is_ok()
            && p.set_year_div_100(yd).is_ok()
            && p.set_year_mod_100(ym).is_ok()
            && p.set_isoyear(y).is_ok()
            && p.set_isoyear_div_100(yd).is_ok()
            && p.set_isoyear_mod_100(ym).is_ok()
            && p.set_week_from_sun(wk).is_ok()
            && p.set_week_from_mon(wk2).is_ok()
            && p.set_isoweek(iw).is_ok()
            && p.set_hour(h).is_ok();
        c.count("alias:getters");
        if !ok
            || p.year() != Some(y as i32)
            || p.year_div_100() != Some(yd as i32)
            || p.year_mod_100() != Some(ym as i32)
            || p.isoyear() != Some(y as i32)
            || p.isoyear_div_100() != Some(yd as i32)
            || p.isoyear_mod_100() != Some(ym as i32)
            || p.week_from_sun() != Some(wk as u32)
            || p.week_from_mon() != Some(wk2 as u32)
            || p.isoweek() != Some(iw as u32)
            || p.hour_div_12() != Some((h / 12) as u32)
            || p.hour_mod_12() != Some((h % 12) as u32)
        {
            c.fail("Parsed getters do not return what the setters stored", &format!("{p:?}"));
        }
    }
}

/// C19: `WeekdaySet::from_array`
pub fn c19(c: &mut Ctx) {
    for w in 0u8..128 {
        let days: Vec<Weekday> = WD.iter().copied().filter(|d| w >> (*d as u8) & 1 == 1).collect();
        let set: WeekdaySet = days.iter().copied().collect();
        let ok = match days.len() {
            0 => WeekdaySet::from_array([]) == set && WeekdaySet::EMPTY == set,
            1 => WeekdaySet::from_array([days[0]]) == set && WeekdaySet::single(days[0]) == set,
            2 => WeekdaySet::from_array([days[0], days[1]]) == set && WeekdaySet::from_array([days[1], days[0], days[1]]) == set,
            3 => WeekdaySet::from_array([days[2], days[0], days[1]]) == set,
            7 => WeekdaySet::from_array(WD) == set && WeekdaySet::ALL == set,
            _ => WeekdaySet::from_array([days[0], days[1], days[2], days[3]]).is_subset(set),
        };
        c.count("alias:compared");
        if !ok {
            c.fail("WeekdaySet::from_array / single / EMPTY / ALL disagree with collecting the same days", &format!("word {w}"));
        }
    }
    // Timelike / Datelike provided methods that are pure arithmetic on other accessors
    for _ in 0..c.n(2000, 20000) {
        let secs = c.rng.below(86_400) as u32;
        let t = NaiveTime::from_num_seconds_from_midnight_opt(secs, 0).unwrap();
        let (pm, h12) = t.hour12();
        if t.num_seconds_from_midnight() != secs || pm != (t.hour() >= 12) || h12 != (if t.hour() % 12 == 0 { 12 } else { t.hour() % 12 }) {
            c.fail("Timelike::hour12 / num_seconds_from_midnight disagree with the hour", &format!("{t:?}"));
        }
    }
    let d = NaiveDate::from_ymd_opt(2024, 2, 29).unwrap();
    let _ = d.year();
}
