#![allow(dead_code)]
//! Shared context for property drivers: PRNG, tiers, output protocol, panic capture.
//!
//! Output protocol (stdout, one record per line, tab separated):
//!   O <op line> \t <implementation output>      correspondence case (model must reproduce it)
//!   F <property-level description> \t <detail>  direct oracle failure: implementation vs property
//!   C <key> \t <count>                          coverage counter (branch / class / error kind)
//!   S <text>                                    a sample case written out for the evidence
use std::collections::BTreeMap;
use std::io::{BufWriter, Write};
use std::panic::{catch_unwind, AssertUnwindSafe};

#[derive(Clone, Copy, PartialEq, Eq, Debug)]
pub enum Tier {
    Quick,
    Thorough,
}

/// splitmix64: every random choice of a run derives from VERIF_SEED through this one state
pub struct Rng(pub u64);
impl Rng {
    pub fn next(&mut self) -> u64 {
        self.0 = self.0.wrapping_add(0x9E3779B97F4A7C15);
        let mut z = self.0;
        z = (z ^ (z >> 30)).wrapping_mul(0xBF58476D1CE4E5B9);
        z = (z ^ (z >> 27)).wrapping_mul(0x94D049BB133111EB);
        z ^ (z >> 31)
    }
    pub fn below(&mut self, n: u64) -> u64 {
        if n == 0 {
            0
        } else {
            self.next() % n
        }
    }
    /// uniform in [lo, hi] (inclusive), i128 arithmetic so that the full i64 range works
    pub fn range(&mut self, lo: i64, hi: i64) -> i64 {
        let span = (hi as i128 - lo as i128 + 1) as u128;
        let r = ((self.next() as u128) << 64 | self.next() as u128) % span;
        (lo as i128 + r as i128) as i64
    }
    pub fn pick<'a, T>(&mut self, xs: &'a [T]) -> &'a T {
        &xs[self.below(xs.len() as u64) as usize]
    }
    pub fn chance(&mut self, num: u64, den: u64) -> bool {
        self.below(den) < num
    }
    /// nanoseconds below one second with digit structure: half of the time `k` leading decimal digits
    /// followed by `9 - k` zeros (every printed-precision threshold of the fraction writers is a
    /// "number of trailing zeros" test), sometimes one unit off such a value, otherwise uniform
    pub fn nanos(&mut self) -> u32 {
        if self.chance(1, 2) {
            return self.below(1_000_000_000) as u32;
        }
        let k = self.below(10) as u32;
        let scale = 10u64.pow(9 - k);
        let v = self.below(10u64.pow(k)) * scale;
        let v = match self.below(8) {
            0 => v + 1,
            1 => v.wrapping_sub(1),
            2 => v + scale / 10,
            _ => v,
        };
        if v < 1_000_000_000 {
            v as u32
        } else {
            999_999_999
        }
    }
    /// an i64 with log-uniform magnitude and random sign
    pub fn log_i64(&mut self) -> i64 {
        let bits = self.below(64);
        let m = if bits == 0 { 0 } else { self.next() >> (64 - bits) };
        let v = (m >> 1) as i64;
        if self.next() & 1 == 0 {
            v
        } else {
            -v
        }
    }
}

pub struct Ctx {
    pub rng: Rng,
    pub tier: Tier,
    pub seed: u64,
    out: BufWriter<std::io::Stdout>,
    counters: BTreeMap<String, u64>,
    samples: usize,
    pub ops: u64,
    pub fails: u64,
}

impl Ctx {
    pub fn new(seed: u64, tier: Tier) -> Self {
        Ctx {
            rng: Rng(seed ^ 0x5DEECE66D),
            tier,
            seed,
            out: BufWriter::with_capacity(1 << 20, std::io::stdout()),
            counters: BTreeMap::new(),
            samples: 0,
            ops: 0,
            fails: 0,
        }
    }
    /// volume selector
    pub fn n(&self, quick: usize, thorough: usize) -> usize {
        match self.tier {
            Tier::Quick => quick,
            Tier::Thorough => thorough,
        }
    }
    /// correspondence case: `line` is sent to the model, `got` is what the implementation did
    pub fn op(&mut self, line: &str, got: &str) {
        debug_assert!(!line.contains('\t') && !line.contains('\n'));
        self.ops += 1;
        let _ = writeln!(self.out, "O {}\t{}", line, got);
    }
    /// direct oracle failure (implementation contradicts the property statement itself)
    pub fn fail(&mut self, what: &str, detail: &str) {
        self.fails += 1;
        let _ = writeln!(self.out, "F {}\t{}", what, detail.replace('\n', " "));
    }
    pub fn count(&mut self, key: &str) {
        *self.counters.entry(key.to_string()).or_insert(0) += 1;
    }
    pub fn count_n(&mut self, key: &str, n: u64) {
        *self.counters.entry(key.to_string()).or_insert(0) += n;
    }
    pub fn sample(&mut self, text: &str) {
        if self.samples < 12 {
            self.samples += 1;
            let _ = writeln!(self.out, "S {}", text.replace('\n', " "));
        }
    }
    pub fn finish(mut self) {
        for (k, v) in std::mem::take(&mut self.counters) {
            let _ = writeln!(self.out, "C {}\t{}", k, v);
        }
        let _ = self.out.flush();
    }
}

/// run `f`, mapping a panic to `Err(())`
pub fn guard<T>(f: impl FnOnce() -> T) -> Result<T, ()> {
    catch_unwind(AssertUnwindSafe(f)).map_err(|_| ())
}

/// run `f` and render with `show`, or "panic"
pub fn gs<T>(f: impl FnOnce() -> T, show: impl FnOnce(T) -> String) -> String {
    match guard(f) {
        Ok(v) => show(v),
        Err(()) => "panic".to_string(),
    }
}

pub fn hex(bytes: &[u8]) -> String {
    let mut s = String::with_capacity(1 + bytes.len() * 2);
    s.push('x');
    for b in bytes {
        s.push_str(&format!("{:02x}", b));
    }
    s
}

pub fn opt<T: std::fmt::Display>(o: Option<T>) -> String {
    match o {
        Some(v) => v.to_string(),
        None => "none".to_string(),
    }
}

pub fn b01(b: bool) -> &'static str {
    if b {
        "1"
    } else {
        "0"
    }
}

/// integer boundary classes used by every numeric generator
pub fn int_extremes() -> Vec<i128> {
    let mut v: Vec<i128> = vec![];
    for base in [
        0i128,
        i8::MAX as i128,
        u8::MAX as i128,
        i16::MAX as i128,
        u16::MAX as i128,
        i32::MAX as i128,
        u32::MAX as i128,
        i64::MAX as i128,
        u64::MAX as i128,
        i8::MIN as i128,
        i16::MIN as i128,
        i32::MIN as i128,
        i64::MIN as i128,
    ] {
        for d in -2i128..=2 {
            v.push(base + d);
        }
    }
    v
}
