//! Protocol encoding of chrono format items (mirrors lean/Chrono/Model/Items.lean `Item.encode`):
//! `L<hex>` literal, `S<hex>` space, `N<Name>:<pad>` numeric, `F<Name>` fixed, `E` error; items are
//! comma separated, `-` is the empty list.
#![allow(dead_code)]
use chrono::format::{Fixed, Item, Numeric, Pad};

fn hex_raw(b: &[u8]) -> String {
    b.iter().map(|x| format!("{:02x}", x)).collect()
}
pub fn pad_code(p: &Pad) -> &'static str {
    match p {
        Pad::None => "n",
        Pad::Zero => "0",
        Pad::Space => "s",
    }
}
pub fn numeric_name(n: &Numeric) -> String {
    format!("{:?}", n)
}
pub fn fixed_name(f: &Fixed) -> String {
    let d = format!("{:?}", f);
    if d.starts_with("Internal") {
        for k in ["TimezoneOffsetPermissive", "Nanosecond3NoDot", "Nanosecond6NoDot", "Nanosecond9NoDot"] {
            if d.contains(k) {
                return k.to_string();
            }
        }
    }
    d
}
pub fn encode_item(it: &Item) -> String {
    match it {
        Item::Literal(s) => format!("L{}", hex_raw(s.as_bytes())),
        Item::OwnedLiteral(s) => format!("L{}", hex_raw(s.as_bytes())),
        Item::Space(s) => format!("S{}", hex_raw(s.as_bytes())),
        Item::OwnedSpace(s) => format!("S{}", hex_raw(s.as_bytes())),
        Item::Numeric(n, p) => format!("N{}:{}", numeric_name(n), pad_code(p)),
        Item::Fixed(f) => format!("F{}", fixed_name(f)),
        Item::Error => "E".to_string(),
    }
}
pub fn encode_items(items: &[Item]) -> String {
    if items.is_empty() {
        "-".to_string()
    } else {
        items.iter().map(encode_item).collect::<Vec<_>>().join(",")
    }
}
