#!/bin/sh
# Build the framework from files on disk only (offline): extracted data, Lean library + driver, harness.
set -e
cd /verif
export CARGO_NET_OFFLINE=true
python3 tools/extract.py
python3 tools/gen_main.py
(cd lean && lake build Chrono chrono_model)
(cd harness && cargo build --offline)
echo "setup ok"
