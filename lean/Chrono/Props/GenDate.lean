/-
  C01, code translation tie: the definitions that tools/extractors/rust2lean.py regenerates on every run from
  src/naive/internals.rs, src/naive/date/mod.rs, src/naive/isoweek.rs and src/traits.rs
  (lean/Chrono/Extracted/Gen.lean, `Chrono.Gen.naive_internals.*`, `naive_date.*`, `naive_isoweek.*`, `traits.*`)
  equal the hand-written model lean/Chrono/Model/Date.lean for all arguments of the machine types.  The
  hypotheses state the argument ranges (`u32` / `i32` / 4-bit year flags) and, for `from_yof`, the one region
  where the model is deliberately stricter than the source.  A `NaiveDate` is its packed word `yof`
  (`Date.yof` in the model); `rmap` maps a `Res` result, `Option.map` an `Option` result.
-/
import Chrono.Proofs.GenDateL
namespace Chrono.Props.GenDate
open Chrono Chrono.M Chrono.Extracted Chrono.Extracted.DateOps Chrono.Proofs.GenL Chrono.Proofs.GenDateL

theorem gen_from_year_mod_400_eq (ym : Int) (h : 0 ≤ ym ∧ ym < 400) :
    Gen.naive_internals.YearFlags.from_year_mod_400 ym = .ok (YearFlags.from_year_mod_400 ym : Nat) := by
  unfold Gen.naive_internals.YearFlags.from_year_mod_400
  have e : GenRt.asUsize ym = ym := by unfold GenRt.asUsize GenRt.asU64; omega
  have hl : YEAR_TO_FLAGS.length = 400 := by decide +kernel
  rw [e, idxN_ok (by omega)]
  rfl

theorem gen_from_year_eq (year : Int) :
    Gen.naive_internals.YearFlags.from_year year = .ok (YearFlags.from_year year : Nat) :=
  gen_from_year_mod_400_eq (year % 400) (by omega)

theorem gen_ndays_eq : ∀ f : Nat, f < 256 →
    Gen.naive_internals.YearFlags.ndays f = .ok (YearFlags.ndays f : Nat) := by decide +kernel

theorem gen_isoweek_delta_eq : ∀ f : Nat, f < 256 →
    Gen.naive_internals.YearFlags.isoweek_delta f = .ok (YearFlags.isoweek_delta f : Nat) := by decide +kernel

theorem gen_nisoweeks_eq : ∀ f : Nat, f < 32 →
    Gen.naive_internals.YearFlags.nisoweeks f = .ok (YearFlags.nisoweeks f : Nat) := by decide +kernel

theorem gen_mdf_new_eq (month day flags : Nat) (hm : month ≤ 4294967295) (hd : day ≤ 4294967295) (hf : flags < 16) :
    Gen.naive_internals.Mdf.new month day flags = (Mdf.new month day flags).map Int.ofNat := by
  unfold Gen.naive_internals.Mdf.new Mdf.new
  by_cases h : month ≤ 12 ∧ day ≤ 31
  · rw [if_pos h, if_pos (by omega)]
    have e1 : GenRt.lorU ((month : Int) * 512 % 4294967296) ((day : Int) * 16 % 4294967296) = month * 512 + day * 16 := by
      rw [lorU_field_4_5 _ _ (by omega) (by omega) (by omega) (by omega) (by omega)]; omega
    rw [e1, lorU_field_0_4 _ _ (by omega) (by omega) (by omega) (by omega) (by omega)]
    simp only [Option.map]
    congr 1
  · rw [if_neg h, if_neg (by omega)]; rfl

theorem gen_mdf_from_ol_eq (ol : Int) (flags : Nat) (hf : flags < 16) :
    Gen.naive_internals.Mdf.from_ol ol flags = rmap Int.ofNat (Mdf.from_ol ol.toNat flags) := by
  unfold Gen.naive_internals.Mdf.from_ol Mdf.from_ol
  have hM : MAX_OL = 732 := rfl
  by_cases h : 1 < ol ∧ ol ≤ 732
  · have hl := tbl_ol.1
    have hv := tbl_ol.2 ol.toNat (by omega)
    have e : GenRt.asUsize ol = ol := by unfold GenRt.asUsize GenRt.asU64; omega
    rw [if_neg (by omega), if_pos (by omega), e, idxN_ok (by omega), bind_ok,
      Proofs.asU32_id (by omega) (by omega)]
    generalize OL_TO_MDL.getD ol.toNat 0 = v at hv
    have e2 : ol + Int.ofNat v = ((ol.toNat + v : Nat) : Int) := by simp only [Int.ofNat_eq_natCast]; omega
    rw [e2, ckU32_ok (by omega), bind_ok, lorU_bit3 _ _ (by omega) hf]
    rfl
  · rw [if_pos (by omega), if_neg (by omega)]; rfl

theorem gen_mdf_month_eq (mdf : Nat) : Gen.naive_internals.Mdf.month mdf = (Mdf.month mdf : Nat) := by
  unfold Gen.naive_internals.Mdf.month Mdf.month
  show (mdf : Int) / 512 = ((mdf / 512 : Nat) : Int)
  omega

theorem gen_mdf_day_eq (mdf : Nat) : Gen.naive_internals.Mdf.day mdf = (Mdf.day mdf : Nat) := by
  unfold Gen.naive_internals.Mdf.day Mdf.day
  show ((mdf : Int) / 16) % 32 = ((mdf / 16 % 32 : Nat) : Int)
  omega

theorem gen_mdf_with_month_eq (mdf month : Nat) (h2 : month ≤ 4294967295) :
    Gen.naive_internals.Mdf.with_month mdf month = (Mdf.with_month mdf month).map Int.ofNat := by
  unfold Gen.naive_internals.Mdf.with_month Mdf.with_month
  by_cases h : month > 12
  · rw [if_pos h, if_pos (by omega)]; rfl
  · rw [if_neg h, if_neg (by omega)]
    simp only [Option.map]
    rw [lorU_field_9_4 _ _ (by omega) (by omega) (by omega) (by omega) (by omega)]
    congr 1; simp only [Int.ofNat_eq_natCast]; omega

theorem gen_mdf_with_day_eq (mdf day : Nat) (h1 : mdf ≤ 4294967295) (h2 : day ≤ 4294967295) :
    Gen.naive_internals.Mdf.with_day mdf day = (Mdf.with_day mdf day).map Int.ofNat := by
  unfold Gen.naive_internals.Mdf.with_day Mdf.with_day
  by_cases h : day > 31
  · rw [if_pos h, if_pos (by omega)]; rfl
  · rw [if_neg h, if_neg (by omega)]
    simp only [Option.map]
    rw [lorU_field_4_5 _ _ (by omega) (by omega) (by omega) (by omega) (by omega)]
    congr 1; simp only [Int.ofNat_eq_natCast]; omega

theorem gen_mdf_with_flags_eq (mdf flags : Nat) (h1 : mdf ≤ 4294967295) (hf : flags < 16) :
    Gen.naive_internals.Mdf.with_flags mdf flags = (Mdf.with_flags mdf flags : Nat) := by
  unfold Gen.naive_internals.Mdf.with_flags Mdf.with_flags
  simp only []
  rw [lorU_field_0_4 _ _ (by omega) (by omega) (by omega) (by omega) (by omega)]
  omega

theorem gen_mdf_year_flags_eq (mdf : Nat) :
    Gen.naive_internals.Mdf.year_flags mdf = (Mdf.year_flags mdf : Nat) := by
  unfold Gen.naive_internals.Mdf.year_flags Mdf.year_flags asU8; omega

theorem gen_mdf_ordinal_eq (mdf : Nat) (h1 : mdf ≤ 4294967295) :
    Gen.naive_internals.Mdf.ordinal mdf = rmap (Option.map Int.ofNat) (Mdf.ordinal mdf) := by
  unfold Gen.naive_internals.Mdf.ordinal Mdf.ordinal
  have hl := tbl_mdl.1
  simp only []
  by_cases h : mdf / 8 < 832
  · have hv := tbl_mdl.2 (mdf / 8) h
    rw [idxN_ok (by omega), bind_ok, show ((mdf : Int) / 8).toNat = mdf / 8 by omega,
      Proofs.ite_pos' (c := mdf / 8 < MDL_TO_OL.length) _ _ (by omega)]
    generalize MDL_TO_OL.getD (mdf / 8) 0 = v at hv
    by_cases hz : v = 0
    · rw [if_pos (by simp only [Int.ofNat_eq_natCast]; omega), if_pos hz]; rfl
    · rw [if_neg (by simp only [Int.ofNat_eq_natCast]; omega), if_neg hz]
      simp only [Int.ofNat_eq_natCast]
      rw [show asU8 (v : Int) = v by unfold asU8; omega, ckU32_ok (by omega), bind_ok]
      show Res.ok (some _) = Res.ok (some (((mdf / 8 - v) / 2 : Nat) : Int))
      congr 2; omega
  · unfold GenRt.idxN
    rw [if_neg (by omega), if_neg (by omega)]; rfl

theorem gen_mdf_ordinal_and_flags_eq (mdf : Nat) (h1 : mdf ≤ 4294967295) :
    Gen.naive_internals.Mdf.ordinal_and_flags mdf = rmap (Option.map Int.ofNat) (Mdf.ordinal_and_flags mdf) := by
  unfold Gen.naive_internals.Mdf.ordinal_and_flags Mdf.ordinal_and_flags
  have hl := tbl_mdl.1
  simp only []
  by_cases h : mdf / 8 < 832
  · have hv := tbl_mdl.2 (mdf / 8) h
    rw [idxN_ok (by omega), bind_ok, show ((mdf : Int) / 8).toNat = mdf / 8 by omega,
      Proofs.ite_pos' (c := mdf / 8 < MDL_TO_OL.length) _ _ (by omega)]
    generalize MDL_TO_OL.getD (mdf / 8) 0 = v at hv
    by_cases hz : v = 0
    · rw [if_pos (by simp only [Int.ofNat_eq_natCast]; omega), if_pos hz]; rfl
    · rw [if_neg (by simp only [Int.ofNat_eq_natCast]; omega), if_neg hz]
      simp only [Int.ofNat_eq_natCast]
      rw [Proofs.asI32_id (by omega) (by omega), Proofs.asI32_id (by omega) (by omega), ckI32_ok (by omega)]
      show Res.ok (some _) = Res.ok (some ((mdf - v * 8 : Nat) : Int))
      congr 2; omega
  · unfold GenRt.idxN
    rw [if_neg (by omega), if_neg (by omega)]; rfl
theorem gen_cycle_to_yo_eq (cycle : Nat) (h : cycle < 146097) :
    Gen.naive_date.cycle_to_yo cycle =
      .ok (((Date.cycle_to_yo cycle).1 : Nat), ((Date.cycle_to_yo cycle).2 : Nat)) := by
  unfold Gen.naive_date.cycle_to_yo Date.cycle_to_yo
  obtain ⟨hl, h0, hb⟩ := tbl_yd
  have hv := hb (cycle / 365) (by omega)
  simp only []
  rw [idxN_ok (by omega), bind_ok, show ((cycle : Int) / 365).toNat = cycle / 365 by omega]
  by_cases hc : cycle % 365 < YEAR_DELTAS.getD (cycle / 365) 0
  · have hne : cycle / 365 ≠ 0 := by
      intro hz; rw [hz, h0] at hc; omega
    have hv2 := hb (cycle / 365 - 1) (by omega)
    rw [if_pos (by simp only [Int.ofNat_eq_natCast]; omega), if_pos hc, ckU32_ok (by omega), bind_ok,
      idxN_ok (by omega), bind_ok, show ((cycle : Int) / 365 - 1).toNat = cycle / 365 - 1 by omega]
    generalize YEAR_DELTAS.getD (cycle / 365 - 1) 0 = v2 at hv2
    simp only [Int.ofNat_eq_natCast]
    rw [ckU32_ok (by omega), bind_ok, ckU32_ok (by omega), bind_ok, ckU32_ok (by omega), bind_ok]
    congr 2 <;> omega
  · rw [if_neg (by simp only [Int.ofNat_eq_natCast]; omega), if_neg hc]
    generalize YEAR_DELTAS.getD (cycle / 365) 0 = v at hv hc
    simp only [Int.ofNat_eq_natCast]
    rw [ckU32_ok (by omega), bind_ok, ckU32_ok (by omega), bind_ok]
    congr 2 <;> omega

theorem gen_yo_to_cycle_eq (ym ordinal : Nat) (h1 : ym ≤ 400) (h2 : 1 ≤ ordinal) (h3 : ordinal ≤ 4294000000) :
    Gen.naive_date.yo_to_cycle ym ordinal = .ok (Date.yo_to_cycle ym ordinal : Nat) := by
  unfold Gen.naive_date.yo_to_cycle Date.yo_to_cycle
  obtain ⟨hl, h0, hb⟩ := tbl_yd
  have hv := hb ym (by omega)
  rw [ckU32_ok (by omega), bind_ok, idxN_ok (by omega), bind_ok, Int.toNat_natCast]
  generalize YEAR_DELTAS.getD ym 0 = v at hv
  simp only [Int.ofNat_eq_natCast]
  rw [ckU32_ok (by omega), bind_ok, ckU32_ok (by omega), bind_ok, ckU32_ok (by omega)]
  congr 1; omega

/-- `div_mod_floor(val, div)` for a positive divisor is Lean's `(/, %)`; never panics -/
theorem gen_div_mod_floor_eq (a b : Int) (hb : 0 < b) (ha : -2147483648 ≤ a ∧ a ≤ 2147483647) :
    Gen.naive_date.div_mod_floor a b = .ok (a / b, a % b) := by
  unfold Gen.naive_date.div_mod_floor
  have h1 : a / b ≤ 2147483647 := by
    by_cases h : a < 0
    · have := Int.ediv_neg_of_neg_of_pos h hb; omega
    · have := Int.ediv_le_self b (Int.not_lt.mp h); omega
  have h2 : -2147483648 ≤ a / b := by
    by_cases h : a < 0
    · have h3 : a * b ≤ a := by
        have := Int.mul_le_mul_of_nonpos_left (a := a) (b := b) (c := 1) (by omega) (by omega)
        rwa [Int.mul_one] at this
      have := Int.le_ediv_of_mul_le hb h3; omega
    · have := Int.ediv_nonneg (Int.not_lt.mp h) (Int.le_of_lt hb); omega
  rw [edivCk_ok (by omega) ⟨h2, h1⟩, bind_ok, emodCk_ok (by omega) (by omega), bind_ok]
theorem gen_from_yof_eq (yof : Int) (h : yof / 8 % 1024 ≤ 732) :
    Gen.naive_date.NaiveDate.from_yof yof = rmap Date.yof (Date.from_yof yof) := by
  unfold Gen.naive_date.NaiveDate.from_yof Date.from_yof
  have hM : MAX_OL = 732 := rfl
  simp only []
  repeat' split
  all_goals (first | rfl | (exfalso; omega))

/-- outside that hypothesis the hand-written model is stricter than the source: the second assertion of
`from_yof` compares `(yof & OL_MASK) >> 3` (at most 1023) with the date module's `MAX_OL = 366 << 4`, so it
never fires; the model asserts `ol ≤ 732`. -/
theorem gen_from_yof_model_stricter :
    Gen.naive_date.NaiveDate.from_yof 5865 = .ok 5865 ∧ Date.from_yof 5865 = .panic := by decide

theorem gen_yof_eq (d : Date) : Gen.naive_date.NaiveDate.yof d.yof = d.yof := rfl

theorem gen_year_eq (d : Date) : Gen.naive_date.NaiveDate.year d.yof = d.year := rfl

theorem gen_ordinal_eq (d : Date) : Gen.naive_date.NaiveDate.ordinal d.yof = d.ordinal := by
  unfold Gen.naive_date.NaiveDate.ordinal Gen.naive_date.NaiveDate.yof Date.ordinal asU32; omega

theorem gen_leap_year_eq (d : Date) : Gen.naive_date.NaiveDate.leap_year d.yof = d.leap_year := by
  unfold Gen.naive_date.NaiveDate.leap_year Gen.naive_date.NaiveDate.yof Date.leap_year
  by_cases h : d.yof / 8 % 2 = 0
  · simp [h]
  · have : ¬ (d.yof / 8 % 2 * 8 = 0) := by omega
    simp [h, this]

theorem gen_year_flags_eq (d : Date) : Gen.naive_date.NaiveDate.year_flags d.yof = (d.year_flags : Nat) := by
  unfold Gen.naive_date.NaiveDate.year_flags Gen.naive_date.NaiveDate.yof Date.year_flags Date.flags asU8
  omega

theorem gen_weekday_eq (d : Date) :
    Gen.naive_date.NaiveDate.weekday d.yof = .ok (d.weekday.toNat : Nat) := by
  unfold Gen.naive_date.NaiveDate.weekday Gen.naive_date.NaiveDate.yof Date.weekday Date.ordinal
  rw [ckI32_ok (by omega), bind_ok]
  have e : Int.tmod (d.yof / 16 % 512 * 16 / 16 + d.yof % 8) 7 = (d.yof / 16 % 512 + d.yof % 8) % 7 := by
    rw [Proofs.tmod_eq]; omega
  simp only [e]
  generalize hn : (d.yof / 16 % 512 + d.yof % 8) % 7 = n
  have : n = 0 ∨ n = 1 ∨ n = 2 ∨ n = 3 ∨ n = 4 ∨ n = 5 ∨ n = 6 := by omega
  rcases this with h | h | h | h | h | h | h <;> subst h <;> rfl

theorem gen_mdf_eq (d : Date) : Gen.naive_date.NaiveDate.mdf d.yof = rmap Int.ofNat d.mdf := by
  unfold Gen.naive_date.NaiveDate.mdf Date.mdf
  rw [gen_year_flags_eq]
  have e : Gen.naive_date.NaiveDate.yof d.yof / 8 % 1024 * 8 / 8 = (d.ol : Nat) := by
    unfold Gen.naive_date.NaiveDate.yof Date.ol; omega
  rw [e]
  have := gen_mdf_from_ol_eq (d.ol : Nat) d.year_flags (by unfold Date.year_flags Date.flags; omega)
  rwa [Int.toNat_natCast] at this

theorem gen_month_eq (d : Date) : Gen.naive_date.NaiveDate.month d.yof = rmap Int.ofNat d.month := by
  unfold Gen.naive_date.NaiveDate.month Date.month
  rw [gen_mdf_eq]
  cases d.mdf with
  | panic => rfl
  | ok m => exact congrArg Res.ok (gen_mdf_month_eq m)

theorem gen_day_eq (d : Date) : Gen.naive_date.NaiveDate.day d.yof = rmap Int.ofNat d.day := by
  unfold Gen.naive_date.NaiveDate.day Date.day
  rw [gen_mdf_eq]
  cases d.mdf with
  | panic => rfl
  | ok m => exact congrArg Res.ok (gen_mdf_day_eq m)
theorem gen_from_ordinal_and_flags_eq (year : Int) (ordinal flags : Nat) (ho : ordinal ≤ 4294967295) :
    Gen.naive_date.NaiveDate.from_ordinal_and_flags year ordinal flags =
      rmap (Option.map Date.yof) (Date.from_ordinal_and_flags year ordinal flags) := by
  unfold Gen.naive_date.NaiveDate.from_ordinal_and_flags Date.from_ordinal_and_flags
  have hF := from_year_lt year
  by_cases h1 : year < -262143 ∨ year > 262142
  · rw [if_pos h1, if_pos (show year < MIN_YEAR ∨ year > MAX_YEAR from h1)]; rfl
  · rw [if_neg h1, if_neg (show ¬ (year < MIN_YEAR ∨ year > MAX_YEAR) from h1)]
    by_cases h2 : ordinal = 0 ∨ ordinal > 366
    · rw [if_pos (show (ordinal : Int) = 0 ∨ (ordinal : Int) > 366 by omega), if_pos h2]; rfl
    · rw [if_neg (show ¬ ((ordinal : Int) = 0 ∨ (ordinal : Int) > 366) by omega), if_neg h2, gen_from_year_eq,
        bind_ok]
      by_cases h3 : YearFlags.from_year year = flags
      · rw [if_neg (show ¬ ¬ ((YearFlags.from_year year : Nat) : Int) = (flags : Int) by omega),
          if_neg (show ¬ (YearFlags.from_year year ≠ flags) from fun hn => hn h3)]
        simp only []
        rw [yof_pack year ordinal flags (by omega) (by omega) (by omega)]
        by_cases h4 : ((ordinal * 16 + flags / 8 * 8 : Nat) : Int) ≤ 5856
        · rw [if_pos (show (year * 8192 + ordinal * 16 + flags) / 8 % 1024 * 8 ≤ 5856 by omega),
            if_pos (show ((ordinal * 16 + flags / 8 * 8 : Nat) : Int) ≤ DATE_MAX_OL from h4),
            gen_from_yof_eq _ (by omega)]
          cases Date.from_yof (year * 8192 + ↑ordinal * 16 + ↑flags) <;> rfl
        · rw [if_neg (show ¬ (year * 8192 + ordinal * 16 + flags) / 8 % 1024 * 8 ≤ 5856 by omega),
            if_neg (show ¬ ((ordinal * 16 + flags / 8 * 8 : Nat) : Int) ≤ DATE_MAX_OL from h4)]; rfl
      · rw [if_pos (show ¬ ((YearFlags.from_year year : Nat) : Int) = (flags : Int) by omega),
          if_pos (show YearFlags.from_year year ≠ flags from h3)]; rfl
theorem gen_from_yo_opt_eq (year : Int) (ordinal : Nat) (ho : ordinal ≤ 4294967295) :
    Gen.naive_date.NaiveDate.from_yo_opt year ordinal =
      rmap (Option.map Date.yof) (Date.from_yo_opt year ordinal) := by
  unfold Gen.naive_date.NaiveDate.from_yo_opt Date.from_yo_opt
  rw [gen_from_year_eq, bind_ok]
  exact gen_from_ordinal_and_flags_eq year ordinal _ ho

theorem gen_from_mdf_eq (year : Int) (mdf : Nat) (hm : mdf ≤ 4294967295) :
    Gen.naive_date.NaiveDate.from_mdf year mdf = rmap (Option.map Date.yof) (Date.from_mdf year mdf) := by
  unfold Gen.naive_date.NaiveDate.from_mdf Date.from_mdf
  by_cases h1 : year < -262143 ∨ year > 262142
  · rw [if_pos h1, if_pos (show year < MIN_YEAR ∨ year > MAX_YEAR from h1)]; rfl
  · rw [if_neg h1, if_neg (show ¬ (year < MIN_YEAR ∨ year > MAX_YEAR) from h1), gen_mdf_ordinal_and_flags_eq mdf hm]
    cases hq : Mdf.ordinal_and_flags mdf with
    | panic => rfl
    | ok o =>
      cases o with
      | none => rfl
      | some oaf =>
        have hr := mdf_oaf_range mdf oaf hq
        show Res.bind (Gen.naive_date.NaiveDate.from_yof (GenRt.lorI 32 asI32 (asI32 (year * 8192)) (oaf : Int)))
          (fun r3 => Res.ok (some r3)) = rmap (Option.map Date.yof)
            (match Date.from_yof (year * 8192 + oaf) with | .ok d => .ok (some d) | .panic => .panic)
        rw [Proofs.asI32_id (by omega) (by omega),
          lorI_field_0_13 _ _ (by omega) (by omega) (by omega) (by omega) (by omega),
          gen_from_yof_eq _ (by omega)]
        cases Date.from_yof (year * 8192 + ↑oaf) <;> rfl

theorem gen_from_ymd_opt_eq (year : Int) (month day : Nat) (hm : month ≤ 4294967295) (hd : day ≤ 4294967295) :
    Gen.naive_date.NaiveDate.from_ymd_opt year month day =
      rmap (Option.map Date.yof) (Date.from_ymd_opt year month day) := by
  unfold Gen.naive_date.NaiveDate.from_ymd_opt Date.from_ymd_opt
  have hF := from_year_lt year
  rw [gen_from_year_eq, bind_ok, gen_mdf_new_eq month day _ hm hd hF]
  simp only []
  cases hq : Mdf.new month day (YearFlags.from_year year) with
  | none => rfl
  | some mdf =>
    have := mdf_new_range _ _ _ _ hF hq
    exact gen_from_mdf_eq year mdf (by omega)
theorem gen_from_num_days_from_ce_opt_eq (days : Int) (hd : -2147483648 ≤ days ∧ days ≤ 2147483647) :
    Gen.naive_date.NaiveDate.from_num_days_from_ce_opt days =
      rmap (Option.map Date.yof) (Date.from_num_days_from_ce_opt days) := by
  unfold Gen.naive_date.NaiveDate.from_num_days_from_ce_opt Date.from_num_days_from_ce_opt
  rw [optI32_def]
  by_cases h : -2147483648 ≤ days + 365 ∧ days + 365 ≤ 2147483647
  · rw [if_pos h]
    simp only []
    have hc : ((days + 365) % 146097).toNat < 146097 := by omega
    have hr := cycle_to_yo_range _ hc
    rw [Proofs.asU32_id (by omega) (by omega),
      show (days + 365) % 146097 = (((days + 365) % 146097).toNat : Nat) by omega,
      gen_cycle_to_yo_eq _ hc, bind_ok, Int.toNat_natCast]
    generalize Date.cycle_to_yo ((days + 365) % 146097).toNat = p at hr
    obtain ⟨ym, ord⟩ := p
    simp only [] at hr ⊢
    rw [Proofs.asI32_id (by omega) (by omega), gen_from_year_mod_400_eq _ (by omega), bind_ok,
      ckI32_ok (by omega), bind_ok]
    cases ckI32 ((days + 365) / 146097 * 400 + ↑ym) with
    | panic => rfl
    | ok y => exact gen_from_ordinal_and_flags_eq y ord _ (by omega)
  · rw [if_neg h]; rfl
theorem gen_succ_opt_eq (d : Date) (hd : -2147483648 ≤ d.yof ∧ d.yof ≤ 2147483647) :
    Gen.naive_date.NaiveDate.succ_opt d.yof = rmap (Option.map Date.yof) d.succ_opt := by
  unfold Gen.naive_date.NaiveDate.succ_opt Date.succ_opt Gen.naive_date.NaiveDate.year
    Gen.naive_date.NaiveDate.yof Date.year
  rw [ckI32_ok (by omega), bind_ok]
  simp only []
  by_cases h : d.yof / 8 % 1024 * 8 + 16 ≤ 5856
  · rw [if_pos h, if_pos (show d.yof / 8 % 1024 * 8 + 16 ≤ DATE_MAX_OL from h),
      lorI_field_3_10 _ _ (by omega) (by omega) (by omega) (by omega) (by omega),
      gen_from_yof_eq _ (by omega)]
    cases Date.from_yof (d.yof - d.yof / 8 % 1024 * 8 + (d.yof / 8 % 1024 * 8 + 16)) <;> rfl
  · rw [if_neg h, if_neg (show ¬ d.yof / 8 % 1024 * 8 + 16 ≤ DATE_MAX_OL from h)]
    cases ckI32 (d.yof / 8192 + 1) with
    | panic => rfl
    | ok y => exact gen_from_yo_opt_eq y 1 (by omega)

theorem gen_pred_opt_eq (d : Date) (hd : -2147483648 ≤ d.yof ∧ d.yof ≤ 2147483647)
    (hol : d.yof / 8 % 1024 ≤ 732) :
    Gen.naive_date.NaiveDate.pred_opt d.yof = rmap (Option.map Date.yof) d.pred_opt := by
  unfold Gen.naive_date.NaiveDate.pred_opt Date.pred_opt Gen.naive_date.NaiveDate.year
    Gen.naive_date.NaiveDate.yof Date.year Date.ordinal
  rw [ckI32_ok (by omega), bind_ok]
  simp only []
  by_cases h : d.yof / 16 % 512 * 16 - 16 > 0
  · rw [if_pos h, if_pos h,
      lorI_field_4_9 _ _ (by omega) (by omega) (by omega) (by omega) (by omega),
      gen_from_yof_eq _ (by omega)]
    cases Date.from_yof (d.yof - d.yof / 16 % 512 * 16 + (d.yof / 16 % 512 * 16 - 16)) <;> rfl
  · rw [if_neg h, if_neg h]
    cases ckI32 (d.yof / 8192 - 1) with
    | panic => rfl
    | ok y => exact gen_from_ymd_opt_eq y 12 31 (by omega) (by omega)
theorem gen_num_days_from_ce_eq (d : Date) (hd : -2147483648 ≤ d.yof ∧ d.yof ≤ 2147483647) :
    Gen.naive_date.NaiveDate.num_days_from_ce d.yof = d.num_days_from_ce := by
  unfold Gen.naive_date.NaiveDate.num_days_from_ce Date.num_days_from_ce
  rw [gen_ordinal_eq, gen_year_eq]
  have ho : 0 ≤ d.ordinal ∧ d.ordinal ≤ 511 := by unfold Date.ordinal; omega
  have hy : -262144 ≤ d.year ∧ d.year ≤ 262143 := by unfold Date.year; omega
  rw [Proofs.asI32_id (by omega) (by omega)]
  generalize d.ordinal = o at ho
  generalize d.year = y at hy
  rw [ckI32_ok (show -2147483648 ≤ y - 1 ∧ y - 1 ≤ 2147483647 by omega)]
  simp only [bind_ok, Res.bind_ok]
  by_cases hneg : y - 1 < 0
  · rw [if_pos hneg, if_pos hneg]
    have e1 : Int.tdiv (-(y - 1)) 400 = (-(y - 1)) / 400 := by rw [Proofs.tdiv_eq]; omega
    rw [ckI32_ok (show -2147483648 ≤ -(y - 1) ∧ -(y - 1) ≤ 2147483647 by omega), bind_ok, e1]
    simp only [bind_assoc_res, Res.pure_eq, Res.bind_ok]
    rfl
  · rw [if_neg hneg, if_neg hneg]
    simp only [Res.pure_eq, Res.bind_ok]
    rfl

/-- the `Datelike::num_days_from_ce` default method, read at `Self = NaiveDate`, is the same code -/
theorem gen_datelike_num_days_from_ce_eq (d : Date) (hd : -2147483648 ≤ d.yof ∧ d.yof ≤ 2147483647) :
    Gen.traits.NaiveDate.Datelike.num_days_from_ce d.yof = d.num_days_from_ce :=
  gen_num_days_from_ce_eq d hd
theorem gen_isoweek_from_yof_eq (year : Int) (ordinal flags : Nat)
    (hy : -2097151 ≤ year ∧ year ≤ 2097150) (ho : ordinal ≤ 4294967000) (hf : flags < 16) :
    Gen.naive_isoweek.IsoWeek.from_yof year ordinal flags = IsoWeek.from_yof year ordinal flags := by
  unfold Gen.naive_isoweek.IsoWeek.from_yof IsoWeek.from_yof
  have hdl : YearFlags.isoweek_delta flags ≤ 9 := by unfold YearFlags.isoweek_delta; simp only []; split <;> omega
  have hnw := nisoweeks_range flags hf
  rw [gen_isoweek_delta_eq flags (by omega), bind_ok,
    ckU32_ok (show (0 : Int) ≤ ordinal + (YearFlags.isoweek_delta flags : Nat) ∧
      (ordinal : Int) + (YearFlags.isoweek_delta flags : Nat) ≤ 4294967295 by omega), bind_ok]
  simp only []
  by_cases h1 : (ordinal + YearFlags.isoweek_delta flags) / 7 < 1
  · rw [if_pos (show ((ordinal : Int) + (YearFlags.isoweek_delta flags : Nat)) / 7 < 1 by omega), if_pos h1,
      ckI32_ok (show -2147483648 ≤ year - 1 ∧ year - 1 ≤ 2147483647 by omega)]
    simp only [bind_ok]
    have hF := from_year_lt (year - 1)
    have hnw2 := nisoweeks_range _ hF
    rw [gen_from_year_eq, bind_ok, gen_nisoweeks_eq _ (by omega), bind_ok]
    simp only [bind_ok]
    exact congrArg Res.ok (ywf_pack (year - 1) _ _ (by omega) (by omega) hF)
  · rw [if_neg (show ¬ ((ordinal : Int) + (YearFlags.isoweek_delta flags : Nat)) / 7 < 1 by omega), if_neg h1,
      gen_nisoweeks_eq _ (by omega), bind_ok]
    by_cases h2 : (ordinal + YearFlags.isoweek_delta flags) / 7 > YearFlags.nisoweeks flags
    · rw [if_pos (show ((ordinal : Int) + (YearFlags.isoweek_delta flags : Nat)) / 7 >
          (YearFlags.nisoweeks flags : Nat) by omega), if_pos h2,
        ckI32_ok (show -2147483648 ≤ year + 1 ∧ year + 1 ≤ 2147483647 by omega)]
      simp only [bind_ok]
      have hF := from_year_lt (year + 1)
      rw [gen_from_year_eq, bind_ok]
      exact congrArg Res.ok (ywf_pack (year + 1) 1 _ (by omega) (by omega) hF)
    · rw [if_neg (show ¬ ((ordinal : Int) + (YearFlags.isoweek_delta flags : Nat)) / 7 >
          (YearFlags.nisoweeks flags : Nat) by omega), if_neg h2]
      have hF := from_year_lt year
      rw [gen_from_year_eq, bind_ok]
      have := ywf_pack year ((ordinal + YearFlags.isoweek_delta flags) / 7) _ (by omega) (by omega) hF
      simp only []
      rw [show ((ordinal : Int) + (YearFlags.isoweek_delta flags : Nat)) / 7 =
        (((ordinal + YearFlags.isoweek_delta flags) / 7 : Nat) : Int) by omega, this]
theorem gen_add_days_eq (d : Date) (days : Int) (hd : -2147483648 ≤ d.yof ∧ d.yof ≤ 2147483647)
    (hdays : -2147483648 ≤ days ∧ days ≤ 2147483647) (ho : 1 ≤ d.ordinal) :
    Gen.naive_date.NaiveDate.add_days d.yof days = rmap (Option.map Date.yof) (d.add_days days) := by
  unfold Gen.naive_date.NaiveDate.add_days Date.add_days
  simp only [gen_ordinal_eq, gen_year_eq, gen_leap_year_eq, gen_yof_eq]
  have hord : d.yof / 16 % 512 * 16 / 16 = d.ordinal := by unfold Date.ordinal; omega
  have hyaf : d.yof - d.yof / 16 % 512 * 16 = d.yof - d.ordinal * 16 := by unfold Date.ordinal; omega
  rw [hord, hyaf]
  have ho2 : d.ordinal ≤ 511 := by unfold Date.ordinal; omega
  have hy : -262144 ≤ d.year ∧ d.year ≤ 262143 := by unfold Date.year; omega
  -- the slow path: rewrite its closed parts in both copies at once
  have hcyc := gen_yo_to_cycle_eq (d.year % 400).toNat d.ordinal.toNat (by omega) (by omega) (by omega)
  rw [show (((d.year % 400).toNat : Nat) : Int) = d.year % 400 by omega,
    show ((d.ordinal.toNat : Nat) : Int) = d.ordinal by omega] at hcyc
  have hcb : Date.yo_to_cycle (d.year % 400).toNat d.ordinal.toNat ≤ 146608 := by
    unfold Date.yo_to_cycle
    have := tbl_yd.2.2 (d.year % 400).toNat (by omega)
    omega
  simp only [gen_div_mod_floor_eq d.year 400 (by omega) (by omega), bind_ok,
    Proofs.asU32_id (show 0 ≤ d.year % 400 by omega) (show d.year % 400 < 4294967296 by omega), hcyc,
    Proofs.asI32_id (show (-2147483648 : Int) ≤ (Date.yo_to_cycle (d.year % 400).toNat d.ordinal.toNat : Nat) by omega)
      (show ((Date.yo_to_cycle (d.year % 400).toNat d.ordinal.toNat : Nat) : Int) ≤ 2147483647 by omega)]
  generalize ((Date.yo_to_cycle (d.year % 400).toNat d.ordinal.toNat : Nat) : Int) = c0
  -- the part of the slow path after `checked_add(days)`
  have inner : ∀ cycle : Int, -2147483648 ≤ cycle ∧ cycle ≤ 2147483647 →
      ((Gen.naive_date.div_mod_floor cycle 146097).bind fun r11 =>
        (ckI32 (d.year / 400 + r11.fst)).bind fun year_div_400 =>
          (Gen.naive_date.cycle_to_yo (asU32 r11.snd)).bind fun r12 =>
            (Gen.naive_internals.YearFlags.from_year_mod_400 (asI32 r12.fst)).bind fun flags =>
              (ckI32 (year_div_400 * 400)).bind fun r13 =>
                (ckI32 (r13 + asI32 r12.fst)).bind fun r14 =>
                  Gen.naive_date.NaiveDate.from_ordinal_and_flags r14 r12.snd flags) =
      rmap (Option.map Date.yof)
        (match ckI32 (d.year / 400 + cycle / 146097) with
          | Res.panic => Res.panic
          | Res.ok yd =>
            match ckI32 (yd * 400) with
            | Res.panic => Res.panic
            | Res.ok y4 =>
              match ckI32 (y4 + ↑(Date.cycle_to_yo (cycle % 146097).toNat).fst) with
              | Res.panic => Res.panic
              | Res.ok y =>
                Date.from_ordinal_and_flags y (Date.cycle_to_yo (cycle % 146097).toNat).snd
                  (YearFlags.from_year_mod_400 ↑(Date.cycle_to_yo (cycle % 146097).toNat).fst)) := by
    intro cycle hc
    have hlt : (cycle % 146097).toNat < 146097 := by omega
    have hr := cycle_to_yo_range _ hlt
    rw [gen_div_mod_floor_eq cycle 146097 (by omega) hc, bind_ok]
    simp only []
    cases ckI32 (d.year / 400 + cycle / 146097) with
    | panic => rfl
    | ok yd =>
      rw [bind_ok, Proofs.asU32_id (by omega) (by omega),
        show cycle % 146097 = (((cycle % 146097).toNat : Nat) : Int) by omega,
        gen_cycle_to_yo_eq _ hlt, bind_ok, Int.toNat_natCast]
      generalize Date.cycle_to_yo (cycle % 146097).toNat = p at hr
      obtain ⟨ym, ord⟩ := p
      simp only [] at hr ⊢
      rw [Proofs.asI32_id (by omega) (by omega), gen_from_year_mod_400_eq _ (by omega), bind_ok]
      cases ckI32 (yd * 400) with
      | panic => rfl
      | ok y4 =>
        rw [bind_ok]
        dsimp only
        cases ckI32 (y4 + ↑ym) with
        | panic => rfl
        | ok y => exact gen_from_ordinal_and_flags_eq y ord _ (by omega)
  have slow : ∀ (G : Int → Res (Option Int)) (Mo : Int → Res (Option Date)),
      (∀ cycle : Int, -2147483648 ≤ cycle ∧ cycle ≤ 2147483647 → G cycle = rmap (Option.map Date.yof) (Mo cycle)) →
      (match optI32 (c0 + days) with | some cycle => G cycle | none => Res.ok none) =
        rmap (Option.map Date.yof) (match optI32 (c0 + days) with | none => Res.ok none | some cycle => Mo cycle) := by
    intro G Mo hGM
    rw [optI32_def]
    by_cases hr : -2147483648 ≤ c0 + days ∧ c0 + days ≤ 2147483647
    · rw [if_pos hr]; exact hGM _ hr
    · rw [if_neg hr]; rfl
  have hLb : (if d.leap_year = true then (1 : Int) else 0) = 1 - d.yof / 8 % 2 := by
    unfold Date.leap_year
    by_cases h : d.yof / 8 % 2 = 0
    · simp [h]
    · have : d.yof / 8 % 2 = 1 := by omega
      simp [this]
  rw [hLb]
  rw [optI32_def (d.ordinal + days)]
  by_cases hA : -2147483648 ≤ d.ordinal + days ∧ d.ordinal + days ≤ 2147483647
  · rw [if_pos hA]
    dsimp only
    rw [ckI32_ok (show -2147483648 ≤ 365 + (1 - d.yof / 8 % 2) ∧ 365 + (1 - d.yof / 8 % 2) ≤ 2147483647 by omega)]
    by_cases hf : d.ordinal + days > 0 ∧ d.ordinal + days ≤ 365 + (1 - d.yof / 8 % 2)
    · rw [if_pos hf.1, if_pos hf]
      dsimp only [bind_ok]
      rw [if_pos (show decide (d.ordinal + days ≤ 365 + (1 - d.yof / 8 % 2)) = true from decide_eq_true hf.2),
        Proofs.asI32_id (by omega) (by omega),
        lorI_field_4_9 _ _ (by unfold Date.ordinal; omega) (by omega) (by unfold Date.ordinal; omega) (by omega)
          (by omega),
        gen_from_yof_eq _ (by unfold Date.ordinal at *; omega)]
      cases Date.from_yof (d.yof - d.ordinal * 16 + (d.ordinal + days) * 16) <;> rfl
    · rw [if_neg hf]
      dsimp only
      by_cases hp : d.ordinal + days > 0
      · rw [if_pos hp]
        dsimp only [bind_ok]
        rw [if_neg (show ¬ decide (d.ordinal + days ≤ 365 + (1 - d.yof / 8 % 2)) = true by
          simp only [decide_eq_true_eq]; omega)]
        exact slow _ _ inner
      · rw [if_neg hp]
        dsimp only [bind_ok]
        rw [if_neg (by decide)]
        exact slow _ _ inner
  · rw [if_neg hA]
    dsimp only
    exact slow _ _ inner
theorem gen_with_mdf_eq (d : Date) (mdf : Nat) (hd : -2147483648 ≤ d.yof ∧ d.yof ≤ 2147483647)
    (hm : mdf ≤ 4294967295) :
    Gen.naive_date.NaiveDate.with_mdf d.yof mdf = rmap (Option.map Date.yof) (d.with_mdf mdf) := by
  unfold Gen.naive_date.NaiveDate.with_mdf Date.with_mdf
  rw [gen_year_flags_eq, gen_mdf_year_flags_eq, gen_mdf_ordinal_eq mdf hm, gen_yof_eq]
  by_cases hfl : d.year_flags = Mdf.year_flags mdf
  · rw [if_neg (show ¬ ¬ ((d.year_flags : Nat) : Int) = (Mdf.year_flags mdf : Nat) by omega),
      if_neg (show ¬ (d.year_flags ≠ Mdf.year_flags mdf) from fun hn => hn hfl)]
    cases hq : Mdf.ordinal mdf with
    | panic => rfl
    | ok o =>
      cases o with
      | none => rfl
      | some ord =>
        have hr := mdf_ordinal_range mdf ord hq
        have hb : d.yof / 8 % 2 = (mdf / 8 % 2 : Nat) := by
          unfold Date.year_flags Date.flags Mdf.year_flags at hfl; omega
        show Res.bind (Gen.naive_date.NaiveDate.from_yof (GenRt.lorI 32 asI32 (d.yof - d.yof / 16 % 512 * 16)
          (asI32 ((ord : Int) * 16 % 4294967296)))) (fun r2 => Res.ok (some r2)) = rmap (Option.map Date.yof)
            (match Date.from_yof (d.yof - d.ordinal * 16 + (ord : Int) * 16) with
              | .ok r => .ok (some r) | .panic => .panic)
        rw [show (ord : Int) * 16 % 4294967296 = ord * 16 by omega, Proofs.asI32_id (by omega) (by omega),
          lorI_field_4_9 _ _ (by omega) (by omega) (by omega) (by omega) (by omega),
          show d.yof / 16 % 512 = d.ordinal from rfl,
          gen_from_yof_eq _ (by unfold Date.ordinal; omega)]
        cases Date.from_yof (d.yof - d.ordinal * 16 + ↑ord * 16) <;> rfl
  · rw [if_pos (show ¬ ((d.year_flags : Nat) : Int) = (Mdf.year_flags mdf : Nat) by omega),
      if_pos (show d.year_flags ≠ Mdf.year_flags mdf from hfl)]; rfl
theorem gen_diff_months_eq (d : Date) (months : Int) (hd : -2147483648 ≤ d.yof ∧ d.yof ≤ 2147483647) :
    Gen.naive_date.NaiveDate.diff_months d.yof months = rmap (Option.map Date.yof) (d.diff_months months) := by
  unfold Gen.naive_date.NaiveDate.diff_months Date.diff_months
  rw [gen_year_eq, gen_month_eq, gen_day_eq]
  have hy : -262144 ≤ d.year ∧ d.year ≤ 262143 := by unfold Date.year; omega
  rw [ckI32_ok (show -2147483648 ≤ d.year * 12 ∧ d.year * 12 ≤ 2147483647 by omega), bind_ok,
    show d.year * DM_MUL = d.year * 12 from rfl,
    ckI32_ok (show -2147483648 ≤ d.year * 12 ∧ d.year * 12 ≤ 2147483647 by omega)]
  have hmd : d.month = .panic ↔ d.day = .panic := by
    unfold Date.month Date.day; cases d.mdf <;> simp
  cases hm : d.month with
  | panic =>
    have := hmd.mp hm
    rw [this]; rfl
  | ok m =>
    cases hdy : d.day with
    | panic => have := hmd.mpr hdy; rw [hm] at this; cases this
    | ok day =>
      dsimp only [bind_ok]
      have hr := month_day_range d m day hm hdy
      rw [show Int.ofNat m = (m : Int) from rfl, Proofs.asI32_id (by omega) (by omega)]
      cases ckI32 (d.year * 12 + ↑m) with
      | panic => rfl
      | ok b =>
        dsimp only [bind_ok]
        rw [show b - DM_SUB = b - 1 from rfl]
        cases ckI32 (b - 1) with
        | panic => rfl
        | ok c =>
          dsimp only [bind_ok]
          rw [optI32_def]
          by_cases ht : -2147483648 ≤ c + months ∧ c + months ≤ 2147483647
          · rw [if_pos ht]
            dsimp only
            generalize c + months = t at ht
            have hF := from_year_lt (t / 12)
            rw [Proofs.asU32_id (by omega) (by omega), ckU32_ok (by omega), bind_ok, gen_from_year_eq, bind_ok,
              gen_ndays_eq _ (by omega), bind_ok, ckU32_ok (by omega), bind_ok]
            simp only [show t / DM_DIV = t / 12 from rfl]
            generalize YearFlags.ndays (YearFlags.from_year (t / 12)) = N
            have hk : (t % 12).toNat < 12 := by omega
            have hidx : (t % DM_REM).toNat + DM_ADD - 1 = (t % 12).toNat := by
              show (t % 12).toNat + 1 - 1 = (t % 12).toNat; omega
            have hmon : (t % DM_REM).toNat + DM_ADD = (t % 12).toNat + 1 := rfl
            rw [show t % 12 + 1 - 1 = (((t % 12).toNat : Nat) : Int) by omega, days_idx _ N hk, bind_ok, hidx, hmon,
              if_pos (show (t % 12).toNat < DM_DAYS.length from hk),
              show t % 12 + 1 = (((t % 12).toNat + 1 : Nat) : Int) by omega]
            generalize (if (t % 12).toNat = DM_FEB_INDEX then (if N = DM_NDAYS_LEAP then DM_FEB_LEAP else DM_FEB_COMMON)
              else DM_DAYS.getD (t % 12).toNat 0) = dm
            by_cases hgt : day > dm
            · rw [if_pos (show Int.ofNat day > (dm : Int) by simp only [Int.ofNat_eq_natCast]; omega), if_pos hgt]
              exact gen_from_ymd_opt_eq _ _ _ (by omega) (by omega)
            · rw [if_neg (show ¬ Int.ofNat day > (dm : Int) by simp only [Int.ofNat_eq_natCast]; omega), if_neg hgt]
              exact gen_from_ymd_opt_eq _ _ _ (by omega) (by omega)
          · rw [if_neg ht]; rfl

/-- the hypotheses are met by real dates: 1970-01-01 (`yof = 1970·8192 + 1·16 + 0o12`) and 2024-12-31 -/
example : Gen.naive_date.NaiveDate.from_ymd_opt 1970 1 1 = .ok (some 16138266)
    ∧ Gen.naive_date.NaiveDate.add_days 16138266 (-800000) = .ok (some (-1806469))
    ∧ Gen.naive_date.NaiveDate.num_days_from_ce 16138266 = .ok 719163
    ∧ Gen.naive_isoweek.IsoWeek.from_yof 2024 366 4 = .ok 2073414
    ∧ Gen.naive_date.NaiveDate.pred_opt 16138266 = .ok (some 16135897) := by decide +kernel

end Chrono.Props.GenDate