/-
  C03 / C04 / C08, code translation tie for `NaiveDateTime` (src/naive/datetime/mod.rs) and `FixedOffset`
  (src/offset/fixed.rs): the definitions that tools/extractors/rust2lean.py regenerates from the Rust source text
  on every run equal the hand-written models (lean/Chrono/Model/DateTime.lean, ArithOps.lean, ZonedOps.lean) for
  all arguments of the machine types.  `ndtG` maps the model's `NaiveDT` to the generated structure (packed date
  word, generated `NaiveTime`); a `FixedOffset` is its only field `local_minus_utc : i32`.  Hypotheses: the date
  word is an `i32` with ordinal ≥ 1 (`DateOk`; what `add_days` relies on), for `pred_opt` additionally the
  ordinal-and-leap field is ≤ 732 (the region where the model's `from_yof` assertion is the source's, see
  `gen_from_yof_model_stricter`), the time fields are `u32`s, the `TimeDelta` fields an `i64` and an `i32`.
-/
import Chrono.Props.GenTime
import Chrono.Props.GenDateOps
import Chrono.Model.DateTime
import Chrono.Model.ArithOps
import Chrono.Model.ZonedOps

namespace Chrono.Props.GenDateTime
open Chrono Chrono.M Chrono.Extracted Chrono.Proofs.GenL Chrono.Proofs.GenTimeL

/-- the generated `NaiveDateTime` of a model value -/
abbrev ndtG (dt : NaiveDT) : Gen.naive_datetime.NaiveDateTime := ⟨dt.date.yof, tG dt.time⟩

/-- the packed date word is an `i32` whose ordinal field is not 0 -/
def DateOk (d : Date) : Prop := (-2147483648 ≤ d.yof ∧ d.yof ≤ 2147483647) ∧ 1 ≤ d.ordinal

/-! ### `FixedOffset` -/

theorem gen_east_opt_eq (secs : Int) : Gen.offset_fixed.FixedOffset.east_opt secs = Zoned.east_opt secs := rfl

theorem gen_west_opt_eq (secs : Int) (_h : -2147483648 ≤ secs ∧ secs ≤ 2147483647) :
    Gen.offset_fixed.FixedOffset.west_opt secs = .ok (Zoned.west_opt secs) := by
  unfold Gen.offset_fixed.FixedOffset.west_opt Zoned.west_opt
  split
  · rw [ckI32_ok (by omega)]; rfl
  · rfl

theorem gen_local_minus_utc_eq (off : Int) :
    Gen.offset_fixed.FixedOffset.local_minus_utc off = Zoned.local_minus_utc off := rfl

/-- `-self.local_minus_utc` cannot overflow for a valid offset (`|off| < 86400`) -/
theorem gen_utc_minus_local_eq (off : Int) (h : -2147483648 < off ∧ off ≤ 2147483647) :
    Gen.offset_fixed.FixedOffset.utc_minus_local off = .ok (Zoned.utc_minus_local off) := by
  unfold Gen.offset_fixed.FixedOffset.utc_minus_local Zoned.utc_minus_local
  rw [ckI32_ok (by omega)]

/-! ### operations that act on the date part only -/

theorem map_date_aux (r : Res (Option Date)) (g : Res (Option Int)) (t : Time)
    (h : g = rmap (Option.map Date.yof) r) :
    (Res.bind g fun r1 =>
      match r1 with
      | some r2 => Res.ok (some (Gen.naive_datetime.NaiveDateTime.mk r2 (tG t)))
      | none => Res.ok none)
    = rmap (Option.map ndtG) (r.bind fun o => .ok (o.map fun d => ⟨d, t⟩)) := by
  subst h
  cases r with
  | panic => rfl
  | ok o => cases o <;> rfl

theorem gen_checked_add_days_eq (dt : NaiveDT) (days : Int) (hd : DateOk dt.date) :
    Gen.naive_datetime.NaiveDateTime.checked_add_days (ndtG dt) days
      = rmap (Option.map ndtG) (dt.checked_add_days days) :=
  map_date_aux _ _ _ (GenDateOps.gen_checked_add_days_eq dt.date days hd.1 hd.2)

theorem gen_checked_sub_days_eq (dt : NaiveDT) (days : Int) (hd : DateOk dt.date) :
    Gen.naive_datetime.NaiveDateTime.checked_sub_days (ndtG dt) days
      = rmap (Option.map ndtG) (dt.checked_sub_days days) :=
  map_date_aux _ _ _ (GenDateOps.gen_checked_sub_days_eq dt.date days hd.1 hd.2)

theorem gen_checked_add_months_eq (dt : NaiveDT) (n : Nat) (hd : DateOk dt.date) :
    Gen.naive_datetime.NaiveDateTime.checked_add_months (ndtG dt) n
      = rmap (Option.map ndtG) (dt.checked_add_months n) :=
  map_date_aux _ _ _ (GenDateOps.gen_checked_add_months_eq dt.date n hd.1)

theorem gen_checked_sub_months_eq (dt : NaiveDT) (n : Nat) (hd : DateOk dt.date) :
    Gen.naive_datetime.NaiveDateTime.checked_sub_months (ndtG dt) n
      = rmap (Option.map ndtG) (dt.checked_sub_months n) :=
  map_date_aux _ _ _ (GenDateOps.gen_checked_sub_months_eq dt.date n hd.1)

/-! ### `TimeDelta` arithmetic -/

theorem try_seconds_fields (s : Int) (r : Delta) (h : Delta.try_seconds s = some r) : DFields r := by
  unfold Delta.try_seconds Delta.new at h
  gdfacts
  split at h
  · exact absurd h (by simp)
  · cases h; unfold DFields; dsimp only; omega

theorem date_tail_aux (r : Res (Option Date)) (g : Res (Option Int)) (t : Time)
    (h : g = rmap (Option.map Date.yof) r) :
    (Res.bind g fun r2 =>
      match r2 with
      | some date => Res.ok (some (Gen.naive_datetime.NaiveDateTime.mk date (tG t)))
      | none => Res.ok none)
    = rmap (Option.map ndtG) (r.bind fun r =>
      match r with
      | some d => .ok (some ⟨d, t⟩)
      | none => .ok none) := by
  subst h
  cases r with
  | panic => rfl
  | ok o => cases o <;> rfl

theorem gen_checked_add_signed_eq (dt : NaiveDT) (rhs : Delta) (hd : DateOk dt.date) (hr : DFields rhs) :
    Gen.naive_datetime.NaiveDateTime.checked_add_signed (ndtG dt) (dG rhs)
      = rmap (Option.map ndtG) (dt.checked_add_signed rhs) := by
  unfold Gen.naive_datetime.NaiveDateTime.checked_add_signed NaiveDT.checked_add_signed
  dsimp only
  rw [GenTime.gen_overflowing_add_signed_eq dt.time rhs hr]
  cases Time.overflowing_add_signed dt.time rhs with
  | panic => rfl
  | ok p =>
    simp only [rmap, bind_ok]
    rw [GenDelta.gen_try_seconds_eq]
    cases hts : Delta.try_seconds p.2 with
    | none => rfl
    | some rem =>
      exact date_tail_aux _ _ _
        (GenDateOps.gen_checked_add_signed_eq dt.date rem hd.1 hd.2 (try_seconds_fields _ _ hts))

theorem gen_checked_sub_signed_eq (dt : NaiveDT) (rhs : Delta) (hd : DateOk dt.date) :
    Gen.naive_datetime.NaiveDateTime.checked_sub_signed (ndtG dt) (dG rhs)
      = rmap (Option.map ndtG) (dt.checked_sub_signed rhs) := by
  unfold Gen.naive_datetime.NaiveDateTime.checked_sub_signed NaiveDT.checked_sub_signed
  dsimp only
  rw [GenTime.gen_overflowing_sub_signed_eq dt.time rhs]
  cases Time.overflowing_sub_signed dt.time rhs with
  | panic => rfl
  | ok p =>
    simp only [rmap, bind_ok]
    rw [GenDelta.gen_try_seconds_eq]
    cases hts : Delta.try_seconds p.2 with
    | none => rfl
    | some rem =>
      exact date_tail_aux _ _ _
        (GenDateOps.gen_checked_sub_signed_eq dt.date rem hd.1 hd.2 (try_seconds_fields _ _ hts))

/-! ### offsets (the day carry of the time part is −1, 0 or 1) -/

theorem opt_date_aux (r : Res (Option Date)) (g : Res (Option Int)) (t : Time)
    (h : g = rmap (Option.map Date.yof) r) :
    (Res.bind g fun r2 =>
      match r2 with
      | some r3 => Res.ok (some (Gen.naive_datetime.NaiveDateTime.mk r3 (tG t)))
      | none => Res.ok none)
    = rmap (Option.map ndtG) (r.bind fun r => .ok (r.map fun d => ⟨d, t⟩)) := by
  subst h
  cases r with
  | panic => rfl
  | ok o => cases o <;> rfl

theorem offset_tail (d : Date) (p : Time × Int) (hd : DateOk d) (hol : d.yof / 8 % 1024 ≤ 732) :
    (if p.2 = -1 then
      Res.bind (Gen.naive_date.NaiveDate.pred_opt d.yof) fun r2 =>
        match r2 with
        | some r3 => Res.ok (some (Gen.naive_datetime.NaiveDateTime.mk r3 (tG p.1)))
        | none => Res.ok none
    else if p.2 = 1 then
      Res.bind (Gen.naive_date.NaiveDate.succ_opt d.yof) fun r4 =>
        match r4 with
        | some r5 => Res.ok (some (Gen.naive_datetime.NaiveDateTime.mk r5 (tG p.1)))
        | none => Res.ok none
    else Res.ok (some (Gen.naive_datetime.NaiveDateTime.mk d.yof (tG p.1))))
    = rmap (Option.map ndtG)
      (if p.2 = -1 then (d.pred_opt).bind fun r => .ok (r.map fun d => ⟨d, p.1⟩)
       else if p.2 = 1 then (d.succ_opt).bind fun r => .ok (r.map fun d => ⟨d, p.1⟩)
       else .ok (some ⟨d, p.1⟩)) := by
  by_cases h1 : p.2 = -1
  · rw [if_pos h1, if_pos h1]
    exact opt_date_aux _ _ _ (GenDate.gen_pred_opt_eq d hd.1 hol)
  · rw [if_neg h1, if_neg h1]
    by_cases h2 : p.2 = 1
    · rw [if_pos h2, if_pos h2]
      exact opt_date_aux _ _ _ (GenDate.gen_succ_opt_eq d hd.1)
    · rw [if_neg h2, if_neg h2]; rfl

theorem gen_checked_add_offset_eq (dt : NaiveDT) (off : Int) (hd : DateOk dt.date)
    (hol : dt.date.yof / 8 % 1024 ≤ 732) :
    Gen.naive_datetime.NaiveDateTime.checked_add_offset (ndtG dt) off
      = rmap (Option.map ndtG) (dt.checked_add_offset off) := by
  unfold Gen.naive_datetime.NaiveDateTime.checked_add_offset NaiveDT.checked_add_offset
  dsimp only
  rw [GenTime.gen_overflowing_add_offset_eq dt.time off]
  cases Time.overflowing_add_offset dt.time off with
  | panic => rfl
  | ok p => exact offset_tail dt.date p hd hol

theorem gen_checked_sub_offset_eq (dt : NaiveDT) (off : Int) (hd : DateOk dt.date)
    (hol : dt.date.yof / 8 % 1024 ≤ 732) :
    Gen.naive_datetime.NaiveDateTime.checked_sub_offset (ndtG dt) off
      = rmap (Option.map ndtG) (dt.checked_sub_offset off) := by
  unfold Gen.naive_datetime.NaiveDateTime.checked_sub_offset NaiveDT.checked_sub_offset
  dsimp only
  rw [GenTime.gen_overflowing_sub_offset_eq dt.time off]
  cases Time.overflowing_sub_offset dt.time off with
  | panic => rfl
  | ok p => exact offset_tail dt.date p hd hol

/-- the constants `NaiveDate::BEFORE_MIN` / `AFTER_MAX` (initialised through the `const fn from_yof`) -/
theorem gen_before_min_eq : Gen.naive_date.NaiveDate.BEFORE_MIN = .ok Date.BEFORE_MIN.yof := by decide
theorem gen_after_max_eq : Gen.naive_date.NaiveDate.AFTER_MAX = .ok Date.AFTER_MAX.yof := by decide

theorem getD_date_aux (r : Res (Option Date)) (g : Res (Option Int)) (c : Res Int) (dflt : Date) (t : Time)
    (h : g = rmap (Option.map Date.yof) r) (hc : c = .ok dflt.yof) :
    (Res.bind g fun r2 => Res.bind c fun r3 =>
      Res.ok (Gen.naive_datetime.NaiveDateTime.mk (r2.getD r3) (tG t)))
    = rmap ndtG (r.bind fun r => .ok ⟨r.getD dflt, t⟩) := by
  subst h; subst hc
  cases r with
  | panic => rfl
  | ok o => cases o <;> rfl

theorem overflowing_offset_tail (d : Date) (p : Time × Int) (hd : DateOk d) (hol : d.yof / 8 % 1024 ≤ 732) :
    (if p.2 = -1 then
      Res.bind (Gen.naive_date.NaiveDate.pred_opt d.yof) fun r2 =>
      Res.bind (Gen.naive_date.NaiveDate.BEFORE_MIN) fun r3 =>
        Res.ok (Gen.naive_datetime.NaiveDateTime.mk (r2.getD r3) (tG p.1))
    else if p.2 = 1 then
      Res.bind (Gen.naive_date.NaiveDate.succ_opt d.yof) fun r4 =>
      Res.bind (Gen.naive_date.NaiveDate.AFTER_MAX) fun r5 =>
        Res.ok (Gen.naive_datetime.NaiveDateTime.mk (r4.getD r5) (tG p.1))
    else Res.ok (Gen.naive_datetime.NaiveDateTime.mk d.yof (tG p.1)))
    = rmap ndtG
      (if p.2 = -1 then (d.pred_opt).bind fun r => .ok ⟨r.getD Date.BEFORE_MIN, p.1⟩
       else if p.2 = 1 then (d.succ_opt).bind fun r => .ok ⟨r.getD Date.AFTER_MAX, p.1⟩
       else .ok ⟨d, p.1⟩) := by
  by_cases h1 : p.2 = -1
  · rw [if_pos h1, if_pos h1]
    exact getD_date_aux _ _ _ _ _ (GenDate.gen_pred_opt_eq d hd.1 hol) gen_before_min_eq
  · rw [if_neg h1, if_neg h1]
    by_cases h2 : p.2 = 1
    · rw [if_pos h2, if_pos h2]
      exact getD_date_aux _ _ _ _ _ (GenDate.gen_succ_opt_eq d hd.1) gen_after_max_eq
    · rw [if_neg h2, if_neg h2]; rfl

theorem gen_overflowing_add_offset_eq (dt : NaiveDT) (off : Int) (hd : DateOk dt.date)
    (hol : dt.date.yof / 8 % 1024 ≤ 732) :
    Gen.naive_datetime.NaiveDateTime.overflowing_add_offset (ndtG dt) off
      = rmap ndtG (dt.overflowing_add_offset off) := by
  unfold Gen.naive_datetime.NaiveDateTime.overflowing_add_offset NaiveDT.overflowing_add_offset
  dsimp only
  rw [GenTime.gen_overflowing_add_offset_eq dt.time off]
  cases Time.overflowing_add_offset dt.time off with
  | panic => rfl
  | ok p => exact overflowing_offset_tail dt.date p hd hol

theorem gen_overflowing_sub_offset_eq (dt : NaiveDT) (off : Int) (hd : DateOk dt.date)
    (hol : dt.date.yof / 8 % 1024 ≤ 732) :
    Gen.naive_datetime.NaiveDateTime.overflowing_sub_offset (ndtG dt) off
      = rmap ndtG (dt.overflowing_sub_offset off) := by
  unfold Gen.naive_datetime.NaiveDateTime.overflowing_sub_offset NaiveDT.overflowing_sub_offset
  dsimp only
  rw [GenTime.gen_overflowing_sub_offset_eq dt.time off]
  cases Time.overflowing_sub_offset dt.time off with
  | panic => rfl
  | ok p => exact overflowing_offset_tail dt.date p hd hol

/-! ### difference -/

theorem gen_signed_duration_since_eq (a b : NaiveDT) (ha : DateOk a.date) (hb : DateOk b.date)
    (hta : U32Fields a.time) (htb : U32Fields b.time) :
    Gen.naive_datetime.NaiveDateTime.signed_duration_since (ndtG a) (ndtG b)
      = rmap dG (a.signed_duration_since b) := by
  unfold Gen.naive_datetime.NaiveDateTime.signed_duration_since NaiveDT.signed_duration_since
  dsimp only
  rw [GenDateOps.gen_date_signed_duration_since_eq a.date b.date ha.1 hb.1 ha.2 hb.2,
    GenTime.gen_signed_duration_since_eq a.time b.time hta htb]
  cases Date.signed_duration_since a.date b.date with
  | panic => rfl
  | ok dd =>
    cases Time.signed_duration_since a.time b.time with
    | panic => rfl
    | ok td =>
      simp only [rmap, bind_ok]
      rw [GenDelta.gen_checked_add_eq]
      cases Delta.checked_add dd td with
      | panic => rfl
      | ok o => cases o <;> rfl

/-- non-trivial values: 2020-02-29 (leap day, ordinal 60, flags 0o14+…) 23:59:59.5 plus 1 s lands on 1 March;
an offset of −1 s before midnight of `NaiveDate::MIN` leaves the range by one day -/
example : Gen.naive_datetime.NaiveDateTime.checked_add_signed ⟨2020 * 8192 + 60 * 16 + 12, ⟨86399, 500000000⟩⟩ ⟨1, 0⟩
      = .ok (some ⟨2020 * 8192 + 61 * 16 + 12, ⟨0, 500000000⟩⟩)
    ∧ Gen.naive_datetime.NaiveDateTime.overflowing_sub_offset ⟨Date.MIN.yof, ⟨0, 0⟩⟩ 1
      = .ok ⟨Date.BEFORE_MIN.yof, ⟨86399, 0⟩⟩
    ∧ Gen.naive_datetime.NaiveDateTime.checked_sub_offset ⟨Date.MIN.yof, ⟨0, 0⟩⟩ 1 = .ok none := by decide +kernel

end Chrono.Props.GenDateTime
