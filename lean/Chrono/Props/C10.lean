/-
  C10 — RFC 3339 output is conformant and input acceptance is exact.
  Property statements only.  Helper lemmas: Proofs/RenderScanL.lean (decimal render/scan library) and
  Proofs/Rfc3339L.lean, on top of the proved calendar (C01), timestamps (C02), zone-aware values (C04)
  and field resolution lemmas (C14).

  Vocabulary (Spec/Rfc3339Spec.lean, independent of chrono's scanners):
    `Matches s f`   the byte string `s` is an RFC 3339 `date-time` (4DIGIT "-" 2DIGIT "-" 2DIGIT, `T`/`t`/
                    space, 2DIGIT ":" 2DIGIT ":" 2DIGIT, optional "." 1*DIGIT, then `Z`/`z` or a sign — `+`,
                    `-`, U+2212 — 2DIGIT ":" 2DIGIT) showing the fields `f`;
    `Valid f`       existing date, hour < 24, minute < 60, second ≤ 60, offset within ±23:59;
    `Denotes f v`   `v` is the well-formed zone-aware value with the offset shown whose instant is the wall
                    clock shown minus that offset (fraction digits beyond the ninth dropped, second 60 = the
                    leap-second representation after second 59);
    `wallSecs z`    the wall clock of a zone-aware value, seconds since 1970-01-01T00:00:00 local (C04);
    `WallYear0to9999 w`  the wall clock `w` lies in the calendar years 0–9999;
    `wantedFrac sf n`    (number of fraction digits, value they must show) for precision `sf` and `n` ns;
    `keptNanos sf n`     the nanoseconds that survive that precision (truncation).
  Code: `Rfc3339.parse_from_rfc3339` = `DateTime::parse_from_rfc3339`, `Rfc3339.to_rfc3339_opts` =
  `DateTime::to_rfc3339_opts`, `Rfc3339.to_rfc3339` = `DateTime::to_rfc3339` (Model/Rfc3339.lean).
-/
import Chrono.Proofs.Rfc3339WriteL
import Chrono.Extracted.Rfc3339

namespace Chrono.Props.C10
open Chrono Chrono.M Chrono.M.Rfc3339 Chrono.Spec Chrono.Spec.Rfc3339 Chrono.Proofs.Rfc3339

/-- the offset bound re-extracted from `parse_rfc3339` is ±23:59 -/
theorem offset_bound_ok : Extracted.MAX_RFC3339_OFFSET = (23 * 60 + 59) * 60 := by decide

/-- the data of the reader and writer as re-extracted from the Rust source on this run: the fraction
scale table of `scan::nanosecond` is the model's table and is `10^(9−k)` for `k` digits; the field widths
(`min`, `max` of every `scan::number` call in `parse_rfc3339`), the separator bytes (`t`, `T`, space), the
punctuation (`-`, `-`, `:`, `:`, `:`), the flags of the `timezone_offset` call (`Z` allowed, minutes
required, U+2212 allowed) and the integer literals of `write_rfc3339` (year bound 9999, century split,
leap-second threshold, the divisors 10⁶ and 10³ of the precisions) are those the model was written against -/
theorem source_data_ok :
    Extracted.RFC3339_NANO_SCALE = Scan.SCALE ∧ Extracted.RFC3339_FIXED_SCALE = Scan.SCALE ∧
    (∀ k < 10, 1 ≤ k → Extracted.RFC3339_NANO_SCALE.getD k 0 = ((10 ^ (9 - k) : Nat) : Int)) ∧
    Extracted.RFC3339_WIDTHS = [4, 4, 2, 2, 2, 2, 2, 2, 2, 2, 2, 2] ∧
    Extracted.RFC3339_SEPARATORS = [116, 84, 32] ∧ Extracted.RFC3339_CHARS = [45, 45, 58, 58, 58] ∧
    Extracted.RFC3339_TZ_FLAGS = [true, false, true] ∧
    Extracted.RFC3339_WRITE_LITS =
      [9999, 100, 100, 1000000000, 1, 1000000000, 1000000, 1000, 0, 1000000, 0, 1000000, 1000, 0, 1000] := by
  decide

/-! ### The strict reader accepts exactly the grammar with valid fields -/

/-- **reader_sound.**  Whatever `parse_from_rfc3339` accepts matches the grammar, shows valid fields,
and the value returned is the one those fields denote. -/
theorem reader_sound (s : List Nat) (v : Zoned) (h : parse_from_rfc3339 s = .ok (.ok v)) :
    ∃ f, Matches s f ∧ Valid f ∧ Denotes f v := parse_sound s v h

/-- **reader_complete.**  Every string of the grammar with valid fields is accepted (with every
documented latitude: `T`, `t` or space; `Z` or `z`; any number of fraction digits; U+2212 as minus)
and yields the denoted value. -/
theorem reader_complete (s : List Nat) (f : Fields) (hm : Matches s f) (hv : Valid f) :
    ∃ v, parse_from_rfc3339 s = .ok (.ok v) ∧ Denotes f v := parse_complete s f hm hv

/-- **reader_total_rejects.**  Every other byte string is rejected with an error (never a panic). -/
theorem reader_total_rejects (s : List Nat) (h : ¬ ∃ f, Matches s f ∧ Valid f) :
    ∃ e, parse_from_rfc3339 s = .ok (.error e) := parse_rejects s h

/-- acceptance is *exactly* grammar + validity -/
theorem reader_accepts_iff (s : List Nat) :
    (∃ v, parse_from_rfc3339 s = .ok (.ok v)) ↔ ∃ f, Matches s f ∧ Valid f := by
  constructor
  · rintro ⟨v, h⟩; obtain ⟨f, h1, h2, _⟩ := parse_sound s v h; exact ⟨f, h1, h2⟩
  · rintro ⟨f, h1, h2⟩; obtain ⟨v, h, _⟩ := parse_complete s f h1 h2; exact ⟨v, h⟩

/-- the denotation is a function: a well-formed value is determined by its offset, its instant
(whole seconds) and its nanosecond field -/
theorem denotes_unique (f : Fields) (a b : Zoned) (ha : Denotes f a) (hb : Denotes f b) : a = b := by
  obtain ⟨⟨a1, _⟩, a2, a3, a4⟩ := ha
  obtain ⟨⟨b1, _⟩, b2, b3, b4⟩ := hb
  have hu : a.utc = b.utc := Chrono.Proofs.Ts.inst_inj a.utc b.utc a1 b1 (by rw [a3, b3]) (by rw [a4, b4])
  have ho : a.off = b.off := by rw [a2, b2]
  cases a; cases b
  simp only [Zoned.mk.injEq]
  exact ⟨hu, ho⟩

/-- non-vacuity of `reader_complete` (hence of `reader_sound`, whose hypothesis is its conclusion): a
string using every latitude at once — lower-case `t`, twelve fraction digits, U+2212, second 60 —
`"2016-12-31t23:59:60.123456789999−08:00"` matches the grammar with valid fields, so it is accepted, and
the value is the leap second 2017-01-01T07:59:60.123456789Z seen at −08:00 -/
example :
    let s := [50,48,49,54,45,49,50,45,51,49,116,50,51,58,53,57,58,54,48,46,49,50,51,52,53,54,55,56,57,57,57,57,
              226,136,146,48,56,58,48,48]
    let f : Fields := ⟨2016, 12, 31, 23, 59, 60, [49,50,51,52,53,54,55,56,57,57,57,57], false, true, 8, 0⟩
    Matches s f ∧ Valid f ∧ offsetOf f = -28800 ∧ fracOf f = 1123456789 ∧
      wallSecsOf f - offsetOf f = 1483257599 ∧
      ∃ v, parse_from_rfc3339 s = .ok (.ok v) ∧ Denotes f v := by
  intro s f
  have hm : Matches s f :=
    ⟨50, 48, 49, 54, 49, 50, 51, 49, 116, 50, 51, 53, 57, 54, 48, [46,49,50,51,52,53,54,55,56,57,57,57,57],
      [226,136,146,48,56,58,48,48], by decide, by decide, by decide, by decide, by decide, by decide, by decide,
      FracText.present _ (by decide) (by decide), OffsetText.minus 48 56 48 48 (by decide), rfl,
      by decide, by decide, by decide, by decide, by decide, by decide⟩
  have hv : Valid f := by decide
  exact ⟨hm, hv, by decide, by decide, by decide, reader_complete s f hm hv⟩

/-- non-vacuity of `reader_total_rejects`: `"2015-01-20T24:00:00Z"` is in the grammar but no reading of
it has valid fields (hour 24), and the empty string is not in the grammar at all; both are rejected -/
example :
    (¬ ∃ f, Matches [50,48,49,53,45,48,49,45,50,48,84,50,52,58,48,48,58,48,48,90] f ∧ Valid f) ∧
    (¬ ∃ f, Matches [] f ∧ Valid f) ∧
    (∃ e, parse_from_rfc3339 [50,48,49,53,45,48,49,45,50,48,84,50,52,58,48,48,58,48,48,90] = .ok (.error e)) := by
  have h1 : ¬ ∃ f, Matches [50,48,49,53,45,48,49,45,50,48,84,50,52,58,48,48,58,48,48,90] f ∧ Valid f := by
    rintro ⟨f, ⟨y1, y2, y3, y4, mo1, mo2, d1, d2, sep, h1, h2, mi1, mi2, s1, s2, fr, off, _, _, _, _, _, _, _, _, _,
      heq, _, _, _, eh, _, _⟩, hv⟩
    simp only [List.cons_append, List.nil_append, List.cons.injEq] at heq
    obtain ⟨_, _, _, _, _, _, _, _, _, _, _, rfl, rfl, _⟩ := heq
    have : f.hour < 24 := hv.2.1
    rw [eh] at this
    revert this; decide
  refine ⟨h1, ?_, reader_total_rejects _ h1⟩
  rintro ⟨f, ⟨y1, y2, y3, y4, mo1, mo2, d1, d2, sep, h1, h2, mi1, mi2, s1, s2, fr, off, _, _, _, _, _, _, _, _, _,
    heq, _⟩, _⟩
  simp at heq

/-! ### The writer -/

/-- `to_rfc3339()` is `to_rfc3339_opts(AutoSi, false)` -/
theorem to_rfc3339_is_opts (z : Zoned) : to_rfc3339 z = to_rfc3339_opts z .autoSi false := rfl

/-- **writer_in_grammar.**  For every well-formed zone-aware value with a whole-minute offset whose wall
clock lies in the years 0–9999, every one of the five `SecondsFormat` options and both `use_z`
settings: rendering succeeds (no panic), and the text matches the RFC 3339 grammar with valid fields,
is pure ASCII (no U+2212) and uses the `T` separator. -/
theorem writer_in_grammar (z : Zoned) (hz : ZInv z) (hoff : z.off % 60 = 0)
    (hy : WallYear0to9999 (wallSecs z)) (sf : Format.SecondsFormat) (use_z : Bool) :
    ∃ t f, to_rfc3339_opts z sf use_z = .ok t ∧ Matches t f ∧ Valid f ∧ t.getD 10 0 = 84 ∧ ∀ c ∈ t, c < 128 := by
  obtain ⟨t, f, h1, h2, h3, _, _, _, _, _, _, _, h4, h5⟩ := writer_main z hz hoff hy sf use_z
  exact ⟨t, f, h1, h2, h3, h4, h5⟩

/-- **writer_fields_exact.**  The fields shown are the wall-clock fields: the date shown is the
calendar date of the wall-clock day (`Valid` makes it an existing date, and one date per day number —
C01 — makes it *the* date), hour/minute/second decompose the second of the day (a leap-second
representation shows the following second, i.e. `60` after second 59); the fraction has exactly the
number of digits the precision asks for and shows the sub-second nanoseconds **truncated** to it
(`wantedFrac`: `n / 10⁶`, `n / 10³`, `n`; `AutoSi` = the shortest of 0/3/6/9 digits that loses
nothing); `Z` is used iff requested and the offset is zero; the offset shown is the value's offset. -/
theorem writer_fields_exact (z : Zoned) (hz : ZInv z) (hoff : z.off % 60 = 0)
    (hy : WallYear0to9999 (wallSecs z)) (sf : Format.SecondsFormat) (use_z : Bool) :
    ∃ t f, to_rfc3339_opts z sf use_z = .ok t ∧ Matches t f ∧ Valid f ∧
      dayNum f.year f.month f.day = EPOCH_DAY + wallSecs z / 86400 ∧
      (f.hour : Int) = wallSecs z % 86400 / 3600 ∧ (f.minute : Int) = wallSecs z % 86400 / 60 % 60 ∧
      (f.second : Int) = wallSecs z % 86400 % 60 + (if z.utc.time.frac ≥ 1000000000 then 1 else 0) ∧
      (f.fracDigits.length, digitsVal f.fracDigits 0) = wantedFrac sf (z.utc.time.frac % 1000000000).toNat ∧
      (f.zulu = true ↔ (use_z = true ∧ z.off = 0)) ∧ offsetOf f = z.off := by
  obtain ⟨t, f, h1, h2, h3, h4, h5, h6, h7, h8, h9, h10, _, _⟩ := writer_main z hz hoff hy sf use_z
  exact ⟨t, f, h1, h2, h3, h4, h5, h6, h7, h8, h9, h10⟩

/-- truncation, never rounding: what the precision keeps is at most the sub-second value and misses
less than one unit of the last digit shown -/
theorem kept_is_truncation (sf : Format.SecondsFormat) (n : Nat) (hn : n < 1000000000) :
    keptNanos sf n ≤ n ∧ n < keptNanos sf n + 10 ^ (9 - (wantedFrac sf n).1) ∧
    (sf = .nanos ∨ sf = .autoSi → keptNanos sf n = n) := by
  unfold keptNanos wantedFrac
  cases sf with
  | secs => exact ⟨by simp, by norm_num; omega, by simp⟩
  | millis => exact ⟨by norm_num; omega, by norm_num; omega, by simp⟩
  | micros => exact ⟨by norm_num; omega, by norm_num; omega, by simp⟩
  | nanos => exact ⟨by norm_num, by norm_num, by simp⟩
  | autoSi =>
    by_cases h1 : n = 0
    · simp [h1]
    · by_cases h2 : n % 1000000 = 0
      · simp only [h1, h2, if_true, if_false]
        exact ⟨by norm_num; omega, by norm_num; omega, fun _ => by norm_num; omega⟩
      · by_cases h3 : n % 1000 = 0
        · simp only [h1, h2, h3, if_true, if_false]
          exact ⟨by norm_num; omega, by norm_num; omega, fun _ => by norm_num; omega⟩
        · simp only [h1, h2, h3, if_false]
          exact ⟨by norm_num, by norm_num, fun _ => by norm_num⟩

/-- **roundtrip.**  The rendering parses back (strict reader) to a well-formed value with the same
offset whose instant is the original instant with the sub-second part truncated to the requested
precision (`instNs` = nanoseconds since the epoch on the line containing the value's own leap second). -/
theorem roundtrip (z : Zoned) (hz : ZInv z) (hoff : z.off % 60 = 0) (hy : WallYear0to9999 (wallSecs z))
    (sf : Format.SecondsFormat) (use_z : Bool) :
    ∃ t v, to_rfc3339_opts z sf use_z = .ok t ∧ parse_from_rfc3339 t = .ok (.ok v) ∧ ZInv v ∧ v.off = z.off ∧
      instNs v.utc = instSecs z.utc * 1000000000 + (if z.utc.time.frac ≥ 1000000000 then 1000000000 else 0) +
        (keptNanos sf (z.utc.time.frac % 1000000000).toNat : Int) := by
  obtain ⟨t, v, h1, h2, h3, h4, h5, _⟩ := roundtrip_main z hz hoff hy sf use_z
  exact ⟨t, v, h1, h2, h3, h4, h5⟩

/-- **roundtrip_same_instant.**  With full precision (`Nanos`, `AutoSi`; in particular `to_rfc3339()`)
the rendering parses back to the same instant and the same offset — for every value in scope,
leap-second representations on any second included. -/
theorem roundtrip_same_instant (z : Zoned) (hz : ZInv z) (hoff : z.off % 60 = 0)
    (hy : WallYear0to9999 (wallSecs z)) (sf : Format.SecondsFormat) (hsf : sf = .nanos ∨ sf = .autoSi)
    (use_z : Bool) :
    ∃ t v, to_rfc3339_opts z sf use_z = .ok t ∧ parse_from_rfc3339 t = .ok (.ok v) ∧ ZInv v ∧ v.off = z.off ∧
      instNs v.utc = instNs z.utc := by
  obtain ⟨t, v, h1, h2, h3, h4, h5, _⟩ := roundtrip_main z hz hoff hy sf use_z
  refine ⟨t, v, h1, h2, h3, h4, ?_⟩
  obtain ⟨_, _, _, f1, f2⟩ := hz.1
  have hk := (kept_is_truncation sf (z.utc.time.frac % 1000000000).toNat (by omega)).2.2 hsf
  rw [h5, hk]
  unfold instNs
  split <;> omega

/-- **roundtrip_exact.**  With full precision and a value the public constructors can build (a leap
second only on second 59) the rendering parses back to exactly the original value. -/
theorem roundtrip_exact (z : Zoned) (hz : ZInv z) (hoff : z.off % 60 = 0)
    (hy : WallYear0to9999 (wallSecs z)) (hs : TStrict z.utc.time) (sf : Format.SecondsFormat)
    (hsf : sf = .nanos ∨ sf = .autoSi) (use_z : Bool) :
    ∃ t, to_rfc3339_opts z sf use_z = .ok t ∧ parse_from_rfc3339 t = .ok (.ok z) := by
  obtain ⟨t, v, h1, h2, _, _, _, h6⟩ := roundtrip_main z hz hoff hy sf use_z
  obtain ⟨_, _, _, f1, f2⟩ := hz.1
  have hk := (kept_is_truncation sf (z.utc.time.frac % 1000000000).toNat (by omega)).2.2 hsf
  exact ⟨t, h1, by rw [← h6 hk hs]; exact h2⟩

/-- non-vacuity of the writer and round-trip theorems: the leap second 2016-12-31T23:59:60.5Z seen at
+05:30 (wall clock 2017-01-01T05:29:60.5), the first and the last second of the years 0–9999 seen
through offsets that keep the wall clock inside them, all satisfy the hypotheses; the value just
outside does not -/
example :
    (let z : Zoned := ⟨⟨dateOfYo 2016 366, ⟨86399, 1500000000⟩⟩, 19800⟩
     ZInv z ∧ z.off % 60 = 0 ∧ WallYear0to9999 (wallSecs z) ∧ TStrict z.utc.time) ∧
    (let z : Zoned := ⟨⟨dateOfYo 0 1, ⟨0, 0⟩⟩, 86340⟩
     ZInv z ∧ z.off % 60 = 0 ∧ WallYear0to9999 (wallSecs z)) ∧
    (let z : Zoned := ⟨⟨dateOfYo 9999 365, ⟨86399, 999999999⟩⟩, -86340⟩
     ZInv z ∧ z.off % 60 = 0 ∧ WallYear0to9999 (wallSecs z)) ∧
    (let z : Zoned := ⟨⟨dateOfYo 9999 365, ⟨86399, 999999999⟩⟩, 60⟩
     ZInv z ∧ ¬ WallYear0to9999 (wallSecs z)) ∧
    wantedFrac .millis 999999999 = (3, 999) ∧ wantedFrac .autoSi 120000000 = (3, 120) ∧
    wantedFrac .autoSi 120001000 = (6, 120001) ∧ keptNanos .micros 999999999 = 999999000 := by
  decide +kernel

end Chrono.Props.C10
