/-
  C10 — RFC 3339 output is conformant and input acceptance is exact.
  Property statements only.  Helper lemmas: Proofs/RenderScanL.lean (decimal render/scan library) and
  Proofs/Rfc3339L.lean, on top of the proved calendar (C01), timestamps (C02), zone-aware values (C04)
  and field resolution lemmas (C14).

  Vocabulary (Spec/Rfc3339Spec.lean, independent of chrono's scanners):
    `Matches s f`   the byte string `s` is an RFC 3339 `date-time` (4DIGIT "-" 2DIGIT "-" 2DIGIT, `T`/`t`/
                    space, 2DIGIT ":" 2DIGIT ":" 2DIGIT, optional "." 1*DIGIT, then `Z`/`z` or a sign — `+`,
                    `-`, U+2212 — 2DIGIT ":" 2DIGIT) showing the fields `f`;
    `Valid f`       existing date, hour < 24, minute < 60, second ≤ 60, offset within ±23:59;
    `Denotes f v`   `v` is the well-formed zone-aware value with the offset shown whose instant is the wall
                    clock shown minus that offset (fraction digits beyond the ninth dropped, second 60 = the
                    leap-second representation after second 59).
  Code: `Rfc3339.parse_from_rfc3339` = `DateTime::parse_from_rfc3339`, `Rfc3339.to_rfc3339_opts` =
  `DateTime::to_rfc3339_opts`, `Rfc3339.to_rfc3339` = `DateTime::to_rfc3339` (Model/Rfc3339.lean).
-/
import Chrono.Proofs.Rfc3339L

namespace Chrono.Props.C10
open Chrono Chrono.M Chrono.M.Rfc3339 Chrono.Spec Chrono.Spec.Rfc3339 Chrono.Proofs.Rfc3339

/-- the offset bound re-extracted from `parse_rfc3339` is ±23:59 -/
theorem offset_bound_ok : Extracted.MAX_RFC3339_OFFSET = (23 * 60 + 59) * 60 := by decide

/-! ### The strict reader accepts exactly the grammar with valid fields -/

/-- **reader_sound.**  Whatever `parse_from_rfc3339` accepts matches the grammar, shows valid fields,
and the value returned is the one those fields denote. -/
theorem reader_sound (s : List Nat) (v : Zoned) (h : parse_from_rfc3339 s = .ok (.ok v)) :
    ∃ f, Matches s f ∧ Valid f ∧ Denotes f v := parse_sound s v h

/-- **reader_complete.**  Every string of the grammar with valid fields is accepted (with every
documented latitude: `T`, `t` or space; `Z` or `z`; any number of fraction digits; U+2212 as minus)
and yields the denoted value. -/
theorem reader_complete (s : List Nat) (f : Fields) (hm : Matches s f) (hv : Valid f) :
    ∃ v, parse_from_rfc3339 s = .ok (.ok v) ∧ Denotes f v := parse_complete s f hm hv

/-- **reader_total_rejects.**  Every other byte string is rejected with an error (never a panic). -/
theorem reader_total_rejects (s : List Nat) (h : ¬ ∃ f, Matches s f ∧ Valid f) :
    ∃ e, parse_from_rfc3339 s = .ok (.error e) := parse_rejects s h

/-- acceptance is *exactly* grammar + validity -/
theorem reader_accepts_iff (s : List Nat) :
    (∃ v, parse_from_rfc3339 s = .ok (.ok v)) ↔ ∃ f, Matches s f ∧ Valid f := by
  constructor
  · rintro ⟨v, h⟩; obtain ⟨f, h1, h2, _⟩ := parse_sound s v h; exact ⟨f, h1, h2⟩
  · rintro ⟨f, h1, h2⟩; obtain ⟨v, h, _⟩ := parse_complete s f h1 h2; exact ⟨v, h⟩

/-- the denotation is a function: a well-formed value is determined by its offset, its instant
(whole seconds) and its nanosecond field -/
theorem denotes_unique (f : Fields) (a b : Zoned) (ha : Denotes f a) (hb : Denotes f b) : a = b := by
  obtain ⟨⟨a1, _⟩, a2, a3, a4⟩ := ha
  obtain ⟨⟨b1, _⟩, b2, b3, b4⟩ := hb
  have hu : a.utc = b.utc := Chrono.Proofs.Ts.inst_inj a.utc b.utc a1 b1 (by rw [a3, b3]) (by rw [a4, b4])
  have ho : a.off = b.off := by rw [a2, b2]
  cases a; cases b
  simp only [Zoned.mk.injEq]
  exact ⟨hu, ho⟩

/-- non-vacuity of `reader_complete` (hence of `reader_sound`, whose hypothesis is its conclusion): a
string using every latitude at once — lower-case `t`, twelve fraction digits, U+2212, second 60 —
`"2016-12-31t23:59:60.123456789999−08:00"` matches the grammar with valid fields, so it is accepted, and
the value is the leap second 2017-01-01T07:59:60.123456789Z seen at −08:00 -/
example :
    let s := [50,48,49,54,45,49,50,45,51,49,116,50,51,58,53,57,58,54,48,46,49,50,51,52,53,54,55,56,57,57,57,57,
              226,136,146,48,56,58,48,48]
    let f : Fields := ⟨2016, 12, 31, 23, 59, 60, [49,50,51,52,53,54,55,56,57,57,57,57], false, true, 8, 0⟩
    Matches s f ∧ Valid f ∧ offsetOf f = -28800 ∧ fracOf f = 1123456789 ∧
      wallSecsOf f - offsetOf f = 1483257599 ∧
      ∃ v, parse_from_rfc3339 s = .ok (.ok v) ∧ Denotes f v := by
  intro s f
  have hm : Matches s f :=
    ⟨50, 48, 49, 54, 49, 50, 51, 49, 116, 50, 51, 53, 57, 54, 48, [46,49,50,51,52,53,54,55,56,57,57,57,57],
      [226,136,146,48,56,58,48,48], by decide, by decide, by decide, by decide, by decide, by decide, by decide,
      FracText.present _ (by decide) (by decide), OffsetText.minus 48 56 48 48 (by decide), rfl,
      by decide, by decide, by decide, by decide, by decide, by decide⟩
  have hv : Valid f := by decide
  exact ⟨hm, hv, by decide, by decide, by decide, reader_complete s f hm hv⟩

/-- non-vacuity of `reader_total_rejects`: `"2015-01-20T24:00:00Z"` is in the grammar but no reading of
it has valid fields (hour 24), and the empty string is not in the grammar at all; both are rejected -/
example :
    (¬ ∃ f, Matches [50,48,49,53,45,48,49,45,50,48,84,50,52,58,48,48,58,48,48,90] f ∧ Valid f) ∧
    (¬ ∃ f, Matches [] f ∧ Valid f) ∧
    (∃ e, parse_from_rfc3339 [50,48,49,53,45,48,49,45,50,48,84,50,52,58,48,48,58,48,48,90] = .ok (.error e)) := by
  have h1 : ¬ ∃ f, Matches [50,48,49,53,45,48,49,45,50,48,84,50,52,58,48,48,58,48,48,90] f ∧ Valid f := by
    rintro ⟨f, ⟨y1, y2, y3, y4, mo1, mo2, d1, d2, sep, h1, h2, mi1, mi2, s1, s2, fr, off, _, _, _, _, _, _, _, _, _,
      heq, _, _, _, eh, _, _⟩, hv⟩
    simp only [List.cons_append, List.nil_append, List.cons.injEq] at heq
    obtain ⟨_, _, _, _, _, _, _, _, _, _, _, rfl, rfl, _⟩ := heq
    have : f.hour < 24 := hv.2.1
    rw [eh] at this
    revert this; decide
  refine ⟨h1, ?_, reader_total_rejects _ h1⟩
  rintro ⟨f, ⟨y1, y2, y3, y4, mo1, mo2, d1, d2, sep, h1, h2, mi1, mi2, s1, s2, fr, off, _, _, _, _, _, _, _, _, _,
    heq, _⟩, _⟩
  simp at heq

end Chrono.Props.C10
