/-
  C10 — RFC 3339 output is conformant and input acceptance is exact.
  (stage 1: model + specification + correspondence; the property theorems follow)
-/
import Chrono.Model.Rfc3339
import Chrono.Spec.Rfc3339Spec
import Chrono.Proofs.RenderScanL

namespace Chrono.Props.C10
open Chrono Chrono.M Chrono.Spec Chrono.Spec.Rfc3339

/-- the offset bound re-extracted from `parse_rfc3339` is ±23:59 -/
theorem offset_bound_ok : Extracted.MAX_RFC3339_OFFSET = (23 * 60 + 59) * 60 := by decide

end Chrono.Props.C10
