/-
  C10 — RFC 3339 output is conformant and input acceptance is exact.
  Property statements only.  Helper lemmas: Proofs/RenderScanL.lean (decimal render/scan library) and
  Proofs/Rfc3339L.lean, on top of the proved calendar (C01), timestamps (C02), zone-aware values (C04)
  and field resolution lemmas (C14).

  Vocabulary (Spec/Rfc3339Spec.lean, independent of chrono's scanners):
    `Matches s f`   the byte string `s` is an RFC 3339 `date-time` (4DIGIT "-" 2DIGIT "-" 2DIGIT, `T`/`t`/
                    space, 2DIGIT ":" 2DIGIT ":" 2DIGIT, optional "." 1*DIGIT, then `Z`/`z` or a sign — `+`,
                    `-`, U+2212 — 2DIGIT ":" 2DIGIT) showing the fields `f`;
    `Valid f`       existing date, hour < 24, minute < 60, second ≤ 60, offset within ±23:59;
    `Denotes f v`   `v` is the well-formed zone-aware value with the offset shown whose instant is the wall
                    clock shown minus that offset (fraction digits beyond the ninth dropped, second 60 = the
                    leap-second representation after second 59);
    `wallSecs z`    the wall clock of a zone-aware value, seconds since 1970-01-01T00:00:00 local (C04);
    `WallYear0to9999 w`  the wall clock `w` lies in the calendar years 0–9999;
    `wantedFrac sf n`    (number of fraction digits, value they must show) for precision `sf` and `n` ns;
    `keptNanos sf n`     the nanoseconds that survive that precision (truncation).
    `validUtf8 s`        `s` is well-formed UTF-8, i.e. a Rust `&str` (model of `str::from_utf8`, Model/TzParse);
    `isCharBoundary s k` `s.is_char_boundary(k)`; `BoundarySuffix s r`: `r` is `s` minus a well-formed prefix
                         (Spec/Utf8Spec.lean, property C15's byte-level vocabulary);
    `truncatedTo sf z`   the value `z` with its sub-second part truncated to `sf`, leap-second flag kept;
    `parse_rfc3339T`     the strict scanner run in a writer monad that records every `&s[k..]` it evaluates
                         (Model/Rfc3339Slices.lean).
  Code: `Rfc3339.parse_from_rfc3339` = `DateTime::parse_from_rfc3339`, `Rfc3339.to_rfc3339_opts` =
  `DateTime::to_rfc3339_opts`, `Rfc3339.to_rfc3339` = `DateTime::to_rfc3339` (Model/Rfc3339.lean).
-/
import Chrono.Proofs.Rfc3339WriteL
import Chrono.Proofs.Rfc3339SignL
import Chrono.Proofs.Rfc3339UniqueL
import Chrono.Proofs.Rfc3339SlicesL
import Chrono.Proofs.Rfc3339DataL
import Chrono.Proofs.Rfc3339OffsetDataL
import Chrono.Proofs.Rfc3339ZuluL
import Chrono.Proofs.Rfc3339ExtraL
import Chrono.Proofs.Rfc3339RelaxedL
import Chrono.Extracted.Rfc3339

namespace Chrono.Props.C10
open Chrono Chrono.M Chrono.M.Rfc3339 Chrono.Spec Chrono.Spec.Rfc3339 Chrono.Proofs.Rfc3339

/-- the offset bound re-extracted from `parse_rfc3339` is ±23:59 -/
theorem offset_bound_ok : Extracted.MAX_RFC3339_OFFSET = (23 * 60 + 59) * 60 := by decide

/-- the data of the reader and writer as re-extracted from the Rust source on this run: the fraction
scale table of `scan::nanosecond` is the model's table and is `10^(9−k)` for `k` digits; the field widths
(`min`, `max` of every `scan::number` call in `parse_rfc3339`), the separator bytes (`t`, `T`, space), the
punctuation (`-`, `-`, `:`, `:`, `:`), the flags of the `timezone_offset` call (`Z` allowed, minutes
required, U+2212 allowed) and the integer literals of `write_rfc3339` (year bound 9999, century split,
leap-second threshold, the divisors 10⁶ and 10³ of the precisions) are those the model was written against -/
theorem source_data_ok :
    Extracted.RFC3339_NANO_SCALE = Scan.SCALE ∧ Extracted.RFC3339_FIXED_SCALE = Scan.SCALE ∧
    (∀ k < 10, 1 ≤ k → Extracted.RFC3339_NANO_SCALE.getD k 0 = ((10 ^ (9 - k) : Nat) : Int)) ∧
    Extracted.RFC3339_WIDTHS = [4, 4, 2, 2, 2, 2, 2, 2, 2, 2, 2, 2] ∧
    Extracted.RFC3339_SEPARATORS = [116, 84, 32] ∧ Extracted.RFC3339_CHARS = [45, 45, 58, 58, 58] ∧
    Extracted.RFC3339_TZ_FLAGS = [true, false, true] ∧
    Extracted.RFC3339_WRITE_LITS =
      [9999, 100, 100, 1000000000, 1, 1000000000, 1000000, 1000, 0, 1000000, 0, 1000000, 1000, 0, 1000] := by
  decide

/-- **source_data_tied_to_model.**  The re-extracted data are the MODEL's own literals (not a second
copy of them, as in `source_data_ok`): the body of the reader model with the `(min, max)` of its six
`scan::number` calls, its three separator bytes, the bytes of its five `scan::char` calls and the flags
of its `timezone_offset` call replaced by the cells of the extracted lists IS `Parse.parse_rfc3339`, and
the body of the writer model with its fifteen integer literals replaced by the cells of the extracted
list IS `Format.write_rfc3339`; the lists have exactly that many cells.  (`Scan.SCALE` and
`MAX_RFC3339_OFFSET` are tied in `source_data_ok` / by the model using the extracted constant.) -/
theorem source_data_tied_to_model :
    (Extracted.RFC3339_WIDTHS.length = 12 ∧ Extracted.RFC3339_SEPARATORS.length = 3 ∧
     Extracted.RFC3339_CHARS.length = 5 ∧ Extracted.RFC3339_TZ_FLAGS.length = 3 ∧
     Proofs.Rfc3339Data.parse_rfc3339_with Extracted.RFC3339_WIDTHS Extracted.RFC3339_SEPARATORS
       Extracted.RFC3339_CHARS Extracted.RFC3339_TZ_FLAGS = Parse.parse_rfc3339) ∧
    (Extracted.RFC3339_WRITE_LITS.length = 15 ∧
     Proofs.Rfc3339Data.write_rfc3339_with Extracted.RFC3339_WRITE_LITS = Format.write_rfc3339) ∧
    Parse.MAX_RFC3339_OFFSET = Extracted.MAX_RFC3339_OFFSET :=
  ⟨Proofs.Rfc3339Data.parse_rfc3339_uses_extracted, Proofs.Rfc3339Data.write_rfc3339_uses_extracted, rfl⟩

/-- non-vacuity of `source_data_tied_to_model`: the parametrised bodies do depend on the data — with
the `AutoSi` millisecond test reading `% 100` instead of `% 1000000` the writer body prints other digits
for 17:35:20.120001 (the reader body's dependence on each cell was checked the same way outside the
kernel: `rfl` no longer proves the equality when a width, a separator, a byte or a flag is changed) -/
example :
    Proofs.Rfc3339Data.write_rfc3339_with
        [9999, 100, 100, 1000000000, 1, 1000000000, 1000000, 1000, 0, 100, 0, 1000000, 1000, 0, 1000]
        ⟨dateOfYo 2015 20, ⟨63320, 120001000⟩⟩ 0 .autoSi true ≠
      Format.write_rfc3339 ⟨dateOfYo 2015 20, ⟨63320, 120001000⟩⟩ 0 .autoSi true := by
  decide +kernel

/-- **offset_code_data_ok** (audit 2, M1).  Every integer, byte and char literal INSIDE
`scan::timezone_offset` (with its inner `digits`), `OffsetFormat::format`, `write_hundreds` and `scan::number`,
in source order, as re-extracted on this run (tools/extractors/rfc3339_offset.py), is the one the model was
written against: `Z`/`z`, `&s[1..]`, `0`; `b.len() < 2`, `b[0]`, `b[1]`; the two hour-digit classes `48..57`;
`(h1 - 48) * 10 + (h2 - 48)`; `&s[2..]`; the minute classes `48..53` × `48..57` (value) and `54..57` × `48..57`
(`OUT_OF_RANGE`); `0` for missing minutes; `len >= 2`, `&s[2..]`, `0 => s`; `hours * 3600 + minutes * 60`;
the sign characters `+`, `-`, U+2212 each as pattern and as `len_utf8` receiver.  Writer: `off == 0`, `off < 0`,
`mins = 0`, `secs = 0`, `/ 3600`, `(off + 30) / 60`, `% 60`, `/ 60`, …, `hours < 10`, `b'0' + hours`; `Z - + ␠ 0 : :`;
`n >= 100`, `b'0' + n / 10`, `b'0' + n % 10`; `0i64`, `checked_mul(10)`, `c - b'0'`. -/
theorem offset_code_data_ok :
    Extracted.RFC3339_TZ_LITS =
      [90, 122, 1, 0, 2, 0, 1, 48, 57, 48, 57, 48, 10, 48, 2, 48, 53, 48, 57, 48, 10, 48, 54, 57, 48, 57, 0, 2, 2, 0,
       3600, 60] ∧
    Extracted.RFC3339_TZ_CHARS = [[43], [43], [45], [45], [226, 136, 146], [226, 136, 146]] ∧
    Extracted.RFC3339_OFFFMT_LITS = [0, 0, 0, 0, 3600, 30, 60, 60, 60, 0, 60, 60, 60, 60, 0, 0, 10, 48] ∧
    Extracted.RFC3339_OFFFMT_CHARS = [90, 45, 43, 32, 48, 58, 58] ∧
    Extracted.RFC3339_HUNDREDS_LITS = [100, 48, 10, 48, 10] ∧
    Extracted.RFC3339_NUMBER_LITS = [0, 10, 48] := by
  decide

/-- **offset_code_data_tied** (audit 2, M1, data-extraction variant).  The sign / boundary logic of the offset
is tied to the source by data, not only at the call sites: the body of the model of `scan::timezone_offset`
with every literal replaced by a cell of the re-extracted lists (zulu bytes and slice index, the sign
characters as UTF-8 prefixes with their `len_utf8`, both hour-digit classes, the minute classes `0..=5` /
`6..=9`, the decimal weights, the three `&s[2..]` / `len >= 2` / `0`, the multipliers 3600 and 60) IS
`Scan.timezone_offset` — for every colon consumer and flag combination, not only the RFC 3339 call; the body
of the model of `OffsetFormat::format` with its 18 integer / byte literals and 7 char literals replaced IS
`Format.OffsetFormat.format` (every precision, colon mode and padding); likewise `write_hundreds` (5 cells)
and `scan::number` (3 cells).  The lists have exactly that many cells.  Not parametrised (structure of the
model, covered by `offset_code_data_ok` only): the `2`, `0`, `1` of the inner `digits`.  This is a tie of
DATA: that the control flow around the literals is the Rust one is the pins' and the differential run's job
(a code translation of these functions is the subject of tools/extractors/rust2lean.py, not of this theorem). -/
theorem offset_code_data_tied :
    (Extracted.RFC3339_TZ_LITS.length = 32 ∧ Extracted.RFC3339_TZ_CHARS.length = 6 ∧
     Proofs.Rfc3339OffsetData.timezone_offset_with Extracted.RFC3339_TZ_LITS Extracted.RFC3339_TZ_CHARS =
       Scan.timezone_offset) ∧
    (Extracted.RFC3339_OFFFMT_LITS.length = 18 ∧ Extracted.RFC3339_OFFFMT_CHARS.length = 7 ∧
     Proofs.Rfc3339OffsetData.offset_format_with Extracted.RFC3339_OFFFMT_LITS Extracted.RFC3339_OFFFMT_CHARS
       Extracted.RFC3339_HUNDREDS_LITS = Format.OffsetFormat.format) ∧
    (Extracted.RFC3339_HUNDREDS_LITS.length = 5 ∧
     Proofs.Rfc3339OffsetData.write_hundreds_with Extracted.RFC3339_HUNDREDS_LITS = Format.write_hundreds) ∧
    (Extracted.RFC3339_NUMBER_LITS.length = 3 ∧
     Proofs.Rfc3339OffsetData.number_with Extracted.RFC3339_NUMBER_LITS = Scan.number) :=
  ⟨Proofs.Rfc3339OffsetData.timezone_offset_uses_extracted, Proofs.Rfc3339OffsetData.offset_format_uses_extracted,
   Proofs.Rfc3339OffsetData.write_hundreds_uses_extracted, Proofs.Rfc3339OffsetData.number_uses_extracted⟩

/-- non-vacuity of `offset_code_data_tied`: the parametrised bodies depend on the data.  With the minute
class read as `b'0'..=b'6'` (cell 16: 53 → 54) the reader body accepts `+08:60`; with U+2212's bytes changed
it no longer takes `−08:00`; with the rounding constant `30` read as `0` the writer body prints `+05:30` for
an offset of 05:30:45 where the model (and the code) print `+05:31`; with `n >= 100` read as `n >= 60`
`write_hundreds` refuses 75; with the base `10` read as `16` the number scanner reads `12` as 18. -/
example :
    Proofs.Rfc3339OffsetData.timezone_offset_with
        [90, 122, 1, 0, 2, 0, 1, 48, 57, 48, 57, 48, 10, 48, 2, 48, 54, 48, 57, 48, 10, 48, 54, 57, 48, 57, 0, 2, 2, 0,
         3600, 60] Extracted.RFC3339_TZ_CHARS [43, 48, 56, 58, 54, 48] .charColon true false true = .ok ([], 32400) ∧
    Scan.timezone_offset [43, 48, 56, 58, 54, 48] .charColon true false true = .error .outOfRange ∧
    Proofs.Rfc3339OffsetData.timezone_offset_with Extracted.RFC3339_TZ_LITS
        [[43], [43], [45], [45], [226, 136, 147], [226, 136, 146]]
        [226, 136, 146, 48, 56, 58, 48, 48] .charColon true false true = .error .invalid ∧
    Scan.timezone_offset [226, 136, 146, 48, 56, 58, 48, 48] .charColon true false true = .ok ([], -28800) ∧
    Proofs.Rfc3339OffsetData.offset_format_with [0, 0, 0, 0, 3600, 0, 60, 60, 60, 0, 60, 60, 60, 60, 0, 0, 10, 48]
        Extracted.RFC3339_OFFFMT_CHARS Extracted.RFC3339_HUNDREDS_LITS ⟨.minutes, .colon, true, .zero⟩ 19845 =
      Format.wok [43, 48, 53, 58, 51, 48] ∧
    Format.OffsetFormat.format ⟨.minutes, .colon, true, .zero⟩ 19845 = Format.wok [43, 48, 53, 58, 51, 49] ∧
    Proofs.Rfc3339OffsetData.write_hundreds_with [60, 48, 10, 48, 10] 75 = Format.werr ∧
    Format.write_hundreds 75 = Format.wok [55, 53] := by
  decide +kernel
example :
    Proofs.Rfc3339OffsetData.number_with [0, 16, 48] [49, 50] 2 (some 2) = .ok ([], 18) ∧
    Scan.number [49, 50] 2 (some 2) = .ok ([], 12) := by
  constructor
  · simp [Proofs.Rfc3339OffsetData.number_with, Proofs.Rfc3339OffsetData.numberAux_with,
      Proofs.Rfc3339OffsetData.numberAux_with.step, Scan.isDigit, I64_MAX]
  · simp [Scan.number, Scan.numberAux, Scan.numberAux.step, Scan.isDigit, I64_MAX]

/-! ### The strict reader accepts exactly the grammar with valid fields -/

/-- **reader_sound.**  Whatever `parse_from_rfc3339` accepts matches the grammar, shows valid fields,
and the value returned is the one those fields denote. -/
theorem reader_sound (s : List Nat) (v : Zoned) (h : parse_from_rfc3339 s = .ok (.ok v)) :
    ∃ f, Matches s f ∧ Valid f ∧ Denotes f v := parse_sound s v h

/-- **reader_complete.**  Every string of the grammar with valid fields is accepted (with every
documented latitude: `T`, `t` or space; `Z` or `z`; any number of fraction digits; U+2212 as minus)
and yields the denoted value. -/
theorem reader_complete (s : List Nat) (f : Fields) (hm : Matches s f) (hv : Valid f) :
    ∃ v, parse_from_rfc3339 s = .ok (.ok v) ∧ Denotes f v := parse_complete s f hm hv

/-- **reader_total_rejects.**  Every other byte string is rejected with an error (never a panic). -/
theorem reader_total_rejects (s : List Nat) (h : ¬ ∃ f, Matches s f ∧ Valid f) :
    ∃ e, parse_from_rfc3339 s = .ok (.error e) := parse_rejects s h

/-- acceptance is *exactly* grammar + validity -/
theorem reader_accepts_iff (s : List Nat) :
    (∃ v, parse_from_rfc3339 s = .ok (.ok v)) ↔ ∃ f, Matches s f ∧ Valid f := by
  constructor
  · rintro ⟨v, h⟩; obtain ⟨f, h1, h2, _⟩ := parse_sound s v h; exact ⟨f, h1, h2⟩
  · rintro ⟨f, h1, h2⟩; obtain ⟨v, h, _⟩ := parse_complete s f h1 h2; exact ⟨v, h⟩

/-- the denotation is a function: a well-formed value is determined by its offset, its instant
(whole seconds) and its nanosecond field -/
theorem denotes_unique (f : Fields) (a b : Zoned) (ha : Denotes f a) (hb : Denotes f b) : a = b := by
  obtain ⟨⟨a1, _⟩, a2, a3, a4⟩ := ha
  obtain ⟨⟨b1, _⟩, b2, b3, b4⟩ := hb
  have hu : a.utc = b.utc := Chrono.Proofs.Ts.inst_inj a.utc b.utc a1 b1 (by rw [a3, b3]) (by rw [a4, b4])
  have ho : a.off = b.off := by rw [a2, b2]
  cases a; cases b
  simp only [Zoned.mk.injEq]
  exact ⟨hu, ho⟩

/-- **matches_unique.**  The grammar is unambiguous: a text has at most one reading, so "the fields
shown" in `reader_sound`, `reader_complete` and the writer theorems are THE fields of the text. -/
theorem matches_unique (s : List Nat) (f g : Fields) (hf : Matches s f) (hg : Matches s g) : f = g :=
  Proofs.Rfc3339U.matches_unique s f g hf hg

/-- `reader_sound` with the uniqueness made explicit: the accepted text has exactly one reading, it is
valid, and the value returned is the only value it denotes -/
theorem reader_sound_unique (s : List Nat) (v : Zoned) (h : parse_from_rfc3339 s = .ok (.ok v)) :
    ∃ f, Matches s f ∧ Valid f ∧ Denotes f v ∧ (∀ g, Matches s g → g = f) ∧ (∀ w, Denotes f w → w = v) := by
  obtain ⟨f, h1, h2, h3⟩ := parse_sound s v h
  exact ⟨f, h1, h2, h3, fun g hg => matches_unique s g f hg h1, fun w hw => denotes_unique f w v hw h3⟩

/-! ### The strict reader on arbitrary Unicode: every `&str` slice is taken at a char boundary

Rust's `&s[k..]` panics unless `k ≤ s.len()` and `s.is_char_boundary(k)`.  The byte-list models cannot
panic that way, so `reader_total_rejects`' "never a panic" needs these theorems to cover that class.
`parse_rfc3339T` (Model/Rfc3339Slices.lean) is `parse_rfc3339` run in a writer monad that records every
slice expression of `parse_rfc3339` and of `scan::{number, char, nanosecond, timezone_offset}` as (string
sliced, suffix obtained), also in runs that fail later. -/

open Chrono.M.Tz Chrono.Spec.Utf8 Chrono.M.Rfc3339Slices in
/-- **reader_consumes_whole_chars.**  For EVERY well-formed UTF-8 text (any Unicode content, accepted or
rejected) and any `Parsed` state: the recording run returns exactly what `parse_rfc3339` returns; every
slice `&src[k..]` it takes — `&s[1..]` after a matched `-`, `:`, `T`/`t`/space, `.`, `Z`/`z`; `number`'s
`&s[i..]`; `&s[len_utf8..]` after `+`, `-` or U+2212 (three bytes); `&s[2..]` after two matched digits —
is taken of a well-formed string at an index `k ≤ src.len()` with `src.is_char_boundary(k)`, yields the
recorded suffix, and that suffix is again well-formed; and on success what was consumed is a whole
number of characters and the remainder is a `&str`.  Hence no slice of the strict reader can panic. -/
theorem reader_consumes_whole_chars (p : Parsed) (s : List Nat) (hu : validUtf8 s = true) :
    (parse_rfc3339T p s).1 = Parse.parse_rfc3339 p s ∧
    (∀ e ∈ (parse_rfc3339T p s).2,
      validUtf8 e.src = true ∧ e.k ≤ e.src.length ∧ e.rest = e.src.drop e.k ∧
      isCharBoundary e.src e.k = true ∧ validUtf8 e.rest = true) ∧
    (∀ p' rest, Parse.parse_rfc3339 p s = .ok (p', rest) → BoundarySuffix s rest ∧ validUtf8 rest = true) := by
  refine ⟨Proofs.Rfc3339Slices.parse_rfc3339T_fst p s, ?_, ?_⟩
  · intro e he
    obtain ⟨hv, hb⟩ := (Proofs.Rfc3339Slices.parse_rfc3339T_good p s hu).1 e he
    obtain ⟨b1, b2, b3, b4⟩ := Proofs.Utf8.bs_boundary hv hb
    exact ⟨hv, b1, b2, b3, b4⟩
  · intro p' rest h
    have hb := Proofs.ScanBoundary.parse_rfc3339_bs p s p' rest h
    exact ⟨hb, Proofs.Utf8.bs_valid_rest hu hb⟩

open Chrono.M.Tz Chrono.Spec.Utf8 Chrono.M.Rfc3339Slices Chrono.M.Scan in
/-- **scanner_slices_whole_chars.**  The same for each scanning primitive the strict reader uses, on any
well-formed text, for every `min ≤ max`, every ASCII `c1`, every colon mode and every combination of
the three `timezone_offset` flags: same result as the model, and every slice recorded — in failing
runs too — is at a char boundary of a well-formed string. -/
theorem scanner_slices_whole_chars (s : List Nat) (hu : validUtf8 s = true) (k : Nat) (mx : Option Nat)
    (hk : ∀ m, mx = some m → k ≤ m) (c : Nat) (hc : c < 128) (cm : ColonMode) (z mm ms : Bool) :
    let good : Slice → Prop := fun e =>
      validUtf8 e.src = true ∧ e.k ≤ e.src.length ∧ e.rest = e.src.drop e.k ∧
      isCharBoundary e.src e.k = true ∧ validUtf8 e.rest = true
    ((numberT s k mx).1 = number s k mx ∧ ∀ e ∈ (numberT s k mx).2, good e) ∧
    ((charT s c).1 = Scan.char s c ∧ ∀ e ∈ (charT s c).2, good e) ∧
    ((nanosecondT s).1 = nanosecond s ∧ ∀ e ∈ (nanosecondT s).2, good e) ∧
    ((timezone_offsetT s cm z mm ms).1 = timezone_offset s cm z mm ms ∧
      ∀ e ∈ (timezone_offsetT s cm z mm ms).2, good e) := by
  intro good
  have lift : ∀ e : Slice, Proofs.Rfc3339Slices.GoodSlice e → good e := by
    intro e ⟨hv, hb⟩
    obtain ⟨b1, b2, b3, b4⟩ := Proofs.Utf8.bs_boundary hv hb
    exact ⟨hv, b1, b2, b3, b4⟩
  exact ⟨⟨Proofs.Rfc3339Slices.numberT_fst s k mx,
      fun e he => lift e ((Proofs.Rfc3339Slices.numberT_good s k mx hu hk).1 e he)⟩,
    ⟨Proofs.Rfc3339Slices.charT_fst s c, fun e he => lift e ((Proofs.Rfc3339Slices.charT_good s c hc hu).1 e he)⟩,
    ⟨Proofs.Rfc3339Slices.nanosecondT_fst s, fun e he => lift e ((Proofs.Rfc3339Slices.nanosecondT_good s hu).1 e he)⟩,
    ⟨Proofs.Rfc3339Slices.timezone_offsetT_fst s cm z mm ms,
      fun e he => lift e ((Proofs.Rfc3339Slices.timezone_offsetT_good s cm z mm ms hu).1 e he)⟩⟩

open Chrono.M.Tz Chrono.Spec.Utf8 Chrono.M.Rfc3339Slices in
/-- non-vacuity of `reader_consumes_whole_chars` / `scanner_slices_whole_chars`, multi-byte characters where
it matters.  `"2015-01-20T10:00:00.5−0é:00"` is well-formed UTF-8 (the hypothesis), so all its slices are
legal.  Its offset part `"−0é:00"`: the run of `timezone_offset` FAILS (`Invalid`: the "hour digits" are `0`
and the first byte of `é`) after having taken exactly one slice, `&s[3..]` behind the three bytes of
U+2212 — index 3 is a char boundary of that string, 1 and 2 are not — and the slice `&s[2..]` behind the
hour digits, which would split `é` (index 5 is not a boundary), is never taken because the digit test comes
first.  On `"−08:00é"` the run succeeds with slices at 3, 2, 1, 2 and leaves `é`. -/
example :
    validUtf8 [50, 48, 49, 53, 45, 48, 49, 45, 50, 48, 84, 49, 48, 58, 48, 48, 58, 48, 48, 46, 53, 226, 136, 146, 48, 195, 169, 58, 48, 48] = true ∧
    (timezone_offsetT [226, 136, 146, 48, 195, 169, 58, 48, 48] .charColon true false true).1.toOption = none ∧
    (timezone_offsetT [226, 136, 146, 48, 195, 169, 58, 48, 48] .charColon true false true).2.map
      (fun e => (e.src.length, e.k)) = [(9, 3)] ∧
    isCharBoundary [226, 136, 146, 48, 195, 169, 58, 48, 48] 3 = true ∧
    isCharBoundary [226, 136, 146, 48, 195, 169, 58, 48, 48] 1 = false ∧
    isCharBoundary [226, 136, 146, 48, 195, 169, 58, 48, 48] 2 = false ∧
    isCharBoundary [226, 136, 146, 48, 195, 169, 58, 48, 48] 5 = false ∧
    (timezone_offsetT [226, 136, 146, 48, 56, 58, 48, 48, 195, 169] .charColon true false true).1.toOption =
      some ([195, 169], -28800) ∧
    (timezone_offsetT [226, 136, 146, 48, 56, 58, 48, 48, 195, 169] .charColon true false true).2.map
      (fun e => (e.src.length, e.k)) = [(10, 3), (7, 2), (5, 1), (4, 2)] := by
  decide +kernel

/-- non-vacuity of `reader_complete` (hence of `reader_sound`, whose hypothesis is its conclusion): a
string using every latitude at once — lower-case `t`, twelve fraction digits, U+2212, second 60 —
`"2016-12-31t23:59:60.123456789999−08:00"` matches the grammar with valid fields, so it is accepted, and
the value is the leap second 2017-01-01T07:59:60.123456789Z seen at −08:00 -/
example :
    let s := [50,48,49,54,45,49,50,45,51,49,116,50,51,58,53,57,58,54,48,46,49,50,51,52,53,54,55,56,57,57,57,57,
              226,136,146,48,56,58,48,48]
    let f : Fields := ⟨2016, 12, 31, 23, 59, 60, [49,50,51,52,53,54,55,56,57,57,57,57], false, true, 8, 0⟩
    Matches s f ∧ Valid f ∧ offsetOf f = -28800 ∧ fracOf f = 1123456789 ∧
      wallSecsOf f - offsetOf f = 1483257599 ∧
      ∃ v, parse_from_rfc3339 s = .ok (.ok v) ∧ Denotes f v := by
  intro s f
  have hm : Matches s f :=
    ⟨50, 48, 49, 54, 49, 50, 51, 49, 116, 50, 51, 53, 57, 54, 48, [46,49,50,51,52,53,54,55,56,57,57,57,57],
      [226,136,146,48,56,58,48,48], by decide, by decide, by decide, by decide, by decide, by decide, by decide,
      FracText.present _ (by decide) (by decide), OffsetText.minus 48 56 48 48 (by decide), rfl,
      by decide, by decide, by decide, by decide, by decide, by decide⟩
  have hv : Valid f := by decide
  exact ⟨hm, hv, by decide, by decide, by decide, reader_complete s f hm hv⟩

/-- non-vacuity of `reader_total_rejects`: `"2015-01-20T24:00:00Z"` is in the grammar but no reading of
it has valid fields (hour 24), and the empty string is not in the grammar at all; both are rejected -/
example :
    (¬ ∃ f, Matches [50,48,49,53,45,48,49,45,50,48,84,50,52,58,48,48,58,48,48,90] f ∧ Valid f) ∧
    (¬ ∃ f, Matches [] f ∧ Valid f) ∧
    (∃ e, parse_from_rfc3339 [50,48,49,53,45,48,49,45,50,48,84,50,52,58,48,48,58,48,48,90] = .ok (.error e)) := by
  have h1 : ¬ ∃ f, Matches [50,48,49,53,45,48,49,45,50,48,84,50,52,58,48,48,58,48,48,90] f ∧ Valid f := by
    rintro ⟨f, ⟨y1, y2, y3, y4, mo1, mo2, d1, d2, sep, h1, h2, mi1, mi2, s1, s2, fr, off, _, _, _, _, _, _, _, _, _,
      heq, _, _, _, eh, _, _⟩, hv⟩
    simp only [List.cons_append, List.nil_append, List.cons.injEq] at heq
    obtain ⟨_, _, _, _, _, _, _, _, _, _, _, rfl, rfl, _⟩ := heq
    have : f.hour < 24 := hv.2.1
    rw [eh] at this
    revert this; decide
  refine ⟨h1, ?_, reader_total_rejects _ h1⟩
  rintro ⟨f, ⟨y1, y2, y3, y4, mo1, mo2, d1, d2, sep, h1, h2, mi1, mi2, s1, s2, fr, off, _, _, _, _, _, _, _, _, _,
    heq, _⟩, _⟩
  simp at heq

/-! ### The writer -/

/-- `to_rfc3339()` is `to_rfc3339_opts(AutoSi, false)`.  The two functions have separate bodies in
src/datetime/mod.rs and separate bodies in Model/Rfc3339.lean (`to_rfc3339` binds `offset` and passes the
literal `SecondsFormat::AutoSi, false`); this theorem says the bodies agree on every value. -/
theorem to_rfc3339_is_opts (z : Zoned) : to_rfc3339 z = to_rfc3339_opts z .autoSi false := rfl

/-- **secform_domain_declared** (audit 2, L2: a precondition that was undeclared).  "The five precision options"
of the property are the five constructors of the model's `SecondsFormat`, and they are the first five variants
of the Rust `enum SecondsFormat` as re-extracted on this run.  The Rust enum has a SIXTH, doc-hidden variant
`__NonExhaustive` that a caller can name; `write_rfc3339` answers it with `unreachable!()`, i.e.
`to_rfc3339_opts(SecondsFormat::__NonExhaustive, _)` PANICS (src/format/formatting.rs; confirmed on the real
crate, counted by the harness as `render:__NonExhaustive:documented-panic`).  It is outside the property's
quantifier and has no constructor in the model, so "rendering never panics" in `writer_in_grammar` and every
other writer theorem is a statement about the five public options only.  A seventh variant, a renamed or a
re-ordered one makes this theorem fail. -/
theorem secform_domain_declared :
    Extracted.RFC3339_SECFORM_VARIANTS = ["Secs", "Millis", "Micros", "Nanos", "AutoSi", "__NonExhaustive"] ∧
    (∀ sf : Format.SecondsFormat, sf = .secs ∨ sf = .millis ∨ sf = .micros ∨ sf = .nanos ∨ sf = .autoSi) :=
  ⟨by decide, fun sf => by cases sf <;> simp⟩

/-- **writer_in_grammar.**  For every well-formed zone-aware value with a whole-minute offset whose wall
clock lies in the years 0–9999, every one of the five `SecondsFormat` options and both `use_z`
settings: rendering succeeds (no panic), and the text matches the RFC 3339 grammar with valid fields,
is pure ASCII (no U+2212) and uses the `T` separator. -/
theorem writer_in_grammar (z : Zoned) (hz : ZInv z) (hoff : z.off % 60 = 0)
    (hy : WallYear0to9999 (wallSecs z)) (sf : Format.SecondsFormat) (use_z : Bool) :
    ∃ t f, to_rfc3339_opts z sf use_z = .ok t ∧ Matches t f ∧ Valid f ∧ t.getD 10 0 = 84 ∧ ∀ c ∈ t, c < 128 := by
  obtain ⟨t, f, h1, h2, h3, _, _, _, _, _, _, _, h4, h5⟩ := writer_main z hz hoff hy sf use_z
  exact ⟨t, f, h1, h2, h3, h4, h5⟩

/-- **writer_fields_exact.**  The fields shown are the wall-clock fields: the date shown is the
calendar date of the wall-clock day — `Valid` makes it an existing date, its day number is the wall-clock
day, and (last-but-one conjunct, C01's one-date-per-day-number) ANY existing date with that day number is
the (year, month, day) shown —, hour/minute/second decompose the second of the day (a leap-second
representation shows the following second, i.e. `60` after second 59); the fraction has exactly the
number of digits the precision asks for and shows the sub-second nanoseconds **truncated** to it
(`wantedFrac`: `n / 10⁶`, `n / 10³`, `n`; `AutoSi` = the shortest of 0/3/6/9 digits that loses
nothing, see `autoSi_shortest`); `Z` is used iff requested and the offset is zero; the offset shown is
the value's offset, **with its sign**: `-` exactly for a negative offset (offset zero is `+00:00`, never
RFC 3339's "unknown offset" `-00:00`), hour and minute fields those of `|off|`; and the text has no other
reading (`matches_unique`). -/
theorem writer_fields_exact (z : Zoned) (hz : ZInv z) (hoff : z.off % 60 = 0)
    (hy : WallYear0to9999 (wallSecs z)) (sf : Format.SecondsFormat) (use_z : Bool) :
    ∃ t f, to_rfc3339_opts z sf use_z = .ok t ∧ Matches t f ∧ Valid f ∧
      dayNum f.year f.month f.day = EPOCH_DAY + wallSecs z / 86400 ∧
      (f.hour : Int) = wallSecs z % 86400 / 3600 ∧ (f.minute : Int) = wallSecs z % 86400 / 60 % 60 ∧
      (f.second : Int) = wallSecs z % 86400 % 60 + (if z.utc.time.frac ≥ 1000000000 then 1 else 0) ∧
      (f.fracDigits.length, digitsVal f.fracDigits 0) = wantedFrac sf (z.utc.time.frac % 1000000000).toNat ∧
      (f.zulu = true ↔ (use_z = true ∧ z.off = 0)) ∧ offsetOf f = z.off ∧
      (f.neg = true ↔ z.off < 0) ∧ f.offH = z.off.natAbs / 3600 ∧ f.offM = z.off.natAbs / 60 % 60 ∧
      (∀ (y : Int) (m d : Nat), validYmd y m d = true → dayNum y m d = EPOCH_DAY + wallSecs z / 86400 →
        (f.year : Int) = y ∧ f.month = m ∧ f.day = d) ∧
      (∀ g, Matches t g → g = f) := by
  obtain ⟨t, f, h1, h2, h3, h4, h5, h6, h7, h8, h9, h10, _, _, h11, h12, h13⟩ :=
    writer_main_full z hz hoff hy sf use_z
  refine ⟨t, f, h1, h2, h3, h4, h5, h6, h7, h8, h9, h10, h11, h12, h13, ?_, fun g hg => matches_unique t g f hg h2⟩
  intro y m d hv hd
  obtain ⟨e1, e2, e3⟩ := Proofs.Rfc3339U.ymd_of_dayNum_unique f.year y f.month f.day m d h3.1 hv (by rw [h4, hd])
  exact ⟨e1, e2, e3⟩

/-- non-vacuity of the sign clause: a UTC value without `use_z` renders `+00:00` (here
`to_rfc3339()` of 2015-01-20T17:35:20Z = `"2015-01-20T17:35:20+00:00"`), while the reading with
`neg = true` (the text `-00:00`) has the same `offsetOf` — the sign is not implied by `offsetOf f = z.off` -/
example :
    to_rfc3339 ⟨⟨dateOfYo 2015 20, ⟨63320, 0⟩⟩, 0⟩ = .ok [50, 48, 49, 53, 45, 48, 49, 45, 50, 48, 84, 49, 55, 58, 51, 53, 58, 50, 48, 43, 48, 48, 58, 48, 48] ∧
    to_rfc3339_opts ⟨⟨dateOfYo 2015 20, ⟨63320, 0⟩⟩, -1800⟩ .secs true = .ok [50, 48, 49, 53, 45, 48, 49, 45, 50, 48, 84, 49, 55, 58, 48, 53, 58, 50, 48, 45, 48, 48, 58, 51, 48] ∧
    offsetOf ⟨2015, 1, 20, 17, 35, 20, [], false, true, 0, 0⟩ = offsetOf ⟨2015, 1, 20, 17, 35, 20, [], false, false, 0, 0⟩ := by
  decide +kernel

/-- **writer_zulu_is_upper_case** (audit 2, L3).  When `Z` is requested and the offset is zero the text ends in
the UPPER-CASE `Z` (byte 90), for every one of the five precisions.  `Matches` accepts `z` as well (the
reader's latitude), so `writer_fields_exact`'s `f.zulu = true` alone left the case open. -/
theorem writer_zulu_is_upper_case (z : Zoned) (hz : ZInv z) (hy : WallYear0to9999 (wallSecs z)) (h0 : z.off = 0)
    (sf : Format.SecondsFormat) (t : List Nat) (h : to_rfc3339_opts z sf true = .ok t) :
    t.getLast? = some 90 :=
  Proofs.Rfc3339.writer_zulu_upper z hz hy h0 sf t h

/-- non-vacuity: 2015-01-20T17:35:20Z with `Secs`, `use_z` renders `"2015-01-20T17:35:20Z"` (hypotheses of
`writer_zulu_is_upper_case` met; the last byte is 90, not 122) -/
example :
    to_rfc3339_opts ⟨⟨dateOfYo 2015 20, ⟨63320, 0⟩⟩, 0⟩ .secs true =
      .ok [50, 48, 49, 53, 45, 48, 49, 45, 50, 48, 84, 49, 55, 58, 51, 53, 58, 50, 48, 90] := by
  decide +kernel

/-- **autoSi_shortest.**  What `wantedFrac .autoSi` (a branch-for-branch copy of the code's cascade) means:
the digit count `k` is one of 0, 3, 6, 9, the value shown is `n / 10^(9−k)` and nothing is lost
(`10^(9−k)` divides `n`), and every smaller count of the four would lose something. -/
theorem autoSi_shortest (n : Nat) (hn : n < 1000000000) :
    (wantedFrac .autoSi n).1 ∈ [0, 3, 6, 9] ∧ n % 10 ^ (9 - (wantedFrac .autoSi n).1) = 0 ∧
    (wantedFrac .autoSi n).2 = n / 10 ^ (9 - (wantedFrac .autoSi n).1) ∧
    ∀ k' ∈ [0, 3, 6, 9], k' < (wantedFrac .autoSi n).1 → n % 10 ^ (9 - k') ≠ 0 :=
  Proofs.Rfc3339U.autoSi_shortest n hn

/-- truncation, never rounding: what the precision keeps is at most the sub-second value and misses
less than one unit of the last digit shown -/
theorem kept_is_truncation (sf : Format.SecondsFormat) (n : Nat) (hn : n < 1000000000) :
    keptNanos sf n ≤ n ∧ n < keptNanos sf n + 10 ^ (9 - (wantedFrac sf n).1) ∧
    (sf = .nanos ∨ sf = .autoSi → keptNanos sf n = n) := by
  unfold keptNanos wantedFrac
  cases sf with
  | secs => exact ⟨by simp, by norm_num; omega, by simp⟩
  | millis => exact ⟨by norm_num; omega, by norm_num; omega, by simp⟩
  | micros => exact ⟨by norm_num; omega, by norm_num; omega, by simp⟩
  | nanos => exact ⟨by norm_num, by norm_num, by simp⟩
  | autoSi =>
    by_cases h1 : n = 0
    · simp [h1]
    · by_cases h2 : n % 1000000 = 0
      · simp only [h1, h2, if_true, if_false]
        exact ⟨by norm_num; omega, by norm_num; omega, fun _ => by norm_num; omega⟩
      · by_cases h3 : n % 1000 = 0
        · simp only [h1, h2, h3, if_true, if_false]
          exact ⟨by norm_num; omega, by norm_num; omega, fun _ => by norm_num; omega⟩
        · simp only [h1, h2, h3, if_false]
          exact ⟨by norm_num, by norm_num, fun _ => by norm_num⟩

/-- **roundtrip.**  The rendering parses back (strict reader) to a well-formed value with the same
offset whose instant is the original instant with the sub-second part truncated to the requested
precision (`instNs` = nanoseconds since the epoch on the line containing the value's own leap second). -/
theorem roundtrip (z : Zoned) (hz : ZInv z) (hoff : z.off % 60 = 0) (hy : WallYear0to9999 (wallSecs z))
    (sf : Format.SecondsFormat) (use_z : Bool) :
    ∃ t v, to_rfc3339_opts z sf use_z = .ok t ∧ parse_from_rfc3339 t = .ok (.ok v) ∧ ZInv v ∧ v.off = z.off ∧
      instNs v.utc = instSecs z.utc * 1000000000 + (if z.utc.time.frac ≥ 1000000000 then 1000000000 else 0) +
        (keptNanos sf (z.utc.time.frac % 1000000000).toNat : Int) := by
  obtain ⟨t, v, h1, h2, h3, h4, h5, _⟩ := roundtrip_main z hz hoff hy sf use_z
  exact ⟨t, v, h1, h2, h3, h4, h5⟩

/-- **roundtrip_same_instant.**  With full precision (`Nanos`, `AutoSi`; in particular `to_rfc3339()`)
the rendering parses back to the same instant and the same offset — for every value in scope,
leap-second representations on any second included. -/
theorem roundtrip_same_instant (z : Zoned) (hz : ZInv z) (hoff : z.off % 60 = 0)
    (hy : WallYear0to9999 (wallSecs z)) (sf : Format.SecondsFormat) (hsf : sf = .nanos ∨ sf = .autoSi)
    (use_z : Bool) :
    ∃ t v, to_rfc3339_opts z sf use_z = .ok t ∧ parse_from_rfc3339 t = .ok (.ok v) ∧ ZInv v ∧ v.off = z.off ∧
      instNs v.utc = instNs z.utc := by
  obtain ⟨t, v, h1, h2, h3, h4, h5, _⟩ := roundtrip_main z hz hoff hy sf use_z
  refine ⟨t, v, h1, h2, h3, h4, ?_⟩
  obtain ⟨_, _, _, f1, f2⟩ := hz.1
  have hk := (kept_is_truncation sf (z.utc.time.frac % 1000000000).toNat (by omega)).2.2 hsf
  rw [h5, hk]
  unfold instNs
  split <;> omega

/-- **roundtrip_exact.**  With full precision and a value the public constructors can build (a leap
second only on second 59) the rendering parses back to exactly the original value. -/
theorem roundtrip_exact (z : Zoned) (hz : ZInv z) (hoff : z.off % 60 = 0)
    (hy : WallYear0to9999 (wallSecs z)) (hs : TStrict z.utc.time) (sf : Format.SecondsFormat)
    (hsf : sf = .nanos ∨ sf = .autoSi) (use_z : Bool) :
    ∃ t, to_rfc3339_opts z sf use_z = .ok t ∧ parse_from_rfc3339 t = .ok (.ok z) := by
  obtain ⟨t, v, h1, h2, _, _, _, h6⟩ := roundtrip_main z hz hoff hy sf use_z
  obtain ⟨_, _, _, f1, f2⟩ := hz.1
  have hk := (kept_is_truncation sf (z.utc.time.frac % 1000000000).toNat (by omega)).2.2 hsf
  exact ⟨t, h1, by rw [← h6 hk hs]; exact h2⟩

/-- **roundtrip_value.**  Every precision, leap seconds included, at the level of VALUES: for a value the
public constructors can build (leap second only on second 59) the rendering at any of the five
`SecondsFormat`s, with or without `Z`, parses back to exactly `truncatedTo sf z` — same date, same second,
same offset, sub-second part truncated to the precision, and a leap-second representation stays a
leap-second representation (`…:60`, `…:60.123`, … all read back as second 59 + 10⁹ ns + kept). -/
theorem roundtrip_value (z : Zoned) (hz : ZInv z) (hoff : z.off % 60 = 0) (hy : WallYear0to9999 (wallSecs z))
    (hs : TStrict z.utc.time) (sf : Format.SecondsFormat) (use_z : Bool) :
    ∃ t, to_rfc3339_opts z sf use_z = .ok t ∧ parse_from_rfc3339 t = .ok (.ok (truncatedTo sf z)) :=
  Proofs.Rfc3339X.roundtrip_value z hz hoff hy hs sf use_z

/-- the five precisions on the leap second 2016-12-31T23:59:60.123456789Z seen at +05:30: what each keeps -/
example :
    let z : Zoned := ⟨⟨dateOfYo 2016 366, ⟨86399, 1123456789⟩⟩, 19800⟩
    (ZInv z ∧ z.off % 60 = 0 ∧ WallYear0to9999 (wallSecs z) ∧ TStrict z.utc.time) ∧
    (truncatedTo .secs z).utc.time = ⟨86399, 1000000000⟩ ∧ (truncatedTo .millis z).utc.time = ⟨86399, 1123000000⟩ ∧
    (truncatedTo .micros z).utc.time = ⟨86399, 1123456000⟩ ∧ truncatedTo .nanos z = z ∧ truncatedTo .autoSi z = z := by
  decide +kernel

/-! ### The offset bound: ±23:59 -/

/-- **offset_bound_exact.**  For a text of the grammar whose date and time of day are valid, acceptance
by the strict reader is exactly: the minute field of the offset is a minute (`< 60`) and the offset, in
seconds, lies within `±MAX_RFC3339_OFFSET` = ±(23·60+59)·60 — the `hh < 24` of `Valid` is the bound of the
code.  So `+23:59`, `-23:59`, `−23:59` are the last offsets accepted; `+24:00`, `-24:00`, `+23:60` are not. -/
theorem offset_bound_exact (s : List Nat) (f : Fields) (hm : Matches s f)
    (hdt : validYmd f.year f.month f.day = true ∧ f.hour < 24 ∧ f.minute < 60 ∧ f.second ≤ 60) :
    (∃ v, parse_from_rfc3339 s = .ok (.ok v)) ↔
      (f.offM < 60 ∧ -Extracted.MAX_RFC3339_OFFSET ≤ offsetOf f ∧ offsetOf f ≤ Extracted.MAX_RFC3339_OFFSET) := by
  rw [reader_accepts_iff]
  constructor
  · rintro ⟨g, hg, hv⟩
    have e := matches_unique s g f hg hm
    subst e
    exact ⟨hv.2.2.2.2.2, (Proofs.Rfc3339X.offset_bound_iff g hv.2.2.2.2.2).mp hv.2.2.2.2.1⟩
  · rintro ⟨h1, h2⟩
    exact ⟨f, hm, hdt.1, hdt.2.1, hdt.2.2.1, hdt.2.2.2, (Proofs.Rfc3339X.offset_bound_iff f h1).mpr h2, h1⟩

/-- every offset the writer is asked about (a `FixedOffset`, `|off| < 86400`, in whole minutes) is within the
reader's bound, and the bound is attained: ±23:59 are whole-minute `FixedOffset`s -/
theorem writer_offsets_within_reader_bound (off : Int) (h : OffValid off) (hm : off % 60 = 0) :
    -Extracted.MAX_RFC3339_OFFSET ≤ off ∧ off ≤ Extracted.MAX_RFC3339_OFFSET := by
  have hmax : Extracted.MAX_RFC3339_OFFSET = 86340 := by decide
  unfold OffValid at h
  rw [hmax]; omega

/-- non-vacuity / the boundary itself: fields with offsets `+23:59`, `-23:59` are within the bound, `+24:00`,
`-24:00` and (minute 60) `+23:60` are not; ±86340 s are whole-minute `FixedOffset`s, 86400 is not a `FixedOffset` -/
example :
    (let b (neg : Bool) (h m : Nat) : Bool :=
      let f : Fields := ⟨2015, 1, 20, 17, 35, 20, [], false, neg, h, m⟩
      decide (f.offM < 60 ∧ -Extracted.MAX_RFC3339_OFFSET ≤ offsetOf f ∧ offsetOf f ≤ Extracted.MAX_RFC3339_OFFSET)
     b false 23 59 = true ∧ b true 23 59 = true ∧ b false 24 0 = false ∧ b true 24 0 = false ∧
     b false 23 60 = false ∧ b false 0 0 = true ∧ b true 0 0 = true) ∧
    (OffValid 86340 ∧ OffValid (-86340) ∧ (86340 : Int) % 60 = 0 ∧ ¬ OffValid 86400) := by
  decide +kernel

/-! ### Strict vs relaxed reader: the offset part

`FromStr for DateTime<FixedOffset>` and the `%+` *parsing* item use `parse_rfc3339_relaxed`, which scans the
offset with `timezone_offset(s.trim_start(), colon_or_space, true, false, true)`; the strict reader of this
property uses `timezone_offset(s, |s| char(s, b':'), true, false, true)`. -/

/-- **relaxed_offset_accepts_strict_partial.**  On the offset part the relaxed scanner accepts everything
the strict one accepts, with the same offset and the same remainder.  (`_partial`: only the offset part.
That the whole relaxed reader accepts every string the strict reader accepts, and a characterisation of
what it accepts beyond — white space between items, one-digit fields, signed and longer years, no colon
or several colons/spaces in the offset, `UTC` — is not proved; see audit/C10.md.) -/
theorem relaxed_offset_accepts_strict_partial (s r : List Nat) (v : Int)
    (h : Scan.timezone_offset s .charColon true false true = .ok (r, v)) :
    Scan.timezone_offset s .colonOrSpace true false true = .ok (r, v) :=
  Proofs.Rfc3339Relaxed.relaxed_offset_accepts_strict s r v h

/-- the inclusion is strict, and the hypothesis is satisfiable: `+08:00` is read by both scanners as 28800;
`+0800`, `+08 00`, `+08::00`, `+08: :00` are read as 28800 by the relaxed scanner and rejected by the strict
one; `+08` (no minutes) and `+08:60` are rejected by both -/
example :
    (Scan.timezone_offset [43, 48, 56, 58, 48, 48] .charColon true false true).toOption = some ([], 28800) ∧
    (Scan.timezone_offset [43, 48, 56, 58, 48, 48] .colonOrSpace true false true).toOption = some ([], 28800) ∧
    (∀ s ∈ [[43, 48, 56, 48, 48], [43, 48, 56, 32, 48, 48], [43, 48, 56, 58, 58, 48, 48], [43, 48, 56, 58, 32, 58, 48, 48]],
      (Scan.timezone_offset s .charColon true false true).toOption = none ∧
      (Scan.timezone_offset s .colonOrSpace true false true).toOption = some ([], 28800)) ∧
    (∀ s ∈ [[43, 48, 56], [43, 48, 56, 58, 54, 48]],
      (Scan.timezone_offset s .charColon true false true).toOption = none ∧
      (Scan.timezone_offset s .colonOrSpace true false true).toOption = none) := by
  decide

/-! ### The `%+` formatting item -/

/-- **plus_item_is_to_rfc3339.**  `dt.format("%+")` of a `DateTime<FixedOffset>` (written into a `String` and
unwrapped, as `to_string()` does) is `dt.to_rfc3339()` for EVERY value — so all writer theorems above hold
for the `%+` item; and `%+` applied to a value without an offset (`NaiveDateTime`, `NaiveDate`, `NaiveTime`)
is a formatting error (`Err(fmt::Error)`), never a text. -/
theorem plus_item_is_to_rfc3339 (z : Zoned) (dt : NaiveDT) (d : Date) (t : Time) :
    expectText (ParseFrom.format (.zoned z) [37, 43]) = to_rfc3339 z ∧
    ParseFrom.format (.naive dt) [37, 43] = Format.werr ∧ ParseFrom.format (.date d) [37, 43] = Format.werr ∧
    ParseFrom.format (.time t) [37, 43] = Format.werr :=
  ⟨Proofs.Rfc3339X.plus_format_zoned z, Proofs.Rfc3339X.plus_format_naive dt d t⟩

/-- non-vacuity of the writer and round-trip theorems: the leap second 2016-12-31T23:59:60.5Z seen at
+05:30 (wall clock 2017-01-01T05:29:60.5), the first and the last second of the years 0–9999 seen
through offsets that keep the wall clock inside them, all satisfy the hypotheses; the value just
outside does not -/
example :
    (let z : Zoned := ⟨⟨dateOfYo 2016 366, ⟨86399, 1500000000⟩⟩, 19800⟩
     ZInv z ∧ z.off % 60 = 0 ∧ WallYear0to9999 (wallSecs z) ∧ TStrict z.utc.time) ∧
    (let z : Zoned := ⟨⟨dateOfYo 0 1, ⟨0, 0⟩⟩, 86340⟩
     ZInv z ∧ z.off % 60 = 0 ∧ WallYear0to9999 (wallSecs z)) ∧
    (let z : Zoned := ⟨⟨dateOfYo 9999 365, ⟨86399, 999999999⟩⟩, -86340⟩
     ZInv z ∧ z.off % 60 = 0 ∧ WallYear0to9999 (wallSecs z)) ∧
    (let z : Zoned := ⟨⟨dateOfYo 9999 365, ⟨86399, 999999999⟩⟩, 60⟩
     ZInv z ∧ ¬ WallYear0to9999 (wallSecs z)) ∧
    wantedFrac .millis 999999999 = (3, 999) ∧ wantedFrac .autoSi 120000000 = (3, 120) ∧
    wantedFrac .autoSi 120001000 = (6, 120001) ∧ keptNanos .micros 999999999 = 999999000 := by
  decide +kernel

end Chrono.Props.C10
