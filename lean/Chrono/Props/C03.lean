/-
  C03 — Adding and subtracting elapsed time is exact or refused, never wrapped.
  Property statements only (proofs: Proofs/DateArithL.lean — day shifts on the packed date,
  Proofs/DateTimeArithL.lean — date-times as instants, Proofs/IterL.lean — iterators, operators,
  wrappers; they rest on C01's calendar lemmas, C06's duration lemmas and C07's time-of-day lemmas).

  Vocabulary (Spec/ArithSpec.lean, Spec/InstantSpec.lean, Spec/DateSpec.lean, Spec/DeltaSpec.lean):
  `dayNumOf d`   day number of a date (0001-01-01 = 1), closed form independent of chrono's tables;
  `DateInv d`    representation invariant of `NaiveDate`; `DN_MIN`, `DN_MAX` day numbers of MIN / MAX;
  `IsDayShift d k r`   "`r` is `d` moved by exactly `k` days": `r = none` iff day `dayNumOf d + k` is
                 outside `[DN_MIN, DN_MAX]`, else `r = some d'` with `DateInv d'`, `dayNumOf d' = dayNumOf d + k`;
  `instNs dt`    nanoseconds since 1970-01-01T00:00:00 of a date-time; `NonLeap dt` = not a leap-second
                 representation; `NDTInv dt` = valid date and valid time; `NS_MIN`, `NS_MAX_DT` = instants of
                 `NaiveDateTime::MIN` / `MAX`;
  `IsInstShift dt k r` "`r` is `dt` moved by exactly `k` ns": `none` iff the instant is outside
                 `[NS_MIN, NS_MAX_DT]`, else a valid non-leap date-time at exactly that instant;
  `ns δ`, `DInv δ`, `ofNs n`  C06's reading of a `TimeDelta`; `wholeDays n` = `n` ns in days, truncated
                 toward zero; `stepsFit n s` = how many steps of `s` days fit between day `n` and the range end.
  `Res` = `ok | panic`: every theorem of the form `f … = .ok …` / `∃ r, f … = .ok r ∧ …` says in
  particular that no intermediate machine operation overflows and no `expect` fires.
-/
import Chrono.Proofs.IterL
import Chrono.Extracted.ArithToks

namespace Chrono.Props.C03
open Chrono Chrono.M Chrono.Spec Chrono.Proofs Chrono.Extracted

/-! ### Tie to the source text -/

/-- the limits, units, comparisons and callees of each mirrored function body, re-extracted from
src/naive/date/mod.rs, src/naive/datetime/mod.rs and src/datetime/mod.rs on every run
(tools/extractors/arith.py), are the ones the model was written against -/
theorem tokens_ok :
    ARITH_TOKS_date_checked_add_days = ["<=", "i32::MAX", "add_days"] ∧
    ARITH_TOKS_date_checked_sub_days = ["<=", "i32::MAX", "add_days", "neg"] ∧
    ARITH_TOKS_date_add_days =
      ["8176", "4", "checked_add", ">", "0", "<=", "365", "leap_year", "from_yof", "4", "div_mod_floor",
       "400", "yo_to_cycle", "try_opt", "checked_add", "div_mod_floor", "146097", "cycle_to_yo",
       "from_year_mod_400", "from_ordinal_and_flags", "400"] ∧
    ARITH_TOKS_date_checked_add_signed = ["num_days", "<", "i32::MIN", ">", "i32::MAX", "add_days"] ∧
    ARITH_TOKS_date_checked_sub_signed = ["neg", "num_days", "<", "i32::MIN", ">", "i32::MAX", "add_days"] ∧
    ARITH_TOKS_date_signed_duration_since =
      ["div_mod_floor", "400", "div_mod_floor", "400", "yo_to_cycle", "yo_to_cycle", "146097", "expect",
       "try_days"] ∧
    ARITH_TOKS_cycle_to_yo = ["365", "365", "<", "1", "365", "1"] ∧
    ARITH_TOKS_yo_to_cycle = ["365", "1"] ∧ ARITH_TOKS_div_mod_floor = ["div_euclid", "rem_euclid"] ∧
    ARITH_TOKS_days_iter = ["succ_opt", "signed_duration_since", "num_days"] ∧
    ARITH_TOKS_days_iter_back = ["pred_opt"] ∧
    ARITH_TOKS_weeks_iter = ["checked_add_days", "7", "signed_duration_since", "num_weeks"] ∧
    ARITH_TOKS_weeks_iter_back = ["checked_sub_days", "7"] ∧
    ARITH_TOKS_date_add_delta_op = ["checked_add_signed", "expect"] ∧
    ARITH_TOKS_date_sub_delta_op = ["checked_sub_signed", "expect"] ∧
    ARITH_TOKS_date_add_days_op = ["checked_add_days", "expect"] ∧
    ARITH_TOKS_date_sub_days_op = ["checked_sub_days", "expect"] ∧
    ARITH_TOKS_ndt_checked_add_signed =
      ["overflowing_add_signed", "try_opt", "try_seconds", "try_opt", "checked_add_signed"] ∧
    ARITH_TOKS_ndt_checked_sub_signed =
      ["overflowing_sub_signed", "try_opt", "try_seconds", "try_opt", "checked_sub_signed"] ∧
    ARITH_TOKS_ndt_signed_duration_since =
      ["expect", "signed_duration_since", "checked_add", "signed_duration_since"] ∧
    ARITH_TOKS_ndt_add_delta_op = ["checked_add_signed", "expect"] ∧
    ARITH_TOKS_ndt_sub_delta_op = ["checked_sub_signed", "expect"] ∧
    ARITH_TOKS_dt_checked_add_signed = ["checked_add_signed", "from_utc_datetime"] ∧
    ARITH_TOKS_dt_checked_sub_signed = ["checked_sub_signed", "from_utc_datetime"] ∧
    ARITH_TOKS_dt_signed_duration_since = ["signed_duration_since"] ∧
    ARITH_TOKS_dt_add_delta_op = ["checked_add_signed", "expect"] ∧
    ARITH_TOKS_dt_sub_delta_op = ["checked_sub_signed", "expect"] ∧
    ARITH_TOKS_dt_add_assign_delta_op = ["checked_add_signed", "expect", "from_utc_datetime"] ∧
    ARITH_TOKS_dt_sub_assign_delta_op = ["checked_sub_signed", "expect", "from_utc_datetime"] := by
  decide

/-- the range ends, as day numbers and as instants (from the extracted `MIN_YEAR` / `MAX_YEAR`) -/
theorem range_ends :
    DateInv Date.MIN ∧ DateInv Date.MAX ∧ DN_MIN = -95746129 ∧ DN_MAX = 95745399 ∧
    NDTInv NaiveDT.MIN ∧ NDTInv NaiveDT.MAX ∧ NonLeap NaiveDT.MIN ∧ NonLeap NaiveDT.MAX ∧
    NS_MIN = (DN_MIN - EPOCH_DAY) * NS_PER_DAY ∧ NS_MAX_DT = (DN_MAX - EPOCH_DAY + 1) * NS_PER_DAY - 1 ∧
    NS_MIN = -8334601228800000000000 ∧ NS_MAX_DT = 8210266876799999999999 := by decide

/-! ### The specification determines the result -/

/-- day numbers identify dates; hence "moved by exactly `k` days or refused" has one solution -/
theorem dayShift_unique (d : Date) (k : Int) (r r' : Option Date) (h : IsDayShift d k r)
    (h' : IsDayShift d k r') : r = r' := dayShift_unique' d k r r' h h'

/-- instants identify non-leap date-times; "moved by exactly `k` ns or refused" has one solution -/
theorem instShift_unique (dt : NaiveDT) (k : Int) (r r' : Option NaiveDT) (h : IsInstShift dt k r)
    (h' : IsInstShift dt k r') : r = r' := instShift_unique' dt k r r' h h'

theorem instant_injective (a b : NaiveDT) (ha : NDTInv a) (hb : NDTInv b) (la : NonLeap a)
    (lb : NonLeap b) (h : instNs a = instNs b) : a = b := inst_inj a b ha hb la lb h

/-! ### Dates and day counts -/

/-- `add_days`, every valid date, every `i32` count: the same-year fast path and the 400-year cycle
path both give day number + n; refused exactly outside the range; never panics -/
theorem add_days_exact (d : Date) (n : Int) (hd : DateInv d) (hn : -2147483648 ≤ n ∧ n ≤ 2147483647) :
    ∃ r, Date.add_days d n = .ok r ∧ IsDayShift d n r := add_days_spec d n hd hn

/-- `checked_add_days` / `checked_sub_days`, every `u64` count (no narrowing of the count) -/
theorem checked_days_exact (d : Date) (c : Int) (hd : DateInv d) (hc : 0 ≤ c ∧ c ≤ 18446744073709551615) :
    (∃ r, Date.checked_add_days d c = .ok r ∧ IsDayShift d c r) ∧
    (∃ r, Date.checked_sub_days d c = .ok r ∧ IsDayShift d (-c) r) :=
  ⟨checked_add_days_spec d c hd hc, checked_sub_days_spec d c hd hc⟩

example : DateInv (dateOfYo 2023 365) ∧
    Date.add_days (dateOfYo 2023 365) 1 = .ok (some (dateOfYo 2024 1)) ∧          -- cycle path
    Date.add_days (dateOfYo 2024 365) 1 = .ok (some (dateOfYo 2024 366)) ∧        -- fast path, leap
    Date.add_days (dateOfYo 2023 1) (-1) = .ok (some (dateOfYo 2022 365)) ∧
    Date.add_days Date.MIN 191491528 = .ok (some Date.MAX) ∧
    Date.add_days Date.MIN 191491529 = .ok none ∧ Date.add_days Date.MAX 1 = .ok none ∧
    Date.add_days Date.MAX 2147483647 = .ok none ∧ Date.add_days Date.MIN (-2147483648) = .ok none ∧
    Date.checked_add_days Date.MIN 4294967296 = .ok none ∧                       -- 2³²: not folded to 0
    Date.checked_sub_days Date.MAX 191491528 = .ok (some Date.MIN) ∧
    Date.checked_sub_days Date.MAX 18446744073709551615 = .ok none := by decide +kernel

/-- a duration moves a date by its whole days, truncated toward zero, or is refused -/
theorem date_plus_delta (d : Date) (δ : Delta) (hd : DateInv d) (hδ : DInv δ) :
    (∃ r, Date.checked_add_signed d δ = .ok r ∧ IsDayShift d (wholeDays (ns δ)) r) ∧
    (∃ r, Date.checked_sub_signed d δ = .ok r ∧ IsDayShift d (-(wholeDays (ns δ))) r) :=
  ⟨date_add_signed_spec d δ hd hδ, date_sub_signed_spec d δ hd hδ⟩

example : DInv ⟨-86400, 1⟩ ∧ wholeDays (ns ⟨-86400, 1⟩) = 0 ∧ wholeDays (ns ⟨-86400, 0⟩) = -1 ∧
    Date.checked_add_signed (dateOfYo 2024 1) ⟨-86400, 1⟩ = .ok (some (dateOfYo 2024 1)) ∧
    Date.checked_add_signed (dateOfYo 2024 1) ⟨-86400, 0⟩ = .ok (some (dateOfYo 2023 365)) ∧
    Date.checked_sub_signed (dateOfYo 2024 1) ⟨86399, 999999999⟩ = .ok (some (dateOfYo 2024 1)) ∧
    Date.checked_add_signed Date.MIN Delta.MAX = .ok none ∧
    Date.checked_add_signed Date.MIN ⟨371085174374400, 0⟩ = .ok none := by decide +kernel   -- 2³² + 0 days

/-- the difference of two dates is the exact number of days between them (never panics); adding
it back returns the minuend; the derived order is the order of day numbers -/
theorem date_diff_exact (a b : Date) (ha : DateInv a) (hb : DateInv b) :
    Date.signed_duration_since a b = .ok (ofNs ((dayNumOf a - dayNumOf b) * NS_PER_DAY)) ∧
    DInv (ofNs ((dayNumOf a - dayNumOf b) * NS_PER_DAY)) ∧
    ns (ofNs ((dayNumOf a - dayNumOf b) * NS_PER_DAY)) = (dayNumOf a - dayNumOf b) * NS_PER_DAY ∧
    Date.checked_add_signed b (ofNs ((dayNumOf a - dayNumOf b) * NS_PER_DAY)) = .ok (some a) ∧
    Date.cmp a b = sgn (dayNumOf a - dayNumOf b) := by
  obtain ⟨h1, h2⟩ := date_diff_spec a b ha hb
  have hb1 := dn_bounds a ha
  have hb2 := dn_bounds b hb
  have hr : nsInRange ((dayNumOf a - dayNumOf b) * NS_PER_DAY) := by
    have hN : NS_PER_DAY = 86400000000000 := rfl
    rw [hN]; simp only [nsInRange, NS_MAX]; omega
  exact ⟨h1, h2, (ofNs_spec' _ hr).2, date_add_diff a b ha hb, date_cmp_spec a b ha hb⟩

example : Date.signed_duration_since Date.MAX Date.MIN = .ok ⟨16544868019200, 0⟩ ∧
    Date.signed_duration_since Date.MIN Date.MAX = .ok ⟨-16544868019200, 0⟩ ∧
    Date.signed_duration_since (dateOfYo 2024 60) (dateOfYo 2023 60) = .ok ⟨365 * 86400, 0⟩ := by
  decide +kernel

/-! ### Date-times: exact in nanoseconds or refused -/

/-- `checked_add_signed`, every valid non-leap date-time, every `TimeDelta`: the date-time exactly
`ns δ` nanoseconds later, or `None` exactly when that instant is not representable; never panics -/
theorem add_exact (dt : NaiveDT) (δ : Delta) (hdt : NDTInv dt) (hnl : NonLeap dt) (hδ : DInv δ) :
    ∃ r, NaiveDT.checked_add_signed dt δ = .ok r ∧ IsInstShift dt (ns δ) r :=
  dt_add_exact dt δ hdt hnl hδ

/-- `checked_sub_signed`: exactly `ns δ` nanoseconds earlier, or refused -/
theorem sub_exact (dt : NaiveDT) (δ : Delta) (hdt : NDTInv dt) (hnl : NonLeap dt) (hδ : DInv δ) :
    ∃ r, NaiveDT.checked_sub_signed dt δ = .ok r ∧ IsInstShift dt (-(ns δ)) r :=
  dt_sub_exact dt δ hdt hnl hδ

/-- subtraction is addition of the negated duration (also for leap-second operands) -/
theorem sub_is_add_neg (dt : NaiveDT) (δ : Delta) (hdt : NDTInv dt) (hδ : DInv δ) :
    DInv (ofNs (-(ns δ))) ∧ ns (ofNs (-(ns δ))) = -(ns δ) ∧
    NaiveDT.checked_sub_signed dt δ = NaiveDT.checked_add_signed dt (ofNs (-(ns δ))) := by
  have hr : nsInRange (-(ns δ)) := by
    have := hδ.2.2
    simp only [nsInRange, NS_MAX] at *
    omega
  exact ⟨(ofNs_spec' _ hr).1, (ofNs_spec' _ hr).2, dt_sub_is_add_neg dt δ hdt hδ⟩

/-- leap-second operands included: the time of day follows C07's extended-line rule `addLeap`, and
the date moves by exactly the whole days carried out of the time of day, or the sum is refused
(this closes C07's `datetime_leap_carry_partial` with the real packed date in place of a day number) -/
theorem add_with_leap_operand (dt : NaiveDT) (δ : Delta) (hdt : NDTInv dt) (hδ : DInv δ) :
    (∃ r, NaiveDT.checked_add_signed dt δ = .ok r ∧
      IsDayShift dt.date ((addLeap dt.time (ns δ)).2 / 86400) (r.map (·.date)) ∧
      ∀ x, r = some x → x.time = (addLeap dt.time (ns δ)).1) ∧
    (∃ r, NaiveDT.checked_sub_signed dt δ = .ok r ∧
      IsDayShift dt.date ((addLeap dt.time (-(ns δ))).2 / 86400) (r.map (·.date)) ∧
      ∀ x, r = some x → x.time = (addLeap dt.time (-(ns δ))).1) :=
  ⟨dt_add_general dt δ hdt hδ, dt_sub_general dt δ hdt hδ⟩

/-- non-vacuity and the boundary cases: exactly reaching MAX and MIN, 1 ns beyond, a carry in each
direction, a remainder beyond `TimeDelta::MAX`, a leap-second operand crossing midnight -/
example : NDTInv ⟨dateOfYo 2024 366, ⟨86399, 999999999⟩⟩ ∧ NonLeap ⟨dateOfYo 2024 366, ⟨86399, 999999999⟩⟩ ∧
    NaiveDT.checked_add_signed ⟨dateOfYo 2024 366, ⟨86399, 999999999⟩⟩ ⟨0, 1⟩ =
      .ok (some ⟨dateOfYo 2025 1, ⟨0, 0⟩⟩) ∧
    NaiveDT.checked_add_signed ⟨dateOfYo 2025 1, ⟨0, 0⟩⟩ ⟨-1, 999999999⟩ =
      .ok (some ⟨dateOfYo 2024 366, ⟨86399, 999999999⟩⟩) ∧
    NaiveDT.checked_add_signed NaiveDT.MAX ⟨0, 1⟩ = .ok none ∧
    NaiveDT.checked_sub_signed NaiveDT.MIN ⟨0, 1⟩ = .ok none ∧
    NaiveDT.checked_add_signed ⟨Date.MAX, ⟨86399, 999999998⟩⟩ ⟨0, 1⟩ = .ok (some NaiveDT.MAX) ∧
    NaiveDT.checked_add_signed NaiveDT.MIN ⟨16544868105599, 999999999⟩ = .ok (some NaiveDT.MAX) ∧
    NaiveDT.checked_sub_signed NaiveDT.MAX ⟨16544868105599, 999999999⟩ = .ok (some NaiveDT.MIN) ∧
    NaiveDT.checked_add_signed NaiveDT.MIN ⟨16544868105600, 0⟩ = .ok none ∧
    NaiveDT.checked_add_signed ⟨dateOfYo 1970 1, ⟨86399, 0⟩⟩ Delta.MAX = .ok none ∧
    NaiveDT.checked_add_signed ⟨dateOfYo 2016 366, ⟨86399, 1500000000⟩⟩ ⟨0, 500000000⟩ =
      .ok (some ⟨dateOfYo 2017 1, ⟨0, 0⟩⟩) := by decide +kernel

/-! ### Differences, cancellation, order -/

/-- the difference of two non-leap date-times is their exact signed distance in nanoseconds (never
panics; always within the `TimeDelta` range) -/
theorem diff_exact (a b : NaiveDT) (ha : NDTInv a) (hb : NDTInv b) (la : NonLeap a) (lb : NonLeap b) :
    NaiveDT.signed_duration_since a b = .ok (ofNs (instNs a - instNs b)) ∧
    DInv (ofNs (instNs a - instNs b)) ∧ ns (ofNs (instNs a - instNs b)) = instNs a - instNs b := by
  obtain ⟨h1, h2⟩ := dt_diff_exact a b ha hb la lb
  exact ⟨h1, (ofNs_spec' _ h2).1, (ofNs_spec' _ h2).2⟩

/-- with leap-second operands: whole days between the dates plus C07's time-of-day distance -/
theorem diff_with_leap_operand (a b : NaiveDT) (ha : NDTInv a) (hb : NDTInv b) :
    NaiveDT.signed_duration_since a b =
      .ok (ofNs ((dayNumOf a.date - dayNumOf b.date) * NS_PER_DAY + diffLeap a.time b.time)) :=
  (dt_diff_general a b ha hb).1

/-- `b + (a − b) = a` and `a − (a − b) = b`, through the implementation's own difference -/
theorem add_diff_cancel (a b : NaiveDT) (ha : NDTInv a) (hb : NDTInv b) (la : NonLeap a) (lb : NonLeap b) :
    ∃ δ, NaiveDT.signed_duration_since a b = .ok δ ∧
      NaiveDT.checked_add_signed b δ = .ok (some a) ∧ NaiveDT.checked_sub_signed a δ = .ok (some b) := by
  obtain ⟨h1, h2⟩ := dt_add_diff a b ha hb la lb
  exact ⟨_, (dt_diff_exact a b ha hb la lb).1, h1, h2⟩

/-- the derived order of date-times (date, then time) follows the sign of the distance -/
theorem order_follows_diff (a b : NaiveDT) (ha : NDTInv a) (hb : NDTInv b) (la : NonLeap a)
    (lb : NonLeap b) :
    NaiveDT.cmp a b = sgn (instNs a - instNs b) ∧
    (∀ δ, NaiveDT.signed_duration_since a b = .ok δ → NaiveDT.cmp a b = sgn (ns δ)) := by
  have hc := dt_cmp_spec a b ha hb la lb
  refine ⟨hc, ?_⟩
  intro δ h
  obtain ⟨h1, _, h3⟩ := diff_exact a b ha hb la lb
  rw [h1] at h
  cases h
  rw [hc, h3]

example : NaiveDT.signed_duration_since NaiveDT.MAX NaiveDT.MIN = .ok ⟨16544868105599, 999999999⟩ ∧
    NaiveDT.signed_duration_since NaiveDT.MIN NaiveDT.MAX = .ok ⟨-16544868105600, 1⟩ ∧
    NaiveDT.signed_duration_since ⟨dateOfYo 2024 2, ⟨0, 0⟩⟩ ⟨dateOfYo 2024 1, ⟨86399, 999999999⟩⟩ = .ok ⟨0, 1⟩ ∧
    NaiveDT.cmp ⟨dateOfYo 2024 2, ⟨0, 0⟩⟩ ⟨dateOfYo 2024 1, ⟨86399, 999999999⟩⟩ = 1 ∧
    NaiveDT.cmp NaiveDT.MIN NaiveDT.MAX = -1 := by decide +kernel

/-! ### Operator forms -/

/-- `+`, `-`, `+=`, `-=` (and the `Days` forms) return the value of the checked form whenever that
succeeds, and panic exactly when it refuses (dates, date-times, zone-aware values alike) -/
theorem operators_agree (d : Date) (dt : NaiveDT) (z : Zoned) (δ : Delta) (c : Int) :
    (∀ x, Date.add d δ = .ok x ↔ Date.checked_add_signed d δ = .ok (some x)) ∧
    (∀ x, Date.sub d δ = .ok x ↔ Date.checked_sub_signed d δ = .ok (some x)) ∧
    (∀ x, Date.add_days_op d c = .ok x ↔ Date.checked_add_days d c = .ok (some x)) ∧
    (∀ x, Date.sub_days_op d c = .ok x ↔ Date.checked_sub_days d c = .ok (some x)) ∧
    (∀ x, NaiveDT.add dt δ = .ok x ↔ NaiveDT.checked_add_signed dt δ = .ok (some x)) ∧
    (∀ x, NaiveDT.sub dt δ = .ok x ↔ NaiveDT.checked_sub_signed dt δ = .ok (some x)) ∧
    (∀ x, Zoned.add z δ = .ok x ↔ Zoned.checked_add_signed z δ = .ok (some x)) ∧
    (∀ x, Zoned.sub z δ = .ok x ↔ Zoned.checked_sub_signed z δ = .ok (some x)) ∧
    (NaiveDT.add dt δ = .panic ↔
      (NaiveDT.checked_add_signed dt δ = .ok none ∨ NaiveDT.checked_add_signed dt δ = .panic)) ∧
    (NaiveDT.sub dt δ = .panic ↔
      (NaiveDT.checked_sub_signed dt δ = .ok none ∨ NaiveDT.checked_sub_signed dt δ = .panic)) := by
  refine ⟨?_, ?_, fun x => expectSome_iff _ x, fun x => expectSome_iff _ x, fun x => expectSome_iff _ x,
    fun x => expectSome_iff _ x, fun x => expectSome_iff _ x, fun x => expectSome_iff _ x,
    expectSome_panic _, expectSome_panic _⟩
  · intro x
    have e : Date.add d δ = expectSome (Date.checked_add_signed d δ) := by
      unfold Date.add expectSome
      cases Date.checked_add_signed d δ with
      | panic => rfl
      | ok o => cases o <;> rfl
    rw [e]; exact expectSome_iff _ x
  · intro x
    have e : Date.sub d δ = expectSome (Date.checked_sub_signed d δ) := by
      unfold Date.sub expectSome
      cases Date.checked_sub_signed d δ with
      | panic => rfl
      | ok o => cases o <;> rfl
    rw [e]; exact expectSome_iff _ x

/-- for valid non-leap operands the operator therefore yields the exact sum, or panics exactly
when the instant is not representable (the documented behaviour) -/
theorem operator_exact (dt : NaiveDT) (δ : Delta) (hdt : NDTInv dt) (hnl : NonLeap dt) (hδ : DInv δ) :
    (NS_MIN ≤ instNs dt + ns δ ∧ instNs dt + ns δ ≤ NS_MAX_DT →
      ∃ x, NaiveDT.add dt δ = .ok x ∧ NDTInv x ∧ NonLeap x ∧ instNs x = instNs dt + ns δ) ∧
    (¬ (NS_MIN ≤ instNs dt + ns δ ∧ instNs dt + ns δ ≤ NS_MAX_DT) → NaiveDT.add dt δ = .panic) := by
  obtain ⟨r, h0, h1, h2⟩ := dt_add_exact dt δ hdt hnl hδ
  unfold NaiveDT.add
  rw [h0]
  constructor
  · intro hin
    cases r with
    | none => have := h1.mp rfl; omega
    | some x => exact ⟨x, rfl, h2 x rfl⟩
  · intro hout
    cases r with
    | none => rfl
    | some x =>
      exfalso
      have hx : (some x : Option NaiveDT) ≠ none := by simp
      apply hx
      apply h1.mpr
      omega

example : NaiveDT.add NaiveDT.MAX ⟨0, 1⟩ = .panic ∧
    NaiveDT.add ⟨dateOfYo 2024 1, ⟨0, 0⟩⟩ ⟨-1, 999999999⟩ = .ok ⟨dateOfYo 2023 365, ⟨86399, 999999999⟩⟩ ∧
    Date.add_days_op Date.MAX 1 = .panic ∧ Date.sub_days_op Date.MAX 1 = .ok (dateOfYo 262142 364) := by
  decide +kernel

/-! ### Iterators -/

/-- `iter_days`: the k-th item is `start + k` days; the sequence ends at the range limit (it yields
exactly `DN_MAX − dayNum start` items, i.e. every day before `MAX`, and reports exhaustion on the
next call); `next_back` mirrors this toward `MIN` -/
theorem iter_days_nth (start : Date) (fuel : Nat) (h : DateInv start) :
    (∃ items fin, drain DaysIter.next fuel start = .ok (items, fin) ∧
      (items.length : Int) = min (fuel : Int) (DN_MAX - dayNumOf start) ∧
      (fin = true ↔ DN_MAX - dayNumOf start < fuel) ∧
      ∀ (k : Nat) (hk : k < items.length), DateInv items[k] ∧ dayNumOf items[k] = dayNumOf start + k) ∧
    (∃ items fin, drain DaysIter.next_back fuel start = .ok (items, fin) ∧
      (items.length : Int) = min (fuel : Int) (dayNumOf start - DN_MIN) ∧
      (fin = true ↔ dayNumOf start - DN_MIN < fuel) ∧
      ∀ (k : Nat) (hk : k < items.length), DateInv items[k] ∧ dayNumOf items[k] = dayNumOf start - k) := by
  obtain ⟨c1, c2, _⟩ := dn_consts
  obtain ⟨f1, _, f3, _⟩ := stepsFit_eq (dayNumOf start)
  constructor
  · obtain ⟨items, fin, a, b, c, d⟩ := drain_spec _ 1 (by omega) days_next_steps fuel start h
    refine ⟨items, fin, a, by rw [b, f1, c2], by rw [c, f1, c2], ?_⟩
    intro k hk; obtain ⟨d1, d2⟩ := d k hk; exact ⟨d1, by rw [d2]; omega⟩
  · obtain ⟨items, fin, a, b, c, d⟩ := drain_spec _ (-1) (by omega) days_back_steps fuel start h
    refine ⟨items, fin, a, by rw [b, f3, c1]; omega, by rw [c, f3, c1]; omega, ?_⟩
    intro k hk; obtain ⟨d1, d2⟩ := d k hk; exact ⟨d1, by rw [d2]; omega⟩

/-- `iter_weeks`: the k-th item is `start + 7k` days; `⌊(DN_MAX − dayNum start) / 7⌋` items -/
theorem iter_weeks_nth (start : Date) (fuel : Nat) (h : DateInv start) :
    (∃ items fin, drain WeeksIter.next fuel start = .ok (items, fin) ∧
      (items.length : Int) = min (fuel : Int) ((DN_MAX - dayNumOf start) / 7) ∧
      (fin = true ↔ (DN_MAX - dayNumOf start) / 7 < fuel) ∧
      ∀ (k : Nat) (hk : k < items.length), DateInv items[k] ∧ dayNumOf items[k] = dayNumOf start + 7 * k) ∧
    (∃ items fin, drain WeeksIter.next_back fuel start = .ok (items, fin) ∧
      (items.length : Int) = min (fuel : Int) ((dayNumOf start - DN_MIN) / 7) ∧
      (fin = true ↔ (dayNumOf start - DN_MIN) / 7 < fuel) ∧
      ∀ (k : Nat) (hk : k < items.length), DateInv items[k] ∧ dayNumOf items[k] = dayNumOf start - 7 * k) := by
  obtain ⟨c1, c2, _⟩ := dn_consts
  obtain ⟨_, f2, _, f4⟩ := stepsFit_eq (dayNumOf start)
  constructor
  · obtain ⟨items, fin, a, b, c, d⟩ := drain_spec _ 7 (by omega) weeks_next_steps fuel start h
    refine ⟨items, fin, a, by rw [b, f2, c2], by rw [c, f2, c2], ?_⟩
    intro k hk; obtain ⟨d1, d2⟩ := d k hk; exact ⟨d1, by rw [d2]; omega⟩
  · obtain ⟨items, fin, a, b, c, d⟩ := drain_spec _ (-7) (by omega) weeks_back_steps fuel start h
    have e : dayNumOf start - DN_MIN = dayNumOf start + 95746129 := by rw [c1]; omega
    refine ⟨items, fin, a, by rw [b, f4, e], by rw [c, f4, e], ?_⟩
    intro k hk; obtain ⟨d1, d2⟩ := d k hk; exact ⟨d1, by rw [d2]; omega⟩

/-- `size_hint` is exactly the number of items a forward drain produces -/
theorem iter_size_hint (start : Date) (h : DateInv start) :
    DaysIter.size_hint start = .ok (DN_MAX - dayNumOf start) ∧
    WeeksIter.size_hint start = .ok ((DN_MAX - dayNumOf start) / 7) ∧
    0 ≤ DN_MAX - dayNumOf start := by
  obtain ⟨_, c2, _⟩ := dn_consts
  obtain ⟨f1, f2, _, _⟩ := stepsFit_eq (dayNumOf start)
  obtain ⟨s1, s2⟩ := size_hint_spec start h
  have hb := dn_bounds start h
  rw [f1] at s1; rw [f2] at s2
  rw [c2]
  exact ⟨s1, s2, by omega⟩

example : drain DaysIter.next 5 (dateOfYo 262142 363) =
      .ok ([dateOfYo 262142 363, dateOfYo 262142 364], true) ∧
    DaysIter.size_hint (dateOfYo 262142 363) = .ok 2 ∧
    drain WeeksIter.next 5 (dateOfYo 262142 350) = .ok ([dateOfYo 262142 350, dateOfYo 262142 357], true) ∧
    WeeksIter.size_hint (dateOfYo 262142 350) = .ok 2 ∧
    drain DaysIter.next_back 3 (dateOfYo (-262143) 2) = .ok ([dateOfYo (-262143) 2], true) ∧
    drain WeeksIter.next_back 3 (dateOfYo (-262143) 8) = .ok ([dateOfYo (-262143) 8], true) ∧
    drain DaysIter.next 2 (dateOfYo 2024 366) = .ok ([dateOfYo 2024 366, dateOfYo 2025 1], false) := by
  decide +kernel

/-! ### Zone-aware values: the offset does not enter -/

/-- `DateTime<Tz>` arithmetic is the arithmetic of the UTC value with the offset carried along:
the result is refused exactly when the instant is not representable, otherwise it is the value at
instant + `ns δ` with the same offset — so two views of one instant yield the same instant -/
theorem zoned_same_instant (z : Zoned) (δ : Delta) (hz : NDTInv z.utc) (hnl : NonLeap z.utc) (hδ : DInv δ) :
    (∃ r, Zoned.checked_add_signed z δ = .ok r ∧ IsInstShift z.utc (ns δ) (r.map (·.utc)) ∧
      ∀ z', r = some z' → z'.off = z.off ∧ zonedInstNs z' = zonedInstNs z + ns δ) ∧
    (∃ r, Zoned.checked_sub_signed z δ = .ok r ∧ IsInstShift z.utc (-(ns δ)) (r.map (·.utc)) ∧
      ∀ z', r = some z' → z'.off = z.off ∧ zonedInstNs z' = zonedInstNs z - ns δ) ∧
    (∀ off', (Zoned.checked_add_signed ⟨z.utc, off'⟩ δ).bind (fun r => .ok (r.map (·.utc))) =
      (Zoned.checked_add_signed z δ).bind (fun r => .ok (r.map (·.utc)))) := by
  refine ⟨?_, ?_, ?_⟩
  · obtain ⟨r, h0, h1⟩ := dt_add_exact z.utc δ hz hnl hδ
    rw [zoned_add_eq, h0, rbind_ok]
    cases r with
    | none => exact ⟨none, rfl, h1, by intro z' h; cases h⟩
    | some u =>
      refine ⟨some ⟨u, z.off⟩, rfl, h1, ?_⟩
      intro z' h
      rw [← Option.some.inj h]
      exact ⟨rfl, (h1.2 u rfl).2.2⟩
  · obtain ⟨r, h0, h1⟩ := dt_sub_exact z.utc δ hz hnl hδ
    rw [zoned_sub_eq, h0, rbind_ok]
    cases r with
    | none => exact ⟨none, rfl, h1, by intro z' h; cases h⟩
    | some u =>
      refine ⟨some ⟨u, z.off⟩, rfl, h1, ?_⟩
      intro z' h
      rw [← Option.some.inj h]
      refine ⟨rfl, ?_⟩
      have := (h1.2 u rfl).2.2
      unfold zonedInstNs
      dsimp only
      omega
  · intro off'
    obtain ⟨r, h0, _⟩ := dt_add_exact z.utc δ hz hnl hδ
    rw [zoned_add_eq, zoned_add_eq, h0]
    cases r <;> rfl

/-- the difference of two zone-aware values is the distance of their instants, whatever the offsets -/
theorem zoned_diff (a b : Zoned) (ha : NDTInv a.utc) (hb : NDTInv b.utc) (la : NonLeap a.utc)
    (lb : NonLeap b.utc) :
    Zoned.signed_duration_since a b = .ok (ofNs (zonedInstNs a - zonedInstNs b)) ∧
    Zoned.cmp a b = sgn (zonedInstNs a - zonedInstNs b) :=
  ⟨(dt_diff_exact a.utc b.utc ha hb la lb).1, dt_cmp_spec a.utc b.utc ha hb la lb⟩

example : Zoned.checked_add_signed ⟨NaiveDT.MAX, 86399⟩ ⟨0, 1⟩ = .ok none ∧
    Zoned.checked_add_signed ⟨⟨dateOfYo 2024 1, ⟨0, 0⟩⟩, -3600⟩ ⟨-1, 0⟩ =
      .ok (some ⟨⟨dateOfYo 2023 365, ⟨86399, 0⟩⟩, -3600⟩) ∧
    Zoned.signed_duration_since ⟨⟨dateOfYo 2024 1, ⟨0, 0⟩⟩, -3600⟩ ⟨⟨dateOfYo 2024 1, ⟨0, 0⟩⟩, 7200⟩ =
      .ok ⟨0, 0⟩ := by decide +kernel

end Chrono.Props.C03
