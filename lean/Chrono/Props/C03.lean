/-
  C03 — Adding and subtracting elapsed time is exact or refused, never wrapped.
  Property statements only (proofs: Proofs/DateArithL.lean — day shifts on the packed date,
  Proofs/DateTimeArithL.lean — date-times as instants, Proofs/IterL.lean — iterators, operators,
  wrappers; they rest on C01's calendar lemmas, C06's duration lemmas and C07's time-of-day lemmas).

  Vocabulary (Spec/ArithSpec.lean, Spec/InstantSpec.lean, Spec/DateSpec.lean, Spec/DeltaSpec.lean):
  `dayNumOf d`   day number of a date (0001-01-01 = 1), closed form independent of chrono's tables;
  `DateInv d`    representation invariant of `NaiveDate`; `DN_MIN`, `DN_MAX` day numbers of MIN / MAX;
  `IsDayShift d k r`   "`r` is `d` moved by exactly `k` days": `r = none` iff day `dayNumOf d + k` is
                 outside `[DN_MIN, DN_MAX]`, else `r = some d'` with `DateInv d'`, `dayNumOf d' = dayNumOf d + k`;
  `instNs dt`    nanoseconds since 1970-01-01T00:00:00 of a date-time; `NonLeap dt` = not a leap-second
                 representation; `NDTInv dt` = valid date and valid time; `NS_MIN`, `NS_MAX_DT` = instants of
                 `NaiveDateTime::MIN` / `MAX`;
  `IsInstShift dt k r` "`r` is `dt` moved by exactly `k` ns": `none` iff the instant is outside
                 `[NS_MIN, NS_MAX_DT]`, else a valid non-leap date-time at exactly that instant;
  `ns δ`, `DInv δ`, `ofNs n`  C06's reading of a `TimeDelta`; `wholeDays n` = `n` ns in days, truncated
                 toward zero; `stepsFit n s` = how many steps of `s` days fit between day `n` and the range end.
  `Res` = `ok | panic`: every theorem of the form `f … = .ok …` / `∃ r, f … = .ok r ∧ …` says in
  particular that no intermediate machine operation overflows and no `expect` fires.
-/
import Chrono.Proofs.IterL
import Chrono.Proofs.ArithExtL
import Chrono.Proofs.IterLimitL
import Chrono.Extracted.ArithToks
import Chrono.Extracted.Derives
import Chrono.Props.GenDateTime

namespace Chrono.Props.C03
open Chrono Chrono.M Chrono.Spec Chrono.Proofs Chrono.Proofs.ArithExt Chrono.Extracted

/-! ### Tie to the source text -/

/-- the limits, units, comparisons and callees of each mirrored function body, re-extracted from
src/naive/date/mod.rs, src/naive/datetime/mod.rs and src/datetime/mod.rs on every run
(tools/extractors/arith.py), are the ones the model was written against -/
theorem tokens_ok :
    ARITH_TOKS_date_checked_add_days = ["<=", "i32::MAX", "add_days"] ∧
    ARITH_TOKS_date_checked_sub_days = ["<=", "i32::MAX", "add_days", "neg"] ∧
    ARITH_TOKS_date_add_days =
      ["8176", "4", "checked_add", ">", "0", "<=", "365", "leap_year", "from_yof", "4", "div_mod_floor",
       "400", "yo_to_cycle", "try_opt", "checked_add", "div_mod_floor", "146097", "cycle_to_yo",
       "from_year_mod_400", "from_ordinal_and_flags", "400"] ∧
    ARITH_TOKS_date_checked_add_signed = ["num_days", "<", "i32::MIN", ">", "i32::MAX", "add_days"] ∧
    ARITH_TOKS_date_checked_sub_signed = ["neg", "num_days", "<", "i32::MIN", ">", "i32::MAX", "add_days"] ∧
    ARITH_TOKS_date_signed_duration_since =
      ["div_mod_floor", "400", "div_mod_floor", "400", "yo_to_cycle", "yo_to_cycle", "146097", "expect",
       "try_days"] ∧
    ARITH_TOKS_cycle_to_yo = ["365", "365", "<", "1", "365", "1"] ∧
    ARITH_TOKS_yo_to_cycle = ["365", "1"] ∧ ARITH_TOKS_div_mod_floor = ["div_euclid", "rem_euclid"] ∧
    ARITH_TOKS_days_iter = ["succ_opt", "signed_duration_since", "num_days"] ∧
    ARITH_TOKS_days_iter_back = ["pred_opt"] ∧
    ARITH_TOKS_weeks_iter = ["checked_add_days", "7", "signed_duration_since", "num_weeks"] ∧
    ARITH_TOKS_weeks_iter_back = ["checked_sub_days", "7"] ∧
    ARITH_TOKS_date_add_delta_op = ["checked_add_signed", "expect"] ∧
    ARITH_TOKS_date_sub_delta_op = ["checked_sub_signed", "expect"] ∧
    ARITH_TOKS_date_add_days_op = ["checked_add_days", "expect"] ∧
    ARITH_TOKS_date_sub_days_op = ["checked_sub_days", "expect"] ∧
    ARITH_TOKS_ndt_checked_add_signed =
      ["overflowing_add_signed", "try_opt", "try_seconds", "try_opt", "checked_add_signed"] ∧
    ARITH_TOKS_ndt_checked_sub_signed =
      ["overflowing_sub_signed", "try_opt", "try_seconds", "try_opt", "checked_sub_signed"] ∧
    ARITH_TOKS_ndt_signed_duration_since =
      ["expect", "signed_duration_since", "checked_add", "signed_duration_since"] ∧
    ARITH_TOKS_ndt_add_delta_op = ["checked_add_signed", "expect"] ∧
    ARITH_TOKS_ndt_sub_delta_op = ["checked_sub_signed", "expect"] ∧
    ARITH_TOKS_dt_checked_add_signed = ["checked_add_signed", "from_utc_datetime"] ∧
    ARITH_TOKS_dt_checked_sub_signed = ["checked_sub_signed", "from_utc_datetime"] ∧
    ARITH_TOKS_dt_signed_duration_since = ["signed_duration_since"] ∧
    ARITH_TOKS_dt_add_delta_op = ["checked_add_signed", "expect"] ∧
    ARITH_TOKS_dt_sub_delta_op = ["checked_sub_signed", "expect"] ∧
    ARITH_TOKS_dt_add_assign_delta_op = ["checked_add_signed", "expect", "from_utc_datetime"] ∧
    ARITH_TOKS_dt_sub_assign_delta_op = ["checked_sub_signed", "expect", "from_utc_datetime"] := by
  decide

/-- the order of `NaiveDateTime`, `NaiveDate` and `NaiveTime` is DERIVED: there is no body, the code
is generated from the derive line and the declaration order of the fields.  Re-extracted from the
three struct definitions on every run (tools/extractors/derives.py): `PartialEq`, `PartialOrd`, `Ord`
are derived (no hand-written impl can coexist with the derive), and the fields are `date` before
`time`, the single packed word `yof`, `secs` before `frac` — what `NaiveDT.cmp` / `Date.cmp` /
`Time.cmp` (and `NaiveDT.partial_cmp`, `eq`, `lt`) mirror -/
theorem derive_pins :
    DERIVE_TRAITS_NaiveDateTime = ["PartialEq", "Eq", "Hash", "PartialOrd", "Ord", "Copy", "Clone"] ∧
    DERIVE_FIELDS_NaiveDateTime = ["date:NaiveDate", "time:NaiveTime"] ∧
    DERIVE_TRAITS_NaiveDate = ["PartialEq", "Eq", "Hash", "PartialOrd", "Ord", "Copy", "Clone"] ∧
    DERIVE_FIELDS_NaiveDate = ["yof:NonZeroI32"] ∧
    DERIVE_TRAITS_NaiveTime = ["PartialEq", "Eq", "Hash", "PartialOrd", "Ord", "Copy", "Clone"] ∧
    DERIVE_FIELDS_NaiveTime = ["secs:u32", "frac:u32"] := by decide

/-- the range ends, as day numbers and as instants (from the extracted `MIN_YEAR` / `MAX_YEAR`) -/
theorem range_ends :
    DateInv Date.MIN ∧ DateInv Date.MAX ∧ DN_MIN = -95746129 ∧ DN_MAX = 95745399 ∧
    NDTInv NaiveDT.MIN ∧ NDTInv NaiveDT.MAX ∧ NonLeap NaiveDT.MIN ∧ NonLeap NaiveDT.MAX ∧
    NS_MIN = (DN_MIN - EPOCH_DAY) * NS_PER_DAY ∧ NS_MAX_DT = (DN_MAX - EPOCH_DAY + 1) * NS_PER_DAY - 1 ∧
    NS_MIN = -8334601228800000000000 ∧ NS_MAX_DT = 8210266876799999999999 := by decide

/-! ### The specification determines the result -/

/-- day numbers identify dates; hence "moved by exactly `k` days or refused" has one solution -/
theorem dayShift_unique (d : Date) (k : Int) (r r' : Option Date) (h : IsDayShift d k r)
    (h' : IsDayShift d k r') : r = r' := dayShift_unique' d k r r' h h'

/-- instants identify non-leap date-times; "moved by exactly `k` ns or refused" has one solution -/
theorem instShift_unique (dt : NaiveDT) (k : Int) (r r' : Option NaiveDT) (h : IsInstShift dt k r)
    (h' : IsInstShift dt k r') : r = r' := instShift_unique' dt k r r' h h'

theorem instant_injective (a b : NaiveDT) (ha : NDTInv a) (hb : NDTInv b) (la : NonLeap a)
    (lb : NonLeap b) (h : instNs a = instNs b) : a = b := inst_inj a b ha hb la lb h

/-! ### Dates and day counts -/

/-- `add_days`, every valid date, every `i32` count: the same-year fast path and the 400-year cycle
path both give day number + n; refused exactly outside the range; never panics -/
theorem add_days_exact (d : Date) (n : Int) (hd : DateInv d) (hn : -2147483648 ≤ n ∧ n ≤ 2147483647) :
    ∃ r, Date.add_days d n = .ok r ∧ IsDayShift d n r := add_days_spec d n hd hn

/-- `checked_add_days` / `checked_sub_days`, every `u64` count (no narrowing of the count) -/
theorem checked_days_exact (d : Date) (c : Int) (hd : DateInv d) (hc : 0 ≤ c ∧ c ≤ 18446744073709551615) :
    (∃ r, Date.checked_add_days d c = .ok r ∧ IsDayShift d c r) ∧
    (∃ r, Date.checked_sub_days d c = .ok r ∧ IsDayShift d (-c) r) :=
  ⟨checked_add_days_spec d c hd hc, checked_sub_days_spec d c hd hc⟩

example : DateInv (dateOfYo 2023 365) ∧
    Date.add_days (dateOfYo 2023 365) 1 = .ok (some (dateOfYo 2024 1)) ∧          -- cycle path
    Date.add_days (dateOfYo 2024 365) 1 = .ok (some (dateOfYo 2024 366)) ∧        -- fast path, leap
    Date.add_days (dateOfYo 2023 1) (-1) = .ok (some (dateOfYo 2022 365)) ∧
    Date.add_days Date.MIN 191491528 = .ok (some Date.MAX) ∧
    Date.add_days Date.MIN 191491529 = .ok none ∧ Date.add_days Date.MAX 1 = .ok none ∧
    Date.add_days Date.MAX 2147483647 = .ok none ∧ Date.add_days Date.MIN (-2147483648) = .ok none ∧
    Date.checked_add_days Date.MIN 4294967296 = .ok none ∧                       -- 2³²: not folded to 0
    Date.checked_sub_days Date.MAX 191491528 = .ok (some Date.MIN) ∧
    Date.checked_sub_days Date.MAX 18446744073709551615 = .ok none := by decide +kernel

/-- a duration moves a date by its whole days, truncated toward zero, or is refused -/
theorem date_plus_delta (d : Date) (δ : Delta) (hd : DateInv d) (hδ : DInv δ) :
    (∃ r, Date.checked_add_signed d δ = .ok r ∧ IsDayShift d (wholeDays (ns δ)) r) ∧
    (∃ r, Date.checked_sub_signed d δ = .ok r ∧ IsDayShift d (-(wholeDays (ns δ))) r) :=
  ⟨date_add_signed_spec d δ hd hδ, date_sub_signed_spec d δ hd hδ⟩

example : DInv ⟨-86400, 1⟩ ∧ wholeDays (ns ⟨-86400, 1⟩) = 0 ∧ wholeDays (ns ⟨-86400, 0⟩) = -1 ∧
    Date.checked_add_signed (dateOfYo 2024 1) ⟨-86400, 1⟩ = .ok (some (dateOfYo 2024 1)) ∧
    Date.checked_add_signed (dateOfYo 2024 1) ⟨-86400, 0⟩ = .ok (some (dateOfYo 2023 365)) ∧
    Date.checked_sub_signed (dateOfYo 2024 1) ⟨86399, 999999999⟩ = .ok (some (dateOfYo 2024 1)) ∧
    Date.checked_add_signed Date.MIN Delta.MAX = .ok none ∧
    Date.checked_add_signed Date.MIN ⟨371085174374400, 0⟩ = .ok none := by decide +kernel   -- 2³² + 0 days

/-- the difference of two dates is the exact number of days between them (never panics); adding
it back returns the minuend; the derived order is the order of day numbers -/
theorem date_diff_exact (a b : Date) (ha : DateInv a) (hb : DateInv b) :
    Date.signed_duration_since a b = .ok (ofNs ((dayNumOf a - dayNumOf b) * NS_PER_DAY)) ∧
    DInv (ofNs ((dayNumOf a - dayNumOf b) * NS_PER_DAY)) ∧
    ns (ofNs ((dayNumOf a - dayNumOf b) * NS_PER_DAY)) = (dayNumOf a - dayNumOf b) * NS_PER_DAY ∧
    Date.checked_add_signed b (ofNs ((dayNumOf a - dayNumOf b) * NS_PER_DAY)) = .ok (some a) ∧
    Date.cmp a b = sgn (dayNumOf a - dayNumOf b) := by
  obtain ⟨h1, h2⟩ := date_diff_spec a b ha hb
  have hb1 := dn_bounds a ha
  have hb2 := dn_bounds b hb
  have hr : nsInRange ((dayNumOf a - dayNumOf b) * NS_PER_DAY) := by
    have hN : NS_PER_DAY = 86400000000000 := rfl
    rw [hN]; simp only [nsInRange, NS_MAX]; omega
  exact ⟨h1, h2, (ofNs_spec' _ hr).2, date_add_diff a b ha hb, date_cmp_spec a b ha hb⟩

example : Date.signed_duration_since Date.MAX Date.MIN = .ok ⟨16544868019200, 0⟩ ∧
    Date.signed_duration_since Date.MIN Date.MAX = .ok ⟨-16544868019200, 0⟩ ∧
    Date.signed_duration_since (dateOfYo 2024 60) (dateOfYo 2023 60) = .ok ⟨365 * 86400, 0⟩ := by
  decide +kernel

/-! ### Date-times: exact in nanoseconds or refused -/

/-- `checked_add_signed`, every valid non-leap date-time, every `TimeDelta`: the date-time exactly
`ns δ` nanoseconds later, or `None` exactly when that instant is not representable; never panics -/
theorem add_exact (dt : NaiveDT) (δ : Delta) (hdt : NDTInv dt) (hnl : NonLeap dt) (hδ : DInv δ) :
    ∃ r, NaiveDT.checked_add_signed dt δ = .ok r ∧ IsInstShift dt (ns δ) r :=
  dt_add_exact dt δ hdt hnl hδ

/-- `checked_sub_signed`: exactly `ns δ` nanoseconds earlier, or refused -/
theorem sub_exact (dt : NaiveDT) (δ : Delta) (hdt : NDTInv dt) (hnl : NonLeap dt) (hδ : DInv δ) :
    ∃ r, NaiveDT.checked_sub_signed dt δ = .ok r ∧ IsInstShift dt (-(ns δ)) r :=
  dt_sub_exact dt δ hdt hnl hδ

/-- subtraction is addition of the negated duration (also for leap-second operands) -/
theorem sub_is_add_neg (dt : NaiveDT) (δ : Delta) (hdt : NDTInv dt) (hδ : DInv δ) :
    DInv (ofNs (-(ns δ))) ∧ ns (ofNs (-(ns δ))) = -(ns δ) ∧
    NaiveDT.checked_sub_signed dt δ = NaiveDT.checked_add_signed dt (ofNs (-(ns δ))) := by
  have hr : nsInRange (-(ns δ)) := by
    have := hδ.2.2
    simp only [nsInRange, NS_MAX] at *
    omega
  exact ⟨(ofNs_spec' _ hr).1, (ofNs_spec' _ hr).2, dt_sub_is_add_neg dt δ hdt hδ⟩

/-- leap-second operands included: the time of day follows C07's extended-line rule `addLeap`, and
the date moves by exactly the whole days carried out of the time of day, or the sum is refused
(this closes C07's `datetime_leap_carry_partial` with the real packed date in place of a day number) -/
theorem add_with_leap_operand (dt : NaiveDT) (δ : Delta) (hdt : NDTInv dt) (hδ : DInv δ) :
    (∃ r, NaiveDT.checked_add_signed dt δ = .ok r ∧
      IsDayShift dt.date ((addLeap dt.time (ns δ)).2 / 86400) (r.map (·.date)) ∧
      ∀ x, r = some x → x.time = (addLeap dt.time (ns δ)).1) ∧
    (∃ r, NaiveDT.checked_sub_signed dt δ = .ok r ∧
      IsDayShift dt.date ((addLeap dt.time (-(ns δ))).2 / 86400) (r.map (·.date)) ∧
      ∀ x, r = some x → x.time = (addLeap dt.time (-(ns δ))).1) :=
  ⟨dt_add_general dt δ hdt hδ, dt_sub_general dt δ hdt hδ⟩

/-- non-vacuity and the boundary cases: exactly reaching MAX and MIN, 1 ns beyond, a carry in each
direction, a remainder beyond `TimeDelta::MAX`, a leap-second operand crossing midnight -/
example : NDTInv ⟨dateOfYo 2024 366, ⟨86399, 999999999⟩⟩ ∧ NonLeap ⟨dateOfYo 2024 366, ⟨86399, 999999999⟩⟩ ∧
    NaiveDT.checked_add_signed ⟨dateOfYo 2024 366, ⟨86399, 999999999⟩⟩ ⟨0, 1⟩ =
      .ok (some ⟨dateOfYo 2025 1, ⟨0, 0⟩⟩) ∧
    NaiveDT.checked_add_signed ⟨dateOfYo 2025 1, ⟨0, 0⟩⟩ ⟨-1, 999999999⟩ =
      .ok (some ⟨dateOfYo 2024 366, ⟨86399, 999999999⟩⟩) ∧
    NaiveDT.checked_add_signed NaiveDT.MAX ⟨0, 1⟩ = .ok none ∧
    NaiveDT.checked_sub_signed NaiveDT.MIN ⟨0, 1⟩ = .ok none ∧
    NaiveDT.checked_add_signed ⟨Date.MAX, ⟨86399, 999999998⟩⟩ ⟨0, 1⟩ = .ok (some NaiveDT.MAX) ∧
    NaiveDT.checked_add_signed NaiveDT.MIN ⟨16544868105599, 999999999⟩ = .ok (some NaiveDT.MAX) ∧
    NaiveDT.checked_sub_signed NaiveDT.MAX ⟨16544868105599, 999999999⟩ = .ok (some NaiveDT.MIN) ∧
    NaiveDT.checked_add_signed NaiveDT.MIN ⟨16544868105600, 0⟩ = .ok none ∧
    NaiveDT.checked_add_signed ⟨dateOfYo 1970 1, ⟨86399, 0⟩⟩ Delta.MAX = .ok none ∧
    NaiveDT.checked_add_signed ⟨dateOfYo 2016 366, ⟨86399, 1500000000⟩⟩ ⟨0, 500000000⟩ =
      .ok (some ⟨dateOfYo 2017 1, ⟨0, 0⟩⟩) := by decide +kernel

/-! ### Differences, cancellation, order -/

/-- the difference of two non-leap date-times is their exact signed distance in nanoseconds (never
panics; always within the `TimeDelta` range) -/
theorem diff_exact (a b : NaiveDT) (ha : NDTInv a) (hb : NDTInv b) (la : NonLeap a) (lb : NonLeap b) :
    NaiveDT.signed_duration_since a b = .ok (ofNs (instNs a - instNs b)) ∧
    DInv (ofNs (instNs a - instNs b)) ∧ ns (ofNs (instNs a - instNs b)) = instNs a - instNs b := by
  obtain ⟨h1, h2⟩ := dt_diff_exact a b ha hb la lb
  exact ⟨h1, (ofNs_spec' _ h2).1, (ofNs_spec' _ h2).2⟩

/-- with leap-second operands: whole days between the dates plus C07's time-of-day distance -/
theorem diff_with_leap_operand (a b : NaiveDT) (ha : NDTInv a) (hb : NDTInv b) :
    NaiveDT.signed_duration_since a b =
      .ok (ofNs ((dayNumOf a.date - dayNumOf b.date) * NS_PER_DAY + diffLeap a.time b.time)) :=
  (dt_diff_general a b ha hb).1

/-- `b + (a − b) = a` and `a − (a − b) = b`, through the implementation's own difference -/
theorem add_diff_cancel (a b : NaiveDT) (ha : NDTInv a) (hb : NDTInv b) (la : NonLeap a) (lb : NonLeap b) :
    ∃ δ, NaiveDT.signed_duration_since a b = .ok δ ∧
      NaiveDT.checked_add_signed b δ = .ok (some a) ∧ NaiveDT.checked_sub_signed a δ = .ok (some b) := by
  obtain ⟨h1, h2⟩ := dt_add_diff a b ha hb la lb
  exact ⟨_, (dt_diff_exact a b ha hb la lb).1, h1, h2⟩

/-- the derived order of date-times (date, then time) follows the sign of the distance -/
theorem order_follows_diff (a b : NaiveDT) (ha : NDTInv a) (hb : NDTInv b) (la : NonLeap a)
    (lb : NonLeap b) :
    NaiveDT.cmp a b = sgn (instNs a - instNs b) ∧
    (∀ δ, NaiveDT.signed_duration_since a b = .ok δ → NaiveDT.cmp a b = sgn (ns δ)) := by
  have hc := dt_cmp_spec a b ha hb la lb
  refine ⟨hc, ?_⟩
  intro δ h
  obtain ⟨h1, _, h3⟩ := diff_exact a b ha hb la lb
  rw [h1] at h
  cases h
  rw [hc, h3]

example : NaiveDT.signed_duration_since NaiveDT.MAX NaiveDT.MIN = .ok ⟨16544868105599, 999999999⟩ ∧
    NaiveDT.signed_duration_since NaiveDT.MIN NaiveDT.MAX = .ok ⟨-16544868105600, 1⟩ ∧
    NaiveDT.signed_duration_since ⟨dateOfYo 2024 2, ⟨0, 0⟩⟩ ⟨dateOfYo 2024 1, ⟨86399, 999999999⟩⟩ = .ok ⟨0, 1⟩ ∧
    NaiveDT.cmp ⟨dateOfYo 2024 2, ⟨0, 0⟩⟩ ⟨dateOfYo 2024 1, ⟨86399, 999999999⟩⟩ = 1 ∧
    NaiveDT.cmp NaiveDT.MIN NaiveDT.MAX = -1 := by decide +kernel

/-! ### Operator forms -/

/-- `+`, `-`, `+=`, `-=` (and the `Days` forms) return the value of the checked form whenever that
succeeds, and panic exactly when it refuses (dates, date-times, zone-aware values alike) -/
theorem operators_agree (d : Date) (dt : NaiveDT) (z : Zoned) (δ : Delta) (c : Int) :
    (∀ x, Date.add d δ = .ok x ↔ Date.checked_add_signed d δ = .ok (some x)) ∧
    (∀ x, Date.sub d δ = .ok x ↔ Date.checked_sub_signed d δ = .ok (some x)) ∧
    (∀ x, Date.add_days_op d c = .ok x ↔ Date.checked_add_days d c = .ok (some x)) ∧
    (∀ x, Date.sub_days_op d c = .ok x ↔ Date.checked_sub_days d c = .ok (some x)) ∧
    (∀ x, NaiveDT.add dt δ = .ok x ↔ NaiveDT.checked_add_signed dt δ = .ok (some x)) ∧
    (∀ x, NaiveDT.sub dt δ = .ok x ↔ NaiveDT.checked_sub_signed dt δ = .ok (some x)) ∧
    (∀ x, Zoned.add z δ = .ok x ↔ Zoned.checked_add_signed z δ = .ok (some x)) ∧
    (∀ x, Zoned.sub z δ = .ok x ↔ Zoned.checked_sub_signed z δ = .ok (some x)) ∧
    (NaiveDT.add dt δ = .panic ↔
      (NaiveDT.checked_add_signed dt δ = .ok none ∨ NaiveDT.checked_add_signed dt δ = .panic)) ∧
    (NaiveDT.sub dt δ = .panic ↔
      (NaiveDT.checked_sub_signed dt δ = .ok none ∨ NaiveDT.checked_sub_signed dt δ = .panic)) := by
  refine ⟨?_, ?_, fun x => expectSome_iff _ x, fun x => expectSome_iff _ x, fun x => expectSome_iff _ x,
    fun x => expectSome_iff _ x, fun x => expectSome_iff _ x, fun x => expectSome_iff _ x,
    expectSome_panic _, expectSome_panic _⟩
  · intro x
    have e : Date.add d δ = expectSome (Date.checked_add_signed d δ) := by
      unfold Date.add expectSome
      cases Date.checked_add_signed d δ with
      | panic => rfl
      | ok o => cases o <;> rfl
    rw [e]; exact expectSome_iff _ x
  · intro x
    have e : Date.sub d δ = expectSome (Date.checked_sub_signed d δ) := by
      unfold Date.sub expectSome
      cases Date.checked_sub_signed d δ with
      | panic => rfl
      | ok o => cases o <;> rfl
    rw [e]; exact expectSome_iff _ x

/-- for valid non-leap operands the operator therefore yields the exact sum, or panics exactly
when the instant is not representable (the documented behaviour) -/
theorem operator_exact (dt : NaiveDT) (δ : Delta) (hdt : NDTInv dt) (hnl : NonLeap dt) (hδ : DInv δ) :
    (NS_MIN ≤ instNs dt + ns δ ∧ instNs dt + ns δ ≤ NS_MAX_DT →
      ∃ x, NaiveDT.add dt δ = .ok x ∧ NDTInv x ∧ NonLeap x ∧ instNs x = instNs dt + ns δ) ∧
    (¬ (NS_MIN ≤ instNs dt + ns δ ∧ instNs dt + ns δ ≤ NS_MAX_DT) → NaiveDT.add dt δ = .panic) := by
  obtain ⟨r, h0, h1, h2⟩ := dt_add_exact dt δ hdt hnl hδ
  unfold NaiveDT.add
  rw [h0]
  constructor
  · intro hin
    cases r with
    | none => have := h1.mp rfl; omega
    | some x => exact ⟨x, rfl, h2 x rfl⟩
  · intro hout
    cases r with
    | none => rfl
    | some x =>
      exfalso
      have hx : (some x : Option NaiveDT) ≠ none := by simp
      apply hx
      apply h1.mpr
      omega

example : NaiveDT.add NaiveDT.MAX ⟨0, 1⟩ = .panic ∧
    NaiveDT.add ⟨dateOfYo 2024 1, ⟨0, 0⟩⟩ ⟨-1, 999999999⟩ = .ok ⟨dateOfYo 2023 365, ⟨86399, 999999999⟩⟩ ∧
    Date.add_days_op Date.MAX 1 = .panic ∧ Date.sub_days_op Date.MAX 1 = .ok (dateOfYo 262142 364) := by
  decide +kernel

/-! ### Iterators -/

/-- `iter_days`: the k-th item is `start + k` days; the sequence ends ONE STEP SHORT of the range
limit: it yields exactly `DN_MAX − dayNum start` items, i.e. every day strictly before `MAX` — `MAX`
itself is never yielded (`iter_never_yields_limit`, `iter_yields_exactly`; reported as F34: the
property's "end at the range limit" holds only in the reading "every step that fits is taken") —
and reports exhaustion on the next call; `next_back` mirrors this toward `MIN` -/
theorem iter_days_nth (start : Date) (fuel : Nat) (h : DateInv start) :
    (∃ items fin, drain DaysIter.next fuel start = .ok (items, fin) ∧
      (items.length : Int) = min (fuel : Int) (DN_MAX - dayNumOf start) ∧
      (fin = true ↔ DN_MAX - dayNumOf start < fuel) ∧
      ∀ (k : Nat) (hk : k < items.length), DateInv items[k] ∧ dayNumOf items[k] = dayNumOf start + k) ∧
    (∃ items fin, drain DaysIter.next_back fuel start = .ok (items, fin) ∧
      (items.length : Int) = min (fuel : Int) (dayNumOf start - DN_MIN) ∧
      (fin = true ↔ dayNumOf start - DN_MIN < fuel) ∧
      ∀ (k : Nat) (hk : k < items.length), DateInv items[k] ∧ dayNumOf items[k] = dayNumOf start - k) := by
  obtain ⟨c1, c2, _⟩ := dn_consts
  obtain ⟨f1, _, f3, _⟩ := stepsFit_eq (dayNumOf start)
  constructor
  · obtain ⟨items, fin, a, b, c, d⟩ := drain_spec _ 1 (by omega) days_next_steps fuel start h
    refine ⟨items, fin, a, by rw [b, f1, c2], by rw [c, f1, c2], ?_⟩
    intro k hk; obtain ⟨d1, d2⟩ := d k hk; exact ⟨d1, by rw [d2]; omega⟩
  · obtain ⟨items, fin, a, b, c, d⟩ := drain_spec _ (-1) (by omega) days_back_steps fuel start h
    refine ⟨items, fin, a, by rw [b, f3, c1]; omega, by rw [c, f3, c1]; omega, ?_⟩
    intro k hk; obtain ⟨d1, d2⟩ := d k hk; exact ⟨d1, by rw [d2]; omega⟩

/-- `iter_weeks`: the k-th item is `start + 7k` days; `⌊(DN_MAX − dayNum start) / 7⌋` items: a date
is yielded only when the step AFTER it still fits, so a start within 6 days of the limit yields
nothing (`iter_never_yields_limit`) -/
theorem iter_weeks_nth (start : Date) (fuel : Nat) (h : DateInv start) :
    (∃ items fin, drain WeeksIter.next fuel start = .ok (items, fin) ∧
      (items.length : Int) = min (fuel : Int) ((DN_MAX - dayNumOf start) / 7) ∧
      (fin = true ↔ (DN_MAX - dayNumOf start) / 7 < fuel) ∧
      ∀ (k : Nat) (hk : k < items.length), DateInv items[k] ∧ dayNumOf items[k] = dayNumOf start + 7 * k) ∧
    (∃ items fin, drain WeeksIter.next_back fuel start = .ok (items, fin) ∧
      (items.length : Int) = min (fuel : Int) ((dayNumOf start - DN_MIN) / 7) ∧
      (fin = true ↔ (dayNumOf start - DN_MIN) / 7 < fuel) ∧
      ∀ (k : Nat) (hk : k < items.length), DateInv items[k] ∧ dayNumOf items[k] = dayNumOf start - 7 * k) := by
  obtain ⟨c1, c2, _⟩ := dn_consts
  obtain ⟨_, f2, _, f4⟩ := stepsFit_eq (dayNumOf start)
  constructor
  · obtain ⟨items, fin, a, b, c, d⟩ := drain_spec _ 7 (by omega) weeks_next_steps fuel start h
    refine ⟨items, fin, a, by rw [b, f2, c2], by rw [c, f2, c2], ?_⟩
    intro k hk; obtain ⟨d1, d2⟩ := d k hk; exact ⟨d1, by rw [d2]; omega⟩
  · obtain ⟨items, fin, a, b, c, d⟩ := drain_spec _ (-7) (by omega) weeks_back_steps fuel start h
    have e : dayNumOf start - DN_MIN = dayNumOf start + 95746129 := by rw [c1]; omega
    refine ⟨items, fin, a, by rw [b, f4, e], by rw [c, f4, e], ?_⟩
    intro k hk; obtain ⟨d1, d2⟩ := d k hk; exact ⟨d1, by rw [d2]; omega⟩

/-- `size_hint` is exactly the number of items a forward drain produces -/
theorem iter_size_hint (start : Date) (h : DateInv start) :
    DaysIter.size_hint start = .ok (DN_MAX - dayNumOf start) ∧
    WeeksIter.size_hint start = .ok ((DN_MAX - dayNumOf start) / 7) ∧
    0 ≤ DN_MAX - dayNumOf start := by
  obtain ⟨_, c2, _⟩ := dn_consts
  obtain ⟨f1, f2, _, _⟩ := stepsFit_eq (dayNumOf start)
  obtain ⟨s1, s2⟩ := size_hint_spec start h
  have hb := dn_bounds start h
  rw [f1] at s1; rw [f2] at s2
  rw [c2]
  exact ⟨s1, s2, by omega⟩

example : drain DaysIter.next 5 (dateOfYo 262142 363) =
      .ok ([dateOfYo 262142 363, dateOfYo 262142 364], true) ∧
    DaysIter.size_hint (dateOfYo 262142 363) = .ok 2 ∧
    drain WeeksIter.next 5 (dateOfYo 262142 350) = .ok ([dateOfYo 262142 350, dateOfYo 262142 357], true) ∧
    WeeksIter.size_hint (dateOfYo 262142 350) = .ok 2 ∧
    drain DaysIter.next_back 3 (dateOfYo (-262143) 2) = .ok ([dateOfYo (-262143) 2], true) ∧
    drain WeeksIter.next_back 3 (dateOfYo (-262143) 8) = .ok ([dateOfYo (-262143) 8], true) ∧
    drain DaysIter.next 2 (dateOfYo 2024 366) = .ok ([dateOfYo 2024 366, dateOfYo 2025 1], false) := by
  decide +kernel

/-! ### Zone-aware values: the offset does not enter -/

/-- `DateTime<Tz>` arithmetic is the arithmetic of the UTC value with the offset carried along:
the result is refused exactly when the instant is not representable, otherwise it is the value at
instant + `ns δ` with the same offset — so two views of one instant yield the same instant -/
theorem zoned_same_instant (z : Zoned) (δ : Delta) (hz : NDTInv z.utc) (hnl : NonLeap z.utc) (hδ : DInv δ) :
    (∃ r, Zoned.checked_add_signed z δ = .ok r ∧ IsInstShift z.utc (ns δ) (r.map (·.utc)) ∧
      ∀ z', r = some z' → z'.off = z.off ∧ zonedInstNs z' = zonedInstNs z + ns δ) ∧
    (∃ r, Zoned.checked_sub_signed z δ = .ok r ∧ IsInstShift z.utc (-(ns δ)) (r.map (·.utc)) ∧
      ∀ z', r = some z' → z'.off = z.off ∧ zonedInstNs z' = zonedInstNs z - ns δ) ∧
    (∀ off', (Zoned.checked_add_signed ⟨z.utc, off'⟩ δ).bind (fun r => .ok (r.map (·.utc))) =
      (Zoned.checked_add_signed z δ).bind (fun r => .ok (r.map (·.utc)))) := by
  refine ⟨?_, ?_, ?_⟩
  · obtain ⟨r, h0, h1⟩ := dt_add_exact z.utc δ hz hnl hδ
    rw [zoned_add_eq, h0, rbind_ok]
    cases r with
    | none => exact ⟨none, rfl, h1, by intro z' h; cases h⟩
    | some u =>
      refine ⟨some ⟨u, z.off⟩, rfl, h1, ?_⟩
      intro z' h
      rw [← Option.some.inj h]
      exact ⟨rfl, (h1.2 u rfl).2.2⟩
  · obtain ⟨r, h0, h1⟩ := dt_sub_exact z.utc δ hz hnl hδ
    rw [zoned_sub_eq, h0, rbind_ok]
    cases r with
    | none => exact ⟨none, rfl, h1, by intro z' h; cases h⟩
    | some u =>
      refine ⟨some ⟨u, z.off⟩, rfl, h1, ?_⟩
      intro z' h
      rw [← Option.some.inj h]
      refine ⟨rfl, ?_⟩
      have := (h1.2 u rfl).2.2
      unfold zonedInstNs
      dsimp only
      omega
  · intro off'
    obtain ⟨r, h0, _⟩ := dt_add_exact z.utc δ hz hnl hδ
    rw [zoned_add_eq, zoned_add_eq, h0]
    cases r <;> rfl

/-- the difference of two zone-aware values is the distance of their instants, whatever the offsets -/
theorem zoned_diff (a b : Zoned) (ha : NDTInv a.utc) (hb : NDTInv b.utc) (la : NonLeap a.utc)
    (lb : NonLeap b.utc) :
    Zoned.signed_duration_since a b = .ok (ofNs (zonedInstNs a - zonedInstNs b)) ∧
    Zoned.cmp a b = sgn (zonedInstNs a - zonedInstNs b) :=
  ⟨(dt_diff_exact a.utc b.utc ha hb la lb).1, dt_cmp_spec a.utc b.utc ha hb la lb⟩

example : Zoned.checked_add_signed ⟨NaiveDT.MAX, 86399⟩ ⟨0, 1⟩ = .ok none ∧
    Zoned.checked_add_signed ⟨⟨dateOfYo 2024 1, ⟨0, 0⟩⟩, -3600⟩ ⟨-1, 0⟩ =
      .ok (some ⟨⟨dateOfYo 2023 365, ⟨86399, 0⟩⟩, -3600⟩) ∧
    Zoned.signed_duration_since ⟨⟨dateOfYo 2024 1, ⟨0, 0⟩⟩, -3600⟩ ⟨⟨dateOfYo 2024 1, ⟨0, 0⟩⟩, 7200⟩ =
      .ok ⟨0, 0⟩ := by decide +kernel

/-! ## Audit gaps closed 2026-09-30 -/

/-! ### `size_hint` as the pair the source returns; what it tracks -/

/-- `Iterator::size_hint` of both iterators, as the `(usize, Option<usize>)` pair of the source:
lower and upper bound coincide and are the number of days (whole weeks) from the cursor up to
`NaiveDate::MAX`; the `as usize` casts never wrap; no panic.  The cursor does not record a
direction, so this is the value whichever way the iterator is driven. -/
theorem iter_size_hint_pair (v : Date) (h : DateInv v) :
    DaysIter.size_hint_pair v = .ok (DN_MAX - dayNumOf v, some (DN_MAX - dayNumOf v)) ∧
    WeeksIter.size_hint_pair v = .ok ((DN_MAX - dayNumOf v) / 7, some ((DN_MAX - dayNumOf v) / 7)) ∧
    0 ≤ DN_MAX - dayNumOf v ∧ DN_MAX - dayNumOf v ≤ 191491528 := by
  obtain ⟨_, c2, _⟩ := dn_consts
  obtain ⟨p1, p2⟩ := hint_pair_spec v h
  have hb := dn_bounds v h
  rw [c2]
  exact ⟨p1, p2, by omega, by omega⟩

/-- forward iteration: a call of `next` either returns the cursor and moves it one step (1 / 7 days)
— the hint then drops by exactly one — or returns `None`, which happens exactly when the hint is
`(0, Some(0))`.  So before every forward call the hint is the number of items still to come. -/
theorem iter_size_hint_step (v : Date) (h : DateInv v) :
    (∀ item v', DaysIter.next v = .ok (some (item, v')) →
      item = v ∧ DateInv v' ∧ dayNumOf v' = dayNumOf v + 1 ∧
      ∃ n, DaysIter.size_hint_pair v = .ok (n, some n) ∧
        DaysIter.size_hint_pair v' = .ok (n - 1, some (n - 1))) ∧
    (DaysIter.next v = .ok none ↔ DaysIter.size_hint_pair v = .ok (0, some 0)) ∧
    (DaysIter.next v = .ok none ∨ ∃ v', DaysIter.next v = .ok (some (v, v'))) ∧
    (∀ item v', WeeksIter.next v = .ok (some (item, v')) →
      item = v ∧ DateInv v' ∧ dayNumOf v' = dayNumOf v + 7 ∧
      ∃ n, WeeksIter.size_hint_pair v = .ok (n, some n) ∧
        WeeksIter.size_hint_pair v' = .ok (n - 1, some (n - 1))) ∧
    (WeeksIter.next v = .ok none ↔ WeeksIter.size_hint_pair v = .ok (0, some 0)) ∧
    (WeeksIter.next v = .ok none ∨ ∃ v', WeeksIter.next v = .ok (some (v, v'))) := by
  obtain ⟨c1, c2, _⟩ := dn_consts
  obtain ⟨p1, p2⟩ := hint_pair_spec v h
  have hb := dn_bounds v h
  refine ⟨?_, ?_, step_total _ 1 days_next_steps v h, ?_, ?_, step_total _ 7 weeks_next_steps v h⟩
  · intro item v' hs
    obtain ⟨e, hi, hd⟩ := step_some _ 1 days_next_steps v item v' h hs
    obtain ⟨q1, _⟩ := hint_pair_spec v' hi
    refine ⟨e, hi, hd, _, p1, ?_⟩
    rw [q1, hd]
    have e1 : 95745399 - (dayNumOf v + 1) = 95745399 - dayNumOf v - 1 := by omega
    rw [e1]
  · rw [step_none _ 1 days_next_steps v h, p1, c1, c2]
    simp only [Res.ok.injEq, Prod.mk.injEq, Option.some.injEq]
    omega
  · intro item v' hs
    obtain ⟨e, hi, hd⟩ := step_some _ 7 weeks_next_steps v item v' h hs
    obtain ⟨_, q2⟩ := hint_pair_spec v' hi
    refine ⟨e, hi, hd, _, p2, ?_⟩
    rw [q2, hd]
    have e1 : (95745399 - (dayNumOf v + 7)) / 7 = (95745399 - dayNumOf v) / 7 - 1 := by omega
    rw [e1]
  · rw [step_none _ 7 weeks_next_steps v h, p2, c1, c2]
    simp only [Res.ok.injEq, Prod.mk.injEq, Option.some.injEq]
    omega

/-- forward iteration, the "exact length hint" clause in full: with enough calls the iterator
produces exactly as many items as both bounds of `size_hint` announce, then reports exhaustion -/
theorem iter_size_hint_forward_exact (v : Date) (fuel : Nat) (h : DateInv v) :
    (∃ n, DaysIter.size_hint_pair v = .ok (n, some n) ∧ (n < fuel →
      ∃ items, drain DaysIter.next fuel v = .ok (items, true) ∧ (items.length : Int) = n)) ∧
    (∃ n, WeeksIter.size_hint_pair v = .ok (n, some n) ∧ (n < fuel →
      ∃ items, drain WeeksIter.next fuel v = .ok (items, true) ∧ (items.length : Int) = n)) := by
  obtain ⟨p1, p2, _⟩ := iter_size_hint_pair v h
  obtain ⟨⟨items, fin, a, b, c, _⟩, _⟩ := iter_days_nth v fuel h
  obtain ⟨⟨items', fin', a', b', c', _⟩, _⟩ := iter_weeks_nth v fuel h
  refine ⟨⟨_, p1, ?_⟩, ⟨_, p2, ?_⟩⟩
  · intro hlt
    have hf : fin = true := c.mpr hlt
    subst hf
    exact ⟨items, a, by rw [b]; omega⟩
  · intro hlt
    have hf : fin' = true := c'.mpr hlt
    subst hf
    exact ⟨items', a', by rw [b']; omega⟩

/-- backward iteration (known finding F28), what does happen, for every valid cursor: `next_back`
returns the cursor and moves it one step toward `MIN`, and the hint — still the distance to `MAX` —
GROWS by one with every item; the number of items `next_back` still produces is the distance to
`MIN` (`dayNum − DN_MIN`, resp. a seventh of it) -/
theorem iter_back_hint (v : Date) (h : DateInv v) :
    (∀ item v', DaysIter.next_back v = .ok (some (item, v')) →
      item = v ∧ DateInv v' ∧ dayNumOf v' = dayNumOf v - 1 ∧
      ∃ n, DaysIter.size_hint_pair v = .ok (n, some n) ∧
        DaysIter.size_hint_pair v' = .ok (n + 1, some (n + 1))) ∧
    (∀ item v', WeeksIter.next_back v = .ok (some (item, v')) →
      item = v ∧ DateInv v' ∧ dayNumOf v' = dayNumOf v - 7 ∧
      ∃ n, WeeksIter.size_hint_pair v = .ok (n, some n) ∧
        WeeksIter.size_hint_pair v' = .ok (n + 1, some (n + 1))) ∧
    (∀ fuel : Nat, dayNumOf v - DN_MIN < fuel →
      ∃ items, drain DaysIter.next_back fuel v = .ok (items, true) ∧
        (items.length : Int) = dayNumOf v - DN_MIN) ∧
    (∀ fuel : Nat, (dayNumOf v - DN_MIN) / 7 < fuel →
      ∃ items, drain WeeksIter.next_back fuel v = .ok (items, true) ∧
        (items.length : Int) = (dayNumOf v - DN_MIN) / 7) := by
  obtain ⟨p1, p2⟩ := hint_pair_spec v h
  refine ⟨?_, ?_, ?_, ?_⟩
  · intro item v' hs
    obtain ⟨e, hi, hd⟩ := step_some _ (-1) days_back_steps v item v' h hs
    obtain ⟨q1, _⟩ := hint_pair_spec v' hi
    refine ⟨e, hi, by omega, _, p1, ?_⟩
    rw [q1, hd]
    have e1 : 95745399 - (dayNumOf v + -1) = 95745399 - dayNumOf v + 1 := by omega
    rw [e1]
  · intro item v' hs
    obtain ⟨e, hi, hd⟩ := step_some _ (-7) weeks_back_steps v item v' h hs
    obtain ⟨_, q2⟩ := hint_pair_spec v' hi
    refine ⟨e, hi, by omega, _, p2, ?_⟩
    rw [q2, hd]
    have e1 : (95745399 - (dayNumOf v + -7)) / 7 = (95745399 - dayNumOf v) / 7 + 1 := by omega
    rw [e1]
  · intro fuel hlt
    obtain ⟨_, ⟨items, fin, a, b, c, _⟩⟩ := iter_days_nth v fuel h
    have hf : fin = true := c.mpr hlt
    subst hf
    exact ⟨items, a, by rw [b]; omega⟩
  · intro fuel hlt
    obtain ⟨_, ⟨items, fin, a, b, c, _⟩⟩ := iter_weeks_nth v fuel h
    have hf : fin = true := c.mpr hlt
    subst hf
    exact ⟨items, a, by rw [b]; omega⟩

/-- F28 as a kernel-checked counterexample to "exact length hint" for backward iteration: at
`NaiveDate::MAX` both iterators announce `(0, Some(0))` and `next_back` goes on producing items -/
theorem iter_back_hint_counterexample :
    DaysIter.size_hint_pair Date.MAX = .ok (0, some 0) ∧
    drain DaysIter.next_back 3 Date.MAX =
      .ok ([Date.MAX, dateOfYo 262142 364, dateOfYo 262142 363], false) ∧
    WeeksIter.size_hint_pair Date.MAX = .ok (0, some 0) ∧
    drain WeeksIter.next_back 2 Date.MAX = .ok ([Date.MAX, dateOfYo 262142 358], false) ∧
    DaysIter.size_hint_pair (dateOfYo (-262143) 3) = .ok (191491526, some 191491526) ∧
    drain DaysIter.next_back 5 (dateOfYo (-262143) 3) =
      .ok ([dateOfYo (-262143) 3, dateOfYo (-262143) 2], true) := by decide +kernel

/-- exactly which cursors have a hint that is also right for a backward drain: the one day (the five
days, for weeks) halfway between `MIN` and `MAX` -/
theorem iter_back_hint_exact_iff (v : Date) (fuel : Nat) (items : List Date) (h : DateInv v) :
    (drain DaysIter.next_back fuel v = .ok (items, true) →
      (DaysIter.size_hint_pair v = .ok ((items.length : Int), some (items.length : Int)) ↔
        dayNumOf v = -365)) ∧
    (drain WeeksIter.next_back fuel v = .ok (items, true) →
      (WeeksIter.size_hint_pair v = .ok ((items.length : Int), some (items.length : Int)) ↔
        (-367 ≤ dayNumOf v ∧ dayNumOf v ≤ -363))) := by
  obtain ⟨c1, c2, _⟩ := dn_consts
  obtain ⟨p1, p2⟩ := hint_pair_spec v h
  have hb := dn_bounds v h
  constructor
  · intro hd
    obtain ⟨_, ⟨items', fin, a, b, c, _⟩⟩ := iter_days_nth v fuel h
    rw [hd] at a
    simp only [Res.ok.injEq, Prod.mk.injEq] at a
    obtain ⟨a1, a2⟩ := a
    subst a1; subst a2
    have hlt := c.mp rfl
    rw [p1]
    simp only [Res.ok.injEq, Prod.mk.injEq, Option.some.injEq]
    rw [c1] at b hlt
    omega
  · intro hd
    obtain ⟨_, ⟨items', fin, a, b, c, _⟩⟩ := iter_weeks_nth v fuel h
    rw [hd] at a
    simp only [Res.ok.injEq, Prod.mk.injEq] at a
    obtain ⟨a1, a2⟩ := a
    subst a1; subst a2
    have hlt := c.mp rfl
    rw [p2]
    simp only [Res.ok.injEq, Prod.mk.injEq, Option.some.injEq]
    rw [c1] at b hlt
    omega

/-- "exact length hint" for a backward drain, PARTIAL: holds only under the explicit hypothesis that
the cursor is the day halfway between the range ends (`iter_back_hint_exact_iff` shows the
hypothesis cannot be dropped; `iter_back_hint` says what holds without it) -/
theorem iter_hint_exact_backward_partial (v : Date) (fuel : Nat) (h : DateInv v)
    (hmid : dayNumOf v = -365) (hf : dayNumOf v - DN_MIN < fuel) :
    ∃ items, drain DaysIter.next_back fuel v = .ok (items, true) ∧
      DaysIter.size_hint_pair v = .ok ((items.length : Int), some (items.length : Int)) := by
  obtain ⟨items, a, _⟩ := (iter_back_hint v h).2.2.1 fuel hf
  exact ⟨items, a, ((iter_back_hint_exact_iff v fuel items h).1 a).mpr hmid⟩

example : DateInv (dateOfYo 262142 363) ∧ DateInv (dateOfYo 0 1) ∧ dayNumOf (dateOfYo 0 1) = -365 ∧
    DaysIter.size_hint_pair (dateOfYo 262142 363) = .ok (2, some 2) ∧
    DaysIter.next (dateOfYo 262142 363) = .ok (some (dateOfYo 262142 363, dateOfYo 262142 364)) ∧
    DaysIter.size_hint_pair (dateOfYo 262142 364) = .ok (1, some 1) ∧
    DaysIter.next Date.MAX = .ok none ∧
    WeeksIter.size_hint_pair (dateOfYo 262142 351) = .ok (2, some 2) ∧
    WeeksIter.next (dateOfYo 262142 359) = .ok none ∧
    WeeksIter.size_hint_pair (dateOfYo 262142 359) = .ok (0, some 0) ∧
    DaysIter.size_hint_pair Date.MIN = .ok (191491528, some 191491528) ∧
    DaysIter.size_hint_pair (dateOfYo 0 1) = .ok (95745764, some 95745764) := by decide +kernel

/-! ### interleaved `next` / `next_back` on one iterator value -/

/-- any script of `next` (`false`) and `next_back` (`true`) calls on one iterator, every valid start:
no panic; the dates returned are valid and their day numbers are those of a single cursor that a
forward call moves exactly 1 (7) days up and a backward call exactly 1 (7) days down, each call
returning the cursor it found, a call that would leave `[MIN, MAX]` returning `None` and leaving the
cursor (`specScript`, day numbers only).  Hence within a run of calls in one direction no day is
skipped or repeated; across a change of direction the two ends are NOT kept apart
(`iter_interleaved_repeats`). -/
theorem iter_interleaved (script : List Bool) (v : Date) (h : DateInv v) :
    (∃ items, runScript DaysIter.next DaysIter.next_back script v = .ok items ∧
      items.map (Option.map dayNumOf) = specScript 1 script (dayNumOf v) ∧
      ∀ x, some x ∈ items → DateInv x) ∧
    (∃ items, runScript WeeksIter.next WeeksIter.next_back script v = .ok items ∧
      items.map (Option.map dayNumOf) = specScript 7 script (dayNumOf v) ∧
      ∀ x, some x ∈ items → DateInv x) :=
  ⟨runScript_spec _ _ 1 days_next_steps days_back_steps script v h,
   runScript_spec _ _ 7 weeks_next_steps weeks_back_steps script v h⟩

/-- `next, next_back, next` returns `d, d+1, d`: the iterators are one cursor, not two ends that
meet (same root as F28); a `None` from `next` at `MAX` does not stop `next_back` -/
theorem iter_interleaved_repeats :
    runScript DaysIter.next DaysIter.next_back [false, true, false] (dateOfYo 2024 1) =
      .ok [some (dateOfYo 2024 1), some (dateOfYo 2024 2), some (dateOfYo 2024 1)] ∧
    runScript WeeksIter.next WeeksIter.next_back [false, true, true] (dateOfYo 2024 1) =
      .ok [some (dateOfYo 2024 1), some (dateOfYo 2024 8), some (dateOfYo 2024 1)] ∧
    runScript DaysIter.next DaysIter.next_back [false, false, true, true] (dateOfYo 262142 364) =
      .ok [some (dateOfYo 262142 364), none, some Date.MAX, some (dateOfYo 262142 364)] ∧
    specScript 1 [false, true, false] 100 = [some 100, some 101, some 100] := by decide +kernel

/-! ### `NaiveDateTime ± Days` -/

/-- `NaiveDateTime::checked_add_days / checked_sub_days`, every valid date-time (leap-second
representations included), every `u64` count: the date part moves by exactly that many days or the
call is refused exactly when that day is outside the range; the time of day is kept, so the instant
moves by exactly `c` × 86 400 s; no panic -/
theorem ndt_days_exact (dt : NaiveDT) (c : Int) (h : NDTInv dt) (hc : 0 ≤ c ∧ c ≤ 18446744073709551615) :
    (∃ r, NaiveDT.checked_add_days dt c = .ok r ∧ IsDayShift dt.date c (r.map (·.date)) ∧
      ∀ x, r = some x → x.time = dt.time ∧ NDTInv x ∧ instNs x = instNs dt + c * NS_PER_DAY) ∧
    (∃ r, NaiveDT.checked_sub_days dt c = .ok r ∧ IsDayShift dt.date (-c) (r.map (·.date)) ∧
      ∀ x, r = some x → x.time = dt.time ∧ NDTInv x ∧ instNs x = instNs dt - c * NS_PER_DAY) :=
  ⟨ndt_add_days_spec dt c h hc, ndt_sub_days_spec dt c h hc⟩

/-- the operators `NaiveDateTime + Days` / `- Days`: the value of the checked form, or a panic
exactly when the day is outside the range -/
theorem ndt_days_operator_exact (dt : NaiveDT) (c : Int) (h : NDTInv dt)
    (hc : 0 ≤ c ∧ c ≤ 18446744073709551615) :
    (DN_MIN ≤ dayNumOf dt.date + c ∧ dayNumOf dt.date + c ≤ DN_MAX →
      ∃ x, NaiveDT.add_days_op dt c = .ok x ∧ NDTInv x ∧ dayNumOf x.date = dayNumOf dt.date + c ∧
        x.time = dt.time) ∧
    (¬ (DN_MIN ≤ dayNumOf dt.date + c ∧ dayNumOf dt.date + c ≤ DN_MAX) →
      NaiveDT.add_days_op dt c = .panic) ∧
    (DN_MIN ≤ dayNumOf dt.date + -c ∧ dayNumOf dt.date + -c ≤ DN_MAX →
      ∃ x, NaiveDT.sub_days_op dt c = .ok x ∧ NDTInv x ∧ dayNumOf x.date = dayNumOf dt.date + -c ∧
        x.time = dt.time) ∧
    (¬ (DN_MIN ≤ dayNumOf dt.date + -c ∧ dayNumOf dt.date + -c ≤ DN_MAX) →
      NaiveDT.sub_days_op dt c = .panic) := by
  obtain ⟨r, a0, a1, a2⟩ := ndt_add_days_spec dt c h hc
  obtain ⟨r', b0, b1, b2⟩ := ndt_sub_days_spec dt c h hc
  unfold NaiveDT.add_days_op NaiveDT.sub_days_op
  rw [a0, b0]
  refine ⟨?_, ?_, ?_, ?_⟩
  · intro hin
    cases r with
    | none => have := a1.1.mp rfl; omega
    | some x =>
      obtain ⟨t, i, _⟩ := a2 x rfl
      exact ⟨x, rfl, i, (a1.2 x.date rfl).2, t⟩
  · intro hout
    cases r with
    | none => rfl
    | some x =>
      exfalso
      have hx : (Option.map (·.date) (some x) : Option Date) ≠ none := by simp
      exact hx (a1.1.mpr (by omega))
  · intro hin
    cases r' with
    | none => have := b1.1.mp rfl; omega
    | some x =>
      obtain ⟨t, i, _⟩ := b2 x rfl
      exact ⟨x, rfl, i, (b1.2 x.date rfl).2, t⟩
  · intro hout
    cases r' with
    | none => rfl
    | some x =>
      exfalso
      have hx : (Option.map (·.date) (some x) : Option Date) ≠ none := by simp
      exact hx (b1.1.mpr (by omega))

example : NDTInv ⟨dateOfYo 2024 60, ⟨86399, 1999999999⟩⟩ ∧
    NaiveDT.checked_add_days ⟨dateOfYo 2024 60, ⟨86399, 1999999999⟩⟩ 366 =
      .ok (some ⟨dateOfYo 2025 60, ⟨86399, 1999999999⟩⟩) ∧
    NaiveDT.checked_add_days NaiveDT.MIN 191491528 = .ok (some ⟨Date.MAX, ⟨0, 0⟩⟩) ∧
    NaiveDT.checked_add_days NaiveDT.MIN 191491529 = .ok none ∧
    NaiveDT.checked_add_days NaiveDT.MIN 4294967296 = .ok none ∧
    NaiveDT.checked_sub_days NaiveDT.MAX 191491528 = .ok (some ⟨Date.MIN, ⟨86399, 999999999⟩⟩) ∧
    NaiveDT.checked_sub_days NaiveDT.MAX 18446744073709551615 = .ok none ∧
    NaiveDT.add_days_op NaiveDT.MAX 1 = .panic ∧
    NaiveDT.sub_days_op NaiveDT.MAX 1 = .ok ⟨dateOfYo 262142 364, ⟨86399, 999999999⟩⟩ := by decide +kernel

/-! ### operators in range terms: the exact value, or a panic exactly when it is not representable -/

/-- `NaiveDateTime - TimeDelta` (companion of `operator_exact`) -/
theorem operator_exact_sub (dt : NaiveDT) (δ : Delta) (hdt : NDTInv dt) (hnl : NonLeap dt) (hδ : DInv δ) :
    (NS_MIN ≤ instNs dt + -(ns δ) ∧ instNs dt + -(ns δ) ≤ NS_MAX_DT →
      ∃ x, NaiveDT.sub dt δ = .ok x ∧ NDTInv x ∧ NonLeap x ∧ instNs x = instNs dt + -(ns δ)) ∧
    (¬ (NS_MIN ≤ instNs dt + -(ns δ) ∧ instNs dt + -(ns δ) ≤ NS_MAX_DT) → NaiveDT.sub dt δ = .panic) :=
  expect_instShift dt (-(ns δ)) _ (dt_sub_exact dt δ hdt hnl hδ)

/-- `NaiveDate ± TimeDelta` and `NaiveDate ± Days`: the date exactly that many whole days away, or a
panic exactly when that day is outside `[MIN, MAX]` -/
theorem date_operator_exact (d : Date) (δ : Delta) (c : Int) (hd : DateInv d) (hδ : DInv δ)
    (hc : 0 ≤ c ∧ c ≤ 18446744073709551615) :
    ((DN_MIN ≤ dayNumOf d + wholeDays (ns δ) ∧ dayNumOf d + wholeDays (ns δ) ≤ DN_MAX →
        ∃ x, Date.add d δ = .ok x ∧ DateInv x ∧ dayNumOf x = dayNumOf d + wholeDays (ns δ)) ∧
      (¬ (DN_MIN ≤ dayNumOf d + wholeDays (ns δ) ∧ dayNumOf d + wholeDays (ns δ) ≤ DN_MAX) →
        Date.add d δ = .panic)) ∧
    ((DN_MIN ≤ dayNumOf d + -(wholeDays (ns δ)) ∧ dayNumOf d + -(wholeDays (ns δ)) ≤ DN_MAX →
        ∃ x, Date.sub d δ = .ok x ∧ DateInv x ∧ dayNumOf x = dayNumOf d + -(wholeDays (ns δ))) ∧
      (¬ (DN_MIN ≤ dayNumOf d + -(wholeDays (ns δ)) ∧ dayNumOf d + -(wholeDays (ns δ)) ≤ DN_MAX) →
        Date.sub d δ = .panic)) ∧
    ((DN_MIN ≤ dayNumOf d + c ∧ dayNumOf d + c ≤ DN_MAX →
        ∃ x, Date.add_days_op d c = .ok x ∧ DateInv x ∧ dayNumOf x = dayNumOf d + c) ∧
      (¬ (DN_MIN ≤ dayNumOf d + c ∧ dayNumOf d + c ≤ DN_MAX) → Date.add_days_op d c = .panic)) ∧
    ((DN_MIN ≤ dayNumOf d + -c ∧ dayNumOf d + -c ≤ DN_MAX →
        ∃ x, Date.sub_days_op d c = .ok x ∧ DateInv x ∧ dayNumOf x = dayNumOf d + -c) ∧
      (¬ (DN_MIN ≤ dayNumOf d + -c ∧ dayNumOf d + -c ≤ DN_MAX) → Date.sub_days_op d c = .panic)) := by
  refine ⟨?_, ?_, ?_, ?_⟩
  · rw [date_add_eq]; exact expect_dayShift d _ _ (date_add_signed_spec d δ hd hδ)
  · rw [date_sub_eq]; exact expect_dayShift d _ _ (date_sub_signed_spec d δ hd hδ)
  · exact expect_dayShift d _ _ (checked_add_days_spec d c hd hc)
  · exact expect_dayShift d _ _ (checked_sub_days_spec d c hd hc)

/-- `DateTime<Tz> ± TimeDelta` and `+=` / `-=` (which have their own source body): the value at
exactly instant ± `ns δ` with the offset unchanged, or a panic exactly when that instant is not
representable — the offset does not enter the condition -/
theorem zoned_operator_exact (z : Zoned) (δ : Delta) (hz : NDTInv z.utc) (hnl : NonLeap z.utc) (hδ : DInv δ) :
    ((NS_MIN ≤ zonedInstNs z + ns δ ∧ zonedInstNs z + ns δ ≤ NS_MAX_DT →
        ∃ x, Zoned.add z δ = .ok x ∧ Zoned.add_assign z δ = .ok x ∧ x.off = z.off ∧ NDTInv x.utc ∧
          NonLeap x.utc ∧ zonedInstNs x = zonedInstNs z + ns δ) ∧
      (¬ (NS_MIN ≤ zonedInstNs z + ns δ ∧ zonedInstNs z + ns δ ≤ NS_MAX_DT) →
        Zoned.add z δ = .panic ∧ Zoned.add_assign z δ = .panic)) ∧
    ((NS_MIN ≤ zonedInstNs z + -(ns δ) ∧ zonedInstNs z + -(ns δ) ≤ NS_MAX_DT →
        ∃ x, Zoned.sub z δ = .ok x ∧ Zoned.sub_assign z δ = .ok x ∧ x.off = z.off ∧ NDTInv x.utc ∧
          NonLeap x.utc ∧ zonedInstNs x = zonedInstNs z + -(ns δ)) ∧
      (¬ (NS_MIN ≤ zonedInstNs z + -(ns δ) ∧ zonedInstNs z + -(ns δ) ≤ NS_MAX_DT) →
        Zoned.sub z δ = .panic ∧ Zoned.sub_assign z δ = .panic)) := by
  obtain ⟨a1, a2⟩ := expect_instShift z.utc (ns δ) _ (dt_add_exact z.utc δ hz hnl hδ)
  obtain ⟨b1, b2⟩ := expect_instShift z.utc (-(ns δ)) _ (dt_sub_exact z.utc δ hz hnl hδ)
  have ea : Zoned.add z δ = (expectSome (z.utc.checked_add_signed δ)).bind fun u => .ok ⟨u, z.off⟩ := by
    unfold Zoned.add; rw [zoned_add_eq, expect_zoned]
  have es : Zoned.sub z δ = (expectSome (z.utc.checked_sub_signed δ)).bind fun u => .ok ⟨u, z.off⟩ := by
    unfold Zoned.sub; rw [zoned_sub_eq, expect_zoned]
  rw [zoned_add_assign_eq, zoned_sub_assign_eq, ea, es]
  unfold zonedInstNs
  refine ⟨⟨?_, ?_⟩, ⟨?_, ?_⟩⟩
  · intro hin
    obtain ⟨x, e, i1, i2, i3⟩ := a1 hin
    rw [e]
    exact ⟨⟨x, z.off⟩, rfl, rfl, rfl, i1, i2, i3⟩
  · intro hout; rw [a2 hout]; exact ⟨rfl, rfl⟩
  · intro hin
    obtain ⟨x, e, i1, i2, i3⟩ := b1 hin
    rw [e]
    exact ⟨⟨x, z.off⟩, rfl, rfl, rfl, i1, i2, i3⟩
  · intro hout; rw [b2 hout]; exact ⟨rfl, rfl⟩

/-- the assign forms are the operator forms: `NaiveDate`, `NaiveDateTime` by their source text
(`*self = self.add(rhs)`), `DateTime<Tz>` — whose `+=` / `-=` unwrap the checked sum of the stored UTC
value and rebuild the value with `from_utc_datetime` — by proof -/
theorem assign_forms_agree (d : Date) (dt : NaiveDT) (z : Zoned) (δ : Delta) (s n : Int) :
    Date.add_assign d δ = Date.add d δ ∧ Date.sub_assign d δ = Date.sub d δ ∧
    NaiveDT.add_assign dt δ = NaiveDT.add dt δ ∧ NaiveDT.sub_assign dt δ = NaiveDT.sub dt δ ∧
    NaiveDT.add_assign_std dt s n = NaiveDT.add_std dt s n ∧
    NaiveDT.sub_assign_std dt s n = NaiveDT.sub_std dt s n ∧
    Zoned.add_assign z δ = Zoned.add z δ ∧ Zoned.sub_assign z δ = Zoned.sub z δ ∧
    Zoned.add_assign_std z s n = Zoned.add_std z s n ∧
    Zoned.sub_assign_std z s n = Zoned.sub_std z s n := by
  refine ⟨rfl, rfl, rfl, rfl, rfl, rfl, zoned_add_assign_eq z δ, zoned_sub_assign_eq z δ, ?_, ?_⟩
  · unfold Zoned.add_assign_std Zoned.add_std
    cases Delta.from_std s n with
    | none => rfl
    | some x => exact zoned_add_assign_eq z x
  · unfold Zoned.sub_assign_std Zoned.sub_std
    cases Delta.from_std s n with
    | none => rfl
    | some x => exact zoned_sub_assign_eq z x

example : Zoned.add_assign ⟨NaiveDT.MAX, -86399⟩ ⟨0, 1⟩ = .panic ∧
    Zoned.sub_assign ⟨NaiveDT.MAX, 86399⟩ ⟨0, 1⟩ = .ok ⟨⟨Date.MAX, ⟨86399, 999999998⟩⟩, 86399⟩ ∧
    Zoned.add ⟨NaiveDT.MIN, -86399⟩ ⟨16544868105599, 999999999⟩ = .ok ⟨NaiveDT.MAX, -86399⟩ ∧
    Zoned.sub ⟨NaiveDT.MIN, 3600⟩ ⟨0, 1⟩ = .panic ∧
    NaiveDT.sub NaiveDT.MIN ⟨0, 1⟩ = .panic ∧
    NaiveDT.sub NaiveDT.MAX ⟨16544868105599, 999999999⟩ = .ok NaiveDT.MIN ∧
    Date.add Date.MAX ⟨86399, 999999999⟩ = .ok Date.MAX ∧ Date.add Date.MAX ⟨86400, 0⟩ = .panic ∧
    Date.sub Date.MIN ⟨-86400, 0⟩ = .ok (dateOfYo (-262143) 2) ∧ Date.sub Date.MIN ⟨86400, 0⟩ = .panic := by
  decide +kernel

/-! ### `std::time::Duration` operands -/

/-- the `Duration` operators are `expect(TimeDelta::from_std)` followed by the `TimeDelta` operator
(C06 `std_spec`: `from_std` is exact or refused) -/
theorem add_std_eq (dt : NaiveDT) (z : Zoned) (s n : Int) :
    (NaiveDT.add_std dt s n = match Delta.from_std s n with | some d => NaiveDT.add dt d | none => .panic) ∧
    (NaiveDT.sub_std dt s n = match Delta.from_std s n with | some d => NaiveDT.sub dt d | none => .panic) ∧
    (Zoned.add_std z s n = match Delta.from_std s n with | some d => Zoned.add z d | none => .panic) ∧
    (Zoned.sub_std z s n = match Delta.from_std s n with | some d => Zoned.sub z d | none => .panic) :=
  ⟨rfl, rfl, rfl, rfl⟩

/-- every valid non-leap date-time, every `std::time::Duration` (`u64` seconds, nanoseconds below
10⁹): `dt ± duration` is the date-time exactly `s·10⁹ + n` ns later / earlier, and the operator
panics exactly when the duration exceeds the `TimeDelta` range or the instant is not representable;
the same for `DateTime<Tz>` with the offset kept -/
theorem std_operator_exact (dt : NaiveDT) (z : Zoned) (s n : Int) (hdt : NDTInv dt) (hnl : NonLeap dt)
    (hz : NDTInv z.utc) (hzl : NonLeap z.utc)
    (hs : 0 ≤ s ∧ s ≤ 18446744073709551615) (hn : 0 ≤ n ∧ n < 1000000000) :
    ((nsInRange (s * 1000000000 + n) ∧ instNs dt + (s * 1000000000 + n) ≤ NS_MAX_DT →
        ∃ x, NaiveDT.add_std dt s n = .ok x ∧ NDTInv x ∧ NonLeap x ∧
          instNs x = instNs dt + (s * 1000000000 + n)) ∧
      (¬ (nsInRange (s * 1000000000 + n) ∧ instNs dt + (s * 1000000000 + n) ≤ NS_MAX_DT) →
        NaiveDT.add_std dt s n = .panic)) ∧
    ((nsInRange (s * 1000000000 + n) ∧ NS_MIN ≤ instNs dt - (s * 1000000000 + n) →
        ∃ x, NaiveDT.sub_std dt s n = .ok x ∧ NDTInv x ∧ NonLeap x ∧
          instNs x = instNs dt - (s * 1000000000 + n)) ∧
      (¬ (nsInRange (s * 1000000000 + n) ∧ NS_MIN ≤ instNs dt - (s * 1000000000 + n)) →
        NaiveDT.sub_std dt s n = .panic)) ∧
    ((nsInRange (s * 1000000000 + n) ∧ zonedInstNs z + (s * 1000000000 + n) ≤ NS_MAX_DT →
        ∃ x, Zoned.add_std z s n = .ok x ∧ x.off = z.off ∧ NDTInv x.utc ∧ NonLeap x.utc ∧
          zonedInstNs x = zonedInstNs z + (s * 1000000000 + n)) ∧
      (¬ (nsInRange (s * 1000000000 + n) ∧ zonedInstNs z + (s * 1000000000 + n) ≤ NS_MAX_DT) →
        Zoned.add_std z s n = .panic)) ∧
    ((nsInRange (s * 1000000000 + n) ∧ NS_MIN ≤ zonedInstNs z - (s * 1000000000 + n) →
        ∃ x, Zoned.sub_std z s n = .ok x ∧ x.off = z.off ∧ NDTInv x.utc ∧ NonLeap x.utc ∧
          zonedInstNs x = zonedInstNs z - (s * 1000000000 + n)) ∧
      (¬ (nsInRange (s * 1000000000 + n) ∧ NS_MIN ≤ zonedInstNs z - (s * 1000000000 + n)) →
        Zoned.sub_std z s n = .panic)) := by
  have ib := inst_bounds dt hdt hnl
  have zb := inst_bounds z.utc hz hzl
  obtain ⟨k1, k2, _⟩ := ns_consts
  by_cases hr : nsInRange (s * 1000000000 + n)
  · obtain ⟨e, di, dn⟩ := from_std_some s n hs hn hr
    obtain ⟨a1, a2⟩ := operator_exact dt ⟨s, n⟩ hdt hnl di
    obtain ⟨b1, b2⟩ := operator_exact_sub dt ⟨s, n⟩ hdt hnl di
    obtain ⟨⟨c1, c2⟩, ⟨d1, d2⟩⟩ := zoned_operator_exact z ⟨s, n⟩ hz hzl di
    rw [dn] at a1 a2 b1 b2 c1 c2 d1 d2
    unfold NaiveDT.add_std NaiveDT.sub_std Zoned.add_std Zoned.sub_std
    rw [e]
    dsimp only
    unfold zonedInstNs at *
    refine ⟨⟨?_, ?_⟩, ⟨?_, ?_⟩, ⟨?_, ?_⟩, ⟨?_, ?_⟩⟩
    · intro hin; exact a1 ⟨by omega, hin.2⟩
    · intro hout; apply a2; intro hc; exact hout ⟨hr, hc.2⟩
    · intro hin
      obtain ⟨x, q0, q1, q2, q3⟩ := b1 ⟨by omega, by omega⟩
      exact ⟨x, q0, q1, q2, by omega⟩
    · intro hout; apply b2; intro hc; exact hout ⟨hr, by omega⟩
    · intro hin
      obtain ⟨x, q0, _, q1, q2, q3, q4⟩ := c1 ⟨by omega, hin.2⟩
      exact ⟨x, q0, q1, q2, q3, q4⟩
    · intro hout; apply (c2 _).1; intro hc; exact hout ⟨hr, hc.2⟩
    · intro hin
      obtain ⟨x, q0, _, q1, q2, q3, q4⟩ := d1 ⟨by omega, by omega⟩
      exact ⟨x, q0, q1, q2, q3, by omega⟩
    · intro hout; apply (d2 _).1; intro hc; exact hout ⟨hr, by omega⟩
  · have e := from_std_none s n hs hn hr
    unfold NaiveDT.add_std NaiveDT.sub_std Zoned.add_std Zoned.sub_std
    rw [e]
    refine ⟨⟨?_, ?_⟩, ⟨?_, ?_⟩, ⟨?_, ?_⟩, ⟨?_, ?_⟩⟩
    all_goals first
      | (intro hin; exact absurd hin.1 hr)
      | (intro _; rfl)

example : NaiveDT.add_std ⟨dateOfYo 2024 1, ⟨0, 0⟩⟩ 86400 1 = .ok ⟨dateOfYo 2024 2, ⟨0, 1⟩⟩ ∧
    NaiveDT.add_std NaiveDT.MIN 16544868105599 999999999 = .ok NaiveDT.MAX ∧
    NaiveDT.add_std NaiveDT.MIN 16544868105600 0 = .panic ∧               -- 1 ns past MAX
    NaiveDT.add_std NaiveDT.MIN 9223372036854775 807000001 = .panic ∧       -- beyond TimeDelta::MAX
    NaiveDT.add_std NaiveDT.MIN 18446744073709551615 0 = .panic ∧
    NaiveDT.sub_std NaiveDT.MIN 0 1 = .panic ∧ NaiveDT.add_std NaiveDT.MAX 0 1 = .panic ∧
    Zoned.sub_std ⟨NaiveDT.MAX, 86399⟩ 0 1 = .ok ⟨⟨Date.MAX, ⟨86399, 999999998⟩⟩, 86399⟩ := by
  decide +kernel

/-! ### order and equality of zone-aware values -/

/-- `Ord`, `PartialOrd` and `PartialEq` of `DateTime<Tz>` are those of the instants: the offsets do
not enter (last conjunct: for every pair of offsets).  The model has ONE zone-aware type, so the
comparison between two different zone TYPES (`impl PartialOrd<DateTime<Tz2>> for DateTime<Tz>`,
e.g. `DateTime<FixedOffset>` against `DateTime<Utc>` or `DateTime<Local>`) is not a separate Lean
statement: that those impls read `self.datetime` / `other.datetime` only is pinned source text and a
harness fact (c03.rs: `z.partial_cmp(&wu)`, `z == wu`, and the `DateTime<Local>` stream) -/
theorem zoned_cmp_instant_order (a b : Zoned) (ha : NDTInv a.utc) (hb : NDTInv b.utc)
    (la : NonLeap a.utc) (lb : NonLeap b.utc) :
    Zoned.cmp a b = sgn (zonedInstNs a - zonedInstNs b) ∧
    Zoned.partial_cmp a b = some (sgn (zonedInstNs a - zonedInstNs b)) ∧
    (Zoned.cmp a b = -1 ↔ zonedInstNs a < zonedInstNs b) ∧
    (Zoned.cmp a b = 0 ↔ zonedInstNs a = zonedInstNs b) ∧
    (Zoned.cmp a b = 1 ↔ zonedInstNs a > zonedInstNs b) ∧
    (Zoned.eq a b = true ↔ zonedInstNs a = zonedInstNs b) ∧
    (∀ oa ob, Zoned.cmp ⟨a.utc, oa⟩ ⟨b.utc, ob⟩ = Zoned.cmp a b) := by
  have hc : Zoned.cmp a b = sgn (zonedInstNs a - zonedInstNs b) := dt_cmp_spec a.utc b.utc ha hb la lb
  refine ⟨hc, by unfold Zoned.partial_cmp; exact congrArg some hc, ?_, ?_, ?_, ?_, fun _ _ => rfl⟩
  · rw [hc]; unfold sgn; repeat' split <;> omega
  · rw [hc]; unfold sgn; repeat' split <;> omega
  · rw [hc]; unfold sgn; repeat' split <;> omega
  · unfold Zoned.eq zonedInstNs
    rw [decide_eq_true_iff]
    constructor
    · intro h; rw [h]
    · intro h; exact inst_inj a.utc b.utc ha hb la lb h

example : Zoned.cmp ⟨⟨dateOfYo 2024 1, ⟨0, 0⟩⟩, 86399⟩ ⟨⟨dateOfYo 2024 1, ⟨0, 1⟩⟩, -86399⟩ = -1 ∧
    Zoned.partial_cmp ⟨NaiveDT.MAX, -86399⟩ ⟨NaiveDT.MIN, 86399⟩ = some 1 ∧
    Zoned.eq ⟨⟨dateOfYo 2024 1, ⟨0, 0⟩⟩, 3600⟩ ⟨⟨dateOfYo 2024 1, ⟨0, 0⟩⟩, -3600⟩ = true := by decide +kernel

/-- fused: once `next` (`next_back`) has returned `None` it returns `None` on every further call — the
refused call leaves the cursor where it was (`FusedIterator`) -/
theorem iter_fused (v : Date) (k : Nat) :
    (DaysIter.next v = .ok none →
      runScript DaysIter.next DaysIter.next_back (List.replicate k false) v = .ok (List.replicate k none)) ∧
    (DaysIter.next_back v = .ok none →
      runScript DaysIter.next DaysIter.next_back (List.replicate k true) v = .ok (List.replicate k none)) ∧
    (WeeksIter.next v = .ok none →
      runScript WeeksIter.next WeeksIter.next_back (List.replicate k false) v = .ok (List.replicate k none)) ∧
    (WeeksIter.next_back v = .ok none →
      runScript WeeksIter.next WeeksIter.next_back (List.replicate k true) v = .ok (List.replicate k none)) :=
  ⟨fun h => fused_fwd _ _ v h k, fun h => fused_back _ _ v h k,
   fun h => fused_fwd _ _ v h k, fun h => fused_back _ _ v h k⟩

example : DaysIter.next Date.MAX = .ok none ∧ WeeksIter.next_back (dateOfYo (-262143) 7) = .ok none ∧
    runScript DaysIter.next DaysIter.next_back [false, false, false] Date.MAX = .ok [none, none, none] := by
  decide +kernel

/-- the cursor after `k` successful forward (backward) calls — what `Iterator::nth(k)` /
`advance_by(k)` (std default methods: `k` calls of `next`) leave behind: the date exactly `k`
(`7k`) days later (earlier), or exhaustion exactly when that day is outside the range -/
theorem iter_nth_state (v : Date) (k : Nat) (h : DateInv v) :
    (∃ r, stateAfter DaysIter.next k v = .ok r ∧ IsDayShift v k r) ∧
    (∃ r, stateAfter DaysIter.next_back k v = .ok r ∧ IsDayShift v (-k) r) ∧
    (∃ r, stateAfter WeeksIter.next k v = .ok r ∧ IsDayShift v (7 * k) r) ∧
    (∃ r, stateAfter WeeksIter.next_back k v = .ok r ∧ IsDayShift v (-(7 * k)) r) := by
  obtain ⟨r1, a1, b1⟩ := stateAfter_spec _ 1 (by omega) days_next_steps k v h
  obtain ⟨r2, a2, b2⟩ := stateAfter_spec _ (-1) (by omega) days_back_steps k v h
  obtain ⟨r3, a3, b3⟩ := stateAfter_spec _ 7 (by omega) weeks_next_steps k v h
  obtain ⟨r4, a4, b4⟩ := stateAfter_spec _ (-7) (by omega) weeks_back_steps k v h
  exact ⟨⟨r1, a1, dshift_congr v _ _ r1 (by omega) b1⟩, ⟨r2, a2, dshift_congr v _ _ r2 (by omega) b2⟩,
    ⟨r3, a3, dshift_congr v _ _ r3 (by omega) b3⟩, ⟨r4, a4, dshift_congr v _ _ r4 (by omega) b4⟩⟩

/-- `count()` and `last()` of a forward iterator (std default methods: drain with `next`): the number
of items is the length hint, and the last item is the last day (week step) before `NaiveDate::MAX`
is reached: day number `dayNum start + (hint − 1)` (`+ 7·(hint − 1)`) -/
theorem iter_count_last (v : Date) (fuel : Nat) (h : DateInv v) (hf : DN_MAX - dayNumOf v < fuel) :
    (∃ items, drain DaysIter.next fuel v = .ok (items, true) ∧
      DaysIter.size_hint_pair v = .ok ((items.length : Int), some (items.length : Int)) ∧
      ∀ (hne : items ≠ []), DateInv (items.getLast hne) ∧ dayNumOf (items.getLast hne) = DN_MAX - 1) ∧
    (∃ items, drain WeeksIter.next fuel v = .ok (items, true) ∧
      WeeksIter.size_hint_pair v = .ok ((items.length : Int), some (items.length : Int)) ∧
      ∀ (hne : items ≠ []), DateInv (items.getLast hne) ∧
        dayNumOf (items.getLast hne) = dayNumOf v + 7 * ((DN_MAX - dayNumOf v) / 7 - 1)) := by
  obtain ⟨p1, p2, p3, _⟩ := iter_size_hint_pair v h
  obtain ⟨⟨items, fin, a, b, c, d⟩, _⟩ := iter_days_nth v fuel h
  obtain ⟨⟨items', fin', a', b', c', d'⟩, _⟩ := iter_weeks_nth v fuel h
  have hfin : fin = true := c.mpr hf
  have hfin' : fin' = true := c'.mpr (by omega)
  subst hfin; subst hfin'
  have hl : (items.length : Int) = DN_MAX - dayNumOf v := by rw [b]; omega
  have hl' : (items'.length : Int) = (DN_MAX - dayNumOf v) / 7 := by rw [b']; omega
  refine ⟨⟨items, a, by rw [hl]; exact p1, ?_⟩, ⟨items', a', by rw [hl']; exact p2, ?_⟩⟩
  · intro hne
    have hpos : 0 < items.length := List.length_pos_iff.mpr hne
    rw [List.getLast_eq_getElem]
    obtain ⟨q1, q2⟩ := d (items.length - 1) (by omega)
    refine ⟨q1, ?_⟩
    rw [q2]; omega
  · intro hne
    have hpos : 0 < items'.length := List.length_pos_iff.mpr hne
    rw [List.getLast_eq_getElem]
    obtain ⟨q1, q2⟩ := d' (items'.length - 1) (by omega)
    refine ⟨q1, ?_⟩
    rw [q2]; omega

example : stateAfter DaysIter.next 2 (dateOfYo 262142 363) = .ok (some Date.MAX) ∧
    stateAfter DaysIter.next 3 (dateOfYo 262142 363) = .ok none ∧
    stateAfter WeeksIter.next_back 1 (dateOfYo (-262143) 8) = .ok (some Date.MIN) ∧
    stateAfter WeeksIter.next_back 2 (dateOfYo (-262143) 8) = .ok none := by decide +kernel

/-- the order of zone-aware values for ALL valid operands, leap-second representations included:
lexicographic on (whole seconds since the epoch, nanosecond field) — for non-leap operands this is
the order of instants (`zoned_cmp_instant_order`); a leap-second representation `:59.1xxxxxxxxx`
sorts after every `:59.0…` and before `:00` of the next minute -/
theorem zoned_cmp_general (a b : Zoned) (ha : NDTInv a.utc) (hb : NDTInv b.utc) :
    Zoned.cmp a b =
      sgn ((instSecs a.utc - instSecs b.utc) * 2000000000 + (a.utc.time.frac - b.utc.time.frac)) ∧
    NaiveDT.cmp a.utc b.utc = Zoned.cmp a b :=
  ⟨dt_cmp_general a.utc b.utc ha hb, rfl⟩

example : Zoned.cmp ⟨⟨dateOfYo 2016 366, ⟨86399, 1500000000⟩⟩, 0⟩ ⟨⟨dateOfYo 2017 1, ⟨0, 0⟩⟩, 3600⟩ = -1 ∧
    Zoned.cmp ⟨⟨dateOfYo 2016 366, ⟨86399, 1500000000⟩⟩, 0⟩ ⟨⟨dateOfYo 2016 366, ⟨86399, 999999999⟩⟩, 0⟩ = 1 := by
  decide +kernel

/-! ### range ends -/

/-- `DateTime<FixedOffset>` at the range ends: whatever the offset (even when the wall-clock reading
lies outside the `NaiveDateTime` range), the last representable instant refuses every positive
duration and the first every negative one, steps inside the range land on the stated instant (the
second conjunct gives the instants only; `zoned_range_ends_exact` gives the full `IsInstShift`
statement — valid, non-leap, unique), and the distance between the ends is the full range -/
theorem zoned_range_ends (off off' : Int) (δ : Delta) (hδ : DInv δ) :
    (0 < ns δ → Zoned.checked_add_signed ⟨NaiveDT.MAX, off⟩ δ = .ok none ∧
      Zoned.checked_sub_signed ⟨NaiveDT.MIN, off⟩ δ = .ok none) ∧
    (0 ≤ ns δ ∧ ns δ ≤ NS_MAX_DT - NS_MIN →
      ∃ x y, Zoned.checked_sub_signed ⟨NaiveDT.MAX, off⟩ δ = .ok (some ⟨x, off⟩) ∧
        instNs x = NS_MAX_DT - ns δ ∧
        Zoned.checked_add_signed ⟨NaiveDT.MIN, off⟩ δ = .ok (some ⟨y, off⟩) ∧
        instNs y = NS_MIN + ns δ) ∧
    Zoned.signed_duration_since ⟨NaiveDT.MAX, off⟩ ⟨NaiveDT.MIN, off'⟩ = .ok ⟨16544868105599, 999999999⟩ ∧
    Zoned.signed_duration_since ⟨NaiveDT.MIN, off⟩ ⟨NaiveDT.MAX, off'⟩ = .ok ⟨-16544868105600, 1⟩ := by
  obtain ⟨_, _, _, _, i1, i2, l1, l2, _⟩ := range_ends
  obtain ⟨k1, k2, _⟩ := ns_consts
  have m1 : instNs NaiveDT.MAX = NS_MAX_DT := rfl
  have m2 : instNs NaiveDT.MIN = NS_MIN := rfl
  refine ⟨?_, ?_,
    by show NaiveDT.signed_duration_since NaiveDT.MAX NaiveDT.MIN = _; decide +kernel,
    by show NaiveDT.signed_duration_since NaiveDT.MIN NaiveDT.MAX = _; decide +kernel⟩
  · intro hpos
    obtain ⟨⟨r, a0, a1, _⟩, _, _⟩ := zoned_same_instant ⟨NaiveDT.MAX, off⟩ δ i2 l2 hδ
    obtain ⟨_, ⟨r', b0, b1, _⟩, _⟩ := zoned_same_instant ⟨NaiveDT.MIN, off⟩ δ i1 l1 hδ
    dsimp only at a1 b1
    rw [a0, b0]
    have hr : r.map (·.utc) = none := a1.1.mpr (by rw [m1]; omega)
    have hr' : r'.map (·.utc) = none := b1.1.mpr (by rw [m2]; omega)
    cases r with
    | some x => simp at hr
    | none => cases r' with
      | some x => simp at hr'
      | none => exact ⟨rfl, rfl⟩
  · intro hin
    obtain ⟨_, ⟨r, a0, a1, a2⟩, _⟩ := zoned_same_instant ⟨NaiveDT.MAX, off⟩ δ i2 l2 hδ
    obtain ⟨⟨r', b0, b1, b2⟩, _, _⟩ := zoned_same_instant ⟨NaiveDT.MIN, off⟩ δ i1 l1 hδ
    dsimp only at a1 b1 a2 b2
    rw [a0, b0]
    cases r with
    | none => have := a1.1.mp rfl; rw [m1] at this; omega
    | some x =>
      cases r' with
      | none => have := b1.1.mp rfl; rw [m2] at this; omega
      | some y =>
        obtain ⟨xu, xo⟩ := x
        obtain ⟨yu, yo⟩ := y
        have ex := (a2 _ rfl).1
        have ey := (b2 _ rfl).1
        dsimp only at ex ey
        subst ex; subst ey
        refine ⟨xu, yu, rfl, ?_, rfl, ?_⟩
        · have := (a1.2 xu rfl).2.2; rw [m1] at this; omega
        · have := (b1.2 yu rfl).2.2; rw [m2] at this; omega

example : Zoned.checked_sub_signed ⟨NaiveDT.MAX, 86399⟩ ⟨16544868105599, 999999999⟩ =
      .ok (some ⟨NaiveDT.MIN, 86399⟩) ∧
    Zoned.checked_add_signed ⟨NaiveDT.MIN, -86399⟩ ⟨16544868105599, 999999999⟩ =
      .ok (some ⟨NaiveDT.MAX, -86399⟩) ∧
    Zoned.checked_add_signed ⟨NaiveDT.MAX, -86399⟩ ⟨0, 1⟩ = .ok none ∧
    Zoned.checked_sub_signed ⟨NaiveDT.MIN, 86399⟩ ⟨0, 1⟩ = .ok none := by decide +kernel

/-- `NaiveDate::signed_duration_since` at its extremes: every difference lies within ± the full range
(191 491 528 days), and the extremes are attained by `MAX − MIN` and `MIN − MAX` only -/
theorem date_diff_extremes (a b : Date) (ha : DateInv a) (hb : DateInv b) :
    ∃ δ, Date.signed_duration_since a b = .ok δ ∧ DInv δ ∧
      -(191491528 * NS_PER_DAY) ≤ ns δ ∧ ns δ ≤ 191491528 * NS_PER_DAY ∧
      (ns δ = 191491528 * NS_PER_DAY ↔ (a = Date.MAX ∧ b = Date.MIN)) ∧
      (ns δ = -(191491528 * NS_PER_DAY) ↔ (a = Date.MIN ∧ b = Date.MAX)) := by
  obtain ⟨h1, h2, h3, _⟩ := date_diff_exact a b ha hb
  obtain ⟨e1, e2, e3, e4⟩ := ends_inv
  have ba := dn_bounds a ha
  have bb := dn_bounds b hb
  have hN : NS_PER_DAY = 86400000000000 := rfl
  refine ⟨_, h1, h2, ?_, ?_, ?_, ?_⟩
  · rw [h3, hN]; omega
  · rw [h3, hN]; omega
  · rw [h3, hN]
    constructor
    · intro h
      exact ⟨dayNum_inj a Date.MAX ha e2 (by omega), dayNum_inj b Date.MIN hb e1 (by omega)⟩
    · rintro ⟨rfl, rfl⟩; rw [e3, e4]; omega
  · rw [h3, hN]
    constructor
    · intro h
      exact ⟨dayNum_inj a Date.MIN ha e1 (by omega), dayNum_inj b Date.MAX hb e2 (by omega)⟩
    · rintro ⟨rfl, rfl⟩; rw [e3, e4]; omega

/-! ## Second review (audit2/C03.md), closed 2026-09-30 round 2 -/

/-! ### G1 — "end at the range limit": the iterators stop ONE STEP SHORT of it (reported as F34) -/

/-- What the iterators do at the range limit, for every valid start and every number of calls: no
forward drain ever contains `NaiveDate::MAX` and no backward drain `NaiveDate::MIN` (`next` computes
the successor BEFORE handing out the cursor: `self.value = current.succ_opt()?`), a week iterator
started within 6 days of the end yields nothing — not even its start date —, and
`MAX.iter_days().next()` / `MIN.iter_days().next_back()` are `None`.  The crate's own tests
`test_day_iterator_limit` / `test_week_iterator_limit` pin this behaviour; the property's clause
"end at the range limit", read as "the last representable date is the last item", is therefore
FALSE for the crate (`iter_limit_counterexample`); `iter_days_nth` / `iter_weeks_nth` prove the
reading "every step that fits strictly before the limit is taken". -/
theorem iter_never_yields_limit (v : Date) (fuel : Nat) (h : DateInv v) :
    (∀ items fin, drain DaysIter.next fuel v = .ok (items, fin) → Date.MAX ∉ items) ∧
    (∀ items fin, drain WeeksIter.next fuel v = .ok (items, fin) → Date.MAX ∉ items) ∧
    (∀ items fin, drain DaysIter.next_back fuel v = .ok (items, fin) → Date.MIN ∉ items) ∧
    (∀ items fin, drain WeeksIter.next_back fuel v = .ok (items, fin) → Date.MIN ∉ items) ∧
    (DN_MAX - dayNumOf v < 7 → drain WeeksIter.next (fuel + 1) v = .ok ([], true)) ∧
    (dayNumOf v - DN_MIN < 7 → drain WeeksIter.next_back (fuel + 1) v = .ok ([], true)) ∧
    (v = Date.MAX → drain DaysIter.next (fuel + 1) v = .ok ([], true)) ∧
    (v = Date.MIN → drain DaysIter.next_back (fuel + 1) v = .ok ([], true)) := by
  obtain ⟨c1, c2, _⟩ := dn_consts
  obtain ⟨_, _, e3, e4⟩ := ends_inv
  have hb := dn_bounds v h
  obtain ⟨⟨i1, f1, a1, b1, _, d1⟩, ⟨i2, f2, a2, b2, _, d2⟩⟩ := iter_days_nth v fuel h
  obtain ⟨⟨i3, f3, a3, b3, _, d3⟩, ⟨i4, f4, a4, b4, _, d4⟩⟩ := iter_weeks_nth v fuel h
  obtain ⟨⟨j1, g1, p1, q1, r1, _⟩, ⟨j2, g2, p2, q2, r2, _⟩⟩ := iter_days_nth v (fuel + 1) h
  obtain ⟨⟨j3, g3, p3, q3, r3, _⟩, ⟨j4, g4, p4, q4, r4, _⟩⟩ := iter_weeks_nth v (fuel + 1) h
  refine ⟨?_, ?_, ?_, ?_, ?_, ?_, ?_, ?_⟩
  · intro items fin hd hm
    rw [a1] at hd; cases hd
    obtain ⟨k, hk, e⟩ := List.mem_iff_getElem.mp hm
    have := (d1 k hk).2
    rw [e, e4] at this
    omega
  · intro items fin hd hm
    rw [a3] at hd; cases hd
    obtain ⟨k, hk, e⟩ := List.mem_iff_getElem.mp hm
    have := (d3 k hk).2
    rw [e, e4] at this
    omega
  · intro items fin hd hm
    rw [a2] at hd; cases hd
    obtain ⟨k, hk, e⟩ := List.mem_iff_getElem.mp hm
    have := (d2 k hk).2
    rw [e, e3] at this
    omega
  · intro items fin hd hm
    rw [a4] at hd; cases hd
    obtain ⟨k, hk, e⟩ := List.mem_iff_getElem.mp hm
    have := (d4 k hk).2
    rw [e, e3] at this
    omega
  · intro hlt
    have hn : j3 = [] := IterLimit.nil_of_length_zero j3 (by rw [q3]; omega)
    have hg : g3 = true := r3.mpr (by push_cast; omega)
    rw [p3, hn, hg]
  · intro hlt
    have hn : j4 = [] := IterLimit.nil_of_length_zero j4 (by rw [q4]; omega)
    have hg : g4 = true := r4.mpr (by push_cast; omega)
    rw [p4, hn, hg]
  · intro hv
    have e : dayNumOf v = 95745399 := by rw [hv]; exact e4
    have hn : j1 = [] := IterLimit.nil_of_length_zero j1 (by rw [q1]; omega)
    have hg : g1 = true := r1.mpr (by push_cast; omega)
    rw [p1, hn, hg]
  · intro hv
    have e : dayNumOf v = -95746129 := by rw [hv]; exact e3
    have hn : j2 = [] := IterLimit.nil_of_length_zero j2 (by rw [q2]; omega)
    have hg : g2 = true := r2.mpr (by push_cast; omega)
    rw [p2, hn, hg]

/-- exactly which dates a complete drain yields, every valid start: forward by days the valid dates
`d` with `start ≤ d < MAX` (half-open: `MAX` excluded), forward by weeks those `start + 7k` with
`start + 7k + 7 ≤ MAX` (the date is yielded only if the NEXT step still fits), backward the mirror
images toward `MIN` (`MIN` excluded; `start − 7k − 7 ≥ MIN`) -/
theorem iter_yields_exactly (v : Date) (fuel : Nat) (h : DateInv v) :
    (DN_MAX - dayNumOf v < fuel → ∃ items, drain DaysIter.next fuel v = .ok (items, true) ∧
      ∀ x, x ∈ items ↔ (DateInv x ∧ dayNumOf v ≤ dayNumOf x ∧ dayNumOf x < DN_MAX)) ∧
    ((DN_MAX - dayNumOf v) / 7 < fuel → ∃ items, drain WeeksIter.next fuel v = .ok (items, true) ∧
      ∀ x, x ∈ items ↔ (DateInv x ∧ dayNumOf v ≤ dayNumOf x ∧ (dayNumOf x - dayNumOf v) % 7 = 0 ∧
        dayNumOf x + 7 ≤ DN_MAX)) ∧
    (dayNumOf v - DN_MIN < fuel → ∃ items, drain DaysIter.next_back fuel v = .ok (items, true) ∧
      ∀ x, x ∈ items ↔ (DateInv x ∧ DN_MIN < dayNumOf x ∧ dayNumOf x ≤ dayNumOf v)) ∧
    ((dayNumOf v - DN_MIN) / 7 < fuel → ∃ items, drain WeeksIter.next_back fuel v = .ok (items, true) ∧
      ∀ x, x ∈ items ↔ (DateInv x ∧ dayNumOf x ≤ dayNumOf v ∧ (dayNumOf v - dayNumOf x) % 7 = 0 ∧
        DN_MIN ≤ dayNumOf x - 7)) := by
  obtain ⟨c1, c2, _⟩ := dn_consts
  have hb := dn_bounds v h
  obtain ⟨⟨i1, f1, a1, b1, r1, d1⟩, ⟨i2, f2, a2, b2, r2, d2⟩⟩ := iter_days_nth v fuel h
  obtain ⟨⟨i3, f3, a3, b3, r3, d3⟩, ⟨i4, f4, a4, b4, r4, d4⟩⟩ := iter_weeks_nth v fuel h
  refine ⟨?_, ?_, ?_, ?_⟩
  · intro hf
    have hg : f1 = true := r1.mpr hf
    subst hg
    refine ⟨i1, a1, fun x => ?_⟩
    rw [IterLimit.progression_mem i1 (dayNumOf v) 1
      (fun k hk => ⟨(d1 k hk).1, by rw [(d1 k hk).2]; omega⟩) x]
    constructor
    · rintro ⟨hx, k, hk, e⟩; exact ⟨hx, by omega, by omega⟩
    · rintro ⟨hx, l1, l2⟩; exact ⟨hx, (dayNumOf x - dayNumOf v).toNat, by omega, by omega⟩
  · intro hf
    have hg : f3 = true := r3.mpr hf
    subst hg
    refine ⟨i3, a3, fun x => ?_⟩
    rw [IterLimit.progression_mem i3 (dayNumOf v) 7 (fun k hk => d3 k hk) x]
    constructor
    · rintro ⟨hx, k, hk, e⟩; exact ⟨hx, by omega, by omega, by omega⟩
    · rintro ⟨hx, l1, l2, l3⟩
      exact ⟨hx, ((dayNumOf x - dayNumOf v) / 7).toNat, by omega, by omega⟩
  · intro hf
    have hg : f2 = true := r2.mpr hf
    subst hg
    refine ⟨i2, a2, fun x => ?_⟩
    rw [IterLimit.progression_mem i2 (dayNumOf v) (-1)
      (fun k hk => ⟨(d2 k hk).1, by rw [(d2 k hk).2]; omega⟩) x]
    constructor
    · rintro ⟨hx, k, hk, e⟩; exact ⟨hx, by omega, by omega⟩
    · rintro ⟨hx, l1, l2⟩; exact ⟨hx, (dayNumOf v - dayNumOf x).toNat, by omega, by omega⟩
  · intro hf
    have hg : f4 = true := r4.mpr hf
    subst hg
    refine ⟨i4, a4, fun x => ?_⟩
    rw [IterLimit.progression_mem i4 (dayNumOf v) (-7)
      (fun k hk => ⟨(d4 k hk).1, by rw [(d4 k hk).2]; omega⟩) x]
    constructor
    · rintro ⟨hx, k, hk, e⟩; exact ⟨hx, by omega, by omega, by omega⟩
    · rintro ⟨hx, l1, l2, l3⟩
      exact ⟨hx, ((dayNumOf v - dayNumOf x) / 7).toNat, by omega, by omega⟩

/-- kernel-checked counterexample to the literal reading of "end at the range limit" (F34), one per
iterator kind and direction: the limit date is never handed out, and a week iterator that starts
less than a week before the limit hands out nothing -/
theorem iter_limit_counterexample :
    drain DaysIter.next 3 Date.MAX = .ok ([], true) ∧
    drain DaysIter.next 3 (dateOfYo 262142 364) = .ok ([dateOfYo 262142 364], true) ∧
    drain WeeksIter.next 3 (dateOfYo 262142 359) = .ok ([], true) ∧
    drain WeeksIter.next 3 (dateOfYo 262142 358) = .ok ([dateOfYo 262142 358], true) ∧
    drain DaysIter.next_back 3 Date.MIN = .ok ([], true) ∧
    drain DaysIter.next_back 3 (dateOfYo (-262143) 2) = .ok ([dateOfYo (-262143) 2], true) ∧
    drain WeeksIter.next_back 3 (dateOfYo (-262143) 7) = .ok ([], true) ∧
    drain WeeksIter.next_back 3 (dateOfYo (-262143) 8) = .ok ([dateOfYo (-262143) 8], true) ∧
    Date.MAX = dateOfYo 262142 365 ∧ Date.MIN = dateOfYo (-262143) 1 := by decide +kernel

/-- "end at the range limit" in the literal reading, PARTIAL: the last item of a complete forward
day drain is the day BEFORE `MAX` (hypothesis-free), and it is the range limit itself in no case —
what is missing from the property's clause is exactly the final step (`iter_never_yields_limit`) -/
theorem iter_ends_at_limit_partial (v : Date) (fuel : Nat) (h : DateInv v) (hf : DN_MAX - dayNumOf v < fuel) :
    ∃ items, drain DaysIter.next fuel v = .ok (items, true) ∧
      ∀ (hne : items ≠ []), dayNumOf (items.getLast hne) = dayNumOf Date.MAX - 1 ∧
        items.getLast hne ≠ Date.MAX := by
  obtain ⟨⟨items, a, _, l⟩, _⟩ := iter_count_last v fuel h hf
  obtain ⟨_, c2, _⟩ := dn_consts
  obtain ⟨_, _, _, e4⟩ := ends_inv
  refine ⟨items, a, fun hne => ?_⟩
  obtain ⟨_, l2⟩ := l hne
  refine ⟨by rw [l2, e4, c2], fun e => ?_⟩
  rw [e, e4, c2] at l2
  omega

example : DateInv (dateOfYo 262142 360) ∧ DN_MAX - dayNumOf (dateOfYo 262142 360) = 5 ∧
    drain WeeksIter.next 1 (dateOfYo 262142 360) = .ok ([], true) ∧
    drain DaysIter.next 9 (dateOfYo 262142 363) = .ok ([dateOfYo 262142 363, dateOfYo 262142 364], true) := by
  decide +kernel

/-! ### G5 — the `a - b` operator impls -/

/-- `impl Sub<NaiveDate> for NaiveDate`, `Sub<NaiveDateTime> for NaiveDateTime`,
`Sub<DateTime<Tz>>` and `Sub<&DateTime<Tz>> for DateTime<Tz>` are `signed_duration_since` (by their
source text; pinned), so for valid (non-leap) operands they never panic and are the exact distance -/
theorem diff_operators_agree (a b : Date) (x y : NaiveDT) (z w : Zoned) :
    Date.sub_date a b = Date.signed_duration_since a b ∧
    NaiveDT.sub_dt x y = NaiveDT.signed_duration_since x y ∧
    Zoned.sub_zoned z w = Zoned.signed_duration_since z w ∧
    Zoned.sub_zoned_ref z w = Zoned.signed_duration_since z w ∧
    (DateInv a → DateInv b → Date.sub_date a b = .ok (ofNs ((dayNumOf a - dayNumOf b) * NS_PER_DAY))) ∧
    (NDTInv x → NDTInv y → NonLeap x → NonLeap y →
      NaiveDT.sub_dt x y = .ok (ofNs (instNs x - instNs y))) ∧
    (NDTInv z.utc → NDTInv w.utc → NonLeap z.utc → NonLeap w.utc →
      Zoned.sub_zoned z w = .ok (ofNs (zonedInstNs z - zonedInstNs w)) ∧
      Zoned.sub_zoned_ref z w = .ok (ofNs (zonedInstNs z - zonedInstNs w))) :=
  ⟨rfl, rfl, rfl, rfl, fun ha hb => (date_diff_exact a b ha hb).1,
   fun hx hy lx ly => (diff_exact x y hx hy lx ly).1,
   fun hz hw lz lw => ⟨(zoned_diff z w hz hw lz lw).1, (zoned_diff z w hz hw lz lw).1⟩⟩

/-! ### G2 — the derived comparisons of `NaiveDateTime` -/

/-- derived `PartialOrd` / `PartialEq` / `<` / `max` of `NaiveDateTime` against derived `Ord` (all
field by field in declaration order): one order; for valid non-leap values it is the order of the
instants -/
theorem ndt_derived_order (a b : NaiveDT) :
    NaiveDT.partial_cmp a b = some (NaiveDT.cmp a b) ∧
    (NaiveDT.eq a b = true ↔ a = b) ∧
    (NaiveDT.eq a b = true ↔ NaiveDT.cmp a b = 0) ∧
    (NaiveDT.lt a b = true ↔ NaiveDT.cmp a b = -1) ∧
    (NDTInv a → NDTInv b → NonLeap a → NonLeap b →
      (NaiveDT.eq a b = true ↔ instNs a = instNs b) ∧ (NaiveDT.lt a b = true ↔ instNs a < instNs b) ∧
      (NaiveDT.max a b = a ∨ NaiveDT.max a b = b) ∧ instNs (NaiveDT.max a b) = Max.max (instNs a) (instNs b)) := by
  have hp : NaiveDT.partial_cmp a b = some (NaiveDT.cmp a b) := by
    unfold NaiveDT.partial_cmp NaiveDT.cmp
    dsimp only
    split
    · rename_i e; rw [e]; rfl
    · rename_i c hc; rw [if_pos hc]
  have he : NaiveDT.eq a b = true ↔ a = b := by
    obtain ⟨⟨ay⟩, ⟨as, af⟩⟩ := a
    obtain ⟨⟨by'⟩, ⟨bs, bf⟩⟩ := b
    unfold NaiveDT.eq
    simp only [Bool.and_eq_true, decide_eq_true_eq, NaiveDT.mk.injEq, Date.mk.injEq, Time.mk.injEq]
  have hc0 : NaiveDT.cmp a b = 0 ↔ a = b := by
    obtain ⟨⟨ay⟩, ⟨as, af⟩⟩ := a
    obtain ⟨⟨by'⟩, ⟨bs, bf⟩⟩ := b
    unfold NaiveDT.cmp Date.cmp Time.cmp
    simp only [NaiveDT.mk.injEq, Date.mk.injEq, Time.mk.injEq]
    constructor
    · intro h; repeat' split at h <;> omega
    · rintro ⟨h1, h2, h3⟩; subst h1; subst h2; subst h3; simp
  have hl : NaiveDT.lt a b = true ↔ NaiveDT.cmp a b = -1 := by
    unfold NaiveDT.lt
    rw [hp]
    simp
  refine ⟨hp, he, by rw [he, hc0], hl, ?_⟩
  intro ha hb la lb
  have hc := dt_cmp_spec a b ha hb la lb
  have hc' := dt_cmp_spec b a hb ha lb la
  have e1 : NaiveDT.eq a b = true ↔ instNs a = instNs b := by
    rw [he]
    exact ⟨fun h => by rw [h], fun h => inst_inj a b ha hb la lb h⟩
  have e2 : NaiveDT.lt a b = true ↔ instNs a < instNs b := by
    rw [hl, hc]; unfold sgn; repeat' split <;> omega
  have e3 : NaiveDT.lt b a = true ↔ instNs b < instNs a := by
    rw [(show NaiveDT.lt b a = true ↔ NaiveDT.cmp b a = -1 from by
      unfold NaiveDT.lt
      rw [show NaiveDT.partial_cmp b a = some (NaiveDT.cmp b a) from by
        unfold NaiveDT.partial_cmp NaiveDT.cmp
        dsimp only
        split
        · rename_i e; rw [e]; rfl
        · rename_i c hc; rw [if_pos hc]]
      simp), hc']
    unfold sgn; repeat' split <;> omega
  refine ⟨e1, e2, ?_, ?_⟩
  · unfold NaiveDT.max; split <;> simp
  · unfold NaiveDT.max
    by_cases hlt : NaiveDT.lt b a = true
    · rw [if_pos hlt]; have := e3.mp hlt; omega
    · rw [if_neg hlt]; have : ¬ instNs b < instNs a := fun h => hlt (e3.mpr h); omega

example : NaiveDT.partial_cmp ⟨dateOfYo 2024 2, ⟨0, 0⟩⟩ ⟨dateOfYo 2024 1, ⟨86399, 999999999⟩⟩ = some 1 ∧
    NaiveDT.lt NaiveDT.MIN NaiveDT.MAX = true ∧ NaiveDT.eq NaiveDT.MIN NaiveDT.MIN = true ∧
    NaiveDT.eq NaiveDT.MIN NaiveDT.MAX = false ∧ NaiveDT.max NaiveDT.MIN NaiveDT.MAX = NaiveDT.MAX := by
  decide +kernel

/-! ### G3 — end to end: the code translated from the Rust source meets the specification

`Gen.*` are the Lean definitions that tools/extractors/rust2lean.py regenerates from `/repo/src` on
every run; `Props.Gen*.gen_*_eq` prove them equal to the hand-written model under field-width
hypotheses (`DateOk`, `DFields`, `U32Fields`).  The bridges below derive those hypotheses from the
property's invariants, and the `*_gen` theorems compose the two layers: translated code =
specification, with no reference to the model in the statement.  `ndtG` / `dG` / `Date.yof` are the
(injective) readings of a model value as a value of the generated structures. -/

open Chrono.Props.GenDateTime (ndtG DateOk) in
/-- a valid date is an `i32` word with a non-zero ordinal field -/
theorem dateOk_of_inv (d : Date) (h : DateInv d) : DateOk d := by
  obtain ⟨h1, h2, h3, _⟩ := h
  have e1 : MIN_YEAR = -262143 := rfl
  have e2 : MAX_YEAR = 262142 := rfl
  unfold Date.year at h1 h2
  unfold DateOk
  exact ⟨by omega, h3⟩

/-- a `TimeDelta` within its invariant has `i64` seconds and `i32` nanoseconds -/
theorem dfields_of_inv (δ : Delta) (h : DInv δ) : GenTimeL.DFields δ := by
  obtain ⟨h1, h2, h3⟩ := h
  unfold nsInRange NS_MAX ns at h3
  unfold GenTimeL.DFields
  omega

/-- a valid time of day has `u32` fields -/
theorem u32fields_of_valid (t : Time) (h : TValid t) : GenTimeL.U32Fields t := by
  unfold TValid at h
  unfold GenTimeL.U32Fields
  omega

/-- the readings are injective: a result of the translated code determines the model value -/
theorem gen_readings_injective :
    (∀ a b : NaiveDT, GenDateTime.ndtG a = GenDateTime.ndtG b → a = b) ∧
    (∀ a b : Delta, GenL.dG a = GenL.dG b → a = b) ∧ (∀ a b : Date, a.yof = b.yof → a = b) := by
  refine ⟨?_, ?_, ?_⟩
  · rintro ⟨⟨ay⟩, ⟨as, af⟩⟩ ⟨⟨by'⟩, ⟨bs, bf⟩⟩ h
    simp only [GenDateTime.ndtG, GenTimeL.tG, Gen.naive_datetime.NaiveDateTime.mk.injEq,
      Gen.naive_time.NaiveTime.mk.injEq] at h
    obtain ⟨h1, h2, h3⟩ := h
    subst h1; subst h2; subst h3; rfl
  · rintro ⟨as, an⟩ ⟨bs, bn⟩ h
    simp only [GenL.dG, Gen.time_delta.TimeDelta.mk.injEq] at h
    obtain ⟨h1, h2⟩ := h
    subst h1; subst h2; rfl
  · rintro ⟨a⟩ ⟨b⟩ h
    dsimp only at h
    subst h; rfl

/-- translated `NaiveDateTime::checked_add_signed` / `checked_sub_signed`: exact in nanoseconds or
refused, never a panic (clause 1 on the translated code) -/
theorem add_exact_gen (dt : NaiveDT) (δ : Delta) (hdt : NDTInv dt) (hnl : NonLeap dt) (hδ : DInv δ) :
    (∃ r, Gen.naive_datetime.NaiveDateTime.checked_add_signed (GenDateTime.ndtG dt) (GenL.dG δ)
        = .ok (r.map GenDateTime.ndtG) ∧ IsInstShift dt (ns δ) r) ∧
    (∃ r, Gen.naive_datetime.NaiveDateTime.checked_sub_signed (GenDateTime.ndtG dt) (GenL.dG δ)
        = .ok (r.map GenDateTime.ndtG) ∧ IsInstShift dt (-(ns δ)) r) := by
  obtain ⟨r, h0, h1⟩ := add_exact dt δ hdt hnl hδ
  obtain ⟨r', g0, g1⟩ := sub_exact dt δ hdt hnl hδ
  refine ⟨⟨r, ?_, h1⟩, ⟨r', ?_, g1⟩⟩
  · rw [GenDateTime.gen_checked_add_signed_eq dt δ (dateOk_of_inv _ hdt.1) (dfields_of_inv δ hδ), h0]; rfl
  · rw [GenDateTime.gen_checked_sub_signed_eq dt δ (dateOk_of_inv _ hdt.1), g0]; rfl

/-- translated `NaiveDateTime::signed_duration_since`: the exact signed distance (clause 2) -/
theorem diff_exact_gen (a b : NaiveDT) (ha : NDTInv a) (hb : NDTInv b) (la : NonLeap a) (lb : NonLeap b) :
    Gen.naive_datetime.NaiveDateTime.signed_duration_since (GenDateTime.ndtG a) (GenDateTime.ndtG b)
      = .ok (GenL.dG (ofNs (instNs a - instNs b))) ∧
    ns (ofNs (instNs a - instNs b)) = instNs a - instNs b := by
  obtain ⟨h1, _, h3⟩ := diff_exact a b ha hb la lb
  refine ⟨?_, h3⟩
  rw [GenDateTime.gen_signed_duration_since_eq a b (dateOk_of_inv _ ha.1) (dateOk_of_inv _ hb.1)
    (u32fields_of_valid _ ha.2) (u32fields_of_valid _ hb.2), h1]
  rfl

/-- translated `NaiveDateTime::checked_add_days` / `checked_sub_days` (leap-second representations
included): the date part moves by exactly the count or the call is refused; the time is kept -/
theorem ndt_days_exact_gen (dt : NaiveDT) (c : Int) (h : NDTInv dt) (hc : 0 ≤ c ∧ c ≤ 18446744073709551615) :
    (∃ r, Gen.naive_datetime.NaiveDateTime.checked_add_days (GenDateTime.ndtG dt) c
        = .ok (r.map GenDateTime.ndtG) ∧ IsDayShift dt.date c (r.map (·.date)) ∧
      ∀ x, r = some x → x.time = dt.time ∧ instNs x = instNs dt + c * NS_PER_DAY) ∧
    (∃ r, Gen.naive_datetime.NaiveDateTime.checked_sub_days (GenDateTime.ndtG dt) c
        = .ok (r.map GenDateTime.ndtG) ∧ IsDayShift dt.date (-c) (r.map (·.date)) ∧
      ∀ x, r = some x → x.time = dt.time ∧ instNs x = instNs dt - c * NS_PER_DAY) := by
  obtain ⟨⟨r, a0, a1, a2⟩, ⟨r', b0, b1, b2⟩⟩ := ndt_days_exact dt c h hc
  refine ⟨⟨r, ?_, a1, fun x hx => ⟨(a2 x hx).1, (a2 x hx).2.2⟩⟩,
    ⟨r', ?_, b1, fun x hx => ⟨(b2 x hx).1, (b2 x hx).2.2⟩⟩⟩
  · rw [GenDateTime.gen_checked_add_days_eq dt c (dateOk_of_inv _ h.1), a0]; rfl
  · rw [GenDateTime.gen_checked_sub_days_eq dt c (dateOk_of_inv _ h.1), b0]; rfl

/-- translated `NaiveDate::add_days`, `checked_add_days`, `checked_sub_days`, `checked_add_signed`,
`checked_sub_signed`, `succ_opt` (the step of `iter_days`): the day number moves by exactly the
count / the whole days of the duration / one, or the call is refused exactly outside the range
(clause 3 on the translated code) -/
theorem date_shift_gen (d : Date) (n c : Int) (δ : Delta) (hd : DateInv d)
    (hn : -2147483648 ≤ n ∧ n ≤ 2147483647) (hc : 0 ≤ c ∧ c ≤ 18446744073709551615) (hδ : DInv δ) :
    (∃ r, Gen.naive_date.NaiveDate.add_days d.yof n = .ok (r.map Date.yof) ∧ IsDayShift d n r) ∧
    (∃ r, Gen.naive_date.NaiveDate.checked_add_days d.yof c = .ok (r.map Date.yof) ∧ IsDayShift d c r) ∧
    (∃ r, Gen.naive_date.NaiveDate.checked_sub_days d.yof c = .ok (r.map Date.yof) ∧ IsDayShift d (-c) r) ∧
    (∃ r, Gen.naive_date.NaiveDate.checked_add_signed d.yof (GenL.dG δ) = .ok (r.map Date.yof) ∧
      IsDayShift d (wholeDays (ns δ)) r) ∧
    (∃ r, Gen.naive_date.NaiveDate.checked_sub_signed d.yof (GenL.dG δ) = .ok (r.map Date.yof) ∧
      IsDayShift d (-(wholeDays (ns δ))) r) ∧
    (∃ r, Gen.naive_date.NaiveDate.succ_opt d.yof = .ok (r.map Date.yof) ∧ IsDayShift d 1 r) := by
  obtain ⟨ok1, ok2⟩ := dateOk_of_inv d hd
  have hf := dfields_of_inv δ hδ
  obtain ⟨r1, a1, b1⟩ := add_days_exact d n hd hn
  obtain ⟨⟨r2, a2, b2⟩, ⟨r3, a3, b3⟩⟩ := checked_days_exact d c hd hc
  obtain ⟨⟨r4, a4, b4⟩, ⟨r5, a5, b5⟩⟩ := date_plus_delta d δ hd hδ
  obtain ⟨r6, a6, b6⟩ := succ_shift d hd
  refine ⟨⟨r1, ?_, b1⟩, ⟨r2, ?_, b2⟩, ⟨r3, ?_, b3⟩, ⟨r4, ?_, b4⟩, ⟨r5, ?_, b5⟩, ⟨r6, ?_, b6⟩⟩
  · rw [GenDate.gen_add_days_eq d n ok1 hn ok2, a1]; rfl
  · rw [GenDateOps.gen_checked_add_days_eq d c ok1 ok2, a2]; rfl
  · rw [GenDateOps.gen_checked_sub_days_eq d c ok1 ok2, a3]; rfl
  · rw [GenDateOps.gen_checked_add_signed_eq d δ ok1 ok2 hf, a4]; rfl
  · rw [GenDateOps.gen_checked_sub_signed_eq d δ ok1 ok2 hf, a5]; rfl
  · rw [GenDate.gen_succ_opt_eq d ok1, a6]; rfl

/-- translated `NaiveDate::pred_opt` (the step of `iter_days().next_back()`): one day earlier, or
refused exactly at `MIN`.  (The translation theorem needs the ordinal/leap field ≤ 732: ordinal 366
occurs only with the leap flag.) -/
theorem date_pred_gen (d : Date) (hd : DateInv d) :
    ∃ r, Gen.naive_date.NaiveDate.pred_opt d.yof = .ok (r.map Date.yof) ∧ IsDayShift d (-1) r := by
  obtain ⟨ok1, _⟩ := dateOk_of_inv d hd
  obtain ⟨_, _, h3, h4, h5⟩ := hd
  obtain ⟨f1, _, f3, _⟩ := flagsOf_facts d.year
  have e1 : d.yof / 8 % 1024 = 2 * (d.yof / 16 % 512) + d.yof % 16 / 8 := by omega
  have e2 : d.yof % 16 / 8 = ((flagsOf d.year / 8 : Nat) : Int) := by rw [h5]; omega
  have hol : d.yof / 8 % 1024 ≤ 732 := by
    rw [e1, e2]
    have g3 := h3
    have g4 := h4
    unfold Date.ordinal at g3 g4
    unfold yearLen at g4
    by_cases hl : isLeap d.year
    · rw [if_pos hl] at g4 f3; rw [f3]; push_cast at g4 ⊢; omega
    · rw [if_neg hl] at g4 f3; rw [f3]; push_cast at g4 ⊢; omega
  obtain ⟨r, a, b⟩ := pred_shift d ⟨‹_›, ‹_›, h3, h4, h5⟩
  exact ⟨r, by rw [GenDate.gen_pred_opt_eq d ok1 hol, a]; rfl, b⟩

/-- translated `NaiveDate::signed_duration_since`: exactly the day distance (clause 2 for dates) -/
theorem date_diff_exact_gen (a b : Date) (ha : DateInv a) (hb : DateInv b) :
    Gen.naive_date.NaiveDate.signed_duration_since a.yof b.yof
      = .ok (GenL.dG (ofNs ((dayNumOf a - dayNumOf b) * NS_PER_DAY))) := by
  obtain ⟨oa1, oa2⟩ := dateOk_of_inv a ha
  obtain ⟨ob1, ob2⟩ := dateOk_of_inv b hb
  rw [GenDateOps.gen_date_signed_duration_since_eq a b oa1 ob1 oa2 ob2, (date_diff_exact a b ha hb).1]
  rfl

example : Gen.naive_datetime.NaiveDateTime.checked_add_signed
      (GenDateTime.ndtG ⟨dateOfYo 2024 366, ⟨86399, 999999999⟩⟩) (GenL.dG ⟨0, 1⟩)
      = .ok (some (GenDateTime.ndtG ⟨dateOfYo 2025 1, ⟨0, 0⟩⟩)) ∧
    Gen.naive_datetime.NaiveDateTime.checked_add_signed (GenDateTime.ndtG NaiveDT.MAX) (GenL.dG ⟨0, 1⟩) = .ok none ∧
    Gen.naive_date.NaiveDate.checked_add_days Date.MIN.yof 191491528 = .ok (some Date.MAX.yof) ∧
    Gen.naive_date.NaiveDate.checked_add_days Date.MIN.yof 191491529 = .ok none ∧
    Gen.naive_date.NaiveDate.succ_opt Date.MAX.yof = .ok none := by decide +kernel

/-! ### G6 — range ends with the witnesses determined -/

/-- `zoned_range_ends`, second conjunct, strengthened: the values one step inside the range are the
valid non-leap date-times at exactly that instant (hence unique, `instant_injective`) -/
theorem zoned_range_ends_exact (off : Int) (δ : Delta) (hδ : DInv δ)
    (hin : 0 ≤ ns δ ∧ ns δ ≤ NS_MAX_DT - NS_MIN) :
    (∃ r, Zoned.checked_sub_signed ⟨NaiveDT.MAX, off⟩ δ = .ok (r.map fun x => ⟨x, off⟩) ∧
      IsInstShift NaiveDT.MAX (-(ns δ)) r ∧ r ≠ none) ∧
    (∃ r, Zoned.checked_add_signed ⟨NaiveDT.MIN, off⟩ δ = .ok (r.map fun y => ⟨y, off⟩) ∧
      IsInstShift NaiveDT.MIN (ns δ) r ∧ r ≠ none) := by
  obtain ⟨_, _, _, _, i1, i2, l1, l2, _⟩ := range_ends
  obtain ⟨k1, k2, _⟩ := ns_consts
  have m1 : instNs NaiveDT.MAX = NS_MAX_DT := rfl
  have m2 : instNs NaiveDT.MIN = NS_MIN := rfl
  obtain ⟨r, a0, a1⟩ := sub_exact NaiveDT.MAX δ i2 l2 hδ
  obtain ⟨r', b0, b1⟩ := add_exact NaiveDT.MIN δ i1 l1 hδ
  refine ⟨⟨r, ?_, a1, fun e => ?_⟩, ⟨r', ?_, b1, fun e => ?_⟩⟩
  · rw [zoned_sub_eq]; dsimp only; rw [a0, rbind_ok]
  · have := a1.1.mp e; rw [m1] at this; omega
  · rw [zoned_add_eq]; dsimp only; rw [b0, rbind_ok]
  · have := b1.1.mp e; rw [m2] at this; omega

end Chrono.Props.C03
