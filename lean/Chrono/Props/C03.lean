/-
  C03 — Adding and subtracting elapsed time is exact or refused, never wrapped.
  (stage 1 placeholder: range ends; the property theorems follow)
-/
import Chrono.Spec.InstantSpec
import Chrono.Model.ArithOps

namespace Chrono.Props.C03
open Chrono Chrono.M Chrono.Spec Chrono.Extracted

theorem range_ends :
    NS_MIN = -8334601228800000000000 ∧ NS_MAX_DT = 8210266876799999999999 := by decide

end Chrono.Props.C03
