/-
  C15 — fallible operations fail by value, not by panic or hang.
  This file collects the "returns normally" (`… = .ok r`, i.e. no panic, no trapped overflow, no
  failed debug assertion) and "never builds an invalid value" halves of the other properties'
  theorems, as corollaries stated for every argument of the machine domain — constructors, checked
  arithmetic, field replacement (naive and zone-aware), rounding, every parser and field-resolution
  method, the RFC 3339 renderers, serde — plus three things of its own: every record the parser can
  build is in type (so `parse_from_str` is total for arbitrary text × arbitrary format string), the
  byte-level boundary theorems (every `&str` slice of the scanners is at a char boundary), and the
  sharp linear bound on `StrftimeItems`.  props/C15.json lists which entry points have a theorem here
  and which are covered by the extremes sweep only.
-/
import Chrono.Props.C01
import Chrono.Props.C06
import Chrono.Props.C07
import Chrono.Props.C16
import Chrono.Props.C19
import Chrono.Props.C02
import Chrono.Props.C03
import Chrono.Props.C04
import Chrono.Props.C08
import Chrono.Props.C12
import Chrono.Props.C17
import Chrono.Props.C09
import Chrono.Props.C10
import Chrono.Props.C11
import Chrono.Props.C13
import Chrono.Props.C14
import Chrono.Props.C20
import Chrono.Proofs.C15TotalL
import Chrono.Proofs.C15RenderL
import Chrono.Proofs.C15SerdeL
import Chrono.Proofs.C15ZonedL
import Chrono.Proofs.ScanBoundaryL
import Chrono.Proofs.C15ArithL
import Chrono.Proofs.StrftimeBoundL
import Chrono.Proofs.StrftimeUtf8L
import Chrono.Proofs.C15Round3L
import Chrono.Proofs.ScanSlicesL
import Chrono.Proofs.StrftimeLenientL

namespace Chrono.Props.C15
open Chrono Chrono.M Chrono.Spec Chrono.Proofs Chrono.Extracted
open Chrono.Spec.Fields Chrono.Proofs.C15Total Chrono.Proofs.C15Zoned Chrono.Proofs.C15Arith

/-- the calendar constructors return normally for every argument, and a returned date satisfies the
representation invariant -/
theorem date_ctors_total (y : Int) (m d o : Nat) :
    (∃ r, Date.from_ymd_opt y m d = .ok r ∧ ∀ x, r = some x → DateInv x) ∧
    (∃ r, Date.from_yo_opt y o = .ok r ∧ ∀ x, r = some x → DateInv x) := by
  have hinv : ∀ (y : Int) (o : Nat), MIN_YEAR ≤ y → y ≤ MAX_YEAR → 1 ≤ o → o ≤ yearLen y →
      DateInv (dateOfYo y o) := by
    intro y o h1 h2 h3 h4
    have hyl := yearLen_ge y
    obtain ⟨f1, f2, _, f4, _, _⟩ := dateOfYo_fields y o (by omega)
    unfold DateInv
    rw [f1, f2]
    exact ⟨h1, h2, by omega, by omega, f4⟩
  constructor
  · refine ⟨_, C01.ctor_ymd y m d, ?_⟩
    intro x hx
    by_cases hc : MIN_YEAR ≤ y ∧ y ≤ MAX_YEAR ∧ validYmd y m d = true
    · rw [if_pos hc] at hx
      have hb := valid_bounds y m d hc.2.2
      obtain ⟨hf16, _, _, _⟩ := flagsOf_facts y
      have hrep := isLeap_repYear y
      obtain ⟨hv, ho, hyl⟩ := leap_congr (repYear (flagsOf y)) y m d hrep
      have hob := ordinal_bounds_fin m hb.1 d hb.2 _ hf16 (by rw [hv]; exact hc.2.2)
      rw [ho, hyl] at hob
      rw [← Option.some.inj hx]
      exact hinv y _ hc.1 hc.2.1 hob.1 hob.2
    · rw [if_neg hc] at hx; cases hx
  · refine ⟨_, C01.ctor_yo y o, ?_⟩
    intro x hx
    by_cases hc : MIN_YEAR ≤ y ∧ y ≤ MAX_YEAR ∧ 1 ≤ o ∧ o ≤ yearLen y
    · rw [if_pos hc] at hx
      rw [← Option.some.inj hx]
      exact hinv y o hc.1 hc.2.1 hc.2.2.1 hc.2.2.2
    · rw [if_neg hc] at hx; cases hx

/-- the day-number constructor returns normally for every `i32`, the ISO week-date constructor for every
`i32` year (including `i32::MIN` / `i32::MAX`: the `year ± 1` steps are checked), every week number and
weekday; a returned date satisfies the representation invariant -/
theorem date_from_days_total (n : Int) (hn : -2147483648 ≤ n ∧ n ≤ 2147483647) (y : Int) (w : Nat)
    (wd : Weekday) :
    OkAnd (Date.from_num_days_from_ce_opt n) DateInv ∧ OkAnd (Date.from_isoywd_opt y w wd) DateInv :=
  ⟨from_days n hn, from_isoywd y w wd⟩

/-- successor / predecessor return normally on every date of the range, and what they return is a date
of the range -/
theorem date_succ_pred_total (d : Date) (hd : DateInv d) :
    OkAnd d.succ_opt DateInv ∧ OkAnd d.pred_opt DateInv := by
  obtain ⟨a, b, _⟩ := date_ops d hd 0 0 0 0 ⟨0, 0⟩ 0 (by omega) (by decide) (by omega)
  exact ⟨a, b⟩

/-- duration arithmetic returns normally on all valid operands and every `i32` factor / divisor, and
whatever it returns is inside the range -/
theorem delta_ops_total (a b : Delta) (k : Int) (ha : DInv a) (hb : DInv b)
    (hk : -2147483648 ≤ k ∧ k ≤ 2147483647) :
    (∃ r, Delta.checked_add a b = .ok r ∧ ∀ x, r = some x → DInv x) ∧
    (∃ r, Delta.checked_sub a b = .ok r ∧ ∀ x, r = some x → DInv x) ∧
    (∃ r, Delta.checked_mul a k = .ok r ∧ ∀ x, r = some x → DInv x) ∧
    (∃ r, Delta.checked_div a k = .ok r ∧ ∀ x, r = some x → DInv x) ∧
    (∃ r, Delta.neg a = .ok r ∧ DInv r) ∧ (∃ r, Delta.abs a = .ok r) := by
  have hopt : ∀ n : Int, ∀ x, (if nsInRange n then some (ofNs n) else none) = some x → DInv x := by
    intro n x hx
    by_cases h : nsInRange n
    · rw [if_pos h] at hx; rw [← Option.some.inj hx]; exact (C06.ofNs_spec n h).1
    · rw [if_neg h] at hx; cases hx
  refine ⟨⟨_, C06.add_exact a b ha hb, hopt _⟩, ⟨_, C06.sub_exact a b ha hb, hopt _⟩,
    ⟨_, C06.mul_exact a k ha hk, hopt _⟩, ?_, ?_, ⟨_, (C06.neg_abs_exact a ha).2⟩⟩
  · by_cases hk0 : k = 0
    · subst hk0
      exact ⟨none, C06.div_zero a, by intro x hx; cases hx⟩
    · obtain ⟨r, h1, h2, _⟩ := C06.div_spec a k ha hk hk0
      exact ⟨some r, h1, by intro x hx; rw [← Option.some.inj hx]; exact h2⟩
  · refine ⟨_, (C06.neg_abs_exact a ha).1, ?_⟩
    have hr : nsInRange (-(ns a)) := by
      have := ha.2.2; unfold nsInRange at *; omega
    exact (C06.ofNs_spec _ hr).1

/-- time of day: arithmetic returns normally for every valid time (leap representations on any second)
and every duration, the time part of the result is valid and the difference is inside the `TimeDelta`
range; what the single-field replacements and the `u32`-argument constructors return is a valid time
(those models are `Option`-valued: they contain no operation that could panic — every `u32` product is a
`checked_mul`) -/
theorem time_ops_total (t u : Time) (d : Delta) (v : Int) (ht : TValid t) (hu : TValid u) (hd : DInv d)
    (hv : 0 ≤ v) (h m s n : Int) (h0 : 0 ≤ h) (m0 : 0 ≤ m) (s0 : 0 ≤ s) (n0 : 0 ≤ n) (x : Time) :
    ((∃ r, Time.overflowing_add_signed t d = .ok r ∧ TValid r.1) ∧
     (∃ r, Time.overflowing_sub_signed t d = .ok r ∧ TValid r.1) ∧
     (∃ r, Time.signed_duration_since t u = .ok r ∧ DInv r) ∧
     (∀ x, t.with_hour v = some x → TValid x) ∧ (∀ x, t.with_minute v = some x → TValid x) ∧
     (∀ x, t.with_second v = some x → TValid x) ∧ (∀ x, t.with_nanosecond v = some x → TValid x)) ∧
    ((Time.from_hms_opt h m s = some x → TValid x) ∧ (Time.from_hms_milli_opt h m s n = some x → TValid x) ∧
     (Time.from_hms_micro_opt h m s n = some x → TValid x) ∧ (Time.from_hms_nano_opt h m s n = some x → TValid x) ∧
     (Time.from_num_seconds_from_midnight_opt s n = some x → TValid x)) :=
  ⟨time_ops t u d v ht hu hd hv, time_ctors h m s n h0 m0 s0 n0 x⟩

/-- the TZif reader and the TZ-rule reader never panic, on any byte string -/
theorem tz_readers_total (bytes : List Nat) (ext : Bool) :
    Tz.parse bytes ≠ .panic ∧ Tz.from_tz_string bytes ext ≠ .panic :=
  ⟨C16.parse_total bytes, C16.rule_total bytes ext⟩

/-- **the `MappedLocalTime`-typed entry points of `Local`** (audit 2; F32 repaired by 770977e):
`Local.timestamp_opt` / `timestamp_millis_opt` / `timestamp_micros` / `timestamp_nanos` /
`from_utc_datetime` / `Local::now()` — all of them `Local.from_utc_datetime` of an instant, i.e. the
`unwrap` of `<Local as TimeZone>::offset_from_utc_datetime` (`TzL.local_offset_from_utc_datetime`,
`TzL.local_timestamp_opt`, Model/TzLocal.lean) — return normally for EVERY zone the readers accept
(TZif bytes or a `TZ` rule text) and EVERY second count: outside the `NaiveDateTime` range `None` by
value, inside it `Single` with an offset strictly within 24 h.  The zone comes from the environment,
not from an argument; before the repair `TZ=XXX24` made every one of these calls panic
(`C16.local_panics_pinned_before_F32`). -/
theorem local_entry_points_total :
    (∀ (bytes : List Nat) (z : Tz.Zone), Tz.parse bytes = .ok z → ∀ secs : Int,
        TzL.local_timestamp_opt z secs ≠ .panic ∧
        (TzL.NDT_MIN_TS ≤ secs ∧ secs ≤ TzL.NDT_MAX_TS →
          ∃ o, TzL.local_offset_from_utc_datetime z secs = .ok o ∧ -86400 < o ∧ o < 86400))
    ∧ (∀ (text : List Nat) (ext : Bool) (r : Tz.Rule), Tz.from_tz_string text ext = .ok r → ∀ secs : Int,
        TzL.NDT_MIN_TS ≤ secs ∧ secs ≤ TzL.NDT_MAX_TS →
          ∃ o, TzL.local_offset_from_utc_datetime (Proofs.TzValid.zoneOfRule r) secs = .ok o
            ∧ -86400 < o ∧ o < 86400) := by
  refine ⟨fun bytes z h secs => ⟨C16.local_timestamp_total bytes z h secs, fun hs => ?_⟩,
    fun text ext r h secs hs => ?_⟩
  · obtain ⟨o, h1, -, h3, -⟩ := C16.local_offset_total bytes z h secs hs
    exact ⟨o, h1, h3.1, h3.2⟩
  · obtain ⟨o, h1, -, h3, -⟩ := C16.local_offset_total_tz_string text ext r h secs hs
    exact ⟨o, h1, h3.1, h3.2⟩

/-- iterating a weekday set in any interleaving of front and back pulls never hits the `expect`s -/
theorem weekday_iter_total (sched : List Bool) (s : Nat) (start : Weekday) (hs : s < 128) :
    ∃ r, WeekdaySet.runSchedule sched ⟨s, start⟩ = .ok r := by
  obtain ⟨fs, ks, s', h, _⟩ := C19.iter_interleaved_spec sched s start hs
  exact ⟨_, h⟩

/-- the timestamp constructor returns normally for every `i64` second count and every `u32`
nanosecond field, and what it returns is a valid date-time -/
theorem from_timestamp_total (secs nsecs : Int) (hs : Spec.Ts.isI64 secs) (hn : Spec.Ts.isU32 nsecs) :
    ∃ r, NaiveDT.from_timestamp secs nsecs = .ok r ∧ ∀ dt, r = some dt → NDTInv dt := by
  obtain ⟨r, h, hv⟩ := C02.from_ts_meaning secs nsecs hs hn
  exact ⟨r, h, fun dt hd => (hv dt hd).1⟩

/-- date-time ± duration returns normally on EVERY valid date-time — leap-second representations
included (C03 `add_with_leap_operand`) — and every duration, for both `checked_add_signed` and
`checked_sub_signed`, and what is returned is a valid date-time -/
theorem datetime_arith_total (dt : NaiveDT) (δ : Delta) (hdt : NDTInv dt) (hδ : DInv δ) :
    OkAnd (NaiveDT.checked_add_signed dt δ) NDTInv ∧ OkAnd (NaiveDT.checked_sub_signed dt δ) NDTInv :=
  datetime_arith dt δ hdt hδ

/-- non-vacuity: a leap second crossing midnight; the range ends -/
example : NDTInv ⟨dateOfYo 2016 366, ⟨86399, 1500000000⟩⟩ ∧
    NaiveDT.checked_add_signed ⟨dateOfYo 2016 366, ⟨86399, 1500000000⟩⟩ ⟨0, 500000000⟩ =
      .ok (some ⟨dateOfYo 2017 1, ⟨0, 0⟩⟩) ∧
    NaiveDT.checked_sub_signed NaiveDT.MIN ⟨0, 1⟩ = .ok none ∧
    NaiveDT.checked_add_signed NaiveDT.MAX ⟨0, 1⟩ = .ok none := by decide +kernel

/-- zone-aware values: building from a wall clock and reading the wall clock (with the one-day
headroom) return normally for every valid value and every offset a `FixedOffset` can hold; a value built
is well formed (UTC reading inside the range, the given offset), the wall clock read is a well-formed
reading of the calendar extended by one day at each end -/
theorem zoned_total (off : Int) (ℓ : NaiveDT) (z : Zoned) (ho : OffValid off) (hℓ : NDTInv ℓ)
    (hz : ZInv z) :
    (∃ r, Zoned.from_local_datetime off ℓ = .ok r ∧ ∀ x, r = some x → ZInv x ∧ x.off = off) ∧
    (∃ l, Zoned.overflowing_naive_local z = .ok l ∧ ExtNDTInv l) := by
  obtain ⟨r, h, _⟩ := C04.fromLocal_fails_iff off ℓ ho hℓ
  obtain ⟨l, h2, h3, _⟩ := C04.headroom_sound z hz
  refine ⟨⟨r, h, fun x hx => ?_⟩, ⟨l, h2, h3⟩⟩
  obtain ⟨a, b, _⟩ := C04.local_of_fromLocal off ℓ ho hℓ x (by rw [h, hx])
  exact ⟨b, a⟩

/-- every date-level stepping and replacement — `succ/pred`, `checked_add/sub_months` (any count),
`diff_months` (every `i32`), the seven field replacements (arguments of any size, `u32::MAX` included),
`add_days` (every `i32`), `checked_add/sub_days` (every `u64`), `checked_add/sub_signed` (every duration)
— on every date of the range: returns normally, and what it returns is a date of the range -/
theorem date_ops_total (d : Date) (hd : DateInv d) (n v : Nat) (y' k : Int) (δ : Delta) (c : Int)
    (hk : -2147483648 ≤ k ∧ k ≤ 2147483647) (hδ : DInv δ) (hc : 0 ≤ c ∧ c ≤ 18446744073709551615) :
    OkAnd d.succ_opt DateInv ∧ OkAnd d.pred_opt DateInv ∧
    OkAnd (d.checked_add_months n) DateInv ∧ OkAnd (d.checked_sub_months n) DateInv ∧
    OkAnd (d.diff_months k) DateInv ∧
    OkAnd (d.with_year y') DateInv ∧ OkAnd (d.with_month v) DateInv ∧ OkAnd (d.with_month0 v) DateInv ∧
    OkAnd (d.with_day v) DateInv ∧ OkAnd (d.with_day0 v) DateInv ∧ OkAnd (d.with_ordinal v) DateInv ∧
    OkAnd (d.with_ordinal0 v) DateInv ∧
    OkAnd (Date.add_days d k) DateInv ∧ OkAnd (Date.checked_add_days d c) DateInv ∧
    OkAnd (Date.checked_sub_days d c) DateInv ∧ OkAnd (Date.checked_add_signed d δ) DateInv ∧
    OkAnd (Date.checked_sub_signed d δ) DateInv :=
  date_ops d hd n v y' k δ c hk hδ hc

/-- non-vacuity at the range ends and the integer extremes -/
example : DateInv Date.MAX ∧ DateInv Date.MIN ∧ Date.MAX.with_ordinal0 4294967295 = .ok none ∧
    Date.MIN.diff_months (-2147483648) = .ok none ∧
    Date.checked_sub_days Date.MAX 18446744073709551615 = .ok none ∧
    Date.from_isoywd_opt (-2147483648) 1 .mon = .ok none ∧ Date.from_isoywd_opt 2147483647 53 .sun = .ok none := by
  decide +kernel

/-- the `TimeDelta` constructors `new`, `try_weeks/days/hours/minutes/seconds` (`try_unit`),
`try_milliseconds`, `microseconds`, `nanoseconds` on every `i64` (any `u32` nanosecond field for `new`):
whatever they return is inside the range (`Option`-valued models: the products are `checked_mul`) -/
theorem delta_ctors_total (secs nanos n unit : Int) (hn0 : 0 ≤ nanos)
    (hu : unit = 1 ∨ unit = 60 ∨ unit = 3600 ∨ unit = 86400 ∨ unit = 604800)
    (hn : -9223372036854775808 ≤ n ∧ n ≤ 9223372036854775807) (x : Delta) :
    (Delta.new secs nanos = some x → DInv x) ∧ (Delta.try_unit unit n = some x → DInv x) ∧
    (Delta.try_milliseconds n = some x → DInv x) ∧ DInv (Delta.microseconds n) ∧ DInv (Delta.nanoseconds n) :=
  delta_ctors secs nanos n unit hn0 hu hn x

/-- rounding never panics: every failure is reported by value -/
theorem rounding_total (op : Round.Op) (stamp span : Option Int)
    (hspan : ∀ p, span = some p → p ≤ 9223372036854775807) : Round.run op stamp span ≠ .panic :=
  (C17.err_iff op stamp span hspan).2.2.2.1

/-- **rounding at the entry points** (audit 2, MEDIUM-4): the whole calls
`DurationRound::duration_round / duration_trunc / duration_round_up` of `NaiveDateTime` and of
`DateTime<FixedOffset>` (`Round.naive_duration` / `Round.zoned_duration`, Model/RoundDT.lean: span guard,
`timestamp_nanos_opt` of the (wall-clock) reading, the integer part, and the PANICKING operators
`original + TimeDelta` / `original - TimeDelta`) return normally — `Ok(v)` or `Err(RoundingError)` — on
EVERY valid value (leap-second representations included) and every valid `TimeDelta`; a returned value
is valid, a zone-aware one keeps its offset.  From C17 `naive_result` / `zoned_result` (outside a leap
second) and `naive_result_leap` / `zoned_result_leap` (inside one), by cases on the span guard and on
the stamp being an `i64`. -/
theorem rounding_entry_total (op : Round.Op) (dt : NaiveDT) (z : Zoned) (dur : Delta) (hdt : NDTInv dt)
    (hz : ZInv z) (hd : DInv dur) :
    (∃ r, Round.naive_duration op dt dur = .ok r ∧ ∀ v, r = .ok v → NDTInv v) ∧
    (∃ r, Round.zoned_duration op z dur = .ok r ∧ ∀ v, r = .ok v → ZInv v ∧ v.off = z.off) := by
  have hno : ∀ {α : Type} (e : Round.RoundingError) (P : α → Prop) (v : α),
      (Round.RRes.err e : Round.RRes α) = .ok v → P v := by
    intro α e P v h; cases h
  constructor
  · by_cases hg : 0 < ns dur ∧ ns dur ≤ 9223372036854775807
    · by_cases hin : Spec.Round.InI64 (instNs dt)
      · by_cases hnl : NonLeap dt
        · obtain ⟨v, hv, hi, _⟩ := (C17.naive_result op dt dur hdt hnl hd).2.2 hg hin
          exact ⟨_, hv, fun x hx => by injection hx with hx; rw [← hx]; exact hi⟩
        · obtain ⟨v, hv, hi, _⟩ := (C17.naive_result_leap op dt dur hdt hnl hd).2.2 hg hin
          exact ⟨_, hv, fun x hx => by injection hx with hx; rw [← hx]; exact hi⟩
      · by_cases hnl : NonLeap dt
        · exact ⟨_, (C17.naive_result op dt dur hdt hnl hd).2.1 hg hin, hno _ _⟩
        · exact ⟨_, (C17.naive_result_leap op dt dur hdt hnl hd).2.1 hg hin, hno _ _⟩
    · have hg' : ns dur ≤ 0 ∨ 9223372036854775807 < ns dur := by omega
      by_cases hnl : NonLeap dt
      · exact ⟨_, (C17.naive_result op dt dur hdt hnl hd).1 hg', hno _ _⟩
      · exact ⟨_, (C17.naive_result_leap op dt dur hdt hnl hd).1 hg', hno _ _⟩
  · by_cases hg : 0 < ns dur ∧ ns dur ≤ 9223372036854775807
    · by_cases hin : Spec.Round.InI64 (wallNs z)
      · by_cases hnl : NonLeap z.utc
        · obtain ⟨v, hv, ho, hi, _⟩ := (C17.zoned_result op z dur hz hnl hd).2.2 hg hin
          exact ⟨_, hv, fun x hx => by injection hx with hx; rw [← hx]; exact ⟨hi, ho⟩⟩
        · obtain ⟨v, hv, ho, hi, _⟩ := (C17.zoned_result_leap op z dur hz hnl hd).2.2 hg hin
          exact ⟨_, hv, fun x hx => by injection hx with hx; rw [← hx]; exact ⟨hi, ho⟩⟩
      · by_cases hnl : NonLeap z.utc
        · exact ⟨_, (C17.zoned_result op z dur hz hnl hd).2.1 hg hin, hno _ _⟩
        · exact ⟨_, (C17.zoned_result_leap op z dur hz hnl hd).2.1 hg hin, hno _ _⟩
    · have hg' : ns dur ≤ 0 ∨ 9223372036854775807 < ns dur := by omega
      by_cases hnl : NonLeap z.utc
      · exact ⟨_, (C17.zoned_result op z dur hz hnl hd).1 hg', hno _ _⟩
      · exact ⟨_, (C17.zoned_result_leap op z dur hz hnl hd).1 hg', hno _ _⟩

/-- non-vacuity (the inputs the operators would panic on if the guards were missing, and a leap second):
the last instant rounded up by a day is refused by value (`TimestampExceedsLimit`), `MIN_UTC` viewed at
−00:00:01 likewise, a zero span is `DurationExceedsLimit`, a leap second rounded up crosses midnight -/
example : NDTInv NaiveDT.MAX ∧ ZInv ⟨NaiveDT.MIN, -1⟩ ∧ DInv ⟨86400, 0⟩ ∧
    Round.naive_duration .up NaiveDT.MAX ⟨86400, 0⟩ = .ok (.err .TimestampExceedsLimit) ∧
    Round.zoned_duration .trunc ⟨NaiveDT.MIN, -1⟩ ⟨1, 0⟩ = .ok (.err .TimestampExceedsLimit) ∧
    Round.naive_duration .trunc NaiveDT.MAX ⟨0, 0⟩ = .ok (.err .DurationExceedsLimit) ∧
    NDTInv ⟨dateOfYo 2016 366, ⟨86399, 1500000000⟩⟩ ∧
    Round.naive_duration .up ⟨dateOfYo 2016 366, ⟨86399, 1500000000⟩⟩ ⟨1, 0⟩ =
      .ok (.ok ⟨dateOfYo 2017 1, ⟨0, 0⟩⟩) := by decide +kernel

/-- iterating the items of ANY format string terminates, in strict and in lenient mode (`l`): each
`parse_next_item` step consumes at least one byte and queues at most 12 further items, and a step that
queues anything (a composite specifier) has consumed at least two bytes; so TWICE THE NUMBER OF ITEMS IS
AT MOST 13 TIMES THE BYTE LENGTH (sharp: `%c` = 13 items from 2 bytes; the harness enforces exactly this
bound), and the `next` iterator ends within 13·len + 1 calls.  (The property text's bound "one item per
input byte plus a constant" is not met by composite specifiers: known finding F18; this linear bound is
what holds.) -/
theorem strftime_terminates (l : Bool) (s : List Nat) :
    2 * (Strftime.itemsAux l (s.length + 1) s).length ≤ 13 * s.length ∧
    (∀ n, 13 * s.length < n → Strftime.drain l n ⟨s, []⟩ = Strftime.itemsAux l (s.length + 1) s) := by
  obtain ⟨_, _, _, h4⟩ := C12.strftime_terminates l s
  exact ⟨StrftimeBound.itemsAux_length2 l _ s, h4⟩

/-- the bound is attained, and the literal bound of the property text fails (F18) -/
example : (Strftime.items [37, 99]).length = 13 ∧ 2 * 13 = 13 * [37, 99].length ∧
    ¬ (Strftime.items [37, 99]).length ≤ [37, 99].length + 10 := by decide +kernel

/-- **the documented panics, and only they.**  The operations the property lists as panicking do panic
in the models, exactly on the documented inputs: the `+` operator of `NaiveDateTime` panics exactly when the
exact sum is not representable (C03 `operator_exact`); `naive_local` of a well-formed value panics exactly
when the wall clock lies outside the range, while `overflowing_naive_local` never does (C04
`headroom_sound`); `to_rfc2822` panics exactly when the wall-clock year is outside 0–9999 (C11
`writer_shape`). -/
theorem documented_panics (dt : NaiveDT) (δ : Delta) (hdt : NDTInv dt) (hnl : NonLeap dt) (hδ : DInv δ)
    (z : Zoned) (hz : ZInv z) (Y : Int) (o : Nat) (hw : Spec.Rfc2822.WallDate z Y o) :
    (NaiveDT.add dt δ = .panic ↔ ¬ (NS_MIN ≤ instNs dt + ns δ ∧ instNs dt + ns δ ≤ NS_MAX_DT)) ∧
    (Zoned.naive_local z = .panic ↔ ¬ InRangeSecs (wallSecs z)) ∧
    (Rfc2822.to_rfc2822 z = .panic ↔ ¬ (0 ≤ Y ∧ Y ≤ 9999)) := by
  obtain ⟨a1, a2⟩ := C03.operator_exact dt δ hdt hnl hδ
  obtain ⟨l, _, _, _, _, hn, _⟩ := C04.headroom_sound z hz
  have hw' := C11.writer_shape z hz Y o hw
  refine ⟨⟨fun hp hin => ?_, a2⟩, ?_, ?_⟩
  · obtain ⟨x, hx, _⟩ := a1 hin; rw [hx] at hp; cases hp
  · rw [hn]
    constructor
    · intro hp hin; rw [if_pos hin] at hp; cases hp
    · intro hout; rw [if_neg hout]
  · rw [hw']
    constructor
    · intro hp hin; rw [if_pos hin] at hp; cases hp
    · intro hout; rw [if_neg hout]

/-- the documented panics are real: operator subtraction on the minimum duration overflows (checked form
says `none`), the `+` operator at the range end, `naive_local` of `MAX_UTC` viewed at `+01:00` (while the
headroom view succeeds), `to_rfc2822` in year 10000 -/
example : Delta.checked_sub Delta.MIN ⟨0, 1⟩ = .ok none ∧ NaiveDT.add NaiveDT.MAX ⟨0, 1⟩ = .panic ∧
    Zoned.naive_local ⟨NaiveDT.MAX, 3600⟩ = .panic ∧
    (Zoned.overflowing_naive_local ⟨NaiveDT.MAX, 3600⟩).isOk = true ∧
    Rfc2822.to_rfc2822 ⟨⟨dateOfYo 10000 1, ⟨0, 0⟩⟩, 0⟩ = .panic := by decide +kernel

/-! ## parsers and field resolution -/

/-- **every record the parser can build is in type.**  Whatever the text (any byte string, so any
Unicode text), whatever the items (every format string's items, the `RFC2822` / `RFC3339` items, error
items) and from whatever in-type record it starts: a record returned by `parse_internal` (the engine of
`parse` / `parse_and_remainder`), by the RFC 2822 scanner, by the relaxed and by the strict RFC 3339
scanner holds only values of the Rust field types (`i32` years and offset, `u32` calendar and clock
fields, `i64` timestamp).  This is the hypothesis of every C14 resolver theorem. -/
theorem parser_builds_in_type (items : List Item) (p : Parsed) (s : List Nat) (p' : Parsed) (s' : List Nat)
    (hp : InType p) :
    (Parse.parse_internal p s items = .ok (p', s') → InType p') ∧
    (Parse.parse p s items = .ok p' → InType p') ∧
    (Parse.parse_rfc2822 p s = .ok (p', s') → InType p') ∧
    (Parse.parse_rfc3339_relaxed p s = .ok (p', s') → InType p') ∧
    (Parse.parse_rfc3339 p s = .ok (p', s') → InType p') ∧ InType Parsed.new :=
  ⟨ParseInType.parse_internal_inType items p s p' s' hp, ParseInType.parse_inType items p s p' hp,
   ParseInType.rfc2822_inType p s p' s' hp, ParseInType.relaxed_inType p s p' s' hp,
   ParseInType.strict_inType p s p' s' hp, ParseInType.inType_new⟩

/-- **field resolution.**  On every record of in-type field values, for every `i32` offset argument and
every fixed-offset zone, each of the six `Parsed::to_*` resolvers returns a value or an error kind, never
panics (C14 `no_panic`), and a value it returns satisfies the representation invariant of its type
(`to_naive_time`, `to_fixed_offset` are `ParseResult`-valued in the model: no operation in them can
panic). -/
theorem resolvers_total (p : Parsed) (hp : InType p) (off zone : Int)
    (hoff : -2147483648 ≤ off ∧ off ≤ 2147483647) (hz : OffValid zone) :
    (∃ r, Parsed.to_naive_date p = .ok r ∧ ∀ d, r = .ok d → DateInv d) ∧
    (∃ r, (.ok (Parsed.to_naive_time p) : Parsed.RP Time) = .ok r ∧ ∀ t, r = .ok t → TValid t) ∧
    (∃ r, Parsed.to_naive_datetime_with_offset p off = .ok r ∧ ∀ dt, r = .ok dt → NDTInv dt) ∧
    (∃ r, (.ok (Parsed.to_fixed_offset p) : Parsed.RP Int) = .ok r ∧ ∀ o, r = .ok o → OffValid o) ∧
    (∃ r, Parsed.to_datetime p = .ok r ∧ ∀ z, r = .ok z → ZInv z) ∧
    (∃ r, Parsed.to_datetime_with_timezone p zone = .ok r ∧ ∀ z, r = .ok z → ZInv z) := by
  have _h := C14.no_panic p hp off zone hoff hz
  exact ⟨date_total p hp, ⟨_, rfl, fun t ht => (C14.time_sound p t ht).1.1⟩, naive_total p hp off hoff,
    ⟨_, rfl, fun o ho => (((C14.fixed_offset_sound p).1 o).mp ho).2⟩, C15Total.zoned_total p hp,
    zoned_tz_total p hp zone hz⟩

/-- **`parse_from_str` / `parse_and_remainder`, all four target types** (`NaiveDate`, `NaiveTime`,
`NaiveDateTime`, `DateTime<FixedOffset>`), ARBITRARY text × ARBITRARY format string (any two byte
strings: ASCII, multi-byte, truncated specifiers): the call returns `Ok` or `Err(kind)`, never panics,
and an `Ok` value is of the target type and satisfies its invariant. -/
theorem parse_from_str_total (t : ParseFrom.Target) (s fmt : List Nat) :
    (∃ r, ParseFrom.parse_from_str t s fmt = .ok r ∧ ∀ v, r = .ok v → ValueValid v ∧ v.target = t) ∧
    (∃ r, ParseFrom.parse_and_remainder t s fmt = .ok r ∧
      ∀ v rest, r = .ok (v, rest) → ValueValid v ∧ v.target = t) :=
  ⟨C15Total.parse_from_str_total t s fmt, C15Total.parse_and_remainder_total t s fmt⟩

/-- non-vacuity: U+2212, a digit and a lone lead byte against `%Y%` (a truncated specifier); a timestamp
beyond the range with an offset; both are errors by value -/
example :
    (∃ r, ParseFrom.parse_from_str .naive [0xE2, 0x88, 0x92, 0x31, 0xC3] [37, 89, 37] = .ok r) ∧
    (∃ r, ParseFrom.parse_from_str .zoned (asciiBytes "9223372036854775807 +00:00") (asciiBytes "%s %z") = .ok r) :=
  ⟨by obtain ⟨r, h, _⟩ := (parse_from_str_total .naive _ _).1; exact ⟨r, h⟩,
   by obtain ⟨r, h, _⟩ := (parse_from_str_total .zoned _ _).1; exact ⟨r, h⟩⟩

/-- **the RFC 2822 / RFC 3339 readers**, every byte string: `Ok` or `Err`, never a panic (C11
`reader_total`; C10 `reader_accepts_iff` + `reader_total_rejects`), and an `Ok` value is well formed. -/
theorem rfc_readers_total (s : List Nat) :
    (∃ r, Rfc2822.parse_from_rfc2822 s = .ok r ∧ ∀ z, r = .ok z → ZInv z) ∧
    (∃ r, Rfc3339.parse_from_rfc3339 s = .ok r ∧ ∀ z, r = .ok z → ZInv z) := by
  have _h := C11.reader_total s
  exact ⟨rfc2822_total s, rfc3339_total s⟩

/-- **the `FromStr` impls** of `NaiveDate`, `NaiveTime`, `NaiveDateTime`, `DateTime<FixedOffset>`,
`DateTime<Utc>`, `FixedOffset`, every byte string: `Ok` or `Err`, never a panic, `Ok` values valid
(`NaiveTime` / `FixedOffset`: `ParseResult`-valued models; `Weekday` / `Month`: `Option`-valued, C09). -/
theorem from_str_total (s : List Nat) :
    (∃ r, TextForms.date_from_str s = .ok r ∧ ∀ d, r = .ok d → DateInv d) ∧
    (∃ r, (.ok (TextForms.time_from_str s) : Parsed.RP Time) = .ok r ∧ ∀ t, r = .ok t → TValid t) ∧
    (∃ r, TextForms.naive_from_str s = .ok r ∧ ∀ dt, r = .ok dt → NDTInv dt) ∧
    (∃ r, TextForms.fixed_from_str s = .ok r ∧ ∀ z, r = .ok z → ZInv z) ∧
    (∃ r, TextForms.utc_from_str s = .ok r ∧ ∀ z, r = .ok z → ZInv z ∧ z.off = 0) ∧
    (∃ r, (.ok (TextForms.offset_from_str s) : Parsed.RP Int) = .ok r ∧ ∀ o, r = .ok o → OffValid o) := by
  obtain ⟨r, hr, hv⟩ := fixed_from_str_total s
  refine ⟨date_from_str_total s, ⟨_, rfl, fun t ht => time_from_str_valid s t ht⟩, naive_from_str_total s,
    ⟨r, hr, hv⟩, ?_, ⟨_, rfl, fun o ho => offset_from_str_valid s o ho⟩⟩
  unfold TextForms.utc_from_str
  rw [hr]
  cases r with
  | error e => exact ⟨_, rfl, fun z hz => by cases hz⟩
  | ok a =>
    refine ⟨_, rfl, fun z hz => ?_⟩
    injection hz with hz; subst hz
    have := hv a rfl
    exact ⟨⟨this.1, by unfold OffValid Zoned.with_timezone; dsimp only; omega⟩, rfl⟩

/-! ## RFC 3339 renderers and serde -/

/-- **`to_rfc3339` / `to_rfc3339_opts`** return the text — no panic from the wall-clock view, no
`expect` on a formatter error — for EVERY well-formed zone-aware value, every `SecondsFormat`, with and
without `Z`: also when the wall clock lies in the headroom day beyond a range end (`MAX_UTC` at `+01:00`)
and for wall-clock years outside 0..=9999 (signed five-digit form; C10's `writer_in_grammar` covers
0..=9999 only).  Rests on C04 `headroom_sound`. -/
theorem rfc3339_render_total (z : Zoned) (hz : ZInv z) (sf : Format.SecondsFormat) (use_z : Bool) :
    (∃ t, Rfc3339.to_rfc3339_opts z sf use_z = .ok t) ∧ (∃ t, Rfc3339.to_rfc3339 z = .ok t) :=
  ⟨C15Render.to_rfc3339_opts_total z hz sf use_z, C15Render.to_rfc3339_opts_total z hz .autoSi false⟩

/-- non-vacuity at the range ends (finding #4's input): `MAX_UTC` viewed at `+01:00` and `MIN_UTC` at
`−01:00` are well formed and render as `+262143-01-01T00:59:59+01:00` / `-262144-12-31T23:00:00-01:00` -/
example :
    ZInv ⟨NaiveDT.MAX, 3600⟩ ∧ ZInv ⟨NaiveDT.MIN, -3600⟩ ∧
    Rfc3339.to_rfc3339_opts ⟨NaiveDT.MAX, 3600⟩ .secs true = .ok (asciiBytes "+262143-01-01T00:59:59+01:00") ∧
    Rfc3339.to_rfc3339 ⟨NaiveDT.MIN, -3600⟩ = .ok (asciiBytes "-262144-12-31T23:00:00-01:00") := by
  decide +kernel

/-- **`Serialize for DateTime<Tz>`** (fixed offset / UTC) hands the serializer a text for every
well-formed value (the wall clock is read with the one-day headroom; finding #6 repaired); the four
string visitors (`NaiveDate`, `NaiveTime`, `NaiveDateTime`, `DateTime<FixedOffset>` / `DateTime<Utc>`)
answer `Ok` / `Err` on every text, never panic, and `Ok` values are valid. -/
theorem serde_str_total (z : Zoned) (hz : ZInv z) (s : List Nat) :
    (∃ t, Serde.DateTimeStr.serialize z = .ok (some t)) ∧
    (∃ r, Serde.NaiveDateStr.visit_str s = .ok r ∧ ∀ d, r = .ok d → DateInv d) ∧
    (∃ r, Serde.NaiveTimeStr.visit_str s = .ok r ∧ ∀ t, r = .ok t → TValid t) ∧
    (∃ r, Serde.NaiveDateTimeStr.visit_str s = .ok r ∧ ∀ dt, r = .ok dt → NDTInv dt) ∧
    (∃ r, Serde.DateTimeStr.deserialize_fixed s = .ok r ∧ ∀ z, r = .ok z → ZInv z) ∧
    (∃ r, Serde.DateTimeStr.deserialize_utc s = .ok r ∧ ∀ z, r = .ok z → ZInv z ∧ z.off = 0) :=
  ⟨C15Render.serialize_total z hz, C15Serde.visit_str_total s⟩

/-- **the sixteen serde timestamp modules** (`ts_seconds` … `ts_nanoseconds`, `_option` forms, for
`DateTime<Utc>` and `NaiveDateTime`): serialization returns normally on every valid value (leap-second
representations included; the nanosecond modules answer an error by value outside the `i64` window);
every visitor returns normally on everything a data format can deliver (`visit_i64` of any `i64`,
`visit_u64` of any `u64`, anything else; `None`, unit, `Some(..)`) and a value it returns is valid
(C20 `ts_rejects`, `ts_option_reads`). -/
theorem serde_ts_total (tg : Serde.Target) (u : Serde.TsUnit) (dt : NaiveDT) (h : NDTInv dt)
    (w : Serde.WInt) (hw : C15Serde.WIntOk w) (wo : Serde.WOpt) (hwo : C15Serde.WOptOk wo) :
    (∃ r, Serde.serialize tg u dt = .ok r) ∧ (∃ r, Serde.serialize_option tg u (some dt) = .ok r) ∧
    (∃ r, Serde.serialize_option tg u none = .ok r) ∧
    (∃ r, Serde.deserialize tg u w = .ok r ∧ ∀ x, r = .ok x → NDTInv x) ∧
    (∃ r, Serde.deserialize_option tg u wo = .ok r ∧ ∀ x, r = .ok (some x) → NDTInv x) := by
  obtain ⟨a, b, c⟩ := C15Serde.ts_serialize_total tg u dt h
  exact ⟨a, b, c, C15Serde.ts_deserialize_total tg u w hw, C15Serde.ts_deserialize_option_total tg u wo hwo⟩

/-- non-vacuity: the last representable instant as a leap second, `u64::MAX` handed to `visit_u64`,
`i64::MIN` inside `Some` -/
example : NDTInv ⟨NaiveDT.MAX.date, ⟨86399, 1999999999⟩⟩ ∧ C15Serde.WIntOk (.u64 18446744073709551615) ∧
    C15Serde.WOptOk (.some (.i64 (-9223372036854775808))) :=
  ⟨by decide, by show Serde.isU64 _; unfold Serde.isU64; omega, by show Ts.isI64 _; unfold Ts.isI64; omega⟩

/-! ## zone-aware field replacement and checked stepping -/

/-- **`DateTime::with_*`, `with_time`, `checked_add/sub_months`, `checked_add/sub_days`** on every
well-formed zone-aware value (any offset of less than a day; wall clock possibly in a headroom day) and
every argument (`u32` / `i32` fields of any size, every valid time of day, every `u32` month count and
every `u64` day count): the call returns normally — never the `naive_local` panic, no overflow — and a
value it returns is well formed, keeps the offset and passes the range filter the code applies
(`MIN_UTC ..= MAX_UTC` for the replacements and `with_time`; representable for the month steppers;
`≤ MAX_UTC` resp. `≥ MIN_UTC` for the day steppers — `Days(0)` added returns the value itself).
Collected from C08 `zoned_ops_spec`, C04 `with_time_spec` and `stepping_spec`. -/
theorem zoned_ops_total (z : Zoned) (hz : ZInv z) (v k : Nat) (y' w : Int) (hw : 0 ≤ w)
    (t : Time) (ht : TValid t) (n : Int) (hn : 0 ≤ n ∧ n ≤ 18446744073709551615) :
    (∃ r, Zoned.with_year z y' = .ok r ∧ ZRes InUtcRange z r) ∧
    (∃ r, Zoned.with_month z v = .ok r ∧ ZRes InUtcRange z r) ∧
    (∃ r, Zoned.with_month0 z v = .ok r ∧ ZRes InUtcRange z r) ∧
    (∃ r, Zoned.with_day z v = .ok r ∧ ZRes InUtcRange z r) ∧
    (∃ r, Zoned.with_day0 z v = .ok r ∧ ZRes InUtcRange z r) ∧
    (∃ r, Zoned.with_ordinal z v = .ok r ∧ ZRes InUtcRange z r) ∧
    (∃ r, Zoned.with_ordinal0 z v = .ok r ∧ ZRes InUtcRange z r) ∧
    (∃ r, Zoned.with_hour z w = .ok r ∧ ZRes InUtcRange z r) ∧
    (∃ r, Zoned.with_minute z w = .ok r ∧ ZRes InUtcRange z r) ∧
    (∃ r, Zoned.with_second z w = .ok r ∧ ZRes InUtcRange z r) ∧
    (∃ r, Zoned.with_nanosecond z w = .ok r ∧ ZRes InUtcRange z r) ∧
    (∃ r, Zoned.checked_add_months z k = .ok r ∧ ZRes (fun s _ => InRangeSecs s) z r) ∧
    (∃ r, Zoned.checked_sub_months z k = .ok r ∧ ZRes (fun s _ => InRangeSecs s) z r) ∧
    (∃ r, Zoned.with_time z t = .ok r ∧ ZRes InUtcRange z r) ∧
    (∃ r, Zoned.checked_add_days z n = .ok r ∧ ZRes (fun s f => n = 0 ∨ LeMaxUtc s f) z r) ∧
    (∃ r, Zoned.checked_sub_days z n = .ok r ∧ ZRes (fun s _ => GeMinUtc s) z r) := by
  obtain ⟨a1, a2, a3, a4, a5, a6, a7, a8, a9, a10, a11, a12, a13⟩ := replace_total z hz v k y' w hw
  obtain ⟨d1, d2⟩ := days_total z hz n hn
  exact ⟨a1, a2, a3, a4, a5, a6, a7, a8, a9, a10, a11, a12, a13, with_time_total z hz t ht, d1, d2⟩

/-- non-vacuity (finding #14's input): `MAX_UTC` at `+01:00` with the time of day replaced by 23:00 would
denote an instant beyond `MAX_UTC`: `None`, not an out-of-range value and not a panic -/
example : Zoned.with_time ⟨NaiveDT.MAX, 3600⟩ ⟨82800, 0⟩ = .ok none ∧
    Zoned.checked_add_days ⟨NaiveDT.MAX, 3600⟩ 18446744073709551615 = .ok none ∧
    Zoned.with_month ⟨NaiveDT.MAX, 3600⟩ 4294967295 = .ok none := by decide +kernel

/-! ## byte level: `&str` slices are taken at char boundaries

The scanner models work on byte lists and return the unconsumed suffix; Rust slices the `&str` at the
number of bytes consumed (`&s[k..]`), which panics unless `k` is a char boundary.  `validUtf8` is the
model of `str::from_utf8` (Model/TzParse.lean), `isCharBoundary` is `str::is_char_boundary`,
`BoundarySuffix s rest` says that what was consumed is itself well-formed UTF-8 (Spec/Utf8Spec.lean). -/

open Chrono.M.Tz Chrono.Spec.Utf8 Chrono.M.Scan in
/-- **a boundary suffix is a legal slice.**  For a well-formed `s` and a suffix `rest` after a
well-formed consumed part, with `k = s.len() − rest.len()` the number of bytes consumed: `k ≤ s.len()`,
`rest` is `&s[k..]`, `s.is_char_boundary(k)` holds — the slice cannot panic — and `rest` is again
well-formed (a `&str` for the next primitive). -/
theorem boundary_suffix_is_char_boundary (s rest : List Nat) (hv : validUtf8 s = true)
    (h : BoundarySuffix s rest) :
    s.length - rest.length ≤ s.length ∧ rest = s.drop (s.length - rest.length) ∧
    isCharBoundary s (s.length - rest.length) = true ∧ validUtf8 rest = true :=
  Utf8.bs_boundary hv h

open Chrono.M.Tz Chrono.Spec.Utf8 Chrono.M.Scan in
/-- **slicing only after an ASCII match** (the anchored mechanism, in general form; it covers every
slice site also inside a run that fails later): in a well-formed string, the position after any run of
matched ASCII bytes, and the position right after ANY ASCII byte (whatever precedes it — `comment_2822`'s
`&s[i + 1..]` after `)`), is a char boundary with a well-formed rest. -/
theorem slice_after_ascii (pre rest : List Nat) (c : Nat) :
    ((∀ b ∈ pre, b < 128) → validUtf8 (pre ++ rest) = true →
      isCharBoundary (pre ++ rest) pre.length = true ∧ validUtf8 rest = true) ∧
    (c < 128 → validUtf8 (pre ++ c :: rest) = true →
      isCharBoundary (pre ++ c :: rest) (pre.length + 1) = true ∧ validUtf8 rest = true) := by
  constructor
  · intro ha hv
    obtain ⟨_, _, h3, h4⟩ := Utf8.bs_boundary hv (Utf8.bs_ascii pre rest ha)
    rw [List.length_append] at h3
    rw [show pre.length + rest.length - rest.length = pre.length by omega] at h3
    exact ⟨h3, h4⟩
  · intro hc hv
    have hp := Utf8.valid_upto_ascii _ pre c rest (Nat.le_refl _) hv hc
    have hb : BoundarySuffix (pre ++ c :: rest) rest := ⟨pre ++ [c], by simp, hp⟩
    obtain ⟨_, _, h3, h4⟩ := Utf8.bs_boundary hv hb
    rw [List.length_append, List.length_cons] at h3
    rw [show pre.length + (rest.length + 1) - rest.length = pre.length + 1 by omega] at h3
    exact ⟨h3, h4⟩

open Chrono.M.Tz Chrono.Spec.Utf8 Chrono.M.Scan in
/-- **scan_prim_boundary.**  Every scanning primitive of src/format/scan.rs that returns a rest, on any
input: what it consumed is well-formed UTF-8 — digits; matched ASCII letters (`| 32` comparisons and
`eq_ignore_ascii_case` against ASCII tables match ASCII bytes only); whole white-space characters; `:`;
`+`, `-` or the three bytes of U+2212; for `comment_2822` everything up to and including the closing `)`
of a well-formed input — so by `boundary_suffix_is_char_boundary` the byte offset it slices at is a char
boundary of every `&str`.  `number` is called with `min ≤ max` (asserted in the Rust code), `char` with an
ASCII byte (all call sites pass `b':'`, `b'-'`). -/
theorem scan_prim_boundary (s rest : List Nat) (v : Int) (k : Nat) (mx : Option Nat) (c : Nat) (i : Nat)
    (w : Weekday) (cm : ColonMode) (z mm ms : Bool) :
    (number s k mx = .ok (rest, v) → (∀ m, mx = some m → k ≤ m) → BoundarySuffix s rest) ∧
    (nanosecond s = .ok (rest, v) → BoundarySuffix s rest) ∧
    (nanosecond_fixed s k = .ok (rest, v) → BoundarySuffix s rest) ∧
    (Scan.char s c = .ok rest → c < 128 → BoundarySuffix s rest) ∧
    (space s = .ok rest → BoundarySuffix s rest) ∧
    BoundarySuffix s (trimStart s) ∧ BoundarySuffix s (colon_or_space s) ∧
    (short_month0 s = .ok (rest, i) → BoundarySuffix s rest) ∧
    (short_weekday s = .ok (rest, w) → BoundarySuffix s rest) ∧
    (short_or_long_month0 s = .ok (rest, i) → BoundarySuffix s rest) ∧
    (short_or_long_weekday s = .ok (rest, w) → BoundarySuffix s rest) ∧
    (timezone_offset s cm z mm ms = .ok (rest, v) → BoundarySuffix s rest) ∧
    (timezone_offset_2822 s = .ok (rest, v) → BoundarySuffix s rest) ∧
    (comment_2822 s = .ok rest → validUtf8 s = true → BoundarySuffix s rest) :=
  ⟨fun h hm => ScanBoundary.number_bs s k mx rest v hm h, ScanBoundary.nanosecond_bs s rest v,
   ScanBoundary.nanosecond_fixed_bs s k rest v, fun h hc => ScanBoundary.char_bs s rest c hc h,
   ScanBoundary.space_bs s rest, ScanBoundary.trimStart_bs s, ScanBoundary.colon_or_space_bs s,
   ScanBoundary.short_month0_bs s rest i, ScanBoundary.short_weekday_bs s rest w,
   ScanBoundary.short_or_long_month0_bs s rest i, ScanBoundary.short_or_long_weekday_bs s rest w,
   ScanBoundary.timezone_offset_bs s cm z mm ms rest v, ScanBoundary.timezone_offset_2822_bs s rest v,
   fun h hv => ScanBoundary.comment_2822_bs s rest hv h⟩

open Chrono.M.Tz Chrono.Spec.Utf8 Chrono.M.Scan in
/-- **the slicing steps of src/format/parse.rs.**  On a well-formed text: one item of `parse_internal`
(a literal `&str` prefix, a white-space item, a numeric item with its sign, `AM`/`PM` — two bytes
matched with `| 32` —, `.` before a fraction, names, offsets, `%Z`'s run of whole non-space characters),
the RFC 2822 scanner (`,` after the weekday, folding white space, legacy zones, trailing comments), the
strict and the relaxed RFC 3339 scanner (`T`/`t`/space, `UTC` matched case-insensitively), and the whole
item-driven parser for ANY item list whose literals are `&str`s (`ItemsUtf8`; true of every `Item` by its
Rust type): what is consumed is well-formed UTF-8, so every slice is at a char boundary and the rest
handed on (or returned by `parse_and_remainder`) is a `&str`. -/
theorem parser_slices_at_boundaries (items : List Item) (it : Item) (p : Parsed) (s : List Nat) (p' : Parsed)
    (s' : List Nat) (hv : validUtf8 s = true) :
    (Parse.parseItemBase p s it = .ok (p', s') → (∀ lit, it = .literal lit → validUtf8 lit = true) →
      BoundarySuffix s s') ∧
    (Parse.parse_rfc2822 p s = .ok (p', s') → BoundarySuffix s s') ∧
    (Parse.parse_rfc3339 p s = .ok (p', s') → BoundarySuffix s s') ∧
    (Parse.parse_rfc3339_relaxed p s = .ok (p', s') → BoundarySuffix s s') ∧
    (Parse.parse_internal p s items = .ok (p', s') → ScanBoundary.ItemsUtf8 items → BoundarySuffix s s') :=
  ⟨fun h hl => ScanBoundary.parseItemBase_bs p s it p' s' hv hl h, ScanBoundary.parse_rfc2822_bs p s p' s' hv,
   ScanBoundary.parse_rfc3339_bs p s p' s', ScanBoundary.parse_rfc3339_relaxed_bs p s p' s' hv,
   fun h hl => ScanBoundary.parse_internal_bs items p s p' s' hv hl h⟩

open Chrono.M.Tz Chrono.Spec.Utf8 Chrono.M.Scan in
/-- **end to end, `parse_from_str` / `parse_and_remainder` on `&str` text × `&str` format string** (any
two well-formed UTF-8 byte strings): every `parse_next_item` call of `StrftimeItems::new(fmt)` (strict
mode) slices the format string after whole characters, every literal it cuts out is well-formed UTF-8 —
so the items satisfy `ItemsUtf8` — and hence every slice the item-driven parser takes of the text is at a
char boundary; the remainder `parse_and_remainder` returns is a `&str`.  (Lenient mode, which
`parse_from_str` does not use, re-slices the format string at a byte count kept in `error_len`; that
count is not covered here.) -/
theorem parse_from_str_slices (s fmt : List Nat) (hs : validUtf8 s = true) (hf : validUtf8 fmt = true) :
    (∀ r, Strftime.parse_next_item false fmt = some r → BoundarySuffix fmt r.1) ∧
    ScanBoundary.ItemsUtf8 (Strftime.items fmt) ∧
    (∀ p rest, ParseFrom.fieldsRem s fmt = .ok (p, rest) → BoundarySuffix s rest ∧ validUtf8 rest = true) := by
  have hi := StrftimeUtf8.items_utf8 fmt hf
  refine ⟨fun r h => (StrftimeUtf8.parse_next_item_good fmt hf r h).1, hi, fun p rest h => ?_⟩
  have hb := ScanBoundary.parse_internal_bs _ _ s p rest hs hi h
  exact ⟨hb, Utf8.bs_valid_rest hs hb⟩

open Chrono.M.Tz Chrono.Spec.Utf8 Chrono.M.Scan in
/-- non-vacuity, multi-byte characters right after the match: `jAn` before `é` (slice at 3, a boundary;
4 is not); U+2212 as the sign of an offset followed by `é`; a comment containing `é` and an escaped `)`
followed by `€` -/
example :
    validUtf8 [106, 65, 110, 195, 169] = true ∧
    (short_month0 [106, 65, 110, 195, 169]).toOption = some ([195, 169], 0) ∧
    isCharBoundary [106, 65, 110, 195, 169] 3 = true ∧ isCharBoundary [106, 65, 110, 195, 169] 4 = false ∧
    (timezone_offset [226, 136, 146, 48, 49, 58, 48, 48, 195, 169] .colonOrSpace true false true).toOption
      = some ([195, 169], -3600) ∧
    (comment_2822 [32, 40, 195, 169, 92, 41, 41, 226, 130, 172]).toOption = some [226, 130, 172] := by
  decide

/-! ## round 3: the documented panics of the operators; more entry points collected -/

/-- **the documented panics of the operator impls, and exactly when** (audit 2, LOW-7).  Every operator that
has a `Res`-valued model with a panic branch (`expect` of its checked form: Model/ArithOps.lean,
MonthsOps.lean, DeltaOps.lean, ZonedOps.lean), on EVERY valid operand — leap-second representations
included, no `NonLeap` hypothesis — panics exactly when the result is not representable:
* `NaiveDateTime ± TimeDelta`: exactly when the checked form says `None`, i.e. exactly when day number +
  carry days of the time-of-day sum lies outside `[NaiveDate::MIN, NaiveDate::MAX]` (C07
  `datetime_operators_spec`, C03 `add_with_leap_operand` via `datetime_arith`); for a non-leap operand that
  is "instant ± ns δ not representable" (C03 `operator_exact(_sub)`; the first conjunct of
  `documented_panics` is the `+` case of this);
* `NaiveDateTime ± Days`: exactly when the day is outside the range (C03 `ndt_days_operator_exact`);
  `NaiveDateTime ± Months`: exactly when the checked form says `None`;
* `NaiveDate ± TimeDelta`, `NaiveDate ± Days`: exactly when the day that many whole days away is outside
  the range (C03 `date_operator_exact`); `NaiveDate ± Months`: exactly when the checked form says `None`
  (target year outside the range: C08 `months_op_spec`);
* `DateTime<Tz> ± TimeDelta`: exactly when the checked form says `None`, which is exactly when the operator
  of the UTC value panics — the offset does not enter; `DateTime<Tz> ± Days` for a non-zero count: exactly
  when the stepped instant is outside `MIN_UTC ..= MAX_UTC` or the stepped wall clock outside the nominal
  range (C04 `days_operators_spec`; `Days(0)` returns the value); `DateTime<Tz> ± Months`: exactly when the
  checked form says `None`;
* `TimeDelta + - *`: exactly when the exact result is out of range; `/`: exactly when the divisor is zero;
  unary `-` never (C06 `op_add_exact`, `op_sub_exact`, `op_mul_exact`, `op_div_spec`, `neg_abs_exact`).
Documented-panic operations that have a model but no conjunct here: the panicking `TimeDelta` constructors
`weeks … milliseconds` (C06 `unit_panicking`), `Add/Sub<core::time::Duration>` (C03 `std_operator_exact`
family), the deprecated `from_local` / `timestamp*` / `from_timestamp` forms (C02, C04), `Sum` (C06),
`naive_local`, `to_rfc2822` (in `documented_panics`).  Documented-panic operations with NO model: the
deprecated calendar constructors (`from_ymd`, `from_yo`, `from_isoywd`, `from_num_days_from_ce`,
`from_hms*`, `and_hms*`, `FixedOffset::east/west`, `ymd`, `yo`, …: `expect` of the `_opt` form),
`DelayedFormat::to_string` / `Display` on `Item::Error` (`Format.*` models return the `fmt::Error` by value,
the `ToString` panic on it is not modelled), `DateTime<Local>` operators. -/
theorem documented_panics_ops (dt : NaiveDT) (δ : Delta) (d : Date) (z : Zoned) (a b : Delta) (k c : Int)
    (n : Nat) (hdt : NDTInv dt) (hδ : DInv δ) (hd : DateInv d) (hz : ZInv z) (ha : DInv a) (hb : DInv b)
    (hk : -2147483648 ≤ k ∧ k ≤ 2147483647) (hc : 0 ≤ c ∧ c ≤ 18446744073709551615) :
    ((NaiveDT.add dt δ = .panic ↔ NaiveDT.checked_add_signed dt δ = .ok none) ∧
     (NaiveDT.add dt δ = .panic ↔
        ¬ (DN_MIN ≤ dayNumOf dt.date + (addLeap dt.time (ns δ)).2 / 86400 ∧
           dayNumOf dt.date + (addLeap dt.time (ns δ)).2 / 86400 ≤ DN_MAX)) ∧
     (NaiveDT.sub dt δ = .panic ↔ NaiveDT.checked_sub_signed dt δ = .ok none) ∧
     (NaiveDT.sub dt δ = .panic ↔
        ¬ (DN_MIN ≤ dayNumOf dt.date + (addLeap dt.time (-(ns δ))).2 / 86400 ∧
           dayNumOf dt.date + (addLeap dt.time (-(ns δ))).2 / 86400 ≤ DN_MAX)) ∧
     (NonLeap dt → (NaiveDT.add dt δ = .panic ↔
        ¬ (NS_MIN ≤ instNs dt + ns δ ∧ instNs dt + ns δ ≤ NS_MAX_DT))) ∧
     (NonLeap dt → (NaiveDT.sub dt δ = .panic ↔
        ¬ (NS_MIN ≤ instNs dt + -(ns δ) ∧ instNs dt + -(ns δ) ≤ NS_MAX_DT))) ∧
     (NaiveDT.add_days_op dt c = .panic ↔ ¬ (DN_MIN ≤ dayNumOf dt.date + c ∧ dayNumOf dt.date + c ≤ DN_MAX)) ∧
     (NaiveDT.sub_days_op dt c = .panic ↔ ¬ (DN_MIN ≤ dayNumOf dt.date + -c ∧ dayNumOf dt.date + -c ≤ DN_MAX)) ∧
     (NaiveDT.add_months_op dt n = .panic ↔ NaiveDT.checked_add_months dt n = .ok none) ∧
     (NaiveDT.sub_months_op dt n = .panic ↔ NaiveDT.checked_sub_months dt n = .ok none)) ∧
    ((Date.add d δ = .panic ↔
        ¬ (DN_MIN ≤ dayNumOf d + wholeDays (ns δ) ∧ dayNumOf d + wholeDays (ns δ) ≤ DN_MAX)) ∧
     (Date.sub d δ = .panic ↔
        ¬ (DN_MIN ≤ dayNumOf d + -(wholeDays (ns δ)) ∧ dayNumOf d + -(wholeDays (ns δ)) ≤ DN_MAX)) ∧
     (Date.add_days_op d c = .panic ↔ ¬ (DN_MIN ≤ dayNumOf d + c ∧ dayNumOf d + c ≤ DN_MAX)) ∧
     (Date.sub_days_op d c = .panic ↔ ¬ (DN_MIN ≤ dayNumOf d + -c ∧ dayNumOf d + -c ≤ DN_MAX)) ∧
     (Date.add_months_op d n = .panic ↔ Date.checked_add_months d n = .ok none) ∧
     (Date.sub_months_op d n = .panic ↔ Date.checked_sub_months d n = .ok none)) ∧
    ((Zoned.add z δ = .panic ↔ Zoned.checked_add_signed z δ = .ok none) ∧
     (Zoned.add z δ = .panic ↔ NaiveDT.add z.utc δ = .panic) ∧
     (Zoned.sub z δ = .panic ↔ Zoned.checked_sub_signed z δ = .ok none) ∧
     (Zoned.sub z δ = .panic ↔ NaiveDT.sub z.utc δ = .panic) ∧
     (0 < c → (Zoned.add_days_op z c = .panic ↔
        ¬ (InUtcRange (instSecs z.utc + c * 86400) z.utc.time.frac ∧ InRangeSecs (wallSecs z + c * 86400)))) ∧
     (0 < c → (Zoned.sub_days_op z c = .panic ↔
        ¬ (InUtcRange (instSecs z.utc - c * 86400) z.utc.time.frac ∧ InRangeSecs (wallSecs z - c * 86400)))) ∧
     (Zoned.add_months_op z n = .panic ↔ Zoned.checked_add_months z n = .ok none) ∧
     (Zoned.sub_months_op z n = .panic ↔ Zoned.checked_sub_months z n = .ok none)) ∧
    ((Delta.add a b = .panic ↔ ¬ nsInRange (ns a + ns b)) ∧
     (Delta.sub a b = .panic ↔ ¬ nsInRange (ns a - ns b)) ∧
     (Delta.mul a k = .panic ↔ ¬ nsInRange (ns a * k)) ∧
     (Delta.div a k = .panic ↔ k = 0) ∧ Delta.neg a ≠ .panic) := by
  obtain ⟨ar1, ar2⟩ := datetime_arith dt δ hdt hδ
  obtain ⟨⟨c1, _⟩, ⟨c2, _⟩⟩ := C07.datetime_operators_spec dt δ hdt hδ
  obtain ⟨nd1, nd2, nd3, nd4⟩ := C03.ndt_days_operator_exact dt c hdt hc
  obtain ⟨nm1, nm2, _⟩ := C15Round3.naive_ops dt hdt 0 n 0 0 0 (by omega) (by omega)
  obtain ⟨⟨da1, da2⟩, ⟨ds1, ds2⟩, ⟨dd1, dd2⟩, ⟨de1, de2⟩⟩ := C03.date_operator_exact d δ c hd hδ hc
  obtain ⟨_, _, dm1, dm2, _⟩ := date_ops d hd n 0 0 0 ⟨0, 0⟩ 0 (by omega) (by decide) (by omega)
  obtain ⟨zs1, zs2⟩ := C15Round3.zoned_signed_okAnd z δ hz hδ
  obtain ⟨zp1, zp2⟩ := C15Round3.zoned_add_panic_iff z δ
  obtain ⟨_, _, zdays⟩ := C04.days_operators_spec z hz
  obtain ⟨_, _, _, _, _, _, _, _, _, _, _, ⟨zm1, hzm1, _⟩, ⟨zm2, hzm2, _⟩, _⟩ :=
    zoned_ops_total z hz 0 n 0 0 (by omega) ⟨0, 0⟩ (by decide) 0 (by omega)
  refine ⟨⟨?_, ?_, ?_, ?_, ?_, ?_, ?_, ?_, ?_, ?_⟩, ⟨?_, ?_, ?_, ?_, ?_, ?_⟩, ⟨?_, zp1, ?_, zp2, ?_, ?_, ?_, ?_⟩,
    ⟨?_, ?_, ?_, ?_, ?_⟩⟩
  · exact C15Round3.expectSome_panic_iff _ (C15Round3.okAnd_ex ar1)
  · rw [c1]; omega
  · exact C15Round3.expectSome_panic_iff _ (C15Round3.okAnd_ex ar2)
  · rw [c2]; omega
  · intro hnl
    obtain ⟨p, q⟩ := C03.operator_exact dt δ hdt hnl hδ
    exact C15Round3.panic_iff_of_exact p q
  · intro hnl
    obtain ⟨p, q⟩ := C03.operator_exact_sub dt δ hdt hnl hδ
    exact C15Round3.panic_iff_of_exact p q
  · exact C15Round3.panic_iff_of_exact nd1 nd2
  · exact C15Round3.panic_iff_of_exact nd3 nd4
  · exact C15Round3.expectSome_panic_iff _ (C15Round3.okAnd_ex nm1)
  · exact C15Round3.expectSome_panic_iff _ (C15Round3.okAnd_ex nm2)
  · exact C15Round3.panic_iff_of_exact da1 da2
  · exact C15Round3.panic_iff_of_exact ds1 ds2
  · exact C15Round3.panic_iff_of_exact dd1 dd2
  · exact C15Round3.panic_iff_of_exact de1 de2
  · exact C15Round3.expectSome_panic_iff _ (C15Round3.okAnd_ex dm1)
  · exact C15Round3.expectSome_panic_iff _ (C15Round3.okAnd_ex dm2)
  · exact C15Round3.expectSome_panic_iff _ (C15Round3.okAnd_ex zs1)
  · exact C15Round3.expectSome_panic_iff _ (C15Round3.okAnd_ex zs2)
  · intro h0; exact (zdays c h0 hc.2).1
  · intro h0; exact (zdays c h0 hc.2).2.2.1
  · exact C15Round3.expectSome_panic_iff _ ⟨zm1, hzm1⟩
  · exact C15Round3.expectSome_panic_iff _ ⟨zm2, hzm2⟩
  · exact C15Round3.ite_panic_iff (C06.op_add_exact a b ha hb).1
  · exact C15Round3.ite_panic_iff (C06.op_sub_exact a b ha hb).1
  · exact C15Round3.ite_panic_iff (C06.op_mul_exact a k ha hk)
  · obtain ⟨q1, q2⟩ := C06.op_div_spec a k ha hk
    constructor
    · intro hp
      by_cases hk0 : k = 0
      · exact hk0
      · obtain ⟨r, hr, _⟩ := q2 hk0; rw [hr] at hp; cases hp
    · exact q1
  · rw [(C06.neg_abs_exact a ha).1]; intro h; cases h

/-- non-vacuity: each family at a range end, on a leap-second operand where there is one -/
example : NDTInv ⟨Date.MAX, ⟨86399, 1500000000⟩⟩ ∧
    NaiveDT.add ⟨Date.MAX, ⟨86399, 1500000000⟩⟩ ⟨0, 500000000⟩ = .panic ∧
    NaiveDT.checked_add_signed ⟨Date.MAX, ⟨86399, 1500000000⟩⟩ ⟨0, 500000000⟩ = .ok none ∧
    NaiveDT.sub ⟨Date.MIN, ⟨0, 1000000000⟩⟩ ⟨1, 1⟩ = .panic ∧
    NaiveDT.add_months_op NaiveDT.MAX 1 = .panic ∧ NaiveDT.sub_days_op NaiveDT.MIN 1 = .panic ∧
    Date.add Date.MAX ⟨86400, 0⟩ = .panic ∧ Date.sub_months_op Date.MIN 1 = .panic ∧
    ZInv ⟨⟨Date.MAX, ⟨86399, 1500000000⟩⟩, 3600⟩ ∧
    Zoned.add ⟨⟨Date.MAX, ⟨86399, 1500000000⟩⟩, 3600⟩ ⟨0, 500000000⟩ = .panic ∧
    Zoned.add_days_op ⟨NaiveDT.MAX, 3600⟩ 1 = .panic ∧ Zoned.add_months_op ⟨NaiveDT.MAX, 3600⟩ 1 = .panic ∧
    Delta.add Delta.MAX ⟨0, 1⟩ = .panic ∧ Delta.mul Delta.MAX 2 = .panic ∧ Delta.div Delta.MAX 0 = .panic ∧
    Delta.neg Delta.MIN = .ok Delta.MAX := by decide +kernel

/-- **collected_total** (audit 2, MEDIUM-6): the fallible entry points that had a theorem in another property
but no statement here.  On every valid value and every argument of the machine domain the call returns
normally and a returned value satisfies the representation invariant of its type:
`NaiveDateTime::checked_add/sub_months` (every `u32`), `checked_add/sub_days` (every `u64`), the eleven
`NaiveDateTime::with_*` (arguments of any size) — the date-level / time-level operation on one part with
the other kept (C08 `naive_datetime_delegates`, C03 `ndt_days_exact`) —, `checked_add/sub_offset` (every
offset a `FixedOffset` holds; `ZonedL.shiftChecked_spec`, the engine of C04 `fromLocal_fails_iff`),
`from_timestamp_millis / _micros / _nanos` (every `i64`; C02 `from_millis_floor`, `from_micros_floor`,
`from_nanos_exact`), `FixedOffset::east_opt / west_opt` (every integer; `Option`-valued models; C04
`east_opt_iff`), `NaiveDate::from_weekday_of_month_opt` (every year, month, weekday, `n`; C08
`nth_weekday_spec`), `TimeDelta::abs` with its result invariant (C06 `neg_abs_exact`), and
`DateTime::checked_add/sub_signed` (result well formed, offset kept; from `datetime_arith_total`). -/
theorem collected_total (dt : NaiveDT) (hdt : NDTInv dt) (v k : Nat) (y' w c off x s : Int) (hw : 0 ≤ w)
    (hc : 0 ≤ c ∧ c ≤ 18446744073709551615) (ho : OffValid off) (hx : Spec.Ts.isI64 x)
    (y : Int) (m : Nat) (wd : Weekday) (n : Nat) (a δ : Delta) (ha : DInv a) (hδ : DInv δ)
    (z : Zoned) (hz : ZInv z) :
    (OkAnd (dt.checked_add_months k) NDTInv ∧ OkAnd (dt.checked_sub_months k) NDTInv ∧
     OkAnd (NaiveDT.checked_add_days dt c) NDTInv ∧ OkAnd (NaiveDT.checked_sub_days dt c) NDTInv ∧
     OkAnd (dt.with_year y') NDTInv ∧ OkAnd (dt.with_month v) NDTInv ∧ OkAnd (dt.with_month0 v) NDTInv ∧
     OkAnd (dt.with_day v) NDTInv ∧ OkAnd (dt.with_day0 v) NDTInv ∧ OkAnd (dt.with_ordinal v) NDTInv ∧
     OkAnd (dt.with_ordinal0 v) NDTInv ∧
     OkAnd (dt.with_hour w) NDTInv ∧ OkAnd (dt.with_minute w) NDTInv ∧ OkAnd (dt.with_second w) NDTInv ∧
     OkAnd (dt.with_nanosecond w) NDTInv) ∧
    (OkAnd (dt.checked_add_offset off) NDTInv ∧ OkAnd (dt.checked_sub_offset off) NDTInv) ∧
    (OkAnd (NaiveDT.from_timestamp_millis x) NDTInv ∧ OkAnd (NaiveDT.from_timestamp_micros x) NDTInv ∧
     ∃ r, NaiveDT.from_timestamp_nanos x = .ok r ∧ NDTInv r) ∧
    ((∀ o, Zoned.east_opt s = some o → OffValid o) ∧ (∀ o, Zoned.west_opt s = some o → OffValid o)) ∧
    OkAnd (Date.from_weekday_of_month_opt y m wd n) DateInv ∧
    (∃ r, Delta.abs a = .ok r ∧ DInv r) ∧
    (OkAnd (Zoned.checked_add_signed z δ) (fun r => ZInv r ∧ r.off = z.off) ∧
     OkAnd (Zoned.checked_sub_signed z δ) (fun r => ZInv r ∧ r.off = z.off)) := by
  refine ⟨C15Round3.naive_ops dt hdt v k y' w c hw hc, C15Round3.offset_ops dt off hdt ho, ⟨?_, ?_, ?_⟩,
    ⟨(C04.east_opt_iff s).2.2.1, (C04.east_opt_iff s).2.2.2⟩, ?_, ?_, C15Round3.zoned_signed_okAnd z δ hz hδ⟩
  · obtain ⟨r, h1, _, h3⟩ := C02.from_millis_floor x hx
    exact ⟨r, h1, fun q hq => (h3 q hq).1⟩
  · obtain ⟨r, h1, _, h3⟩ := C02.from_micros_floor x hx
    exact ⟨r, h1, fun q hq => (h3 q hq).1⟩
  · obtain ⟨r, h1, h2, _⟩ := C02.from_nanos_exact x hx
    exact ⟨r, h1, h2⟩
  · refine ⟨_, (C08.nth_weekday_spec y m wd n).1, fun q hq => ?_⟩
    by_cases hn : n = 0
    · rw [if_pos hn] at hq; cases hq
    · rw [if_neg hn] at hq; exact ymdDate_inv _ _ _ q hq
  · refine ⟨_, (C06.neg_abs_exact a ha).2, ?_⟩
    have hr : nsInRange (if ns a < 0 then -(ns a) else ns a) := by
      have := ha.2.2; unfold nsInRange at *; omega
    exact (C06.ofNs_spec _ hr).1

/-- non-vacuity at the range ends and the integer extremes: refusals by value, and values -/
example : NDTInv NaiveDT.MAX ∧ NDTInv NaiveDT.MIN ∧ OffValid 86399 ∧ Spec.Ts.isI64 (-9223372036854775808) ∧
    NaiveDT.checked_add_months NaiveDT.MAX 4294967295 = .ok none ∧
    NaiveDT.checked_sub_days NaiveDT.MAX 18446744073709551615 = .ok none ∧
    NaiveDT.with_ordinal0 NaiveDT.MAX 4294967295 = .ok none ∧
    NaiveDT.checked_add_offset NaiveDT.MAX 86399 = .ok none ∧
    NaiveDT.checked_sub_offset NaiveDT.MIN 86399 = .ok none ∧
    NaiveDT.from_timestamp_millis (-9223372036854775808) = .ok none ∧
    (NaiveDT.from_timestamp_nanos (-9223372036854775808)).isOk = true ∧
    Zoned.east_opt 86400 = none ∧ Zoned.west_opt (-86399) = some 86399 ∧
    Date.from_weekday_of_month_opt 262142 12 .sun 6 = .ok none ∧
    (Date.from_weekday_of_month_opt 262142 12 .sun 5).isOk = true ∧
    Date.from_weekday_of_month_opt 2147483647 4294967295 .mon 255 = .ok none ∧
    Delta.abs Delta.MIN = .ok Delta.MAX ∧
    Zoned.checked_add_signed ⟨NaiveDT.MAX, 3600⟩ ⟨0, 1⟩ = .ok none := by decide +kernel

/-! ## byte level, second review gap 2: EVERY `&str` slice site, failing paths included

`scan_prim_boundary` / `parser_slices_at_boundaries` above constrain only the suffix a scanner RETURNS on
its `Ok` path.  The theorems below are about the slice-recording copies of Model/Rfc3339Slices.lean (C10)
and Model/ScanSlices.lean: the same computations, recording every `&str` index expression `&src[k..]`
the Rust code evaluates, in statement order, also when the run fails afterwards (a slice taken before a
comparison, before a failing `scan::number`, before a failing setter).  `Spec.StrSlice.sliceFrom` is the
`Res`-valued `&s[k..]` (`.panic` unless `k ≤ len` and `is_char_boundary(k)`); `evalSlices` replays a
recorded run: `.panic` iff one of its index expressions panics. -/

open Chrono.M.Tz Chrono.Spec.Utf8 Chrono.M.Scan Chrono.M.Rfc3339Slices Chrono.M.ScanSlices Chrono.Spec.StrSlice in
/-- **scanners_never_panic** (scan.rs).  For every scanner of src/format/scan.rs that slices its `&str`
argument — `number`, `nanosecond`, `nanosecond_fixed`, `char`, `short_month0`, `short_weekday`,
`short_or_long_month0`, `short_or_long_weekday`, `timezone_offset` (every colon mode and flag combination),
`timezone_offset_2822`, `comment_2822` (`space`, `colon_or_space` only call std's `trim_start*`) — on EVERY
well-formed UTF-8 argument: the recording copy returns exactly what the plain model returns (`Ok` or `Err`),
and replaying its slice record never panics — whether the scanner ends in `Ok` or in `Err`.  `number` is
called with `min ≤ max` (asserted in the Rust code), `char` with an ASCII byte. -/
theorem scanners_never_panic (s : List Nat) (hv : validUtf8 s = true) (k : Nat) (mx : Option Nat)
    (hk : ∀ m, mx = some m → k ≤ m) (c : Nat) (hc : c < 128) (cm : ColonMode) (z mm ms : Bool) :
    evalSlices (numberT s k mx) = .ok (number s k mx) ∧
    evalSlices (nanosecondT s) = .ok (nanosecond s) ∧
    evalSlices (nanosecond_fixedT s k) = .ok (nanosecond_fixed s k) ∧
    evalSlices (charT s c) = .ok (Scan.char s c) ∧
    evalSlices (short_month0T s) = .ok ((short_month0 s).mapError convE) ∧
    evalSlices (short_weekdayT s) = .ok ((short_weekday s).mapError convE) ∧
    evalSlices (short_or_long_month0T s) = .ok ((short_or_long_month0 s).mapError convE) ∧
    evalSlices (short_or_long_weekdayT s) = .ok ((short_or_long_weekday s).mapError convE) ∧
    evalSlices (timezone_offsetT s cm z mm ms) = .ok (timezone_offset s cm z mm ms) ∧
    evalSlices (timezone_offset_2822T s) = .ok (timezone_offset_2822 s) ∧
    evalSlices (comment_2822T s) = .ok (comment_2822 s) := by
  refine ⟨?_, ?_, ?_, ?_, ?_, ?_, ?_, ?_, ?_, ?_, ?_⟩
  · rw [ScanSlices.eval_of_good _ _ (Rfc3339Slices.numberT_good s k mx hv hk), Rfc3339Slices.numberT_fst]
  · rw [ScanSlices.eval_of_good _ _ (Rfc3339Slices.nanosecondT_good s hv), Rfc3339Slices.nanosecondT_fst]
  · rw [ScanSlices.eval_of_good _ _ (ScanSlices.nanosecond_fixedT_good s k hv), ScanSlices.nanosecond_fixedT_fst]
  · rw [ScanSlices.eval_of_good _ _ (Rfc3339Slices.charT_good s c hc hv), Rfc3339Slices.charT_fst]
  · rw [ScanSlices.eval_of_good _ _ (ScanSlices.short_month0T_good s hv), ScanSlices.short_month0T_fst]
  · rw [ScanSlices.eval_of_good _ _ (ScanSlices.short_weekdayT_good s hv), ScanSlices.short_weekdayT_fst]
  · rw [ScanSlices.eval_of_good _ _ (ScanSlices.short_or_long_month0T_good s hv),
      ScanSlices.short_or_long_month0T_fst]
  · rw [ScanSlices.eval_of_good _ _ (ScanSlices.short_or_long_weekdayT_good s hv),
      ScanSlices.short_or_long_weekdayT_fst]
  · rw [ScanSlices.eval_of_good _ _ (Rfc3339Slices.timezone_offsetT_good s cm z mm ms hv),
      Rfc3339Slices.timezone_offsetT_fst]
  · rw [ScanSlices.eval_of_good _ _ (ScanSlices.timezone_offset_2822T_good s hv),
      ScanSlices.timezone_offset_2822T_fst]
  · rw [ScanSlices.eval_of_good _ _ (ScanSlices.comment_2822T_good s hv), ScanSlices.comment_2822T_fst]

open Chrono.M.Tz Chrono.Spec.Utf8 Chrono.M.Parse Chrono.M.Rfc3339Slices Chrono.M.ScanSlices Chrono.Spec.StrSlice in
/-- **parser_never_panics** (parse.rs).  `parse_internal` for ANY item list whose literals are `&str`s, on
ANY `&str` text and any record — with its `&s[prefix.len()..]` (:312/:323), `&s[1..]` after a sign (:369,
:372, taken before `scan::number` runs), `&s[2..]` after AM/PM (:417), `&s[1..]` after `.` (:422) — and
`parse_rfc2822` (`&s_[1..]` after `,` :106), `parse_rfc3339` (:199, :210), `parse_rfc3339_relaxed` (:570,
:578): the recording copy returns exactly what the plain model returns, and replaying its slice record
never panics, ALSO ON RUNS ENDING IN `Err`; every recorded slice was taken of a well-formed string after
whole characters. -/
theorem parser_never_panics (p : Parsed) (s : List Nat) (hv : validUtf8 s = true) (items : List Item)
    (hi : ScanBoundary.ItemsUtf8 items) :
    evalSlices (parse_internalT p s items) = .ok (parse_internal p s items) ∧
    evalSlices (parse_rfc2822T p s) = .ok (parse_rfc2822 p s) ∧
    evalSlices (parse_rfc3339T p s) = .ok (parse_rfc3339 p s) ∧
    evalSlices (parse_rfc3339_relaxedT p s) = .ok (parse_rfc3339_relaxed p s) ∧
    (∀ e ∈ (parse_internalT p s items).2, validUtf8 e.src = true ∧ BoundarySuffix e.src e.rest ∧
      StrSlice.sliceFrom e.src e.k = .ok e.rest) := by
  have g := ScanSlices.parse_internalT_good items p s hv hi
  refine ⟨?_, ?_, ?_, ?_, ?_⟩
  · rw [ScanSlices.eval_of_good _ _ g, ScanSlices.parse_internalT_fst]
  · rw [ScanSlices.eval_of_good _ _ (ScanSlices.parse_rfc2822T_good p s hv), ScanSlices.parse_rfc2822T_fst]
  · rw [ScanSlices.eval_of_good _ _ (Rfc3339Slices.parse_rfc3339T_good p s hv), Rfc3339Slices.parse_rfc3339T_fst]
  · rw [ScanSlices.eval_of_good _ _ (ScanSlices.parse_rfc3339_relaxedT_good p s hv),
      ScanSlices.parse_rfc3339_relaxedT_fst]
  · intro e he
    have ge := g.1 e he
    refine ⟨ge.1, ge.2, ?_⟩
    have := ScanSlices.good_sliceOk e ge
    unfold sliceOk at this
    exact eq_of_beq this

open Chrono.M.Tz Chrono.M.Scan Chrono.M.Parse Chrono.M.Rfc3339Slices Chrono.M.ScanSlices Chrono.Spec.StrSlice in
/-- non-vacuity, multi-byte characters where it matters, failing runs included: `"Junéx"` through
`short_or_long_month0` (one slice, at 3; the suffix `e` does not match `é`'s lead byte, no second slice);
`"ABé"` through `timezone_offset_2822` (`&s[2..]` is recorded although the name lookup then fails with
`Invalid`); the items `Literal("é"), ShortMonthName` on `"éJu"` (the literal's `&s[2..]` is recorded, then
`TooShort`); and `evalSlices` does report a panic for a record with an off-boundary slice. -/
example :
    validUtf8 [74, 117, 110, 195, 169, 120] = true ∧
    short_or_long_month0T [74, 117, 110, 195, 169, 120] =
      (.ok ([195, 169, 120], 5), [⟨[74, 117, 110, 195, 169, 120], [195, 169, 120]⟩]) ∧
    timezone_offset_2822T [65, 66, 195, 169] = (.error .invalid, [⟨[65, 66, 195, 169], [195, 169]⟩]) ∧
    parse_internalT Parsed.new [195, 169, 74, 117] [.literal [195, 169], .fixed .shortMonthName] =
      (.error .tooShort, [⟨[195, 169, 74, 117], [74, 117]⟩]) ∧
    evalSlices ((.ok (), [⟨[195, 169, 120], [169, 120]⟩]) : T Unit) = .panic := by
  refine ⟨by decide, by decide +kernel, by decide +kernel, by decide +kernel, by decide⟩

open Chrono.M.Tz Chrono.Spec.Utf8 Chrono.Spec.StrSlice in
/-- **seed R4-C15-b, the distinction.**  The suffix test of `short_or_long_month0` / `short_or_long_weekday`
(scan.rs:137, :155) reads `s.as_bytes()[..suffix.len()]`: a BYTE slice, which panics only for an index
beyond the length (`bytesTo`) — excluded by the guard `s.len() >= suffix.len()` — and the `&str` slice
`&s[suffix.len()..]` is taken only after the ASCII comparison succeeded.  So the lines as they are
(`eatSuffixAsIs`) never panic, for ANY `&str` and any ASCII suffix, and compute the model's `eatSuffix`.
The seed replaces the byte slice by the `&str` prefix slice `s[..suffix.len()]` (`sliceTo`, needs a char
boundary, evaluated BEFORE the comparison): `eatSuffixSeeded` panics on `"éx"` with suffix `"e"`, i.e.
`short_or_long_month0("Junéx")` — an input on which the plain model, the returned-suffix theorems and the
function's result (`Ok(("éx", 5))`) are all unremarkable. -/
theorem seed_R4_C15_b_distinction :
    (∀ s k, k ≤ s.length → bytesTo s k = .ok (s.take k)) ∧
    (∀ s suffix, validUtf8 s = true → (∀ b ∈ suffix, b < 128) →
      eatSuffixAsIs s suffix = .ok (eatSuffix s suffix)) ∧
    (validUtf8 [195, 169, 120] = true ∧ bytesTo [195, 169, 120] 1 = .ok [195] ∧
      sliceTo [195, 169, 120] 1 = .panic ∧ eatSuffixSeeded [195, 169, 120] [101] = .panic ∧
      eatSuffixAsIs [195, 169, 120] [101] = .ok [195, 169, 120]) := by
  refine ⟨fun s k h => by unfold bytesTo; rw [if_pos h], ?_, by decide⟩
  intro s suffix hv hs
  have hb := ScanBoundary.eatSuffix_bs s suffix hs
  unfold eatSuffixAsIs bytesTo
  unfold eatSuffix at hb ⊢
  by_cases hl : s.length ≥ suffix.length
  · rw [if_pos hl, if_pos hl]
    dsimp only
    by_cases hc : lowerS (s.take suffix.length) = lowerS suffix
    · rw [if_pos hc, if_pos ⟨hl, hc⟩]
      rw [if_pos ⟨hl, hc⟩] at hb
      obtain ⟨h1, h2, h3, _⟩ := Utf8.bs_boundary hv hb
      have hk : s.length - (s.drop suffix.length).length = suffix.length := by
        rw [List.length_drop]; omega
      rw [hk] at h3
      unfold StrSlice.sliceFrom
      rw [if_pos ⟨hl, h3⟩]
    · rw [if_neg hc, if_neg (fun h => hc h.2)]
  · rw [if_neg hl, if_neg (fun h => hl h.1)]

/-! ## lenient `StrftimeItems`: the `error_len` arithmetic and the slices of `StrftimeItems::error` -/

open Chrono.M.Tz Chrono.Spec.Utf8 in
/-- **lenient_error_len_ok** (audit2/C15.md MEDIUM-3, arithmetic + slices inside `StrftimeItems::error`).
`Strftime.parse_next_itemR` (Model/StrftimeLenient.lean) is `parse_next_item` with `error` replaced by
`errorR`: `*error_len -= c.len_utf8()` is a checked subtraction and `&original[*error_len..]`,
`&original[..*error_len]` (strict mode: `&original[original.len()..]`) panic unless the index is
`≤ original.len()` and on a char boundary.  On every well-formed UTF-8 format string, in lenient and in
strict mode, no call site of `error` panics, for one call and for the whole drained iterator; and `errorR`
is `.ok` exactly when the subtraction does not underflow and the index is a legal slice index.
(The `usize` additions `error_len += …` are not modelled as checked: they are bounded by the string length.) -/
theorem lenient_error_len_ok (s : List Nat) (hv : validUtf8 s = true) :
    (∀ l, Strftime.parse_next_itemR l s = .ok (Strftime.parse_next_item l s)) ∧
    Strftime.itemsLenientR s = .ok (Strftime.itemsLenient s) ∧
    Strftime.itemsR s = .ok (Strftime.items s) ∧
    (∀ el ch, Strftime.errorR true s el ch = .ok (Strftime.error true s el ch) ↔
      (ch.getD 0 ≤ el ∧ el - ch.getD 0 ≤ s.length ∧ isCharBoundary s (el - ch.getD 0) = true)) :=
  ⟨fun l => StrftimeLenient.parse_next_itemR_ok l s hv, StrftimeLenient.itemsLenientR_ok s hv,
   StrftimeLenient.itemsR_ok s hv, fun el ch => StrftimeLenient.errorR_ok_iff s el ch⟩

open Chrono.M.Tz in
/-- non-vacuity: "%é", "%-é", "%:é", "%.3é", "%#é", "%" in lenient mode: the literal ends before the
offending character; the checks of `errorR` are real (underflow, index inside `é`, index past the end);
without `validUtf8` the lenient `error` does slice inside a character (`%:` + stray continuation byte) -/
example :
    Strftime.parse_next_itemR true [37, 195, 169] = .ok (some ([195, 169], .literal [37], [])) ∧
    Strftime.parse_next_itemR true [37, 45, 195, 169] = .ok (some ([195, 169], .literal [37, 45], [])) ∧
    Strftime.parse_next_itemR true [37, 58, 195, 169] = .ok (some ([195, 169], .literal [37, 58], [])) ∧
    Strftime.parse_next_itemR true [37, 46, 51, 195, 169] = .ok (some ([195, 169], .literal [37, 46, 51], [])) ∧
    Strftime.parse_next_itemR true [37, 35, 195, 169] = .ok (some ([195, 169], .literal [37, 35], [])) ∧
    Strftime.parse_next_itemR true [37] = .ok (some ([], .literal [37], [])) ∧
    Strftime.errorR true [37, 195, 169] 2 (some 3) = .panic ∧
    Strftime.errorR true [37, 195, 169] 2 none = .panic ∧
    Strftime.errorR true [37, 195, 169] 4 none = .panic ∧
    (validUtf8 [37, 58, 169] = false ∧ Strftime.parse_next_itemR true [37, 58, 169] = .panic) :=
  ⟨by decide, by decide, by decide, by decide, by decide, by decide, by decide, by decide, by decide, by decide⟩

open Chrono.M.Tz Chrono.Spec.Utf8 in
/-- **lenient_slices** (audit2/C15.md MEDIUM-3).  One `parse_next_item` call of
`StrftimeItems::new_lenient(fmt)` on a well-formed UTF-8 remainder: the new remainder starts after whole
characters (`&original[*error_len..]` included), the literal cut out (`&original[..*error_len]`, or a
text run) is well-formed UTF-8, and so are the queued literals. -/
theorem lenient_slices (s : List Nat) (hv : validUtf8 s = true) :
    ∀ r, Strftime.parse_next_item true s = some r →
      BoundarySuffix s r.1 ∧ (∀ lit, r.2.1 = .literal lit → validUtf8 lit = true) ∧
      ScanBoundary.ItemsUtf8 r.2.2 :=
  StrftimeLenient.lenient_slices s hv

open Chrono.M.Tz in
/-- **lenient_items_utf8.**  Every `Item::Literal` of `StrftimeItems::new_lenient(fmt)` is a `&str`. -/
theorem lenient_items_utf8 (s : List Nat) (hv : validUtf8 s = true) :
    ScanBoundary.ItemsUtf8 (Strftime.itemsLenient s) :=
  StrftimeLenient.lenient_items_utf8 s hv

open Chrono.M.Tz in
/-- non-vacuity: "%.3é%-é%" is well formed and lenient mode turns all three bad specifiers into literals -/
example : validUtf8 [37, 46, 51, 195, 169, 37, 45, 195, 169, 37] = true ∧
    Strftime.itemsLenient [37, 46, 51, 195, 169, 37, 45, 195, 169, 37] =
      [.literal [37, 46, 51], .literal [195, 169], .literal [37, 45], .literal [195, 169], .literal [37]] ∧
    Strftime.parse_next_item true [37, 45, 195, 169] = some ([195, 169], .literal [37, 45], []) :=
  ⟨by decide, by decide, by decide⟩

end Chrono.Props.C15
