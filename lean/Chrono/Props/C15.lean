/-
  C15 — fallible operations fail by value, not by panic or hang.
  This file collects the "returns normally" (`… = .ok r`, i.e. no panic, no trapped overflow, no
  failed debug assertion) and "never builds an invalid value" halves of the other properties'
  theorems, as corollaries stated for every argument of the machine domain.  Entry points whose
  models are not yet proved total appear in props/C15.json as compared-only (extremes sweep).
-/
import Chrono.Props.C01
import Chrono.Props.C06
import Chrono.Props.C07
import Chrono.Props.C16
import Chrono.Props.C19
import Chrono.Props.C02
import Chrono.Props.C03
import Chrono.Props.C04
import Chrono.Props.C08
import Chrono.Props.C12
import Chrono.Props.C17

namespace Chrono.Props.C15
open Chrono Chrono.M Chrono.Spec Chrono.Proofs Chrono.Extracted

/-- the calendar constructors return normally for every argument, and a returned date satisfies the
representation invariant -/
theorem date_ctors_total (y : Int) (m d o : Nat) :
    (∃ r, Date.from_ymd_opt y m d = .ok r ∧ ∀ x, r = some x → DateInv x) ∧
    (∃ r, Date.from_yo_opt y o = .ok r ∧ ∀ x, r = some x → DateInv x) := by
  have hinv : ∀ (y : Int) (o : Nat), MIN_YEAR ≤ y → y ≤ MAX_YEAR → 1 ≤ o → o ≤ yearLen y →
      DateInv (dateOfYo y o) := by
    intro y o h1 h2 h3 h4
    have hyl := yearLen_ge y
    obtain ⟨f1, f2, _, f4, _, _⟩ := dateOfYo_fields y o (by omega)
    unfold DateInv
    rw [f1, f2]
    exact ⟨h1, h2, by omega, by omega, f4⟩
  constructor
  · refine ⟨_, C01.ctor_ymd y m d, ?_⟩
    intro x hx
    by_cases hc : MIN_YEAR ≤ y ∧ y ≤ MAX_YEAR ∧ validYmd y m d = true
    · rw [if_pos hc] at hx
      have hb := valid_bounds y m d hc.2.2
      obtain ⟨hf16, _, _, _⟩ := flagsOf_facts y
      have hrep := isLeap_repYear y
      obtain ⟨hv, ho, hyl⟩ := leap_congr (repYear (flagsOf y)) y m d hrep
      have hob := ordinal_bounds_fin m hb.1 d hb.2 _ hf16 (by rw [hv]; exact hc.2.2)
      rw [ho, hyl] at hob
      rw [← Option.some.inj hx]
      exact hinv y _ hc.1 hc.2.1 hob.1 hob.2
    · rw [if_neg hc] at hx; cases hx
  · refine ⟨_, C01.ctor_yo y o, ?_⟩
    intro x hx
    by_cases hc : MIN_YEAR ≤ y ∧ y ≤ MAX_YEAR ∧ 1 ≤ o ∧ o ≤ yearLen y
    · rw [if_pos hc] at hx
      rw [← Option.some.inj hx]
      exact hinv y o hc.1 hc.2.1 hc.2.2.1 hc.2.2.2
    · rw [if_neg hc] at hx; cases hx

/-- the day-number constructor returns normally for every `i32` -/
theorem date_from_days_total (n : Int) (hn : -2147483648 ≤ n ∧ n ≤ 2147483647) :
    ∃ r, Date.from_num_days_from_ce_opt n = .ok r := by
  obtain ⟨r, h, _⟩ := C01.ctor_days n hn
  exact ⟨r, h⟩

/-- successor / predecessor return normally on every date of the range -/
theorem date_succ_pred_total (y : Int) (o : Nat) (hy : MIN_YEAR ≤ y ∧ y ≤ MAX_YEAR)
    (ho : 1 ≤ o ∧ o ≤ yearLen y) :
    (∃ r, Date.succ_opt (dateOfYo y o) = .ok r) ∧ (∃ r, Date.pred_opt (dateOfYo y o) = .ok r) := by
  obtain ⟨r1, h1, _⟩ := C01.succ_ok y o hy ho
  obtain ⟨r2, h2, _⟩ := C01.pred_ok y o hy ho
  exact ⟨⟨r1, h1⟩, ⟨r2, h2⟩⟩

/-- duration arithmetic returns normally on all valid operands and every `i32` factor / divisor, and
whatever it returns is inside the range -/
theorem delta_ops_total (a b : Delta) (k : Int) (ha : DInv a) (hb : DInv b)
    (hk : -2147483648 ≤ k ∧ k ≤ 2147483647) :
    (∃ r, Delta.checked_add a b = .ok r ∧ ∀ x, r = some x → DInv x) ∧
    (∃ r, Delta.checked_sub a b = .ok r ∧ ∀ x, r = some x → DInv x) ∧
    (∃ r, Delta.checked_mul a k = .ok r ∧ ∀ x, r = some x → DInv x) ∧
    (∃ r, Delta.checked_div a k = .ok r ∧ ∀ x, r = some x → DInv x) ∧
    (∃ r, Delta.neg a = .ok r ∧ DInv r) ∧ (∃ r, Delta.abs a = .ok r) := by
  have hopt : ∀ n : Int, ∀ x, (if nsInRange n then some (ofNs n) else none) = some x → DInv x := by
    intro n x hx
    by_cases h : nsInRange n
    · rw [if_pos h] at hx; rw [← Option.some.inj hx]; exact (C06.ofNs_spec n h).1
    · rw [if_neg h] at hx; cases hx
  refine ⟨⟨_, C06.add_exact a b ha hb, hopt _⟩, ⟨_, C06.sub_exact a b ha hb, hopt _⟩,
    ⟨_, C06.mul_exact a k ha hk, hopt _⟩, ?_, ?_, ⟨_, (C06.neg_abs_exact a ha).2⟩⟩
  · by_cases hk0 : k = 0
    · subst hk0
      exact ⟨none, C06.div_zero a, by intro x hx; cases hx⟩
    · obtain ⟨r, h1, h2, _⟩ := C06.div_spec a k ha hk hk0
      exact ⟨some r, h1, by intro x hx; rw [← Option.some.inj hx]; exact h2⟩
  · refine ⟨_, (C06.neg_abs_exact a ha).1, ?_⟩
    have hr : nsInRange (-(ns a)) := by
      have := ha.2.2; unfold nsInRange at *; omega
    exact (C06.ofNs_spec _ hr).1

/-- time-of-day arithmetic returns normally for every valid time (leap representations included)
and every duration -/
theorem time_ops_total (t u : Time) (d : Delta) (ht : TValid t) (hu : TValid u) (hd : DInv d) :
    (∃ r, Time.overflowing_add_signed t d = .ok r) ∧ (∃ r, Time.signed_duration_since t u = .ok r) :=
  ⟨⟨_, C07.add_spec t d ht hd⟩, ⟨_, (C07.diff_spec t u ht hu).1⟩⟩

/-- the TZif reader and the TZ-rule reader never panic, on any byte string -/
theorem tz_readers_total (bytes : List Nat) (ext : Bool) :
    Tz.parse bytes ≠ .panic ∧ Tz.from_tz_string bytes ext ≠ .panic :=
  ⟨C16.parse_total bytes, C16.rule_total bytes ext⟩

/-- iterating a weekday set in any interleaving of front and back pulls never hits the `expect`s -/
theorem weekday_iter_total (sched : List Bool) (s : Nat) (start : Weekday) (hs : s < 128) :
    ∃ r, WeekdaySet.runSchedule sched ⟨s, start⟩ = .ok r := by
  obtain ⟨fs, ks, s', h, _⟩ := C19.iter_interleaved_spec sched s start hs
  exact ⟨_, h⟩

/-- the timestamp constructor returns normally for every `i64` second count and every `u32`
nanosecond field, and what it returns is a valid date-time -/
theorem from_timestamp_total (secs nsecs : Int) (hs : Spec.Ts.isI64 secs) (hn : Spec.Ts.isU32 nsecs) :
    ∃ r, NaiveDT.from_timestamp secs nsecs = .ok r ∧ ∀ dt, r = some dt → NDTInv dt := by
  obtain ⟨r, h, hv⟩ := C02.from_ts_meaning secs nsecs hs hn
  exact ⟨r, h, fun dt hd => (hv dt hd).1⟩

/-- date-time ± duration and date ± days return normally on every valid operand (non-leap for the
date-time form; leap operands: `C03.add_with_leap_operand`) -/
theorem datetime_arith_total (dt : NaiveDT) (δ : Delta) (d : Date) (n : Int) (hdt : NDTInv dt)
    (hnl : NonLeap dt) (hδ : DInv δ) (hd : DateInv d) (hn : -2147483648 ≤ n ∧ n ≤ 2147483647) :
    (∃ r, NaiveDT.checked_add_signed dt δ = .ok r) ∧ (∃ r, Date.add_days d n = .ok r) := by
  obtain ⟨r1, h1, _⟩ := C03.add_exact dt δ hdt hnl hδ
  obtain ⟨r2, h2, _⟩ := C03.add_days_exact d n hd hn
  exact ⟨⟨r1, h1⟩, ⟨r2, h2⟩⟩

/-- zone-aware values: building from a wall clock and reading the wall clock (with the one-day
headroom) return normally for every valid value and every offset a `FixedOffset` can hold -/
theorem zoned_total (off : Int) (ℓ : NaiveDT) (z : Zoned) (ho : OffValid off) (hℓ : NDTInv ℓ)
    (hz : ZInv z) :
    (∃ r, Zoned.from_local_datetime off ℓ = .ok r) ∧ (∃ l, Zoned.overflowing_naive_local z = .ok l) := by
  obtain ⟨r, h, _⟩ := C04.fromLocal_fails_iff off ℓ ho hℓ
  obtain ⟨l, h2, _⟩ := C04.headroom_sound z hz
  exact ⟨⟨r, h⟩, ⟨l, h2⟩⟩

/-- month stepping and every date field replacement return normally for every date of the range and
every argument (including `u32::MAX`-sized ones) -/
theorem date_ops_total (y : Int) (o : Nat) (hy : MIN_YEAR ≤ y ∧ y ≤ MAX_YEAR) (ho : 1 ≤ o ∧ o ≤ yearLen y)
    (n v : Nat) (y' : Int) :
    (∃ r, (dateOfYo y o).checked_add_months n = .ok r) ∧ (∃ r, (dateOfYo y o).checked_sub_months n = .ok r) ∧
    (∃ r, (dateOfYo y o).with_year y' = .ok r) ∧ (∃ r, (dateOfYo y o).with_month v = .ok r) ∧
    (∃ r, (dateOfYo y o).with_day v = .ok r) ∧ (∃ r, (dateOfYo y o).with_ordinal v = .ok r) ∧
    (∃ r, (dateOfYo y o).with_month0 v = .ok r) ∧ (∃ r, (dateOfYo y o).with_day0 v = .ok r) ∧
    (∃ r, (dateOfYo y o).with_ordinal0 v = .ok r) := by
  obtain ⟨m1, m2⟩ := C08.months_spec y o hy ho n
  obtain ⟨w1, w2, w3, w4, w5, w6, w7⟩ := C08.with_field_spec y o hy ho v y'
  exact ⟨⟨_, m1⟩, ⟨_, m2⟩, ⟨_, w1⟩, ⟨_, w2⟩, ⟨_, w4⟩, ⟨_, w6⟩, ⟨_, w3⟩, ⟨_, w5⟩, ⟨_, w7⟩⟩

/-- rounding never panics: every failure is reported by value -/
theorem rounding_total (op : Round.Op) (stamp span : Option Int)
    (hspan : ∀ p, span = some p → p ≤ 9223372036854775807) : Round.run op stamp span ≠ .panic :=
  (C17.err_iff op stamp span hspan).2.2.2.1

/-- iterating the items of ANY format string terminates: each step consumes at least one byte and
queues at most 12 further items, so there are at most 13 items per input byte, in strict and in
lenient mode (`l`), and the `next` iterator ends within 13·len + 1 calls.  (The property text's
bound "one item per input byte plus a constant" is not met by composite specifiers: known finding
F18; the linear bound is what holds.) -/
theorem strftime_terminates (l : Bool) (s : List Nat) :
    (Strftime.itemsAux l (s.length + 1) s).length ≤ 13 * s.length ∧
    (∀ n, 13 * s.length < n → Strftime.drain l n ⟨s, []⟩ = Strftime.itemsAux l (s.length + 1) s) := by
  obtain ⟨_, _, h3, h4⟩ := C12.strftime_terminates l s
  exact ⟨h3, h4⟩

/-- the documented panics are real: operator subtraction on the minimum duration overflows
(checked form says `none`), so the operator's `expect` fires -/
example : Delta.checked_sub Delta.MIN ⟨0, 1⟩ = .ok none := by decide

end Chrono.Props.C15
