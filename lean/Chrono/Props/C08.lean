/-
  C08 — month stepping, field replacement and week helpers follow calendar rules.
  Property statements only (helper lemmas: Proofs/DateOpsFin.lean — kernel-evaluated finite facts —
  and Proofs/DateOpsL.lean).  Model: Model/DateOps.lean on top of Model/Date.lean.  Specification:
  Spec/DateOpsSpec.lean on top of Spec/Calendar.lean (leap rule, month lengths, closed-form day
  number, weekday of a day number), independent of chrono's tables.

  A date of the supported range is `dateOfYo y o` with `MIN_YEAR ≤ y ≤ MAX_YEAR`, `1 ≤ o ≤ yearLen y`
  (C01: every value the constructors return has this form); its month and day are `monthOfYo y o`,
  `dayOfYo y o` (C01 `accessors_ok`).  `u32` arguments are natural numbers: every theorem below holds
  for EVERY natural argument, in particular for all of `0 ..= u32::MAX`.

  Second half (date-time forms; helper lemmas: Proofs/DateTimeOpsL.lean on top of C07's Proofs/TimeL.lean
  and C04's Proofs/Zoned*.lean; models: Model/Time.lean, Model/ZonedOps.lean, Model/DateTime.lean,
  Model/DateTimeOps.lean; vocabulary: Spec/DateTimeOpsSpec.lean, Spec/ZonedSpec.lean):
    `TValid t`         a well-formed time of day: `secs < 86400`, `frac < 2·10⁹` (leap representation
                       `frac ≥ 10⁹` on any second, as `with_nanosecond` can build it);
    `HasFields t' h m s n`  `t'` is well formed and shows hour `h`, minute `m`, second `s`, nanosecond `n`;
    `ZInv z`           a well-formed `DateTime<FixedOffset>` (`DateTime<Utc>`: offset 0): UTC reading in
                       range, |offset| < 86400;  `wallSecs z` = instant + offset;
    `ExtNDTInv l`      a reading of the calendar extended by one year at each end (a wall clock can lie
                       up to a day outside the range);
    `ActsOnWall z r0 r`  `r` is the value at `z`'s offset whose wall clock is the naive result `r0`, kept
                       only inside `MIN_UTC ..= MAX_UTC` (`ActsOnWallWith ok`: another filter).
-/
import Chrono.Proofs.DateTimeOpsL
import Chrono.Proofs.MonthsOpsL
import Chrono.Proofs.TimeStrictL

namespace Chrono.Props.C08
open Chrono Chrono.M Chrono.Spec Chrono.Proofs Chrono.Proofs.ZN Chrono.Proofs.DTO Chrono.Extracted
  Chrono.Extracted.DateOps Chrono.Proofs.MOps Chrono.Proofs.TStrictL

/-! ### data re-extracted from the source on this run -/

/-- the month-length array local to `diff_months`, the arms of `Month::num_days`, the February
literals and the split constants, as re-extracted from the Rust source, are what the calendar
prescribes (every cell, every year) -/
theorem month_data_ok (y : Int) :
    DM_DAYS.length = 12 ∧ MN_DAYS.length = 12 ∧
    (∀ k < 12, (if k = DM_FEB_INDEX then (if yearLen y = DM_NDAYS_LEAP then DM_FEB_LEAP else DM_FEB_COMMON)
                else DM_DAYS.getD k 0) = monthLen y (k + 1)) ∧
    (∀ k < 12, (if k = 1 then (if isLeap y then MN_FEB_TRUE else MN_FEB_FALSE) else MN_DAYS.getD k 0)
                = monthLen y (k + 1)) ∧
    (DM_DIV = 12 ∧ DM_REM = 12 ∧ DM_ADD = 1 ∧ DM_MUL = 12 ∧ DM_SUB = 1) ∧
    (MN_FEB_MONTH = 2 ∧ MN_FEB_DAY = 1 ∧ WO_ZERO = 0 ∧ WO_MAX = 366 ∧ Q_SUB = 1 ∧ Q_DIV = 3 ∧ Q_ADD = 1) := by
  refine ⟨rfl, rfl, fun k hk => dm_day_max y k hk, ?_, by decide, by decide⟩
  intro k hk
  match k, hk with
  | 1, _ => unfold monthLen; cases isLeap y <;> rfl
  | 0, _ | 2, _ | 3, _ | 4, _ | 5, _ | 6, _ | 7, _ | 8, _ | 9, _ | 10, _ | 11, _ => rfl

/-! ### month stepping -/

/-- adding and subtracting months, for every date of the range and EVERY month count (all of `u32`
and beyond): the result is the specification's `addMonths?`, never a panic -/
theorem months_spec (y : Int) (o : Nat) (hy : MIN_YEAR ≤ y ∧ y ≤ MAX_YEAR) (ho : 1 ≤ o ∧ o ≤ yearLen y)
    (n : Nat) :
    (dateOfYo y o).checked_add_months n = .ok (addMonths? y (monthOfYo y o) (dayOfYo y o) n) ∧
    (dateOfYo y o).checked_sub_months n = .ok (addMonths? y (monthOfYo y o) (dayOfYo y o) (-(n : Int))) :=
  ⟨add_months_spec y o hy ho n, sub_months_spec y o hy ho n⟩

/-- what `addMonths?` is (for a day `d ≥ 1`, any signed count `n`): the year-month index moves by
exactly `n` (Euclidean split, month in 1..12); the step fails exactly when the target year leaves
the supported range; otherwise the result is the date of the target year and month whose day is
`min d (monthLen …)`, i.e. the original day clamped to the last day of the target month -/
theorem months_target (y : Int) (m d : Nat) (n : Int) (hd : 1 ≤ d) :
    monthIndex (stepYear y m n) (stepMonth y m n) = monthIndex y m + n ∧
    1 ≤ stepMonth y m n ∧ stepMonth y m n ≤ 12 ∧
    (addMonths? y m d n = none ↔ (stepYear y m n < MIN_YEAR ∨ stepYear y m n > MAX_YEAR)) ∧
    (∀ r, addMonths? y m d n = some r →
      r.year = stepYear y m n ∧ r.month = .ok (stepMonth y m n) ∧
      r.day = .ok (min d (monthLen (stepYear y m n) (stepMonth y m n)))) := by
  obtain ⟨hv, h1, h12⟩ := step_valid y m d n hd
  refine ⟨?_, h1, h12, addMonths_none_iff y m d n hd, ?_⟩
  · have hk0 : 0 ≤ (monthIndex y m + n) % 12 := Int.emod_nonneg _ (by decide)
    unfold stepYear stepMonth
    generalize monthIndex y m + n = T at *
    unfold monthIndex
    omega
  · intro r hr
    unfold addMonths? ymdDate? at hr
    by_cases hc : MIN_YEAR ≤ stepYear y m n ∧ stepYear y m n ≤ MAX_YEAR ∧
        validYmd (stepYear y m n) (stepMonth y m n) (stepDay y m d n) = true
    · rw [if_pos hc] at hr
      have := Option.some.inj hr
      subst this
      obtain ⟨f1, f2, f3, _⟩ := ymd_fields _ _ _ hv
      exact ⟨f1, f2, f3⟩
    · rw [if_neg hc] at hr; cases hr

/-- a month count above `i32::MAX` is always refused — and the target year is then out of range
anyway, so this is no exception to "fails only when the target year is out of range" -/
theorem months_huge (y : Int) (o : Nat) (hy : MIN_YEAR ≤ y ∧ y ≤ MAX_YEAR) (ho : 1 ≤ o ∧ o ≤ yearLen y)
    (n : Nat) (hn : (n : Int) > I32_MAX) :
    (dateOfYo y o).checked_add_months n = .ok none ∧ (dateOfYo y o).checked_sub_months n = .ok none ∧
    stepYear y (monthOfYo y o) n > MAX_YEAR ∧ stepYear y (monthOfYo y o) (-(n : Int)) < MIN_YEAR := by
  have hI : I32_MAX = 2147483647 := rfl
  have hMIN : MIN_YEAR = -262143 := rfl
  have hMAX : MAX_YEAR = 262142 := rfl
  obtain ⟨_, _, m3, _⟩ := month_day_spec y o ho.1 ho.2
  obtain ⟨hm1, hm12, hd1, _⟩ := (valid_iff y _ _).mp m3
  have ha : stepYear y (monthOfYo y o) n > MAX_YEAR := by unfold stepYear monthIndex; omega
  have hs : stepYear y (monthOfYo y o) (-(n : Int)) < MIN_YEAR := by unfold stepYear monthIndex; omega
  obtain ⟨h1, h2⟩ := months_spec y o hy ho n
  rw [h1, h2, (addMonths_none_iff _ _ _ _ hd1).mpr (Or.inr ha), (addMonths_none_iff _ _ _ _ hd1).mpr (Or.inl hs)]
  exact ⟨rfl, rfl, ha, hs⟩

/-! ### field replacement -/

/-- replacing one field of a date, for every date of the range and EVERY argument (all of `i32` for
the year, all of `u32` and beyond for the others; the 0-based forms include `u32::MAX`, where the
`+ 1` is refused): the result is the date with that field changed and the others kept if that date
exists (`ymdDate?` / `yoDate?`), nothing otherwise; never a panic -/
theorem with_field_spec (y : Int) (o : Nat) (hy : MIN_YEAR ≤ y ∧ y ≤ MAX_YEAR) (ho : 1 ≤ o ∧ o ≤ yearLen y)
    (v : Nat) (y' : Int) :
    (dateOfYo y o).with_year y' = .ok (ymdDate? y' (monthOfYo y o) (dayOfYo y o)) ∧
    (dateOfYo y o).with_month v = .ok (ymdDate? y v (dayOfYo y o)) ∧
    (dateOfYo y o).with_month0 v = .ok (ymdDate? y (v + 1) (dayOfYo y o)) ∧
    (dateOfYo y o).with_day v = .ok (ymdDate? y (monthOfYo y o) v) ∧
    (dateOfYo y o).with_day0 v = .ok (ymdDate? y (monthOfYo y o) (v + 1)) ∧
    (dateOfYo y o).with_ordinal v = .ok (yoDate? y v) ∧
    (dateOfYo y o).with_ordinal0 v = .ok (yoDate? y (v + 1)) :=
  ⟨with_year_spec y o ho y', with_month_spec y o hy ho v, with_month0_spec y o hy ho v,
   with_day_spec y o hy ho v, with_day0_spec y o hy ho v, with_ordinal_spec y o hy ho v,
   with_ordinal0_spec y o hy ho v⟩

/-- what `ymdDate?` / `yoDate?` are: the value exists exactly when the year is in range and the
(month, day) resp. ordinal exists in that year, and then it has exactly those fields -/
theorem replaced_fields (y : Int) (m d o : Nat) :
    (ymdDate? y m d = none ↔ ¬ (MIN_YEAR ≤ y ∧ y ≤ MAX_YEAR ∧ 1 ≤ m ∧ m ≤ 12 ∧ 1 ≤ d ∧ d ≤ monthLen y m)) ∧
    (∀ r, ymdDate? y m d = some r → r.year = y ∧ r.month = .ok m ∧ r.day = .ok d) ∧
    (yoDate? y o = none ↔ ¬ (MIN_YEAR ≤ y ∧ y ≤ MAX_YEAR ∧ 1 ≤ o ∧ o ≤ yearLen y)) ∧
    (∀ r, yoDate? y o = some r → r.year = y ∧ r.ordinal = o) := by
  have hyl := yearLen_ge y
  refine ⟨?_, ?_, ?_, ?_⟩
  · unfold ymdDate?
    have hv := valid_iff y m d
    constructor
    · intro h hc
      rw [if_pos ⟨hc.1, hc.2.1, hv.mpr hc.2.2⟩] at h; cases h
    · intro h; apply ite_neg'; intro hc; exact h ⟨hc.1, hc.2.1, hv.mp hc.2.2⟩
  · intro r hr
    unfold ymdDate? at hr
    by_cases hc : MIN_YEAR ≤ y ∧ y ≤ MAX_YEAR ∧ validYmd y m d = true
    · rw [if_pos hc] at hr
      have := Option.some.inj hr
      subst this
      obtain ⟨f1, f2, f3, _⟩ := ymd_fields y m d hc.2.2
      exact ⟨f1, f2, f3⟩
    · rw [if_neg hc] at hr; cases hr
  · unfold yoDate?
    constructor
    · intro h hc; rw [if_pos hc] at h; cases h
    · intro h; exact ite_neg' _ _ h
  · intro r hr
    unfold yoDate? at hr
    by_cases hc : MIN_YEAR ≤ y ∧ y ≤ MAX_YEAR ∧ 1 ≤ o ∧ o ≤ yearLen y
    · rw [if_pos hc] at hr
      have := Option.some.inj hr
      subst this
      obtain ⟨f1, f2, _⟩ := dateOfYo_fields y o (by omega)
      exact ⟨f1, f2⟩
    · rw [if_neg hc] at hr; cases hr

/-- at `u32::MAX` every 1- and 0-based replacement answers `None` (no wrap-around of the `+ 1`) -/
theorem with_field_u32max (y : Int) (o : Nat) (hy : MIN_YEAR ≤ y ∧ y ≤ MAX_YEAR) (ho : 1 ≤ o ∧ o ≤ yearLen y) :
    (dateOfYo y o).with_month 4294967295 = .ok none ∧ (dateOfYo y o).with_month0 4294967295 = .ok none ∧
    (dateOfYo y o).with_day 4294967295 = .ok none ∧ (dateOfYo y o).with_day0 4294967295 = .ok none ∧
    (dateOfYo y o).with_ordinal 4294967295 = .ok none ∧ (dateOfYo y o).with_ordinal0 4294967295 = .ok none := by
  obtain ⟨_, h1, h2, h3, h4, h5, h6⟩ := with_field_spec y o hy ho 4294967295 0
  have hyl := yearLen_ge y
  have hm : ∀ m d, 12 < m → ymdDate? y m d = none := by
    intro m d h; rw [(replaced_fields y m d 0).1]; intro hc; omega
  have hd : ∀ m d, 31 < d → ymdDate? y m d = none := by
    intro m d h; rw [(replaced_fields y m d 0).1]; intro hc
    have := monthLen_pos y m hc.2.2.1 hc.2.2.2.1; omega
  have hoo : ∀ o', 366 < o' → yoDate? y o' = none := by
    intro o' h; rw [(replaced_fields y 0 0 o').2.2.1]; intro hc; omega
  rw [h1, h2, h3, h4, h5, h6, hm _ _ (by omega), hm _ _ (by omega), hd _ _ (by omega), hd _ _ (by omega),
    hoo _ (by omega), hoo _ (by omega)]
  exact ⟨rfl, rfl, rfl, rfl, rfl, rfl⟩

/-! ### weeks -/

/-- the week containing a date, for every date of the range and every first weekday `s`:
with `n` the date's day number and `k = daysBack …` (0 ≤ k ≤ 6) the distance back to the most recent
`s`: the first day is the date with day number `n − k` — which falls on weekday `s` — or `None`
exactly when `n − k` precedes `NaiveDate::MIN`; the last day is the date with day number `n − k + 6`
or `None` exactly when that exceeds `NaiveDate::MAX`; `checked_days` is both or nothing; the
`expect`-ing forms panic exactly on `None`.  Never a panic in the checked forms. -/
theorem week_spec (y : Int) (o : Nat) (hy : MIN_YEAR ≤ y ∧ y ≤ MAX_YEAR) (ho : 1 ≤ o ∧ o ≤ yearLen y)
    (s : Weekday) :
    ∃ rf rl, ((dateOfYo y o).week s).checked_first_day = .ok rf ∧
      ((dateOfYo y o).week s).checked_last_day = .ok rl ∧
      (0 ≤ daysBack (weekdayOf (dayNumYo y o)) s.toNat ∧ daysBack (weekdayOf (dayNumYo y o)) s.toNat ≤ 6) ∧
      weekdayOf (dayNumYo y o - daysBack (weekdayOf (dayNumYo y o)) s.toNat) = s.toNat ∧
      IsDateOfDayNum rf (dayNumYo y o - daysBack (weekdayOf (dayNumYo y o)) s.toNat) ∧
      IsDateOfDayNum rl (dayNumYo y o - daysBack (weekdayOf (dayNumYo y o)) s.toNat + 6) ∧
      ((dateOfYo y o).week s).checked_days = .ok (bothDays rf rl) ∧
      ((dateOfYo y o).week s).first_day = (match rf with | some a => .ok a | none => .panic) ∧
      ((dateOfYo y o).week s).last_day = (match rl with | some a => .ok a | none => .panic) ∧
      ((dateOfYo y o).week s).days = (match bothDays rf rl with | some p => .ok p | none => .panic) := by
  obtain ⟨rf, hf, sf⟩ := week_first_spec y o hy ho s
  obtain ⟨rl, hl, sl⟩ := week_last_spec y o hy ho s
  have hs7 := weekday_toNat_lt s
  have hcd : ((dateOfYo y o).week s).checked_days = .ok (bothDays rf rl) := by
    unfold NaiveWeek.checked_days bothDays; rw [hf, hl]
    cases rf <;> cases rl <;> rfl
  refine ⟨rf, rl, hf, hl, daysBack_range _ _, daysBack_weekday _ _ ⟨by omega, by omega⟩, sf, sl, hcd, ?_, ?_, ?_⟩
  · unfold NaiveWeek.first_day; rw [hf]; cases rf <;> rfl
  · unfold NaiveWeek.last_day; rw [hl]; cases rl <;> rfl
  · unfold NaiveWeek.days; rw [hcd]; cases bothDays rf rl <;> rfl

/-! ### n-th weekday of a month -/

/-- `from_weekday_of_month_opt`, every `(year, month, weekday, n)` (all integers / naturals): `None`
for `n = 0`; otherwise the date `(year, month, D)` if it exists in the supported range, where `D` is
the n-th day of that month falling on the weekday: `D` lies in the n-th block of seven days, falls
on the weekday, and is the only such day of the block -/
theorem nth_weekday_spec (y : Int) (m : Nat) (w : Weekday) (n : Nat) :
    Date.from_weekday_of_month_opt y m w n =
      .ok (if n = 0 then none else ymdDate? y m (nthWeekdayDay y m w.toNat n)) ∧
    (1 ≤ n → 7 * (n - 1) + 1 ≤ nthWeekdayDay y m w.toNat n ∧ nthWeekdayDay y m w.toNat n ≤ 7 * n ∧
      weekdayOf (dayNum y m (nthWeekdayDay y m w.toNat n)) = w.toNat ∧
      ∀ D, 7 * (n - 1) + 1 ≤ D → D ≤ 7 * n → weekdayOf (dayNum y m D) = w.toNat →
        D = nthWeekdayDay y m w.toNat n) := by
  refine ⟨nth_weekday_eq y m w n, ?_⟩
  intro hn
  have hw7 := weekday_toNat_lt w
  have hlin : ∀ D : Nat, dayNum y m D = dayNum y m 1 + D - 1 := by
    intro D; unfold dayNum dayNumYo ordinalOf; push_cast; omega
  have hk0 : 0 ≤ ((w.toNat : Int) - weekdayOf (dayNum y m 1)) % 7 := Int.emod_nonneg _ (by decide)
  have hk1 : ((w.toNat : Int) - weekdayOf (dayNum y m 1)) % 7 < 7 := Int.emod_lt_of_pos _ (by decide)
  have hD : (nthWeekdayDay y m w.toNat n : Int)
      = 7 * ((n : Int) - 1) + ((w.toNat : Int) - weekdayOf (dayNum y m 1)) % 7 + 1 := by
    unfold nthWeekdayDay; omega
  refine ⟨by omega, by omega, ?_, ?_⟩
  · rw [hlin]; unfold weekdayOf at *; omega
  · intro D h1 h2 h3
    rw [hlin] at h3; unfold weekdayOf at *; omega

/-! ### whole years elapsed -/

/-- `years_since`, every pair of dates of the range: `Some k` exactly for the number `k ≥ 0` of whole
years elapsed (the k-th anniversary of `base` — same month and day, k years later — is not after
`self`, the next one is), `None` exactly when `base` is after `self`; never a panic -/
theorem years_since_spec (y1 y0 : Int) (o1 o0 : Nat) (hy1 : MIN_YEAR ≤ y1 ∧ y1 ≤ MAX_YEAR)
    (hy0 : MIN_YEAR ≤ y0 ∧ y0 ≤ MAX_YEAR) (ho1 : 1 ≤ o1 ∧ o1 ≤ yearLen y1) (ho0 : 1 ≤ o0 ∧ o0 ≤ yearLen y0) :
    ∃ r, (dateOfYo y1 o1).years_since (dateOfYo y0 o0) = .ok r ∧
      (∀ k, r = some k ↔
        WholeYears y0 (monthOfYo y0 o0) (dayOfYo y0 o0) y1 (monthOfYo y1 o1) (dayOfYo y1 o1) k) ∧
      (r = none ↔ ymdLt y1 (monthOfYo y1 o1) (dayOfYo y1 o1) y0 (monthOfYo y0 o0) (dayOfYo y0 o0)) ∧
      (r = none ↔ (dateOfYo y1 o1).yof < (dateOfYo y0 o0).yof) := by
  refine ⟨_, years_since_eq y1 y0 o1 o0 hy1 hy0 ho1 ho0, ?_⟩
  obtain ⟨_, _, a3, a4⟩ := month_day_spec y1 o1 ho1.1 ho1.2
  obtain ⟨_, _, b3, b4⟩ := month_day_spec y0 o0 ho0.1 ho0.2
  have ha := valid_bounds _ _ _ a3
  have hb := valid_bounds _ _ _ b3
  have hord := ymd_lex_ordinal y1 y0 _ _ _ _ a3 b3
  rw [a4, b4] at hord
  have hyof := (order_spec y1 y0 o1 o0 ho1 ho0).1
  have hdn : dayNumYo y1 o1 < dayNumYo y0 o0 ↔ (y1 < y0 ∨ (y1 = y0 ∧ o1 < o0)) := by
    have hl1 := yearLen_ge y1
    have hl0 := yearLen_ge y0
    unfold dayNumYo
    rcases Int.lt_trichotomy y1 y0 with h | h | h
    · have hm := dby_mono (y1 + 1) y0 (by omega)
      have hs := dby_step y1
      constructor <;> intro _ <;> omega
    · subst h; constructor <;> intro _ <;> omega
    · have hm := dby_mono (y0 + 1) y1 (by omega)
      have hs := dby_step y0
      constructor <;> intro _ <;> omega
  generalize monthOfYo y1 o1 = m1 at *
  generalize dayOfYo y1 o1 = d1 at *
  generalize monthOfYo y0 o0 = m0 at *
  generalize dayOfYo y0 o0 = d0 at *
  dsimp only
  unfold WholeYears ymdLe ymdLt
  by_cases hlt : m1 * 32 + d1 < m0 * 32 + d0
  · rw [if_pos hlt]
    by_cases hk : y1 - y0 - 1 ≥ 0
    · rw [if_pos hk]
      refine ⟨fun k => ?_, ?_, ?_⟩
      · constructor
        · intro h; have := Option.some.inj h; omega
        · intro h; congr 1; omega
      · constructor
        · intro h; cases h
        · intro h; omega
      · constructor
        · intro h; cases h
        · intro h; exfalso; have := hyof.mp h; have := hdn.mp this; omega
    · rw [if_neg hk]
      refine ⟨fun k => ?_, ?_, ?_⟩
      · constructor
        · intro h; cases h
        · intro h; omega
      · constructor
        · intro _; omega
        · intro _; rfl
      · constructor
        · intro _; apply hyof.mpr; apply hdn.mpr
          by_cases hy : y1 < y0
          · left; exact hy
          · right; refine ⟨by omega, ?_⟩
            have : y1 = y0 := by omega
            subst this
            exact (hord rfl).mp (by omega)
        · intro _; rfl
  · rw [if_neg hlt]
    by_cases hk : y1 - y0 - 0 ≥ 0
    · rw [if_pos hk]
      refine ⟨fun k => ?_, ?_, ?_⟩
      · constructor
        · intro h; have := Option.some.inj h; omega
        · intro h; congr 1; omega
      · constructor
        · intro h; cases h
        · intro h; omega
      · constructor
        · intro h; cases h
        · intro h; exfalso; have := hyof.mp h; have := hdn.mp this
          rcases this with h' | ⟨h1, h2⟩
          · omega
          · subst h1; have := (hord rfl).mpr h2; omega
    · rw [if_neg hk]
      refine ⟨fun k => ?_, ?_, ?_⟩
      · constructor
        · intro h; cases h
        · intro h; omega
      · constructor
        · intro _; omega
        · intro _; rfl
      · constructor
        · intro _; apply hyof.mpr; apply hdn.mpr; left; omega
        · intro _; rfl

/-! ### quarter, common-era year, days in month -/

/-- `quarter`, `year_ce`, `num_days_in_month` of every date of the range, and `Month::num_days` for
every month and EVERY year: quarter = ⌈month/3⌉, the common-era pair is (year ≥ 1, year counted from
1 within its era), the number of days is the calendar's month length; `Month::num_days` is `None`
only for February of a year outside the supported range; never a panic -/
theorem calendar_accessors (y : Int) (o : Nat) (hy : MIN_YEAR ≤ y ∧ y ≤ MAX_YEAR) (ho : 1 ≤ o ∧ o ≤ yearLen y)
    (mo : Month) (y' : Int) :
    (dateOfYo y o).quarter = .ok ((monthOfYo y o - 1) / 3 + 1) ∧
    (dateOfYo y o).year_ce = .ok (if y < 1 then (false, 1 - y) else (true, y)) ∧
    (dateOfYo y o).num_days_in_month = .ok (monthLen y (monthOfYo y o)) ∧
    mo.num_days y' = .ok (if mo = .feb ∧ (y' < MIN_YEAR ∨ y' > MAX_YEAR) then none
                          else some (monthLen y' (mo.toNat + 1))) := by
  have hyl := yearLen_ge y
  exact ⟨quarter_spec y o ho, year_ce_spec y o hy (by omega), num_days_in_month_spec y o hy ho,
    month_num_days_spec mo y'⟩

/-! ## Date-time forms -/

/-! ### time-of-day replacement (`NaiveTime`) -/

/-- `with_hour / with_minute / with_second / with_nanosecond`, every well-formed time of day (leap
representation on any second) and EVERY `u32` (indeed every non-negative) argument: `None` exactly when
hour ≥ 24 / minute ≥ 60 / second ≥ 60 / nanosecond ≥ 2·10⁹; otherwise the result is a well-formed time
that shows the new value in the named field and the old values in the three others (`with_hour`,
`with_minute`, `with_second` keep the nanosecond field and with it a leap-second representation;
`with_nanosecond` accepts the leap range 10⁹ ..< 2·10⁹ on any second, as the code does) -/
theorem time_with_field_spec (t : Time) (v : Int) (ht : TValid t) (hv : 0 ≤ v) :
    ((t.with_hour v = none ↔ 24 ≤ v) ∧
      ∀ t', t.with_hour v = some t' → HasFields t' v t.minute t.second t.nanosecond) ∧
    ((t.with_minute v = none ↔ 60 ≤ v) ∧
      ∀ t', t.with_minute v = some t' → HasFields t' t.hour v t.second t.nanosecond) ∧
    ((t.with_second v = none ↔ 60 ≤ v) ∧
      ∀ t', t.with_second v = some t' → HasFields t' t.hour t.minute v t.nanosecond) ∧
    ((t.with_nanosecond v = none ↔ 2000000000 ≤ v) ∧
      ∀ t', t.with_nanosecond v = some t' → HasFields t' t.hour t.minute t.second v) := by
  obtain ⟨⟨a1, a2⟩, ⟨b1, b2⟩, ⟨c1, c2⟩, ⟨d1, d2⟩⟩ := time_with_fields t v ht hv
  exact ⟨⟨a1, a2⟩, ⟨b1, b2⟩, ⟨c1, c2⟩, ⟨d1, d2⟩⟩

/-- a well-formed time of day is determined by the four fields it shows, so `time_with_field_spec`
names *the* result; and the fields of a well-formed time are in range and compose `secs` -/
theorem time_fields_unique (a b : Time) (ha : TValid a) (hb : TValid b) :
    (a.hour = b.hour → a.minute = b.minute → a.second = b.second → a.nanosecond = b.nanosecond → a = b) ∧
    (0 ≤ a.hour ∧ a.hour < 24 ∧ 0 ≤ a.minute ∧ a.minute < 60 ∧ 0 ≤ a.second ∧ a.second < 60 ∧
      a.hour * 3600 + a.minute * 60 + a.second = a.secs ∧ a.nanosecond = a.frac) := by
  refine ⟨time_unique a b ha hb, ?_⟩
  obtain ⟨a1, a2, a3, a4, b1, b2, b3, b4, b5, b6, b7, _⟩ := accessors' a ha
  rw [a1, a2, a3, a4]
  exact ⟨b1, b2, b3, b4, b5, b6, b7, rfl⟩

/-! ### `NaiveDateTime` forms -/

/-- `NaiveDateTime`'s month stepping and eleven field replacements, EVERY naive date-time and every
argument: the date-level operation on the date part with the time of day kept, resp. the time-level
operation on the time part with the date kept (`None` / panic exactly as the part's operation) -/
theorem naive_datetime_delegates (dt : NaiveDT) (v k : Nat) (y' w : Int) :
    let keepTime : Res (Option Date) → Res (Option NaiveDT) :=
      fun r => r.bind fun o => .ok (o.map fun d => ⟨d, dt.time⟩)
    let keepDate : Option Time → Res (Option NaiveDT) := fun o => .ok (o.map fun t => ⟨dt.date, t⟩)
    dt.checked_add_months k = keepTime (dt.date.checked_add_months k) ∧
    dt.checked_sub_months k = keepTime (dt.date.checked_sub_months k) ∧
    dt.with_year y' = keepTime (dt.date.with_year y') ∧
    dt.with_month v = keepTime (dt.date.with_month v) ∧
    dt.with_month0 v = keepTime (dt.date.with_month0 v) ∧
    dt.with_day v = keepTime (dt.date.with_day v) ∧
    dt.with_day0 v = keepTime (dt.date.with_day0 v) ∧
    dt.with_ordinal v = keepTime (dt.date.with_ordinal v) ∧
    dt.with_ordinal0 v = keepTime (dt.date.with_ordinal0 v) ∧
    dt.with_hour w = keepDate (dt.time.with_hour w) ∧
    dt.with_minute w = keepDate (dt.time.with_minute w) ∧
    dt.with_second w = keepDate (dt.time.with_second w) ∧
    dt.with_nanosecond w = keepDate (dt.time.with_nanosecond w) :=
  ⟨rfl, rfl, rfl, rfl, rfl, rfl, rfl, rfl, rfl, rfl, rfl, rfl, rfl⟩

/-- the same with the date-level meaning filled in (`months_spec`, `with_field_spec`): for every naive
date-time whose date is a date of the range, every time of day `t` (no hypothesis on it) and every
argument, the result is the specification's date with `t` kept; never a panic -/
theorem naive_datetime_spec (y : Int) (o : Nat) (hy : MIN_YEAR ≤ y ∧ y ≤ MAX_YEAR) (ho : 1 ≤ o ∧ o ≤ yearLen y)
    (t : Time) (v k : Nat) (y' : Int) :
    let dt : NaiveDT := ⟨dateOfYo y o, t⟩
    let at_t : Option Date → Res (Option NaiveDT) := fun r => .ok (r.map fun d => ⟨d, t⟩)
    dt.checked_add_months k = at_t (addMonths? y (monthOfYo y o) (dayOfYo y o) k) ∧
    dt.checked_sub_months k = at_t (addMonths? y (monthOfYo y o) (dayOfYo y o) (-(k : Int))) ∧
    dt.with_year y' = at_t (ymdDate? y' (monthOfYo y o) (dayOfYo y o)) ∧
    dt.with_month v = at_t (ymdDate? y v (dayOfYo y o)) ∧
    dt.with_month0 v = at_t (ymdDate? y (v + 1) (dayOfYo y o)) ∧
    dt.with_day v = at_t (ymdDate? y (monthOfYo y o) v) ∧
    dt.with_day0 v = at_t (ymdDate? y (monthOfYo y o) (v + 1)) ∧
    dt.with_ordinal v = at_t (yoDate? y v) ∧
    dt.with_ordinal0 v = at_t (yoDate? y (v + 1)) := by
  obtain ⟨m1, m2⟩ := months_spec y o hy ho k
  obtain ⟨w1, w2, w3, w4, w5, w6, w7⟩ := with_field_spec y o hy ho v y'
  dsimp only
  refine ⟨?_, ?_, ?_, ?_, ?_, ?_, ?_, ?_, ?_⟩
  · unfold NaiveDT.checked_add_months NaiveDT.mapDate; dsimp only; rw [m1]; rfl
  · unfold NaiveDT.checked_sub_months NaiveDT.mapDate; dsimp only; rw [m2]; rfl
  · unfold NaiveDT.with_year NaiveDT.mapDate; dsimp only; rw [w1]; rfl
  · unfold NaiveDT.with_month NaiveDT.mapDate; dsimp only; rw [w2]; rfl
  · unfold NaiveDT.with_month0 NaiveDT.mapDate; dsimp only; rw [w3]; rfl
  · unfold NaiveDT.with_day NaiveDT.mapDate; dsimp only; rw [w4]; rfl
  · unfold NaiveDT.with_day0 NaiveDT.mapDate; dsimp only; rw [w5]; rfl
  · unfold NaiveDT.with_ordinal NaiveDT.mapDate; dsimp only; rw [w6]; rfl
  · unfold NaiveDT.with_ordinal0 NaiveDT.mapDate; dsimp only; rw [w7]; rfl

/-! ### zone-aware forms (`DateTime<FixedOffset>`; `DateTime<Utc>` is offset 0) -/

/-- `DateTime::with_year` is `map_local` with a closure that short-cuts an unchanged year -/
theorem zoned_with_year_closure (z : Zoned) (y : Int) :
    Zoned.with_year z y = Zoned.map_local z (withYearLocal y) := rfl

/-- **Every zone-aware form is the naive form applied to the wall clock.**  For every well-formed
zone-aware value `z` (any offset of less than a day, sub-minute ones included) let `l` be its wall clock
(`overflowing_naive_local`; never a panic; `instant + offset`; possibly in a headroom day at a range
end).  Then for every argument:

* each of the eleven replacements `with_year/month/month0/day/day0/ordinal/ordinal0/hour/minute/second/
  nanosecond`: `NaiveDateTime`'s operation applied to `l` returns some `r0` without panicking (for
  `with_year` the closure `withYearLocal`, which keeps `l` when the year is unchanged), the zone-aware
  operation returns some `r` without panicking, and `ActsOnWall z r0 r`: a result has `z`'s offset, is
  well formed, lies in `MIN_UTC ..= MAX_UTC`, denotes the instant `r0 − offset`, and its wall clock IS
  `r0`; there is no result exactly when the naive operation refuses (`r0 = none`) or the instant
  `r0 − offset` is outside `MIN_UTC ..= MAX_UTC` (which includes a leap-second reading in the last
  second of `MAX_UTC`);
* `checked_add_months / checked_sub_months` (every `u32`, indeed every natural count; `Months(0)`
  returns the value itself): the same with the filter "the UTC reading `r0 − offset` is representable"
  (`InRangeSecs`) — this operation does not go through `map_local` and applies no `MIN_UTC ..= MAX_UTC`
  filter (so a leap-second reading in the very last second passes).

When the wall clock is inside the range, `l` is `⟨dateOfYo y o, l.time⟩` for a date of the range, so
`naive_datetime_spec` / `time_with_field_spec` say what `r0` is. -/
theorem zoned_ops_spec (z : Zoned) (hz : ZInv z) (v k : Nat) (y' w : Int) (hw : 0 ≤ w) :
    ∃ l, Zoned.overflowing_naive_local z = .ok l ∧ ExtNDTInv l ∧ instSecs l = wallSecs z ∧
      l.time.frac = z.utc.time.frac ∧
      (InRangeSecs (wallSecs z) → ∃ y o, (MIN_YEAR ≤ y ∧ y ≤ MAX_YEAR) ∧ (1 ≤ o ∧ o ≤ yearLen y) ∧
        l = ⟨dateOfYo y o, l.time⟩) ∧
      (∃ r0 r, withYearLocal y' l = .ok r0 ∧ Zoned.with_year z y' = .ok r ∧ ActsOnWall z r0 r) ∧
      (∃ r0 r, l.with_month v = .ok r0 ∧ Zoned.with_month z v = .ok r ∧ ActsOnWall z r0 r) ∧
      (∃ r0 r, l.with_month0 v = .ok r0 ∧ Zoned.with_month0 z v = .ok r ∧ ActsOnWall z r0 r) ∧
      (∃ r0 r, l.with_day v = .ok r0 ∧ Zoned.with_day z v = .ok r ∧ ActsOnWall z r0 r) ∧
      (∃ r0 r, l.with_day0 v = .ok r0 ∧ Zoned.with_day0 z v = .ok r ∧ ActsOnWall z r0 r) ∧
      (∃ r0 r, l.with_ordinal v = .ok r0 ∧ Zoned.with_ordinal z v = .ok r ∧ ActsOnWall z r0 r) ∧
      (∃ r0 r, l.with_ordinal0 v = .ok r0 ∧ Zoned.with_ordinal0 z v = .ok r ∧ ActsOnWall z r0 r) ∧
      (∃ r0 r, l.checked_add_months k = .ok r0 ∧ Zoned.checked_add_months z k = .ok r ∧
        ActsOnWallWith (fun s _ => InRangeSecs s) z r0 r) ∧
      (∃ r0 r, l.checked_sub_months k = .ok r0 ∧ Zoned.checked_sub_months z k = .ok r ∧
        ActsOnWallWith (fun s _ => InRangeSecs s) z r0 r) ∧
      (∃ r0 r, l.with_hour w = .ok r0 ∧ Zoned.with_hour z w = .ok r ∧ ActsOnWall z r0 r) ∧
      (∃ r0 r, l.with_minute w = .ok r0 ∧ Zoned.with_minute z w = .ok r ∧ ActsOnWall z r0 r) ∧
      (∃ r0 r, l.with_second w = .ok r0 ∧ Zoned.with_second z w = .ok r ∧ ActsOnWall z r0 r) ∧
      (∃ r0 r, l.with_nanosecond w = .ok r0 ∧ Zoned.with_nanosecond z w = .ok r ∧ ActsOnWall z r0 r) := by
  obtain ⟨l, h1, h2, h3, h4, _, h6⟩ := naive_local_spec z hz
  obtain ⟨d1, d2, d3, d4, d5, d6, d7, d8, d9⟩ := zoned_date_ops z hz l h1 v k y'
  obtain ⟨t1, t2, t3, t4⟩ := zoned_time_ops z hz l h1 w hw
  refine ⟨l, h1, h2, h3, h4, ?_, d1, d2, d3, d4, d5, d6, d7, d8, d9, t1, t2, t3, t4⟩
  intro hin
  have hd := (dateInv_iff l.date).mp (h6.mpr hin)
  obtain ⟨el, vl⟩ := ext_eq l.date hd.1
  refine ⟨l.date.year, l.date.ordinal.toNat, hd.2, ⟨vl.2.2.1, vl.2.2.2⟩, ?_⟩
  rw [← el]

/-- what the two filters are, in seconds since the epoch: representable = the date of the UTC reading
lies in `NaiveDate::MIN ..= NaiveDate::MAX`; `MIN_UTC ..= MAX_UTC` = that, minus the leap-second
readings of the very last second -/
theorem utc_filters (s f : Int) :
    (InRangeSecs s ↔ SECS_MIN ≤ s ∧ s ≤ SECS_MAX) ∧
    (InUtcRange s f ↔ InRangeSecs s ∧ ¬ (s = SECS_MAX ∧ f ≥ 1000000000)) ∧
    SECS_MIN = (dayNumYo MIN_YEAR 1 - EPOCH_DAY) * 86400 ∧
    SECS_MAX = (dayNumYo MAX_YEAR 365 - EPOCH_DAY) * 86400 + 86399 ∧
    instSecs NaiveDT.MIN = SECS_MIN ∧ instSecs NaiveDT.MAX = SECS_MAX :=
  ⟨Iff.rfl, Iff.rfl, rfl, rfl, instSecs_min_max.1, instSecs_min_max.2.1⟩

/-! ### whole years elapsed between two zone-aware values -/

/-- `DateTime::years_since`, every pair of well-formed zone-aware values (each at its own offset): with
`l1`, `l0` the wall clocks of `self` and `base` and (year, month, day, time of day) read from them —
`Some k` exactly for the number `k ≥ 0` of whole years elapsed with the time of day in the comparison
(the k-th anniversary of `base`'s wall clock — same month, day and time of day, k years later — is not
after `self`'s wall clock, the next one is; times compare by second of day, then the nanosecond field,
so a leap second sorts after :59.999999999); `None` exactly when `self`'s wall clock reads earlier than
`base`'s — in fields, and equivalently in wall-clock seconds `instant + offset` then nanosecond field
(the offsets enter: two values of the same instant at different offsets can be `None` one way);
never a panic, no `i32` overflow -/
theorem datetime_years_since_spec (z b : Zoned) (hz : ZInv z) (hb : ZInv b) :
    ∃ l1 l0 r, Zoned.overflowing_naive_local z = .ok l1 ∧ Zoned.overflowing_naive_local b = .ok l0 ∧
      Zoned.time z = .ok l1.time ∧ Zoned.time b = .ok l0.time ∧
      Zoned.month z = .ok (monthOfYo l1.date.year l1.date.ordinal.toNat) ∧
      Zoned.day z = .ok (dayOfYo l1.date.year l1.date.ordinal.toNat) ∧
      Zoned.month b = .ok (monthOfYo l0.date.year l0.date.ordinal.toNat) ∧
      Zoned.day b = .ok (dayOfYo l0.date.year l0.date.ordinal.toNat) ∧
      Zoned.years_since z b = .ok r ∧
      (∀ k, r = some k ↔
        WholeYearsT l0.date.year (monthOfYo l0.date.year l0.date.ordinal.toNat)
          (dayOfYo l0.date.year l0.date.ordinal.toNat) l0.time
          l1.date.year (monthOfYo l1.date.year l1.date.ordinal.toNat)
          (dayOfYo l1.date.year l1.date.ordinal.toNat) l1.time k) ∧
      (r = none ↔
        ymdtLt l1.date.year (monthOfYo l1.date.year l1.date.ordinal.toNat)
          (dayOfYo l1.date.year l1.date.ordinal.toNat) l1.time
          l0.date.year (monthOfYo l0.date.year l0.date.ordinal.toNat)
          (dayOfYo l0.date.year l0.date.ordinal.toNat) l0.time) ∧
      (r = none ↔ (wallSecs z < wallSecs b ∨
        (wallSecs z = wallSecs b ∧ z.utc.time.frac < b.utc.time.frac))) := by
  obtain ⟨l1, a1, a2, a3, a4, _⟩ := naive_local_spec z hz
  obtain ⟨l0, b1, b2, b3, b4, _⟩ := naive_local_spec b hb
  obtain ⟨e1, v1⟩ := ext_eq l1.date a2.1
  obtain ⟨e0, v0⟩ := ext_eq l0.date b2.1
  obtain ⟨ma, da, _, _⟩ := month_day_spec l1.date.year l1.date.ordinal.toNat v1.2.2.1 v1.2.2.2
  obtain ⟨mb, db, _, _⟩ := month_day_spec l0.date.year l0.date.ordinal.toNat v0.2.2.1 v0.2.2.2
  rw [← e1] at ma da
  rw [← e0] at mb db
  have hy := zoned_years_since_eq z b hz hb l1 l0 a1 b1
  have ka := years_arith l1.date.year l0.date.year (monthOfYo l1.date.year l1.date.ordinal.toNat)
    (dayOfYo l1.date.year l1.date.ordinal.toNat) (monthOfYo l0.date.year l0.date.ordinal.toNat)
    (dayOfYo l0.date.year l0.date.ordinal.toNat) l1.time l0.time
  have hw := ymdt_wall l1 l0 a2 b2
  rw [a3, b3, a4, b4] at hw
  refine ⟨l1, l0, _, a1, b1, zoned_time_eq z l1 a1, zoned_time_eq b l0 b1, ?_, ?_, ?_, ?_, hy,
    fun k => (ka k).1, (ka 0).2, ?_⟩
  · unfold Zoned.month; rw [a1]; exact ma
  · unfold Zoned.day; rw [a1]; exact da
  · unfold Zoned.month; rw [b1]; exact mb
  · unfold Zoned.day; rw [b1]; exact db
  · exact (ka 0).2.trans hw

/-! ## Audit gaps closed 2026-09-30 (audit/C08.md): operator forms, constructors' view of time-field
replacement, headroom wall clocks, inherited `Datelike` defaults, the month/day of a date -/

/-! ### the month and day of a date (discharges the hypothesis `1 ≤ d` of `months_target`) -/

/-- the (month, day) of every date `dateOfYo y o` (any year): month in 1..12, day in 1..month length,
and `(y, month, day)` is the `o`-th day of the year — so `months_target`, `replaced_fields` apply to
`monthOfYo y o`, `dayOfYo y o` without further hypotheses -/
theorem date_month_day (y : Int) (o : Nat) (ho : 1 ≤ o ∧ o ≤ yearLen y) :
    (dateOfYo y o).month = .ok (monthOfYo y o) ∧ (dateOfYo y o).day = .ok (dayOfYo y o) ∧
    1 ≤ monthOfYo y o ∧ monthOfYo y o ≤ 12 ∧ 1 ≤ dayOfYo y o ∧
    dayOfYo y o ≤ monthLen y (monthOfYo y o) ∧ ordinalOf y (monthOfYo y o) (dayOfYo y o) = o := by
  obtain ⟨m1, m2, m3, m4⟩ := month_day_spec y o ho.1 ho.2
  obtain ⟨a, b, c, d⟩ := (valid_iff y _ _).mp m3
  exact ⟨m1, m2, a, b, c, d, m4⟩

/-- `months_target` for the month and day of a date of the range, no side hypothesis left: the
year-month index moves by exactly `n`, the step fails exactly when the target year leaves the range,
and the result has the target year, target month and the day clamped to that month's length -/
theorem months_target_of_date (y : Int) (o : Nat) (ho : 1 ≤ o ∧ o ≤ yearLen y) (n : Int) :
    monthIndex (stepYear y (monthOfYo y o) n) (stepMonth y (monthOfYo y o) n) = monthIndex y (monthOfYo y o) + n ∧
    (addMonths? y (monthOfYo y o) (dayOfYo y o) n = none ↔
      (stepYear y (monthOfYo y o) n < MIN_YEAR ∨ stepYear y (monthOfYo y o) n > MAX_YEAR)) ∧
    (∀ r, addMonths? y (monthOfYo y o) (dayOfYo y o) n = some r →
      r.year = stepYear y (monthOfYo y o) n ∧ r.month = .ok (stepMonth y (monthOfYo y o) n) ∧
      r.day = .ok (min (dayOfYo y o) (monthLen (stepYear y (monthOfYo y o) n) (stepMonth y (monthOfYo y o) n)))) := by
  obtain ⟨_, _, _, _, hd, _⟩ := date_month_day y o ho
  obtain ⟨a, _, _, b, c⟩ := months_target y (monthOfYo y o) (dayOfYo y o) n hd
  exact ⟨a, b, c⟩

/-! ### operator forms `+ Months` / `- Months` (`expect` of the checked forms) -/

/-- `NaiveDate + Months(n)` / `NaiveDate - Months(n)`, every date of the range and EVERY `u32` (every
natural) count: the specification's `addMonths?` result, and a panic exactly when there is none — i.e.
exactly when the checked form answers `None`, i.e. exactly when the target year lies above `MAX_YEAR`
(resp. below `MIN_YEAR`); `Months::new` / `as_u32` carry the count unchanged -/
theorem months_op_spec (y : Int) (o : Nat) (hy : MIN_YEAR ≤ y ∧ y ≤ MAX_YEAR) (ho : 1 ≤ o ∧ o ≤ yearLen y)
    (n : Nat) :
    (dateOfYo y o).add_months_op n = orPanic (addMonths? y (monthOfYo y o) (dayOfYo y o) n) ∧
    (dateOfYo y o).sub_months_op n = orPanic (addMonths? y (monthOfYo y o) (dayOfYo y o) (-(n : Int))) ∧
    ((dateOfYo y o).add_months_op n = .panic ↔ (dateOfYo y o).checked_add_months n = .ok none) ∧
    ((dateOfYo y o).sub_months_op n = .panic ↔ (dateOfYo y o).checked_sub_months n = .ok none) ∧
    ((dateOfYo y o).add_months_op n = .panic ↔ stepYear y (monthOfYo y o) n > MAX_YEAR) ∧
    ((dateOfYo y o).sub_months_op n = .panic ↔ stepYear y (monthOfYo y o) (-(n : Int)) < MIN_YEAR) ∧
    Months.as_u32 (Months.new n) = n := by
  obtain ⟨a, s⟩ := date_months_op y o hy ho n
  obtain ⟨ca, cs⟩ := months_spec y o hy ho n
  obtain ⟨_, _, hm1, hm12, hd1, _⟩ := date_month_day y o ho
  have na := addMonths_none_iff y (monthOfYo y o) (dayOfYo y o) n hd1
  have ns := addMonths_none_iff y (monthOfYo y o) (dayOfYo y o) (-(n : Int)) hd1
  have hlo : ¬ stepYear y (monthOfYo y o) n < MIN_YEAR := by unfold stepYear monthIndex; omega
  have hhi : ¬ stepYear y (monthOfYo y o) (-(n : Int)) > MAX_YEAR := by unfold stepYear monthIndex; omega
  refine ⟨a, s, ?_, ?_, ?_, ?_, rfl⟩
  · rw [a, ca, orPanic_panic_iff]
    constructor
    · intro h; rw [h]
    · intro h; injection h
  · rw [s, cs, orPanic_panic_iff]
    constructor
    · intro h; rw [h]
    · intro h; injection h
  · rw [a, orPanic_panic_iff, na]
    constructor
    · intro h; rcases h with h | h
      · exact absurd h hlo
      · exact h
    · intro h; exact Or.inr h
  · rw [s, orPanic_panic_iff, ns]
    constructor
    · intro h; rcases h with h | h
      · exact h
      · exact absurd h hhi
    · intro h; exact Or.inl h

/-- `NaiveDateTime ± Months(n)`: the date-level result with the time of day kept, a panic exactly when
the date-level step has no result (every date of the range, every time of day, every count) -/
theorem naive_months_op_spec (y : Int) (o : Nat) (hy : MIN_YEAR ≤ y ∧ y ≤ MAX_YEAR) (ho : 1 ≤ o ∧ o ≤ yearLen y)
    (t : Time) (k : Nat) :
    let dt : NaiveDT := ⟨dateOfYo y o, t⟩
    dt.add_months_op k = orPanic ((addMonths? y (monthOfYo y o) (dayOfYo y o) k).map fun d => ⟨d, t⟩) ∧
    dt.sub_months_op k = orPanic ((addMonths? y (monthOfYo y o) (dayOfYo y o) (-(k : Int))).map fun d => ⟨d, t⟩) ∧
    (dt.add_months_op k = .panic ↔ (dateOfYo y o).add_months_op k = .panic) ∧
    (dt.sub_months_op k = .panic ↔ (dateOfYo y o).sub_months_op k = .panic) := by
  obtain ⟨m1, m2, _⟩ := naive_datetime_spec y o hy ho t 0 k 0
  obtain ⟨a, s⟩ := date_months_op y o hy ho k
  dsimp only at m1 m2 ⊢
  have e1 : NaiveDT.add_months_op ⟨dateOfYo y o, t⟩ k =
      orPanic ((addMonths? y (monthOfYo y o) (dayOfYo y o) k).map fun d => ⟨d, t⟩) := by
    unfold NaiveDT.add_months_op; rw [m1, expectSome_ok]
  have e2 : NaiveDT.sub_months_op ⟨dateOfYo y o, t⟩ k =
      orPanic ((addMonths? y (monthOfYo y o) (dayOfYo y o) (-(k : Int))).map fun d => ⟨d, t⟩) := by
    unfold NaiveDT.sub_months_op; rw [m2, expectSome_ok]
  refine ⟨e1, e2, ?_, ?_⟩
  · rw [e1, a, orPanic_panic_iff, orPanic_panic_iff]
    cases addMonths? y (monthOfYo y o) (dayOfYo y o) k with
    | none => exact ⟨fun _ => rfl, fun _ => rfl⟩
    | some d => exact ⟨fun h => (by cases h), fun h => (by cases h)⟩
  · rw [e2, s, orPanic_panic_iff, orPanic_panic_iff]
    cases addMonths? y (monthOfYo y o) (dayOfYo y o) (-(k : Int)) with
    | none => exact ⟨fun _ => rfl, fun _ => rfl⟩
    | some d => exact ⟨fun h => (by cases h), fun h => (by cases h)⟩

/-- `DateTime<FixedOffset> ± Months(k)` (`DateTime<Utc>`: offset 0), every well-formed value (wall clock
possibly in a headroom day), every count: with `l` the wall clock, `r0` what `NaiveDateTime`'s checked step
makes of `l` and `r` the checked zone-aware result (`ActsOnWallWith InRangeSecs`: `r0` at the same offset,
kept iff its UTC reading is representable; `Months(0)` returns the value itself), the operator returns
`r`'s value and panics exactly when `r` is `None`, i.e. exactly when the naive step refuses or the
stepped wall clock minus the offset is not representable -/
theorem zoned_months_op_spec (z : Zoned) (hz : ZInv z) (k : Nat) :
    ∃ l, Zoned.overflowing_naive_local z = .ok l ∧ ExtNDTInv l ∧ instSecs l = wallSecs z ∧
      (∃ r0 r, l.checked_add_months k = .ok r0 ∧ Zoned.checked_add_months z k = .ok r ∧
        ActsOnWallWith (fun s _ => InRangeSecs s) z r0 r ∧ (k = 0 → r = some z) ∧
        Zoned.add_months_op z k = orPanic r ∧
        (Zoned.add_months_op z k = .panic ↔
          (r0 = none ∨ ∃ nl, r0 = some nl ∧ ¬ InRangeSecs (instSecs nl - z.off)))) ∧
      (∃ r0 r, l.checked_sub_months k = .ok r0 ∧ Zoned.checked_sub_months z k = .ok r ∧
        ActsOnWallWith (fun s _ => InRangeSecs s) z r0 r ∧ (k = 0 → r = some z) ∧
        Zoned.sub_months_op z k = orPanic r ∧
        (Zoned.sub_months_op z k = .panic ↔
          (r0 = none ∨ ∃ nl, r0 = some nl ∧ ¬ InRangeSecs (instSecs nl - z.off)))) := by
  obtain ⟨l, h1, h2, h3, _⟩ := naive_local_spec z hz
  obtain ⟨a, s⟩ := zoned_months_op z hz l h1 k
  exact ⟨l, h1, h2, h3, a, s⟩

/-! ### headroom wall clocks: the calendar meaning of the naive operations on EVERY wall clock -/

/-- every reading `l` of the calendar extended by one year at each end — in particular every wall clock
of a well-formed zone-aware value (`zoned_ops_spec`: `ExtNDTInv l`), also one in the day before `MIN` /
after `MAX` — and every argument: the `NaiveDateTime` month steps and date-field replacements are the
specification's date (`addMonths?`, `ymdDate?`: in the supported range; `ymdReading?`, `yoReading?`: same
year, so possibly the headroom year) with the time of day kept; `Months(0)` keeps the reading; the
operator forms panic exactly on `None`.  This gives `r0` of `zoned_ops_spec` its calendar meaning without
the restriction `InRangeSecs (wallSecs z)`. -/
theorem wall_clock_ops_spec (l : NaiveDT) (hl : ExtNDTInv l) (v k : Nat) (y' : Int) :
    let y := l.date.year
    let m := monthOfYo l.date.year l.date.ordinal.toNat
    let d := dayOfYo l.date.year l.date.ordinal.toNat
    l.checked_add_months k = .ok ((if k = 0 then some l.date else addMonths? y m d k).map fun x => ⟨x, l.time⟩) ∧
    l.checked_sub_months k =
      .ok ((if k = 0 then some l.date else addMonths? y m d (-(k : Int))).map fun x => ⟨x, l.time⟩) ∧
    l.add_months_op k = orPanic ((if k = 0 then some l.date else addMonths? y m d k).map fun x => ⟨x, l.time⟩) ∧
    l.sub_months_op k =
      orPanic ((if k = 0 then some l.date else addMonths? y m d (-(k : Int))).map fun x => ⟨x, l.time⟩) ∧
    l.with_year y' = .ok ((ymdDate? y' m d).map fun x => ⟨x, l.time⟩) ∧
    l.with_month v = .ok (ymdReading? y v d l.time) ∧
    l.with_month0 v = .ok (ymdReading? y (v + 1) d l.time) ∧
    l.with_day v = .ok (ymdReading? y m v l.time) ∧
    l.with_day0 v = .ok (ymdReading? y m (v + 1) l.time) ∧
    l.with_ordinal v = .ok (yoReading? y v l.time) ∧
    l.with_ordinal0 v = .ok (yoReading? y (v + 1) l.time) ∧
    (MIN_YEAR - 1 ≤ y ∧ y ≤ MAX_YEAR + 1 ∧ 1 ≤ m ∧ m ≤ 12 ∧ 1 ≤ d ∧ d ≤ monthLen y m ∧
      l.date = dateOfYo y (ordinalOf y m d)) := by
  obtain ⟨n1, n2, n3, n4, n5, n6, n7, n8, n9⟩ := ndt_ops_ext l hl.1 v k y'
  obtain ⟨o1, o2⟩ := ndt_months_op l hl.1 k
  obtain ⟨el, vl⟩ := ext_eq l.date hl.1
  obtain ⟨_, _, a, b, c, d, e⟩ := date_month_day l.date.year l.date.ordinal.toNat ⟨vl.2.2.1, vl.2.2.2⟩
  dsimp only
  refine ⟨n8, n9, o1, o2, n1, n2, n3, n4, n5, n6, n7, vl.1, vl.2.1, a, b, c, d, ?_⟩
  rw [e]; exact el

/-- the closure `DateTime::with_year` hands to `map_local` (`withYearLocal`, which `zoned_ops_spec` names and
which is a copy of the model's) against the independent reading of Spec/ZonedSpec.lean, for every wall
clock `l` (headroom day included): the wall clock itself when the year is unchanged (also a headroom
year), otherwise the same month, day and time of day in year `y'` if `y'` is in the supported range and
that date exists, else nothing -/
theorem with_year_local_spec (l : NaiveDT) (hl : ExtNDTInv l) (y' : Int) :
    withYearLocal y' l = .ok (yearReading? l y') ∧
    (yearReading? l l.date.year = some l) ∧
    (y' ≠ l.date.year → yearReading? l y' =
      (ymdDate? y' (monthOfYo l.date.year l.date.ordinal.toNat)
        (dayOfYo l.date.year l.date.ordinal.toNat)).map fun d => ⟨d, l.time⟩) := by
  refine ⟨with_year_local l hl.1 y', ?_, ?_⟩
  · unfold yearReading?; rw [if_pos rfl]
  · intro hne
    have h1 := with_year_local l hl.1 y'
    obtain ⟨n1, _⟩ := ndt_ops_ext l hl.1 0 0 y'
    unfold withYearLocal at h1
    rw [if_neg (fun h => hne h.symm), n1] at h1
    injection h1 with h1
    exact h1.symm

/-! ### the `Datelike` defaults `quarter`, `year_ce`, `num_days_in_month` on date-times -/

/-- `NaiveDateTime` (every date of the range, every time of day) and `DateTime<FixedOffset>` /
`DateTime<Utc>` (every well-formed value, wall clock `l` possibly in a headroom day) inherit the three
`Datelike` default methods; they read the date part resp. the wall clock: quarter = ⌈month/3⌉, the
common-era pair, the calendar's month length; never a panic (a headroom wall clock is Dec 31 / Jan 1,
so `Month::num_days` never sees February of an out-of-range year) -/
theorem datelike_defaults_spec (y : Int) (o : Nat) (hy : MIN_YEAR ≤ y ∧ y ≤ MAX_YEAR) (ho : 1 ≤ o ∧ o ≤ yearLen y)
    (t : Time) (z : Zoned) (hz : ZInv z) :
    (NaiveDT.quarter ⟨dateOfYo y o, t⟩ = .ok ((monthOfYo y o - 1) / 3 + 1) ∧
      NaiveDT.year_ce ⟨dateOfYo y o, t⟩ = .ok (if y < 1 then (false, 1 - y) else (true, y)) ∧
      NaiveDT.num_days_in_month ⟨dateOfYo y o, t⟩ = .ok (monthLen y (monthOfYo y o))) ∧
    ∃ l, Zoned.overflowing_naive_local z = .ok l ∧ ExtNDTInv l ∧ instSecs l = wallSecs z ∧
      Zoned.quarter z = .ok ((monthOfYo l.date.year l.date.ordinal.toNat - 1) / 3 + 1) ∧
      Zoned.year_ce z = .ok (if l.date.year < 1 then (false, 1 - l.date.year) else (true, l.date.year)) ∧
      Zoned.num_days_in_month z = .ok (monthLen l.date.year (monthOfYo l.date.year l.date.ordinal.toNat)) := by
  obtain ⟨q, c, n, _⟩ := calendar_accessors y o hy ho .jan 0
  constructor
  · unfold NaiveDT.quarter NaiveDT.year_ce NaiveDT.num_days_in_month
    dsimp only
    rw [quarter_eq, year_ce_eq, num_days_in_month_eq]
    exact ⟨q, c, n⟩
  · obtain ⟨l, h1, _⟩ := naive_local_spec z hz
    obtain ⟨h2, h3, _, h5, _⟩ := wall_date_cases z hz l h1
    obtain ⟨a, b, d⟩ := datelike_ext l.date h5
    refine ⟨l, h1, h2, h3, ?_, ?_, ?_⟩
    · unfold Zoned.quarter Zoned.month; rw [h1, bind_ok']; exact a
    · unfold Zoned.year_ce Zoned.year; rw [h1, bind_ok']; exact b
    · unfold Zoned.num_days_in_month Zoned.month Zoned.year; rw [h1, bind_ok', bind_ok']; exact d

/-! ### the panicking alias `from_weekday_of_month` -/

/-- `NaiveDate::from_weekday_of_month` (deprecated): the value of `from_weekday_of_month_opt`
(`nth_weekday_spec`), a panic exactly when that is `None`; every `(year, month, weekday, n)` -/
theorem from_weekday_of_month_spec (y : Int) (m : Nat) (w : Weekday) (n : Nat) :
    Date.from_weekday_of_month y m w n =
      orPanic (if n = 0 then none else ymdDate? y m (nthWeekdayDay y m w.toNat n)) ∧
    (Date.from_weekday_of_month y m w n = .panic ↔ Date.from_weekday_of_month_opt y m w n = .ok none) := by
  have h := (nth_weekday_spec y m w n).1
  have e : Date.from_weekday_of_month y m w n =
      orPanic (if n = 0 then none else ymdDate? y m (nthWeekdayDay y m w.toNat n)) := by
    unfold Date.from_weekday_of_month; rw [h, expectSome_ok]
  refine ⟨e, ?_⟩
  rw [e, h, orPanic_panic_iff]
  constructor
  · intro h'; rw [h']
  · intro h'; injection h'

/-! ### time-field replacement against the constructors' notion of an existing time -/

/-- **What holds exactly** (audit MEDIUM-2).  `TStrict`: the times the public constructors build (leap
representation `frac ≥ 10⁹` only on second :59).  For every such time and every `u32` (every
non-negative) argument: `with_hour` / `with_minute` always return a constructor-valid time;
`with_second v` does exactly when the time carries no leap representation or `v = 59`;
`with_nanosecond v` exactly when `v < 10⁹` or the time sits on second :59 -/
theorem time_with_field_strict (t : Time) (ht : TStrict t) (v : Int) (hv : 0 ≤ v) :
    (∀ t', t.with_nanosecond v = some t' → (TStrict t' ↔ (v < 1000000000 ∨ t.secs % 60 = 59))) ∧
    (∀ t', t.with_second v = some t' → (TStrict t' ↔ (t.frac < 1000000000 ∨ v = 59))) ∧
    (∀ t', t.with_minute v = some t' → TStrict t') ∧ (∀ t', t.with_hour v = some t' → TStrict t') :=
  strict_iff t ht v hv

/-- "the value with that field changed and all others kept, or nothing if no such time exists", with
*exists* read as the constructors do (`ctorTime h m s n` = the answer of `from_hms_nano_opt`,
`ctorTime_is_constructor`): on every constructor-built time `with_hour` and `with_minute` ARE the
constructor applied to the new field and the three old ones, for every argument; `with_second` and
`with_nanosecond` are too — EXCEPT on the inputs excluded by hypothesis (a leap representation moved off
second :59; a leap-range nanosecond put on another second), where `time_with_field_off59` says what
happens instead.  Partial: the excluded inputs are in the property's quantifier. -/
theorem time_with_field_constructor_partial (t : Time) (ht : TStrict t) (v : Int) (hv : 0 ≤ v) :
    t.with_hour v = ctorTime v t.minute t.second t.nanosecond ∧
    t.with_minute v = ctorTime t.hour v t.second t.nanosecond ∧
    (¬ (1000000000 ≤ t.frac ∧ v < 59) → t.with_second v = ctorTime t.hour t.minute v t.nanosecond) ∧
    (¬ (1000000000 ≤ v ∧ v < 2000000000 ∧ t.secs % 60 ≠ 59) →
      t.with_nanosecond v = ctorTime t.hour t.minute t.second v) :=
  with_vs_ctor t ht v hv

/-- `ctorTime` is the model of `NaiveTime::from_hms_nano_opt` (C07's, compared by C07's driver) -/
theorem ctorTime_is_constructor (h m s n : Int) : ctorTime h m s n = Time.from_hms_nano_opt h m s n :=
  ctorTime_eq_model h m s n

/-- the excluded inputs, universally: `with_second v` (v < 59) on a leap representation and
`with_nanosecond v` (10⁹ ≤ v < 2·10⁹) off second :59 return a value — the old `secs`/`frac` with the one
field replaced, as `time_with_field_spec` describes — although the constructor refuses those four
fields; the value is not constructor-valid (it is `TValid`: the documented "leap second on any second") -/
theorem time_with_field_off59 (t : Time) (ht : TStrict t) (v : Int) (hv : 0 ≤ v) :
    (1000000000 ≤ t.frac → v < 59 →
      t.with_second v = some ⟨t.secs / 60 * 60 + v, t.frac⟩ ∧
      ctorTime t.hour t.minute v t.nanosecond = none ∧ ¬ TStrict ⟨t.secs / 60 * 60 + v, t.frac⟩) ∧
    (1000000000 ≤ v → v < 2000000000 → t.secs % 60 ≠ 59 →
      t.with_nanosecond v = some ⟨t.secs, v⟩ ∧
      ctorTime t.hour t.minute t.second v = none ∧ ¬ TStrict ⟨t.secs, v⟩) :=
  off59 t ht v hv

/-- kernel-checked instances of the deviation (observed on the real crate 2026-09-30):
`00:00:07 .with_nanosecond(1_500_000_000)` and `23:59:59 + leap .with_second(30)` return values that
`from_hms_nano_opt(0, 0, 7, 1_500_000_000)` / `(23, 59, 30, 1_500_000_000)` refuse -/
theorem time_with_field_off59_counterexample :
    TStrict ⟨7, 0⟩ ∧ (⟨7, 0⟩ : Time).with_nanosecond 1500000000 = some ⟨7, 1500000000⟩ ∧
    Time.from_hms_nano_opt 0 0 7 1500000000 = none ∧ ¬ TStrict ⟨7, 1500000000⟩ ∧
    TStrict ⟨86399, 1500000000⟩ ∧ (⟨86399, 1500000000⟩ : Time).with_second 30 = some ⟨86370, 1500000000⟩ ∧
    Time.from_hms_nano_opt 23 59 30 1500000000 = none ∧ ¬ TStrict ⟨86370, 1500000000⟩ := by decide

/-! ### `NaiveDateTime` time-field replacement in one statement; the `as u32` cast of `years_since`;
one month away is `Month::succ` / `Month::pred` -/

/-- `NaiveDateTime::with_hour / with_minute / with_second / with_nanosecond`, every date part (no
hypothesis on it), every well-formed time of day, every `u32` (non-negative) argument: no panic; `None`
exactly when hour ≥ 24 / minute ≥ 60 / second ≥ 60 / nanosecond ≥ 2·10⁹; otherwise the date is kept and
the time shows the new value in the named field and the old values in the other three -/
theorem naive_datetime_time_fields_spec (dt : NaiveDT) (ht : TValid dt.time) (v : Int) (hv : 0 ≤ v) :
    (∃ r, dt.with_hour v = .ok r ∧ (r = none ↔ 24 ≤ v) ∧ ∀ x, r = some x → x.date = dt.date ∧
      HasFields x.time v dt.time.minute dt.time.second dt.time.nanosecond) ∧
    (∃ r, dt.with_minute v = .ok r ∧ (r = none ↔ 60 ≤ v) ∧ ∀ x, r = some x → x.date = dt.date ∧
      HasFields x.time dt.time.hour v dt.time.second dt.time.nanosecond) ∧
    (∃ r, dt.with_second v = .ok r ∧ (r = none ↔ 60 ≤ v) ∧ ∀ x, r = some x → x.date = dt.date ∧
      HasFields x.time dt.time.hour dt.time.minute v dt.time.nanosecond) ∧
    (∃ r, dt.with_nanosecond v = .ok r ∧ (r = none ↔ 2000000000 ≤ v) ∧ ∀ x, r = some x → x.date = dt.date ∧
      HasFields x.time dt.time.hour dt.time.minute dt.time.second v) := by
  obtain ⟨⟨a1, a2⟩, ⟨b1, b2⟩, ⟨c1, c2⟩, ⟨d1, d2⟩⟩ := time_with_field_spec dt.time v ht hv
  have key : ∀ (o : Option Time) (P : Time → Prop), (∀ t', o = some t' → P t') →
      ∀ x, (o.map fun t => (⟨dt.date, t⟩ : NaiveDT)) = some x → x.date = dt.date ∧ P x.time := by
    intro o P hP x hx
    cases o with
    | none => cases hx
    | some t => cases hx; exact ⟨rfl, hP t rfl⟩
  have hn : ∀ (o : Option Time), (o.map fun t => (⟨dt.date, t⟩ : NaiveDT)) = none ↔ o = none := by
    intro o; cases o with
    | none => exact ⟨fun _ => rfl, fun _ => rfl⟩
    | some t => exact ⟨fun h => (by cases h), fun h => (by cases h)⟩
  refine ⟨⟨_, rfl, (hn _).trans a1, key _ _ a2⟩, ⟨_, rfl, (hn _).trans b1, key _ _ b2⟩,
    ⟨_, rfl, (hn _).trans c1, key _ _ c2⟩, ⟨_, rfl, (hn _).trans d1, key _ _ d2⟩⟩

/-- the count `years_since` returns fits `u32` (indeed `0 ≤ k ≤ MAX_YEAR − MIN_YEAR`), so the final
`as u32` cast — not modelled, `r : Option Int` — is the identity -/
theorem years_since_fits_u32 (y1 y0 : Int) (o1 o0 : Nat) (hy1 : MIN_YEAR ≤ y1 ∧ y1 ≤ MAX_YEAR)
    (hy0 : MIN_YEAR ≤ y0 ∧ y0 ≤ MAX_YEAR) (ho1 : 1 ≤ o1 ∧ o1 ≤ yearLen y1) (ho0 : 1 ≤ o0 ∧ o0 ≤ yearLen y0) :
    ∀ k, (dateOfYo y1 o1).years_since (dateOfYo y0 o0) = .ok (some k) →
      0 ≤ k ∧ k ≤ 524285 ∧ asU32 k = k := by
  intro k hk
  obtain ⟨r, h1, h2, _⟩ := years_since_spec y1 y0 o1 o0 hy1 hy0 ho1 ho0
  rw [h1] at hk
  injection hk with hk
  have hw := (h2 k).mp hk
  have hMIN : MIN_YEAR = -262143 := rfl
  have hMAX : MAX_YEAR = 262142 := rfl
  unfold WholeYears ymdLe ymdLt at hw
  have hb : 0 ≤ k ∧ k ≤ 524285 := by omega
  exact ⟨hb.1, hb.2, asU32_id (by omega) (by omega)⟩

/-- stepping by one month lands in `Month::succ` (December → January of the next year), by minus one in
`Month::pred` (January → December of the year before); `Month::February.num_days` is 29 exactly in the
leap years of the Gregorian rule, for every year of the range -/
theorem month_step_succ_pred (y : Int) (mo : Month) :
    stepMonth y (mo.toNat + 1) 1 = mo.succ.toNat + 1 ∧
    stepMonth y (mo.toNat + 1) (-1) = mo.pred.toNat + 1 ∧
    stepYear y (mo.toNat + 1) 1 = (if mo = .dec then y + 1 else y) ∧
    stepYear y (mo.toNat + 1) (-1) = (if mo = .jan then y - 1 else y) ∧
    (MIN_YEAR ≤ y ∧ y ≤ MAX_YEAR →
      Month.feb.num_days y = .ok (some (if y % 4 = 0 ∧ (y % 100 ≠ 0 ∨ y % 400 = 0) then 29 else 28))) := by
  refine ⟨?_, ?_, ?_, ?_, ?_⟩
  · cases mo <;> (unfold stepMonth monthIndex; simp only [Month.toNat, Month.succ]; omega)
  · cases mo <;> (unfold stepMonth monthIndex; simp only [Month.toNat, Month.pred]; omega)
  · cases mo <;> (unfold stepYear monthIndex; simp only [Month.toNat]; first | (rw [if_neg (by decide)]; omega) | (rw [if_pos trivial]; omega))
  · cases mo <;> (unfold stepYear monthIndex; simp only [Month.toNat]; first | (rw [if_neg (by decide)]; omega) | (rw [if_pos trivial]; omega))
  · intro hy
    have h := month_num_days_spec .feb y
    rw [h, if_neg (by intro hc; omega)]
    refine congrArg (fun x => Res.ok (some x)) ?_
    unfold monthLen isLeap
    simp only [Month.toNat]
    by_cases c : y % 4 = 0 ∧ (y % 100 ≠ 0 ∨ y % 400 = 0)
    · rw [if_pos c]
      have : (y % 4 == 0 && (y % 100 != 0 || y % 400 == 0)) = true := by
        simp only [Bool.and_eq_true, Bool.or_eq_true, beq_iff_eq, bne_iff_ne, ne_eq]; exact c
      rw [this]; rfl
    · rw [if_neg c]
      have : (y % 4 == 0 && (y % 100 != 0 || y % 400 == 0)) = false := by
        apply Bool.eq_false_iff.mpr
        simp only [Bool.and_eq_true, Bool.or_eq_true, beq_iff_eq, bne_iff_ne, ne_eq]; exact c
      rw [this]; rfl

/-! ### non-vacuity: the hypotheses are met, and the interesting branches are reached -/

/-- Jan 31 + 1 month clamps to Feb 29 in a leap year and Feb 28 otherwise; December rolls the year;
subtraction crosses year 0; both range ends refuse; huge counts refuse -/
example :
    Date.from_ymd_opt 2024 1 31 = .ok (some (dateOfYo 2024 31)) ∧
    (dateOfYo 2024 31).checked_add_months 1 = .ok (some (dateOfYo 2024 60)) ∧
    (dateOfYo 2023 31).checked_add_months 1 = .ok (some (dateOfYo 2023 59)) ∧
    (dateOfYo 2023 365).checked_add_months 2 = .ok (some (dateOfYo 2024 60)) ∧
    (dateOfYo 1 1).checked_sub_months 13 = .ok (some (dateOfYo (-1) 335)) ∧
    (dateOfYo 262142 335).checked_add_months 1 = .ok none ∧
    (dateOfYo (-262143) 31).checked_sub_months 1 = .ok none ∧
    (dateOfYo 2024 31).checked_add_months 4294967295 = .ok none ∧
    addMonths? 2024 1 31 1 = some (dateOfYo 2024 60) ∧ stepDay 2024 1 31 1 = 29 := by
  decide +kernel

/-- field replacement: existing and non-existing targets, 0-based forms, `u32::MAX` -/
example :
    (dateOfYo 2024 60).with_year 2023 = .ok none ∧
    (dateOfYo 2024 60).with_year 2028 = .ok (some (dateOfYo 2028 60)) ∧
    (dateOfYo 2024 31).with_month 4 = .ok none ∧
    (dateOfYo 2024 31).with_month0 2 = .ok (some (dateOfYo 2024 91)) ∧
    (dateOfYo 2023 32).with_day 29 = .ok none ∧
    (dateOfYo 2024 32).with_day0 28 = .ok (some (dateOfYo 2024 60)) ∧
    (dateOfYo 2023 1).with_ordinal 366 = .ok none ∧
    (dateOfYo 2024 1).with_ordinal0 365 = .ok (some (dateOfYo 2024 366)) ∧
    (dateOfYo 2024 1).with_ordinal0 4294967295 = .ok none ∧
    (dateOfYo 2024 60).with_year 262143 = .ok none ∧
    ymdDate? 2024 2 29 = some (dateOfYo 2024 60) ∧ yoDate? 2023 366 = none := by
  decide +kernel

/-- weeks: 1970-01-01 (Thursday) in a Sunday-based week; the first week of the range has no first
day for most first weekdays, the last week no last day -/
example :
    ((dateOfYo 1970 1).week .sun).checked_first_day = .ok (some (dateOfYo 1969 362)) ∧
    ((dateOfYo 1970 1).week .sun).checked_last_day = .ok (some (dateOfYo 1970 3)) ∧
    ((dateOfYo 1970 1).week .thu).checked_first_day = .ok (some (dateOfYo 1970 1)) ∧
    (Date.MIN.week .sun).checked_first_day = .ok none ∧ (Date.MIN.week .sun).first_day = .panic ∧
    (Date.MAX.week .mon).checked_last_day = .ok none ∧ (Date.MAX.week .mon).checked_days = .ok none ∧
    daysBack (weekdayOf (dayNumYo 1970 1)) 6 = 4 := by
  decide +kernel

/-- n-th weekday: the 2nd Friday of March 2017 is the 10th; April 2023 has no 5th Monday -/
example :
    Date.from_weekday_of_month_opt 2017 3 .fri 2 = Date.from_ymd_opt 2017 3 10 ∧
    Date.from_weekday_of_month_opt 2023 4 .mon 5 = .ok none ∧
    Date.from_weekday_of_month_opt 2023 4 .mon 0 = .ok none ∧
    Date.from_weekday_of_month_opt 2023 13 .mon 1 = .ok none ∧
    nthWeekdayDay 2017 3 4 2 = 10 := by
  decide +kernel

/-- whole years: the day before the anniversary, the anniversary, a later base -/
example :
    (dateOfYo 2024 59).years_since (dateOfYo 2000 60) = .ok (some 23) ∧
    (dateOfYo 2024 60).years_since (dateOfYo 2000 60) = .ok (some 24) ∧
    (dateOfYo 2000 60).years_since (dateOfYo 2000 61) = .ok none ∧
    (dateOfYo 2023 59).quarter = .ok 1 ∧ (dateOfYo 2023 335).quarter = .ok 4 ∧
    (dateOfYo 0 1).year_ce = .ok (false, 1) ∧ (dateOfYo 2024 32).num_days_in_month = .ok 29 ∧
    Month.feb.num_days 262143 = .ok none ∧ Month.jan.num_days 262143 = .ok (some 31) := by
  decide +kernel

/-- time-of-day replacement: `with_second(59)` / `with_minute(0)` on a leap-second representation keep
it; the bounds; `with_nanosecond` builds a leap representation on any second -/
example :
    TValid ⟨3570, 1500000000⟩ ∧
    (⟨3570, 1500000000⟩ : Time).with_second 59 = some ⟨3599, 1500000000⟩ ∧
    (⟨3599, 1500000000⟩ : Time).with_minute 0 = some ⟨59, 1500000000⟩ ∧
    (⟨3599, 1500000000⟩ : Time).with_hour 23 = some ⟨86399, 1500000000⟩ ∧
    (⟨3599, 1500000000⟩ : Time).with_hour 24 = none ∧ (⟨0, 0⟩ : Time).with_second 60 = none ∧
    (⟨0, 0⟩ : Time).with_minute 4294967295 = none ∧
    (⟨7, 0⟩ : Time).with_nanosecond 1999999999 = some ⟨7, 1999999999⟩ ∧
    (⟨7, 0⟩ : Time).with_nanosecond 2000000000 = none ∧
    HasFields ⟨3599, 1500000000⟩ 0 59 59 1500000000 := by decide

/-- `NaiveDateTime`: Jan 31 + 1 month keeps the time (leap representation included); `with_day(31)` in
February has no target; `with_hour` keeps the date -/
example :
    NaiveDT.checked_add_months ⟨dateOfYo 2024 31, ⟨86399, 1500000000⟩⟩ 1 =
      .ok (some ⟨dateOfYo 2024 60, ⟨86399, 1500000000⟩⟩) ∧
    NaiveDT.checked_sub_months ⟨dateOfYo 2024 91, ⟨5, 6⟩⟩ 1 = .ok (some ⟨dateOfYo 2024 60, ⟨5, 6⟩⟩) ∧
    NaiveDT.with_day ⟨dateOfYo 2024 32, ⟨5, 6⟩⟩ 31 = .ok none ∧
    NaiveDT.with_year ⟨dateOfYo 2024 60, ⟨5, 6⟩⟩ 2023 = .ok none ∧
    NaiveDT.with_ordinal0 ⟨dateOfYo 2024 60, ⟨5, 6⟩⟩ 365 = .ok (some ⟨dateOfYo 2024 366, ⟨5, 6⟩⟩) ∧
    NaiveDT.with_hour ⟨dateOfYo 2024 60, ⟨5, 6⟩⟩ 23 = .ok (some ⟨dateOfYo 2024 60, ⟨82805, 6⟩⟩) ∧
    NaiveDT.with_hour ⟨dateOfYo 2024 60, ⟨5, 6⟩⟩ 24 = .ok none := by decide +kernel

/-- zone-aware forms at the sub-minute offset +00:00:17: 2024-01-31T23:59:50Z reads Feb 1 00:00:07 on
the wall, plus one month is Mar 1 00:00:07 = Feb 29 23:59:50Z; at noon the wall clock reads Jan 31 and
clamps to Feb 29; `with_second(30)` acts on the wall clock (:16 wall → :30 wall = :13 UTC), not on the
UTC reading, and keeps a leap-second representation; a replacement whose naive result exists but whose
instant leaves the range (`with_day(31)` on Dec 30 21:30 at −03:00 = Jan 1 00:30Z of the year after
MAX) is refused; a leap-second reading in the last second of MAX_UTC is refused by `with_nanosecond`
(through `map_local`) but not by month stepping (no `MIN_UTC ..= MAX_UTC` filter there) -/
example :
    ZInv ⟨⟨dateOfYo 2024 31, ⟨86390, 0⟩⟩, 17⟩ ∧
    Zoned.overflowing_naive_local ⟨⟨dateOfYo 2024 31, ⟨86390, 0⟩⟩, 17⟩ = .ok ⟨dateOfYo 2024 32, ⟨7, 0⟩⟩ ∧
    NaiveDT.checked_add_months ⟨dateOfYo 2024 32, ⟨7, 0⟩⟩ 1 = .ok (some ⟨dateOfYo 2024 61, ⟨7, 0⟩⟩) ∧
    Zoned.checked_add_months ⟨⟨dateOfYo 2024 31, ⟨86390, 0⟩⟩, 17⟩ 1 =
      .ok (some ⟨⟨dateOfYo 2024 60, ⟨86390, 0⟩⟩, 17⟩) ∧
    Zoned.checked_add_months ⟨⟨dateOfYo 2024 31, ⟨43200, 0⟩⟩, 17⟩ 1 =
      .ok (some ⟨⟨dateOfYo 2024 60, ⟨43200, 0⟩⟩, 17⟩) ∧
    Zoned.with_second ⟨⟨dateOfYo 2016 366, ⟨86399, 1500000000⟩⟩, 17⟩ 30 =
      .ok (some ⟨⟨dateOfYo 2017 1, ⟨13, 1500000000⟩⟩, 17⟩) ∧
    Zoned.with_second ⟨⟨dateOfYo 2016 366, ⟨86399, 1500000000⟩⟩, 17⟩ 60 = .ok none ∧
    NaiveDT.with_day ⟨dateOfYo MAX_YEAR 364, ⟨77400, 0⟩⟩ 31 = .ok (some ⟨dateOfYo MAX_YEAR 365, ⟨77400, 0⟩⟩) ∧
    Zoned.with_day ⟨⟨dateOfYo MAX_YEAR 365, ⟨1800, 0⟩⟩, -10800⟩ 31 = .ok none ∧
    NaiveDT.with_nanosecond NaiveDT.MAX 1000000000 = .ok (some ⟨Date.MAX, ⟨86399, 1000000000⟩⟩) ∧
    Zoned.with_nanosecond ⟨NaiveDT.MAX, 0⟩ 1000000000 = .ok none ∧
    ¬ InUtcRange (instSecs ⟨Date.MAX, ⟨86399, 1000000000⟩⟩ - 0) 1000000000 ∧
    Zoned.checked_add_months ⟨⟨dateOfYo MAX_YEAR 304, ⟨86399, 1500000000⟩⟩, 0⟩ 2 =
      .ok (some ⟨⟨Date.MAX, ⟨86399, 1500000000⟩⟩, 0⟩) ∧
    Zoned.checked_add_months ⟨⟨dateOfYo MAX_YEAR 335, ⟨0, 0⟩⟩, 0⟩ 1 = .ok none := by decide +kernel

/-- whole years between zone-aware values: one nanosecond before the anniversary, on it; a leap second
sorts after :59.999999999; the wall clocks decide — the same instant at +00:00:01 and at +00:00:00 is
`None` one way and `Some(0)` the other; the widest pair -/
example :
    Zoned.years_since ⟨⟨dateOfYo 2024 60, ⟨43200, 0⟩⟩, 0⟩ ⟨⟨dateOfYo 2000 60, ⟨43200, 1⟩⟩, 0⟩ = .ok (some 23) ∧
    Zoned.years_since ⟨⟨dateOfYo 2024 60, ⟨43200, 0⟩⟩, 0⟩ ⟨⟨dateOfYo 2000 60, ⟨43200, 0⟩⟩, 0⟩ = .ok (some 24) ∧
    Zoned.years_since ⟨⟨dateOfYo 2017 365, ⟨86399, 1000000000⟩⟩, 0⟩ ⟨⟨dateOfYo 2016 366, ⟨86399, 999999999⟩⟩, 0⟩
      = .ok (some 1) ∧
    Zoned.years_since ⟨⟨dateOfYo 2017 365, ⟨86399, 999999999⟩⟩, 0⟩ ⟨⟨dateOfYo 2016 366, ⟨86399, 1000000000⟩⟩, 0⟩
      = .ok (some 0) ∧
    Zoned.years_since ⟨⟨dateOfYo 2024 60, ⟨43200, 0⟩⟩, 0⟩ ⟨⟨dateOfYo 2024 60, ⟨43200, 0⟩⟩, 1⟩ = .ok none ∧
    Zoned.years_since ⟨⟨dateOfYo 2024 60, ⟨43200, 0⟩⟩, 1⟩ ⟨⟨dateOfYo 2024 60, ⟨43200, 0⟩⟩, 0⟩ = .ok (some 0) ∧
    Zoned.years_since ⟨NaiveDT.MAX, 86399⟩ ⟨NaiveDT.MIN, -86399⟩ = .ok (some 524286) ∧
    Zoned.time ⟨⟨dateOfYo 2024 60, ⟨86390, 5⟩⟩, 17⟩ = .ok ⟨7, 5⟩ := by decide +kernel

/-- operator forms: Jan 31 + 1 month = Feb 29; the range ends panic; `Months(0)` never does; the
`NaiveDateTime` form keeps the time; the zone-aware form panics when the checked one refuses;
`from_weekday_of_month` panics on a missing 5th Monday; the inherited `Datelike` defaults on a headroom
wall clock (MAX_UTC viewed at +01:00 reads Jan 1 of the year after MAX_YEAR) -/
example :
    (dateOfYo 2024 31).add_months_op 1 = .ok (dateOfYo 2024 60) ∧
    (dateOfYo 2024 91).sub_months_op 1 = .ok (dateOfYo 2024 60) ∧
    Date.MAX.add_months_op 1 = .panic ∧ Date.MIN.sub_months_op 1 = .panic ∧
    Date.MAX.add_months_op 0 = .ok Date.MAX ∧
    (dateOfYo 2024 31).sub_months_op 4294967295 = .panic ∧
    NaiveDT.add_months_op ⟨dateOfYo 2024 31, ⟨86399, 1500000000⟩⟩ 1 = .ok ⟨dateOfYo 2024 60, ⟨86399, 1500000000⟩⟩ ∧
    NaiveDT.sub_months_op ⟨Date.MIN, ⟨0, 0⟩⟩ 1 = .panic ∧
    Zoned.add_months_op ⟨⟨dateOfYo 2024 31, ⟨86390, 0⟩⟩, 17⟩ 1 = .ok ⟨⟨dateOfYo 2024 60, ⟨86390, 0⟩⟩, 17⟩ ∧
    Zoned.add_months_op ⟨NaiveDT.MAX, 3600⟩ 0 = .ok ⟨NaiveDT.MAX, 3600⟩ ∧
    Zoned.add_months_op ⟨NaiveDT.MAX, 3600⟩ 1 = .panic ∧
    Zoned.sub_months_op ⟨NaiveDT.MAX, 3600⟩ 1 = .ok ⟨⟨dateOfYo MAX_YEAR 334, ⟨86399, 999999999⟩⟩, 3600⟩ ∧
    Date.from_weekday_of_month 2017 3 .fri 2 = .ok (dateOfYo 2017 69) ∧
    Date.from_weekday_of_month 2023 4 .mon 5 = .panic ∧
    Zoned.quarter ⟨NaiveDT.MAX, 3600⟩ = .ok 1 ∧ Zoned.year_ce ⟨NaiveDT.MAX, 3600⟩ = .ok (true, 262143) ∧
    Zoned.num_days_in_month ⟨NaiveDT.MAX, 3600⟩ = .ok 31 ∧
    Zoned.year_ce ⟨NaiveDT.MIN, -3600⟩ = .ok (false, 262145) ∧
    NaiveDT.num_days_in_month ⟨dateOfYo 2024 60, ⟨0, 0⟩⟩ = .ok 29 ∧
    ExtNDTInv ⟨Date.AFTER_MAX, ⟨3599, 0⟩⟩ ∧
    NaiveDT.checked_sub_months ⟨Date.AFTER_MAX, ⟨3599, 0⟩⟩ 1 = .ok (some ⟨dateOfYo MAX_YEAR 335, ⟨3599, 0⟩⟩) ∧
    NaiveDT.checked_add_months ⟨Date.AFTER_MAX, ⟨3599, 0⟩⟩ 0 = .ok (some ⟨Date.AFTER_MAX, ⟨3599, 0⟩⟩) := by
  decide +kernel

/-- constructors' view of time-field replacement: agreement off the deviation set, both kinds of
deviation, and a `TStrict` input for `time_with_field_strict` -/
example :
    TStrict ⟨86399, 1500000000⟩ ∧ ¬ TStrict ⟨3570, 1500000000⟩ ∧
    (⟨86399, 1500000000⟩ : Time).with_second 59 = ctorTime 23 59 59 1500000000 ∧
    (⟨86399, 1500000000⟩ : Time).with_minute 3 = ctorTime 23 3 59 1500000000 ∧
    ctorTime 23 3 59 1500000000 = some ⟨83039, 1500000000⟩ ∧
    (⟨86399, 0⟩ : Time).with_nanosecond 1999999999 = ctorTime 23 59 59 1999999999 ∧
    (⟨7, 5⟩ : Time).with_second 60 = ctorTime 0 0 60 5 ∧ ctorTime 0 0 60 5 = none ∧
    ctorTime 0 0 7 1500000000 = none := by decide

/-- `NaiveDateTime` time fields, the bound of `years_since`, one month away -/
example :
    TValid (⟨dateOfYo 2024 60, ⟨86399, 1500000000⟩⟩ : NaiveDT).time ∧
    NaiveDT.with_second ⟨dateOfYo 2024 60, ⟨86399, 1500000000⟩⟩ 60 = .ok none ∧
    NaiveDT.with_nanosecond ⟨dateOfYo 2024 60, ⟨7, 0⟩⟩ 1999999999 = .ok (some ⟨dateOfYo 2024 60, ⟨7, 1999999999⟩⟩) ∧
    Date.MAX.years_since Date.MIN = .ok (some 524285) ∧
    stepMonth 2024 12 1 = 1 ∧ stepYear 2024 12 1 = 2025 ∧ stepMonth 2024 1 (-1) = 12 ∧ stepYear 2024 1 (-1) = 2023 ∧
    Month.feb.num_days 1900 = .ok (some 28) ∧ Month.feb.num_days 2000 = .ok (some 29) ∧
    withYearLocal 262143 ⟨Date.AFTER_MAX, ⟨3599, 0⟩⟩ = .ok (some ⟨Date.AFTER_MAX, ⟨3599, 0⟩⟩) ∧
    withYearLocal 2024 ⟨Date.AFTER_MAX, ⟨3599, 0⟩⟩ = .ok (some ⟨dateOfYo 2024 1, ⟨3599, 0⟩⟩) ∧
    yearReading? ⟨Date.AFTER_MAX, ⟨3599, 0⟩⟩ 262144 = none := by decide +kernel

end Chrono.Props.C08
