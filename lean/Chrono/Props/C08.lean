/-
  C08 — month stepping, field replacement and week helpers follow calendar rules.
  Property statements only (helper lemmas: Proofs/DateOpsFin.lean — kernel-evaluated finite facts —
  and Proofs/DateOpsL.lean).  Model: Model/DateOps.lean on top of Model/Date.lean.  Specification:
  Spec/DateOpsSpec.lean on top of Spec/Calendar.lean (leap rule, month lengths, closed-form day
  number, weekday of a day number), independent of chrono's tables.

  A date of the supported range is `dateOfYo y o` with `MIN_YEAR ≤ y ≤ MAX_YEAR`, `1 ≤ o ≤ yearLen y`
  (C01: every value the constructors return has this form); its month and day are `monthOfYo y o`,
  `dayOfYo y o` (C01 `accessors_ok`).  `u32` arguments are natural numbers: every theorem below holds
  for EVERY natural argument, in particular for all of `0 ..= u32::MAX`.
-/
import Chrono.Proofs.DateOpsL

namespace Chrono.Props.C08
open Chrono Chrono.M Chrono.Spec Chrono.Proofs Chrono.Extracted Chrono.Extracted.DateOps

/-! ### data re-extracted from the source on this run -/

/-- the month-length array local to `diff_months`, the arms of `Month::num_days`, the February
literals and the split constants, as re-extracted from the Rust source, are what the calendar
prescribes (every cell, every year) -/
theorem month_data_ok (y : Int) :
    DM_DAYS.length = 12 ∧ MN_DAYS.length = 12 ∧
    (∀ k < 12, (if k = DM_FEB_INDEX then (if yearLen y = DM_NDAYS_LEAP then DM_FEB_LEAP else DM_FEB_COMMON)
                else DM_DAYS.getD k 0) = monthLen y (k + 1)) ∧
    (∀ k < 12, (if k = 1 then (if isLeap y then MN_FEB_TRUE else MN_FEB_FALSE) else MN_DAYS.getD k 0)
                = monthLen y (k + 1)) ∧
    (DM_DIV = 12 ∧ DM_REM = 12 ∧ DM_ADD = 1 ∧ DM_MUL = 12 ∧ DM_SUB = 1) ∧
    (MN_FEB_MONTH = 2 ∧ MN_FEB_DAY = 1 ∧ WO_ZERO = 0 ∧ WO_MAX = 366 ∧ Q_SUB = 1 ∧ Q_DIV = 3 ∧ Q_ADD = 1) := by
  refine ⟨rfl, rfl, fun k hk => dm_day_max y k hk, ?_, by decide, by decide⟩
  intro k hk
  match k, hk with
  | 1, _ => unfold monthLen; cases isLeap y <;> rfl
  | 0, _ | 2, _ | 3, _ | 4, _ | 5, _ | 6, _ | 7, _ | 8, _ | 9, _ | 10, _ | 11, _ => rfl

/-! ### month stepping -/

/-- adding and subtracting months, for every date of the range and EVERY month count (all of `u32`
and beyond): the result is the specification's `addMonths?`, never a panic -/
theorem months_spec (y : Int) (o : Nat) (hy : MIN_YEAR ≤ y ∧ y ≤ MAX_YEAR) (ho : 1 ≤ o ∧ o ≤ yearLen y)
    (n : Nat) :
    (dateOfYo y o).checked_add_months n = .ok (addMonths? y (monthOfYo y o) (dayOfYo y o) n) ∧
    (dateOfYo y o).checked_sub_months n = .ok (addMonths? y (monthOfYo y o) (dayOfYo y o) (-(n : Int))) :=
  ⟨add_months_spec y o hy ho n, sub_months_spec y o hy ho n⟩

/-- what `addMonths?` is (for a day `d ≥ 1`, any signed count `n`): the year-month index moves by
exactly `n` (Euclidean split, month in 1..12); the step fails exactly when the target year leaves
the supported range; otherwise the result is the date of the target year and month whose day is
`min d (monthLen …)`, i.e. the original day clamped to the last day of the target month -/
theorem months_target (y : Int) (m d : Nat) (n : Int) (hd : 1 ≤ d) :
    monthIndex (stepYear y m n) (stepMonth y m n) = monthIndex y m + n ∧
    1 ≤ stepMonth y m n ∧ stepMonth y m n ≤ 12 ∧
    (addMonths? y m d n = none ↔ (stepYear y m n < MIN_YEAR ∨ stepYear y m n > MAX_YEAR)) ∧
    (∀ r, addMonths? y m d n = some r →
      r.year = stepYear y m n ∧ r.month = .ok (stepMonth y m n) ∧
      r.day = .ok (min d (monthLen (stepYear y m n) (stepMonth y m n)))) := by
  obtain ⟨hv, h1, h12⟩ := step_valid y m d n hd
  refine ⟨?_, h1, h12, addMonths_none_iff y m d n hd, ?_⟩
  · have hk0 : 0 ≤ (monthIndex y m + n) % 12 := Int.emod_nonneg _ (by decide)
    unfold stepYear stepMonth
    generalize monthIndex y m + n = T at *
    unfold monthIndex
    omega
  · intro r hr
    unfold addMonths? ymdDate? at hr
    by_cases hc : MIN_YEAR ≤ stepYear y m n ∧ stepYear y m n ≤ MAX_YEAR ∧
        validYmd (stepYear y m n) (stepMonth y m n) (stepDay y m d n) = true
    · rw [if_pos hc] at hr
      have := Option.some.inj hr
      subst this
      obtain ⟨f1, f2, f3, _⟩ := ymd_fields _ _ _ hv
      exact ⟨f1, f2, f3⟩
    · rw [if_neg hc] at hr; cases hr

/-- a month count above `i32::MAX` is always refused — and the target year is then out of range
anyway, so this is no exception to "fails only when the target year is out of range" -/
theorem months_huge (y : Int) (o : Nat) (hy : MIN_YEAR ≤ y ∧ y ≤ MAX_YEAR) (ho : 1 ≤ o ∧ o ≤ yearLen y)
    (n : Nat) (hn : (n : Int) > I32_MAX) :
    (dateOfYo y o).checked_add_months n = .ok none ∧ (dateOfYo y o).checked_sub_months n = .ok none ∧
    stepYear y (monthOfYo y o) n > MAX_YEAR ∧ stepYear y (monthOfYo y o) (-(n : Int)) < MIN_YEAR := by
  have hI : I32_MAX = 2147483647 := rfl
  have hMIN : MIN_YEAR = -262143 := rfl
  have hMAX : MAX_YEAR = 262142 := rfl
  obtain ⟨_, _, m3, _⟩ := month_day_spec y o ho.1 ho.2
  obtain ⟨hm1, hm12, hd1, _⟩ := (valid_iff y _ _).mp m3
  have ha : stepYear y (monthOfYo y o) n > MAX_YEAR := by unfold stepYear monthIndex; omega
  have hs : stepYear y (monthOfYo y o) (-(n : Int)) < MIN_YEAR := by unfold stepYear monthIndex; omega
  obtain ⟨h1, h2⟩ := months_spec y o hy ho n
  rw [h1, h2, (addMonths_none_iff _ _ _ _ hd1).mpr (Or.inr ha), (addMonths_none_iff _ _ _ _ hd1).mpr (Or.inl hs)]
  exact ⟨rfl, rfl, ha, hs⟩

/-! ### field replacement -/

/-- replacing one field of a date, for every date of the range and EVERY argument (all of `i32` for
the year, all of `u32` and beyond for the others; the 0-based forms include `u32::MAX`, where the
`+ 1` is refused): the result is the date with that field changed and the others kept if that date
exists (`ymdDate?` / `yoDate?`), nothing otherwise; never a panic -/
theorem with_field_spec (y : Int) (o : Nat) (hy : MIN_YEAR ≤ y ∧ y ≤ MAX_YEAR) (ho : 1 ≤ o ∧ o ≤ yearLen y)
    (v : Nat) (y' : Int) :
    (dateOfYo y o).with_year y' = .ok (ymdDate? y' (monthOfYo y o) (dayOfYo y o)) ∧
    (dateOfYo y o).with_month v = .ok (ymdDate? y v (dayOfYo y o)) ∧
    (dateOfYo y o).with_month0 v = .ok (ymdDate? y (v + 1) (dayOfYo y o)) ∧
    (dateOfYo y o).with_day v = .ok (ymdDate? y (monthOfYo y o) v) ∧
    (dateOfYo y o).with_day0 v = .ok (ymdDate? y (monthOfYo y o) (v + 1)) ∧
    (dateOfYo y o).with_ordinal v = .ok (yoDate? y v) ∧
    (dateOfYo y o).with_ordinal0 v = .ok (yoDate? y (v + 1)) :=
  ⟨with_year_spec y o ho y', with_month_spec y o hy ho v, with_month0_spec y o hy ho v,
   with_day_spec y o hy ho v, with_day0_spec y o hy ho v, with_ordinal_spec y o hy ho v,
   with_ordinal0_spec y o hy ho v⟩

/-- what `ymdDate?` / `yoDate?` are: the value exists exactly when the year is in range and the
(month, day) resp. ordinal exists in that year, and then it has exactly those fields -/
theorem replaced_fields (y : Int) (m d o : Nat) :
    (ymdDate? y m d = none ↔ ¬ (MIN_YEAR ≤ y ∧ y ≤ MAX_YEAR ∧ 1 ≤ m ∧ m ≤ 12 ∧ 1 ≤ d ∧ d ≤ monthLen y m)) ∧
    (∀ r, ymdDate? y m d = some r → r.year = y ∧ r.month = .ok m ∧ r.day = .ok d) ∧
    (yoDate? y o = none ↔ ¬ (MIN_YEAR ≤ y ∧ y ≤ MAX_YEAR ∧ 1 ≤ o ∧ o ≤ yearLen y)) ∧
    (∀ r, yoDate? y o = some r → r.year = y ∧ r.ordinal = o) := by
  have hyl := yearLen_ge y
  refine ⟨?_, ?_, ?_, ?_⟩
  · unfold ymdDate?
    have hv := valid_iff y m d
    constructor
    · intro h hc
      rw [if_pos ⟨hc.1, hc.2.1, hv.mpr hc.2.2⟩] at h; cases h
    · intro h; apply ite_neg'; intro hc; exact h ⟨hc.1, hc.2.1, hv.mp hc.2.2⟩
  · intro r hr
    unfold ymdDate? at hr
    by_cases hc : MIN_YEAR ≤ y ∧ y ≤ MAX_YEAR ∧ validYmd y m d = true
    · rw [if_pos hc] at hr
      have := Option.some.inj hr
      subst this
      obtain ⟨f1, f2, f3, _⟩ := ymd_fields y m d hc.2.2
      exact ⟨f1, f2, f3⟩
    · rw [if_neg hc] at hr; cases hr
  · unfold yoDate?
    constructor
    · intro h hc; rw [if_pos hc] at h; cases h
    · intro h; exact ite_neg' _ _ h
  · intro r hr
    unfold yoDate? at hr
    by_cases hc : MIN_YEAR ≤ y ∧ y ≤ MAX_YEAR ∧ 1 ≤ o ∧ o ≤ yearLen y
    · rw [if_pos hc] at hr
      have := Option.some.inj hr
      subst this
      obtain ⟨f1, f2, _⟩ := dateOfYo_fields y o (by omega)
      exact ⟨f1, f2⟩
    · rw [if_neg hc] at hr; cases hr

/-- at `u32::MAX` every 1- and 0-based replacement answers `None` (no wrap-around of the `+ 1`) -/
theorem with_field_u32max (y : Int) (o : Nat) (hy : MIN_YEAR ≤ y ∧ y ≤ MAX_YEAR) (ho : 1 ≤ o ∧ o ≤ yearLen y) :
    (dateOfYo y o).with_month 4294967295 = .ok none ∧ (dateOfYo y o).with_month0 4294967295 = .ok none ∧
    (dateOfYo y o).with_day 4294967295 = .ok none ∧ (dateOfYo y o).with_day0 4294967295 = .ok none ∧
    (dateOfYo y o).with_ordinal 4294967295 = .ok none ∧ (dateOfYo y o).with_ordinal0 4294967295 = .ok none := by
  obtain ⟨_, h1, h2, h3, h4, h5, h6⟩ := with_field_spec y o hy ho 4294967295 0
  have hyl := yearLen_ge y
  have hm : ∀ m d, 12 < m → ymdDate? y m d = none := by
    intro m d h; rw [(replaced_fields y m d 0).1]; intro hc; omega
  have hd : ∀ m d, 31 < d → ymdDate? y m d = none := by
    intro m d h; rw [(replaced_fields y m d 0).1]; intro hc
    have := monthLen_pos y m hc.2.2.1 hc.2.2.2.1; omega
  have hoo : ∀ o', 366 < o' → yoDate? y o' = none := by
    intro o' h; rw [(replaced_fields y 0 0 o').2.2.1]; intro hc; omega
  rw [h1, h2, h3, h4, h5, h6, hm _ _ (by omega), hm _ _ (by omega), hd _ _ (by omega), hd _ _ (by omega),
    hoo _ (by omega), hoo _ (by omega)]
  exact ⟨rfl, rfl, rfl, rfl, rfl, rfl⟩

/-! ### weeks -/

/-- the week containing a date, for every date of the range and every first weekday `s`:
with `n` the date's day number and `k = daysBack …` (0 ≤ k ≤ 6) the distance back to the most recent
`s`: the first day is the date with day number `n − k` — which falls on weekday `s` — or `None`
exactly when `n − k` precedes `NaiveDate::MIN`; the last day is the date with day number `n − k + 6`
or `None` exactly when that exceeds `NaiveDate::MAX`; `checked_days` is both or nothing; the
`expect`-ing forms panic exactly on `None`.  Never a panic in the checked forms. -/
theorem week_spec (y : Int) (o : Nat) (hy : MIN_YEAR ≤ y ∧ y ≤ MAX_YEAR) (ho : 1 ≤ o ∧ o ≤ yearLen y)
    (s : Weekday) :
    ∃ rf rl, ((dateOfYo y o).week s).checked_first_day = .ok rf ∧
      ((dateOfYo y o).week s).checked_last_day = .ok rl ∧
      (0 ≤ daysBack (weekdayOf (dayNumYo y o)) s.toNat ∧ daysBack (weekdayOf (dayNumYo y o)) s.toNat ≤ 6) ∧
      weekdayOf (dayNumYo y o - daysBack (weekdayOf (dayNumYo y o)) s.toNat) = s.toNat ∧
      IsDateOfDayNum rf (dayNumYo y o - daysBack (weekdayOf (dayNumYo y o)) s.toNat) ∧
      IsDateOfDayNum rl (dayNumYo y o - daysBack (weekdayOf (dayNumYo y o)) s.toNat + 6) ∧
      ((dateOfYo y o).week s).checked_days = .ok (bothDays rf rl) ∧
      ((dateOfYo y o).week s).first_day = (match rf with | some a => .ok a | none => .panic) ∧
      ((dateOfYo y o).week s).last_day = (match rl with | some a => .ok a | none => .panic) ∧
      ((dateOfYo y o).week s).days = (match bothDays rf rl with | some p => .ok p | none => .panic) := by
  obtain ⟨rf, hf, sf⟩ := week_first_spec y o hy ho s
  obtain ⟨rl, hl, sl⟩ := week_last_spec y o hy ho s
  have hs7 := weekday_toNat_lt s
  have hcd : ((dateOfYo y o).week s).checked_days = .ok (bothDays rf rl) := by
    unfold NaiveWeek.checked_days bothDays; rw [hf, hl]
    cases rf <;> cases rl <;> rfl
  refine ⟨rf, rl, hf, hl, daysBack_range _ _, daysBack_weekday _ _ ⟨by omega, by omega⟩, sf, sl, hcd, ?_, ?_, ?_⟩
  · unfold NaiveWeek.first_day; rw [hf]; cases rf <;> rfl
  · unfold NaiveWeek.last_day; rw [hl]; cases rl <;> rfl
  · unfold NaiveWeek.days; rw [hcd]; cases bothDays rf rl <;> rfl

/-! ### n-th weekday of a month -/

/-- `from_weekday_of_month_opt`, every `(year, month, weekday, n)` (all integers / naturals): `None`
for `n = 0`; otherwise the date `(year, month, D)` if it exists in the supported range, where `D` is
the n-th day of that month falling on the weekday: `D` lies in the n-th block of seven days, falls
on the weekday, and is the only such day of the block -/
theorem nth_weekday_spec (y : Int) (m : Nat) (w : Weekday) (n : Nat) :
    Date.from_weekday_of_month_opt y m w n =
      .ok (if n = 0 then none else ymdDate? y m (nthWeekdayDay y m w.toNat n)) ∧
    (1 ≤ n → 7 * (n - 1) + 1 ≤ nthWeekdayDay y m w.toNat n ∧ nthWeekdayDay y m w.toNat n ≤ 7 * n ∧
      weekdayOf (dayNum y m (nthWeekdayDay y m w.toNat n)) = w.toNat ∧
      ∀ D, 7 * (n - 1) + 1 ≤ D → D ≤ 7 * n → weekdayOf (dayNum y m D) = w.toNat →
        D = nthWeekdayDay y m w.toNat n) := by
  refine ⟨nth_weekday_eq y m w n, ?_⟩
  intro hn
  have hw7 := weekday_toNat_lt w
  have hlin : ∀ D : Nat, dayNum y m D = dayNum y m 1 + D - 1 := by
    intro D; unfold dayNum dayNumYo ordinalOf; push_cast; omega
  have hk0 : 0 ≤ ((w.toNat : Int) - weekdayOf (dayNum y m 1)) % 7 := Int.emod_nonneg _ (by decide)
  have hk1 : ((w.toNat : Int) - weekdayOf (dayNum y m 1)) % 7 < 7 := Int.emod_lt_of_pos _ (by decide)
  have hD : (nthWeekdayDay y m w.toNat n : Int)
      = 7 * ((n : Int) - 1) + ((w.toNat : Int) - weekdayOf (dayNum y m 1)) % 7 + 1 := by
    unfold nthWeekdayDay; omega
  refine ⟨by omega, by omega, ?_, ?_⟩
  · rw [hlin]; unfold weekdayOf at *; omega
  · intro D h1 h2 h3
    rw [hlin] at h3; unfold weekdayOf at *; omega

/-! ### whole years elapsed -/

/-- `years_since`, every pair of dates of the range: `Some k` exactly for the number `k ≥ 0` of whole
years elapsed (the k-th anniversary of `base` — same month and day, k years later — is not after
`self`, the next one is), `None` exactly when `base` is after `self`; never a panic -/
theorem years_since_spec (y1 y0 : Int) (o1 o0 : Nat) (hy1 : MIN_YEAR ≤ y1 ∧ y1 ≤ MAX_YEAR)
    (hy0 : MIN_YEAR ≤ y0 ∧ y0 ≤ MAX_YEAR) (ho1 : 1 ≤ o1 ∧ o1 ≤ yearLen y1) (ho0 : 1 ≤ o0 ∧ o0 ≤ yearLen y0) :
    ∃ r, (dateOfYo y1 o1).years_since (dateOfYo y0 o0) = .ok r ∧
      (∀ k, r = some k ↔
        WholeYears y0 (monthOfYo y0 o0) (dayOfYo y0 o0) y1 (monthOfYo y1 o1) (dayOfYo y1 o1) k) ∧
      (r = none ↔ ymdLt y1 (monthOfYo y1 o1) (dayOfYo y1 o1) y0 (monthOfYo y0 o0) (dayOfYo y0 o0)) ∧
      (r = none ↔ (dateOfYo y1 o1).yof < (dateOfYo y0 o0).yof) := by
  refine ⟨_, years_since_eq y1 y0 o1 o0 hy1 hy0 ho1 ho0, ?_⟩
  obtain ⟨_, _, a3, a4⟩ := month_day_spec y1 o1 ho1.1 ho1.2
  obtain ⟨_, _, b3, b4⟩ := month_day_spec y0 o0 ho0.1 ho0.2
  have ha := valid_bounds _ _ _ a3
  have hb := valid_bounds _ _ _ b3
  have hord := ymd_lex_ordinal y1 y0 _ _ _ _ a3 b3
  rw [a4, b4] at hord
  have hyof := (order_spec y1 y0 o1 o0 ho1 ho0).1
  have hdn : dayNumYo y1 o1 < dayNumYo y0 o0 ↔ (y1 < y0 ∨ (y1 = y0 ∧ o1 < o0)) := by
    have hl1 := yearLen_ge y1
    have hl0 := yearLen_ge y0
    unfold dayNumYo
    rcases Int.lt_trichotomy y1 y0 with h | h | h
    · have hm := dby_mono (y1 + 1) y0 (by omega)
      have hs := dby_step y1
      constructor <;> intro _ <;> omega
    · subst h; constructor <;> intro _ <;> omega
    · have hm := dby_mono (y0 + 1) y1 (by omega)
      have hs := dby_step y0
      constructor <;> intro _ <;> omega
  generalize monthOfYo y1 o1 = m1 at *
  generalize dayOfYo y1 o1 = d1 at *
  generalize monthOfYo y0 o0 = m0 at *
  generalize dayOfYo y0 o0 = d0 at *
  dsimp only
  unfold WholeYears ymdLe ymdLt
  by_cases hlt : m1 * 32 + d1 < m0 * 32 + d0
  · rw [if_pos hlt]
    by_cases hk : y1 - y0 - 1 ≥ 0
    · rw [if_pos hk]
      refine ⟨fun k => ?_, ?_, ?_⟩
      · constructor
        · intro h; have := Option.some.inj h; omega
        · intro h; congr 1; omega
      · constructor
        · intro h; cases h
        · intro h; omega
      · constructor
        · intro h; cases h
        · intro h; exfalso; have := hyof.mp h; have := hdn.mp this; omega
    · rw [if_neg hk]
      refine ⟨fun k => ?_, ?_, ?_⟩
      · constructor
        · intro h; cases h
        · intro h; omega
      · constructor
        · intro _; omega
        · intro _; rfl
      · constructor
        · intro _; apply hyof.mpr; apply hdn.mpr
          by_cases hy : y1 < y0
          · left; exact hy
          · right; refine ⟨by omega, ?_⟩
            have : y1 = y0 := by omega
            subst this
            exact (hord rfl).mp (by omega)
        · intro _; rfl
  · rw [if_neg hlt]
    by_cases hk : y1 - y0 - 0 ≥ 0
    · rw [if_pos hk]
      refine ⟨fun k => ?_, ?_, ?_⟩
      · constructor
        · intro h; have := Option.some.inj h; omega
        · intro h; congr 1; omega
      · constructor
        · intro h; cases h
        · intro h; omega
      · constructor
        · intro h; cases h
        · intro h; exfalso; have := hyof.mp h; have := hdn.mp this
          rcases this with h' | ⟨h1, h2⟩
          · omega
          · subst h1; have := (hord rfl).mpr h2; omega
    · rw [if_neg hk]
      refine ⟨fun k => ?_, ?_, ?_⟩
      · constructor
        · intro h; cases h
        · intro h; omega
      · constructor
        · intro _; omega
        · intro _; rfl
      · constructor
        · intro _; apply hyof.mpr; apply hdn.mpr; left; omega
        · intro _; rfl

/-! ### quarter, common-era year, days in month -/

/-- `quarter`, `year_ce`, `num_days_in_month` of every date of the range, and `Month::num_days` for
every month and EVERY year: quarter = ⌈month/3⌉, the common-era pair is (year ≥ 1, year counted from
1 within its era), the number of days is the calendar's month length; `Month::num_days` is `None`
only for February of a year outside the supported range; never a panic -/
theorem calendar_accessors (y : Int) (o : Nat) (hy : MIN_YEAR ≤ y ∧ y ≤ MAX_YEAR) (ho : 1 ≤ o ∧ o ≤ yearLen y)
    (mo : Month) (y' : Int) :
    (dateOfYo y o).quarter = .ok ((monthOfYo y o - 1) / 3 + 1) ∧
    (dateOfYo y o).year_ce = .ok (if y < 1 then (false, 1 - y) else (true, y)) ∧
    (dateOfYo y o).num_days_in_month = .ok (monthLen y (monthOfYo y o)) ∧
    mo.num_days y' = .ok (if mo = .feb ∧ (y' < MIN_YEAR ∨ y' > MAX_YEAR) then none
                          else some (monthLen y' (mo.toNat + 1))) := by
  have hyl := yearLen_ge y
  exact ⟨quarter_spec y o ho, year_ce_spec y o hy (by omega), num_days_in_month_spec y o hy ho,
    month_num_days_spec mo y'⟩

/-! ### non-vacuity: the hypotheses are met, and the interesting branches are reached -/

/-- Jan 31 + 1 month clamps to Feb 29 in a leap year and Feb 28 otherwise; December rolls the year;
subtraction crosses year 0; both range ends refuse; huge counts refuse -/
example :
    Date.from_ymd_opt 2024 1 31 = .ok (some (dateOfYo 2024 31)) ∧
    (dateOfYo 2024 31).checked_add_months 1 = .ok (some (dateOfYo 2024 60)) ∧
    (dateOfYo 2023 31).checked_add_months 1 = .ok (some (dateOfYo 2023 59)) ∧
    (dateOfYo 2023 365).checked_add_months 2 = .ok (some (dateOfYo 2024 60)) ∧
    (dateOfYo 1 1).checked_sub_months 13 = .ok (some (dateOfYo (-1) 335)) ∧
    (dateOfYo 262142 335).checked_add_months 1 = .ok none ∧
    (dateOfYo (-262143) 31).checked_sub_months 1 = .ok none ∧
    (dateOfYo 2024 31).checked_add_months 4294967295 = .ok none ∧
    addMonths? 2024 1 31 1 = some (dateOfYo 2024 60) ∧ stepDay 2024 1 31 1 = 29 := by
  decide +kernel

/-- field replacement: existing and non-existing targets, 0-based forms, `u32::MAX` -/
example :
    (dateOfYo 2024 60).with_year 2023 = .ok none ∧
    (dateOfYo 2024 60).with_year 2028 = .ok (some (dateOfYo 2028 60)) ∧
    (dateOfYo 2024 31).with_month 4 = .ok none ∧
    (dateOfYo 2024 31).with_month0 2 = .ok (some (dateOfYo 2024 91)) ∧
    (dateOfYo 2023 32).with_day 29 = .ok none ∧
    (dateOfYo 2024 32).with_day0 28 = .ok (some (dateOfYo 2024 60)) ∧
    (dateOfYo 2023 1).with_ordinal 366 = .ok none ∧
    (dateOfYo 2024 1).with_ordinal0 365 = .ok (some (dateOfYo 2024 366)) ∧
    (dateOfYo 2024 1).with_ordinal0 4294967295 = .ok none ∧
    (dateOfYo 2024 60).with_year 262143 = .ok none ∧
    ymdDate? 2024 2 29 = some (dateOfYo 2024 60) ∧ yoDate? 2023 366 = none := by
  decide +kernel

/-- weeks: 1970-01-01 (Thursday) in a Sunday-based week; the first week of the range has no first
day for most first weekdays, the last week no last day -/
example :
    ((dateOfYo 1970 1).week .sun).checked_first_day = .ok (some (dateOfYo 1969 362)) ∧
    ((dateOfYo 1970 1).week .sun).checked_last_day = .ok (some (dateOfYo 1970 3)) ∧
    ((dateOfYo 1970 1).week .thu).checked_first_day = .ok (some (dateOfYo 1970 1)) ∧
    (Date.MIN.week .sun).checked_first_day = .ok none ∧ (Date.MIN.week .sun).first_day = .panic ∧
    (Date.MAX.week .mon).checked_last_day = .ok none ∧ (Date.MAX.week .mon).checked_days = .ok none ∧
    daysBack (weekdayOf (dayNumYo 1970 1)) 6 = 4 := by
  decide +kernel

/-- n-th weekday: the 2nd Friday of March 2017 is the 10th; April 2023 has no 5th Monday -/
example :
    Date.from_weekday_of_month_opt 2017 3 .fri 2 = Date.from_ymd_opt 2017 3 10 ∧
    Date.from_weekday_of_month_opt 2023 4 .mon 5 = .ok none ∧
    Date.from_weekday_of_month_opt 2023 4 .mon 0 = .ok none ∧
    Date.from_weekday_of_month_opt 2023 13 .mon 1 = .ok none ∧
    nthWeekdayDay 2017 3 4 2 = 10 := by
  decide +kernel

/-- whole years: the day before the anniversary, the anniversary, a later base -/
example :
    (dateOfYo 2024 59).years_since (dateOfYo 2000 60) = .ok (some 23) ∧
    (dateOfYo 2024 60).years_since (dateOfYo 2000 60) = .ok (some 24) ∧
    (dateOfYo 2000 60).years_since (dateOfYo 2000 61) = .ok none ∧
    (dateOfYo 2023 59).quarter = .ok 1 ∧ (dateOfYo 2023 335).quarter = .ok 4 ∧
    (dateOfYo 0 1).year_ce = .ok (false, 1) ∧ (dateOfYo 2024 32).num_days_in_month = .ok 29 ∧
    Month.feb.num_days 262143 = .ok none ∧ Month.jan.num_days 262143 = .ok (some 31) := by
  decide +kernel

end Chrono.Props.C08
