import Chrono.Model.DateOps
namespace Chrono.Props.C08
open Chrono Chrono.M
theorem stage1 : Date.checked_add_months ⟨16138266⟩ 1 = .ok (some ⟨16138762⟩) := by decide +kernel
end Chrono.Props.C08
