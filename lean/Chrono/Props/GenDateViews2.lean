/-
  C01/C08, code translation tie, the remaining read-only views of a date: `<NaiveDate as Datelike>::{month0, day0}`
  (src/naive/date/mod.rs), the `Datelike` defaults `quarter` and `num_days_in_month` read at `Self = NaiveDate`
  (src/traits.rs), `<Month as FromPrimitive>::from_u32` and `Month::num_days` (src/month.rs), as regenerated from the
  Rust source text on every run (tools/extractors/rust2lean.py, `Chrono.Gen.*`), equal the hand-written models
  (Model/DateViews.lean, DateOps.lean, MonthsOps.lean, Weekday.lean, WeekdayConv.lean) for every packed date word,
  every `Int` argument of `from_u32`, every `Month` and every `Int` year.  No range hypothesis is needed anywhere.
-/
import Chrono.Props.GenDateViews
import Chrono.Model.DateOps
import Chrono.Model.WeekdayConv

namespace Chrono.Props.GenDateViews2
open Chrono Chrono.M Chrono.Extracted Chrono.Extracted.DateOps Chrono.Proofs.GenL Chrono.Proofs.GenDateL

/-! ### helpers -/

/-- the month field of a packed date is at most 63 (6 bits above the day field of the `Mdf` of an `ol ≤ 732`) -/
theorem month_le (d : Date) (m : Nat) (hm : d.month = .ok m) : m ≤ 63 := by
  have hd : ∃ day, d.day = .ok day := by
    unfold Date.month at hm; unfold Date.day
    cases hx : d.mdf with
    | panic => rw [hx] at hm; cases hm
    | ok x => exact ⟨_, rfl⟩
  obtain ⟨day, hd⟩ := hd
  exact (month_day_range d m day hm hd).1

/-- `x - 1` on `u32` in the overflow-checked build is the model's `subOne` -/
theorem ckU32_subOne (m : Nat) (hm : m ≤ 4294967295) :
    ckU32 ((m : Int) - 1) = rmap Int.ofNat (Date.subOne m) := by
  unfold Date.subOne
  by_cases h : m = 0
  · rw [if_pos h, ckU32_def, if_neg (by omega)]; rfl
  · rw [if_neg h, ckU32_ok (by omega)]
    show Res.ok ((m : Int) - 1) = Res.ok (Int.ofNat (m - 1))
    congr 1
    have h2 : (Int.ofNat (m - 1)) = ((m - 1 : Nat) : Int) := rfl
    rw [h2]; omega

/-! ### `impl Datelike for NaiveDate`: the 0-based month and day -/

theorem gen_month0_eq (d : Date) :
    Gen.naive_date.NaiveDate.Datelike.month0 d.yof = rmap Int.ofNat (Date.month0 d) := by
  unfold Gen.naive_date.NaiveDate.Datelike.month0 Date.month0
  rw [GenDate.gen_month_eq]
  cases hm : d.month with
  | panic => rfl
  | ok m =>
    have hr := month_le d m hm
    exact ckU32_subOne m (by omega)

theorem gen_day0_eq (d : Date) :
    Gen.naive_date.NaiveDate.Datelike.day0 d.yof = rmap Int.ofNat (Date.day0 d) := by
  unfold Gen.naive_date.NaiveDate.Datelike.day0 Date.day0 Date.day
  rw [GenDate.gen_mdf_eq]
  cases hx : d.mdf with
  | panic => rfl
  | ok x =>
    show ckU32 (Gen.naive_internals.Mdf.day ((x : Nat) : Int) - 1) = rmap Int.ofNat (Date.subOne (Mdf.day x))
    rw [GenDate.gen_mdf_day_eq]
    exact ckU32_subOne _ (by unfold Mdf.day; omega)

/-! ### `Datelike::quarter` (trait default body read at `Self = NaiveDate`) -/

theorem gen_quarter_eq (d : Date) :
    Gen.traits.NaiveDate.Datelike.quarter d.yof = rmap Int.ofNat (Date.quarter d) := by
  unfold Gen.traits.NaiveDate.Datelike.quarter Gen.naive_date.NaiveDate.Datelike.month Date.quarter
  rw [GenDate.gen_month_eq]
  cases hm : d.month with
  | panic => rfl
  | ok m =>
    have hr := month_le d m hm
    show Res.bind (ckU32 ((m : Int) - 1)) (fun r2 => ckU32 (r2 / 3 + 1)) =
      rmap Int.ofNat (if m < 1 then .panic else .ok ((m - 1) / 3 + 1))
    by_cases h : m < 1
    · rw [if_pos h, ckU32_def, if_neg (by omega)]; rfl
    · rw [if_neg h, ckU32_ok (by omega), bind_ok, ckU32_ok (by omega)]
      show Res.ok (((m : Int) - 1) / 3 + 1) = Res.ok (Int.ofNat ((m - 1) / 3 + 1))
      congr 1
      have h2 : (Int.ofNat ((m - 1) / 3 + 1)) = (((m - 1) / 3 + 1 : Nat) : Int) := rfl
      rw [h2]; omega

/-- the two hand-written models of `quarter` (Model/DateOps.lean, Model/MonthsOps.lean) agree -/
theorem quarter_models_eq (d : Date) : Datelike.quarter d.month = Date.quarter d := by
  unfold Datelike.quarter Date.quarter
  cases d.month <;> rfl

theorem gen_quarter_eq_months (d : Date) :
    Gen.traits.NaiveDate.Datelike.quarter d.yof = rmap Int.ofNat (Datelike.quarter d.month) := by
  rw [quarter_models_eq]; exact gen_quarter_eq d

/-! ### `<Month as FromPrimitive>::from_u32` (a `Month` is its discriminant, January = 0) -/

theorem gen_month_from_u32_eq (n : Int) :
    Gen.month.Month.FromPrimitive.from_u32 n = (Month.from_u32 n).map (fun m => (m.toNat : Int)) := by
  by_cases h1 : n = 1; · subst h1; rfl
  by_cases h2 : n = 2; · subst h2; rfl
  by_cases h3 : n = 3; · subst h3; rfl
  by_cases h4 : n = 4; · subst h4; rfl
  by_cases h5 : n = 5; · subst h5; rfl
  by_cases h6 : n = 6; · subst h6; rfl
  by_cases h7 : n = 7; · subst h7; rfl
  by_cases h8 : n = 8; · subst h8; rfl
  by_cases h9 : n = 9; · subst h9; rfl
  by_cases h10 : n = 10; · subst h10; rfl
  by_cases h11 : n = 11; · subst h11; rfl
  by_cases h12 : n = 12; · subst h12; rfl
  unfold Gen.month.Month.FromPrimitive.from_u32 Month.from_u32 Month.ofNumber
  simp only [if_neg h1, if_neg h2, if_neg h3, if_neg h4, if_neg h5, if_neg h6, if_neg h7, if_neg h8, if_neg h9,
    if_neg h10, if_neg h11, if_neg h12]
  rfl

/-- the table-driven model of Model/WeekdayConv.lean is the same function -/
theorem conv_month_from_u32_eq (n : Int) : Conv.Month.from_u32 n = Month.from_u32 n := by
  by_cases h1 : n = 1; · subst h1; rfl
  by_cases h2 : n = 2; · subst h2; rfl
  by_cases h3 : n = 3; · subst h3; rfl
  by_cases h4 : n = 4; · subst h4; rfl
  by_cases h5 : n = 5; · subst h5; rfl
  by_cases h6 : n = 6; · subst h6; rfl
  by_cases h7 : n = 7; · subst h7; rfl
  by_cases h8 : n = 8; · subst h8; rfl
  by_cases h9 : n = 9; · subst h9; rfl
  by_cases h10 : n = 10; · subst h10; rfl
  by_cases h11 : n = 11; · subst h11; rfl
  by_cases h12 : n = 12; · subst h12; rfl
  unfold Conv.Month.from_u32 Month.from_u32 Month.ofNumber
  simp only [Extracted.MONTH_FROM_U32_ARMS, Extracted.MONTH_FROM_U32_DEFAULT, Conv.matchArms,
    if_neg h1, if_neg h2, if_neg h3, if_neg h4, if_neg h5, if_neg h6, if_neg h7, if_neg h8, if_neg h9,
    if_neg h10, if_neg h11, if_neg h12]
  rfl

theorem gen_month_from_u32_eq_conv (n : Int) :
    Gen.month.Month.FromPrimitive.from_u32 n = (Conv.Month.from_u32 n).map (fun m => (m.toNat : Int)) := by
  rw [conv_month_from_u32_eq]; exact gen_month_from_u32_eq n

/-! ### `Month::num_days` -/

theorem gen_month_num_days_eq (m : Month) (year : Int) :
    Gen.month.Month.num_days m.toNat year = rmap (Option.map Int.ofNat) (Month.num_days m year) := by
  cases m
  case feb =>
    show Res.bind (Gen.naive_date.NaiveDate.from_ymd_opt year ((2 : Nat) : Int) ((1 : Nat) : Int))
        (fun r1 => match r1 with
          | some r2 => .ok (some (if Gen.naive_date.NaiveDate.leap_year r2 = true then (29 : Int) else 28))
          | none => .ok none) =
      rmap (Option.map Int.ofNat)
        ((match Date.from_ymd_opt year 2 1 with
          | .panic => .panic
          | .ok none => .ok none
          | .ok (some d) => .ok (some (if d.leap_year then 29 else 28))) : Res (Option Nat))
    rw [GenDate.gen_from_ymd_opt_eq year 2 1 (by omega) (by omega)]
    cases Date.from_ymd_opt year 2 1 with
    | panic => rfl
    | ok o =>
      cases o with
      | none => rfl
      | some d =>
        show Res.ok (some (if Gen.naive_date.NaiveDate.leap_year d.yof = true then (29 : Int) else 28)) =
          Res.ok (some (Int.ofNat (if d.leap_year = true then 29 else 28)))
        rw [GenDate.gen_leap_year_eq]
        cases d.leap_year <;> rfl
  all_goals rfl

/-! ### `Datelike::num_days_in_month` (trait default body read at `Self = NaiveDate`) -/

theorem gen_num_days_in_month_eq (d : Date) :
    Gen.traits.NaiveDate.Datelike.num_days_in_month d.yof = rmap Int.ofNat (Date.num_days_in_month d) := by
  unfold Gen.traits.NaiveDate.Datelike.num_days_in_month Gen.naive_date.NaiveDate.Datelike.month
    Date.num_days_in_month
  rw [GenDate.gen_month_eq]
  cases d.month with
  | panic => rfl
  | ok m =>
    show (match Gen.month.Month.FromPrimitive.from_u32 ((m : Nat) : Int) with
        | some month =>
          Res.bind (Gen.month.Month.num_days month (Gen.naive_date.NaiveDate.Datelike.year d.yof)) fun r2 =>
            (match r2 with
            | some r3 => .ok r3
            | none => .panic)
        | none => .panic) =
      rmap Int.ofNat (match Month.from_u32 (m : Int) with
        | none => .panic
        | some mo =>
          match mo.num_days d.year with
          | .ok (some n) => .ok n
          | _ => .panic)
    rw [gen_month_from_u32_eq]
    cases Month.from_u32 (m : Int) with
    | none => rfl
    | some mo =>
      show Res.bind (Gen.month.Month.num_days mo.toNat d.year) (fun r2 =>
            (match r2 with
            | some r3 => .ok r3
            | none => .panic)) =
        rmap Int.ofNat (match mo.num_days d.year with
          | .ok (some n) => .ok n
          | _ => .panic)
      rw [gen_month_num_days_eq]
      cases mo.num_days d.year with
      | panic => rfl
      | ok o => cases o <;> rfl

/-- the two hand-written models of `num_days_in_month` (Model/DateOps.lean, Model/MonthsOps.lean) agree -/
theorem num_days_in_month_models_eq (d : Date) :
    Datelike.num_days_in_month d.month (.ok d.year) = Date.num_days_in_month d := by
  unfold Datelike.num_days_in_month Date.num_days_in_month
  cases d.month with
  | panic => rfl
  | ok m =>
    show (match Month.from_u32 (m : Int) with
      | none => Res.panic
      | some mo => Res.bind (Res.ok d.year) fun y => match mo.num_days y with | .ok (some n) => .ok n | _ => .panic) =
      (match Month.from_u32 (m : Int) with
      | none => Res.panic
      | some mo => match mo.num_days d.year with | .ok (some n) => .ok n | _ => .panic)
    cases Month.from_u32 (m : Int) <;> rfl

theorem gen_num_days_in_month_eq_months (d : Date) :
    Gen.traits.NaiveDate.Datelike.num_days_in_month d.yof =
      rmap Int.ofNat (Datelike.num_days_in_month d.month (.ok d.year)) := by
  rw [num_days_in_month_models_eq]; exact gen_num_days_in_month_eq d

/-- non-trivial values: 1970-01-01 (`yof = 16138266`) and 2024-02-29 (`2024·8192 + 60·16 + 0o06`); February of a
leap century, a common century, a common year and of a year outside the range of `NaiveDate` -/
example : Gen.naive_date.NaiveDate.Datelike.month0 16138266 = .ok 0
    ∧ Gen.naive_date.NaiveDate.Datelike.day0 16138266 = .ok 0
    ∧ Gen.naive_date.NaiveDate.Datelike.month0 (2024 * 8192 + 60 * 16 + 6) = .ok 1
    ∧ Gen.naive_date.NaiveDate.Datelike.day0 (2024 * 8192 + 60 * 16 + 6) = .ok 28
    ∧ Gen.traits.NaiveDate.Datelike.quarter (2024 * 8192 + 60 * 16 + 6) = .ok 1
    ∧ Gen.traits.NaiveDate.Datelike.num_days_in_month (2024 * 8192 + 60 * 16 + 6) = .ok 29
    ∧ Gen.month.Month.FromPrimitive.from_u32 12 = some 11
    ∧ Gen.month.Month.FromPrimitive.from_u32 13 = none
    ∧ Gen.month.Month.num_days 1 2000 = .ok (some 29)
    ∧ Gen.month.Month.num_days 1 1900 = .ok (some 28)
    ∧ Gen.month.Month.num_days 1 2023 = .ok (some 28)
    ∧ Gen.month.Month.num_days 1 262143 = .ok none
    ∧ Gen.month.Month.num_days 3 2023 = .ok (some 30) := by decide +kernel

end Chrono.Props.GenDateViews2
