/-
  C05 / C16, code translation tie, universal form: the GENERATED `Gen.tz_info_rule.days_since_unix_epoch`
  (tools/extractors/rust2lean.py from src/offset/local/tz_info/rule.rs, overflow check at every step) equals
  the hand-written parser-side model `M.Tz.days_since_unix_epoch` (result type `P`, one range check at the end;
  `.err` never occurs) and, for `1 ≤ month ≤ 12`, is `.ok` of the total lookup-side model
  `M.TzL.days_since_unix_epoch` — for every `i32` year, every `month : Nat` (0 and ≥ 13 panic on both sides)
  and every `month_day` with `|month_day| ≤ 2^62` (callers pass 1..=31).
-/
import Chrono.Props.GenTzRule
import Chrono.Model.TzLookup
import Chrono.Proofs.PrimL

namespace Chrono.Props.GenTzRule2
open Chrono Chrono.M

/-- the embedding of the translator's result type into the model's (`P.err` is not in the image) -/
def ofRes {α : Type} : Res α → Tz.P α
  | .ok v => .ok v
  | .panic => .panic

/-- the constant table, as written out by the translator -/
private abbrev CUMUL : List Int := [0, 31, 59, 90, 120, 151, 181, 212, 243, 273, 304, 334]

/-! ### run-time vocabulary -/
theorem ck_bind {x : Int} (f : Int → Res Int)
    (h1 : -9223372036854775808 ≤ x) (h2 : x ≤ 9223372036854775807) :
    Res.bind (ckI64 x) f = f x := by
  rw [Proofs.ckI64_ok h1 h2]; rfl

theorem tdiv_bound4 (a : Int) : -(if 0 ≤ a then a else -a) ≤ Int.tdiv a 4 ∧ Int.tdiv a 4 ≤ (if 0 ≤ a then a else -a) := by
  rw [Proofs.tdiv_eq]; split <;> omega
theorem tdiv_bound100 (a : Int) : -(if 0 ≤ a then a else -a) ≤ Int.tdiv a 100 ∧ Int.tdiv a 100 ≤ (if 0 ≤ a then a else -a) := by
  rw [Proofs.tdiv_eq]; split <;> omega
theorem tdiv_bound400 (a : Int) : -(if 0 ≤ a then a else -a) ≤ Int.tdiv a 400 ∧ Int.tdiv a 400 ≤ (if 0 ≤ a then a else -a) := by
  rw [Proofs.tdiv_eq]; split <;> omega

theorem cumul_bound : ∀ n < 12, 0 ≤ CUMUL.getD n 0 ∧ CUMUL.getD n 0 ≤ 334 := by decide

/-- the common tail `result += CUMUL[month - 1] + month_day - 1` of the four branches -/
def tailG (result month month_day : Int) : Res Int :=
  Res.bind (GenRt.ckUsize (month - 1)) fun r5 =>
  Res.bind (GenRt.idxL ([0, 31, 59, 90, 120, 151, 181, 212, 243, 273, 304, 334] : List Int) r5) fun r6 =>
  Res.bind (ckI64 (r6 + month_day)) fun r7 =>
  Res.bind (ckI64 (r7 - 1)) fun r8 =>
  ckI64 (result + r8)

theorem usize_idx (i : Int) (f : Int → Res Int) :
    (Res.bind (GenRt.ckUsize i) fun r =>
      Res.bind (GenRt.idxL ([0, 31, 59, 90, 120, 151, 181, 212, 243, 273, 304, 334] : List Int) r) f)
      = if 0 ≤ i ∧ i < 12 then f (CUMUL.getD i.toNat 0) else .panic := by
  have hU : U64_MAX = 18446744073709551615 := rfl
  unfold GenRt.ckUsize ckU64 inU64 GenRt.idxL
  by_cases h0 : 0 ≤ i
  · by_cases h1 : i < 12
    · have hu : i ≤ U64_MAX := by omega
      simp [h0, h1, hu, Res.bind]
    · by_cases hu : i ≤ U64_MAX
      · simp [h0, h1, hu, Res.bind]
      · simp [h0, h1, hu, Res.bind]
  · simp [h0, Res.bind]

theorem tailG_eq (result : Int) (month : Nat) (md : Int)
    (hr1 : -1000000000000 ≤ result) (hr2 : result ≤ 1000000000000)
    (hm1 : -4611686018427387904 ≤ md) (hm2 : md ≤ 4611686018427387904) :
    tailG result month md =
      if 1 ≤ month ∧ month ≤ 12 then .ok (result + CUMUL.getD (month - 1) 0 + md - 1) else .panic := by
  unfold tailG
  rw [usize_idx]
  by_cases hm : 1 ≤ month ∧ month ≤ 12
  · rw [if_pos hm, if_pos (by omega)]
    have ht : ((month : Int) - 1).toNat = month - 1 := by omega
    rw [ht]
    have hc := cumul_bound (month - 1) (by omega)
    generalize CUMUL.getD (month - 1) 0 = c at hc ⊢
    rw [ck_bind _ (by omega) (by omega), ck_bind _ (by omega) (by omega),
      Proofs.ckI64_ok (by omega) (by omega)]
    congr 1; omega
  · rw [if_neg hm, if_neg (by omega)]

theorem leap_TzL (year : Int) : TzL.is_leap_year year = Gen.tz_info_rule.is_leap_year year := by
  rw [GenTzRule.gen_is_leap_year_eq]; rfl

theorem cumul_TzL : Extracted.TzL.CUMUL_DAY_IN_MONTHS_NORMAL_YEAR = CUMUL := rfl
theorem cumul_TzP : Extracted.TzP.CUMUL_DAY_IN_MONTHS_NORMAL_YEAR = CUMUL := rfl

/-- the generated code against the total model: value inside the month range, panic outside -/
theorem gen_days_since_unix_epoch_total (year : Int) (month : Nat) (month_day : Int)
    (hy1 : -2147483648 ≤ year) (hy2 : year ≤ 2147483647)
    (hm1 : -4611686018427387904 ≤ month_day) (hm2 : month_day ≤ 4611686018427387904) :
    Gen.tz_info_rule.days_since_unix_epoch year month month_day =
      if 1 ≤ month ∧ month ≤ 12 then .ok (TzL.days_since_unix_epoch year month month_day) else .panic := by
  unfold Gen.tz_info_rule.days_since_unix_epoch TzL.days_since_unix_epoch
  rw [leap_TzL, cumul_TzL]
  dsimp only
  generalize Gen.tz_info_rule.is_leap_year year = leap
  rw [ck_bind _ (by omega) (by omega), ck_bind _ (by omega) (by omega)]
  by_cases hy : year ≥ 1970
  · rw [if_pos hy, if_pos hy]
    have b1 := tdiv_bound4 (year - 1968)
    have b2 := tdiv_bound100 (year - 1900)
    have b3 := tdiv_bound400 (year - 1600)
    rw [if_pos (by omega : 0 ≤ year - 1968)] at b1
    rw [if_pos (by omega : 0 ≤ year - 1900)] at b2
    rw [if_pos (by omega : 0 ≤ year - 1600)] at b3
    rw [ck_bind _ (by omega) (by omega), ck_bind _ (by omega) (by omega),
      ck_bind _ (by omega) (by omega), ck_bind _ (by omega) (by omega),
      ck_bind _ (by omega) (by omega), ck_bind _ (by omega) (by omega)]
    by_cases hl : leap = true ∧ (month : Int) < 3
    · rw [if_pos hl, ck_bind _ (by omega) (by omega)]
      refine (tailG_eq _ month month_day (by omega) (by omega) hm1 hm2).trans ?_
      have : (leap && decide (month < 3)) = true := by simp [hl.1]; omega
      rw [if_pos this]
    · rw [if_neg hl]
      refine (tailG_eq _ month month_day (by omega) (by omega) hm1 hm2).trans ?_
      have : ¬ (leap && decide (month < 3)) = true := by
        intro h; apply hl; simp at h; exact ⟨h.1, by omega⟩
      rw [if_neg this]
  · rw [if_neg hy, if_neg hy]
    have b1 := tdiv_bound4 (year - 1972)
    have b2 := tdiv_bound100 (year - 2000)
    have b3 := tdiv_bound400 (year - 2000)
    rw [if_neg (by omega : ¬ 0 ≤ year - 1972)] at b1
    rw [if_neg (by omega : ¬ 0 ≤ year - 2000)] at b2
    rw [if_neg (by omega : ¬ 0 ≤ year - 2000)] at b3
    rw [ck_bind _ (by omega) (by omega), ck_bind _ (by omega) (by omega),
      ck_bind _ (by omega) (by omega), ck_bind _ (by omega) (by omega),
      ck_bind _ (by omega) (by omega), ck_bind _ (by omega) (by omega)]
    by_cases hl : leap = true ∧ (month : Int) ≥ 3
    · rw [if_pos hl, ck_bind _ (by omega) (by omega)]
      refine (tailG_eq _ month month_day (by omega) (by omega) hm1 hm2).trans ?_
      have : (leap && decide (month ≥ 3)) = true := by simp [hl.1]; omega
      rw [if_pos this]
    · rw [if_neg hl]
      refine (tailG_eq _ month month_day (by omega) (by omega) hm1 hm2).trans ?_
      have : ¬ (leap && decide (month ≥ 3)) = true := by
        intro h; apply hl; simp at h; exact ⟨h.1, by omega⟩
      rw [if_neg this]

theorem idxI_cumul (n : Nat) :
    Tz.idxI CUMUL n = if n < 12 then .ok (CUMUL.getD n 0) else .panic := by
  unfold Tz.idxI
  by_cases h : n < 12
  · rw [if_pos h]
    have : ∀ k < 12, (match CUMUL[k]? with | some b => Tz.P.ok b | none => Tz.P.panic) = .ok (CUMUL.getD k 0) := by
      decide
    exact this n h
  · rw [if_neg h]
    have : CUMUL[n]? = none := by
      apply List.getElem?_eq_none; show 12 ≤ n; omega
    rw [this]

theorem TzL_bound (year : Int) (month : Nat) (month_day : Int)
    (hy1 : -2147483648 ≤ year) (hy2 : year ≤ 2147483647) (hm : 1 ≤ month ∧ month ≤ 12)
    (hm1 : -4611686018427387904 ≤ month_day) (hm2 : month_day ≤ 4611686018427387904) :
    -9223372036854775808 ≤ TzL.days_since_unix_epoch year month month_day
      ∧ TzL.days_since_unix_epoch year month month_day ≤ 9223372036854775807 := by
  unfold TzL.days_since_unix_epoch
  rw [cumul_TzL]
  dsimp only
  have hc := cumul_bound (month - 1) (by omega)
  generalize CUMUL.getD (month - 1) 0 = c at hc ⊢
  have b1 := tdiv_bound4 (year - 1968)
  have b2 := tdiv_bound100 (year - 1900)
  have b3 := tdiv_bound400 (year - 1600)
  have b4 := tdiv_bound4 (year - 1972)
  have b5 := tdiv_bound100 (year - 2000)
  have b6 := tdiv_bound400 (year - 2000)
  split <;> split <;> omega

/-- the parser-side model against the total model (same shape as `gen_days_since_unix_epoch_total`) -/
theorem model_days_since_unix_epoch_total (year : Int) (month : Nat) (month_day : Int)
    (hy1 : -2147483648 ≤ year) (hy2 : year ≤ 2147483647)
    (hm1 : -4611686018427387904 ≤ month_day) (hm2 : month_day ≤ 4611686018427387904) :
    Tz.days_since_unix_epoch year month month_day =
      if 1 ≤ month ∧ month ≤ 12 then .ok (TzL.days_since_unix_epoch year month month_day) else .panic := by
  unfold Tz.days_since_unix_epoch
  rw [cumul_TzP, idxI_cumul]
  by_cases h0 : month = 0
  · rw [if_pos h0, if_neg (by omega)]
  rw [if_neg h0]
  by_cases hm : 1 ≤ month ∧ month ≤ 12
  · rw [if_pos hm, if_pos (by omega), Tz.P.bind_ok]
    have hb := TzL_bound year month month_day hy1 hy2 hm hm1 hm2
    have he : (let leap := Tz.is_leap_year year
        let r0 := (year - 1970) * 365
        let r1 :=
          if year ≥ 1970 then
            let r := r0 + Int.tdiv (year - 1968) 4 - Int.tdiv (year - 1900) 100 + Int.tdiv (year - 1600) 400
            if (leap && decide (month < 3)) = true then r - 1 else r
          else
            let r := r0 + Int.tdiv (year - 1972) 4 - Int.tdiv (year - 2000) 100 + Int.tdiv (year - 2000) 400
            if (leap && decide (month ≥ 3)) = true then r + 1 else r
        r1 + CUMUL.getD (month - 1) 0 + month_day - 1) = TzL.days_since_unix_epoch year month month_day := rfl
    dsimp only at he ⊢
    rw [he]
    unfold Tz.ck64 inI64
    have h1 : I64_MIN = -9223372036854775808 := rfl
    have h2 : I64_MAX = 9223372036854775807 := rfl
    rw [if_pos (by simp; omega)]
  · rw [if_neg hm, if_neg (by omega)]; rfl

/-- **the tie**: the hand-written model is the generated code, result for result (`.ok v` ↔ `.ok v`,
`.panic` ↔ `.panic`; `P.err` is not in the image of `ofRes`, so the model never returns it here) -/
theorem gen_days_since_unix_epoch_eq (year : Int) (month : Nat) (month_day : Int)
    (hy1 : -2147483648 ≤ year) (hy2 : year ≤ 2147483647)
    (hm1 : -4611686018427387904 ≤ month_day) (hm2 : month_day ≤ 4611686018427387904) :
    Tz.days_since_unix_epoch year month month_day
      = ofRes (Gen.tz_info_rule.days_since_unix_epoch year month month_day) := by
  rw [model_days_since_unix_epoch_total year month month_day hy1 hy2 hm1 hm2,
    gen_days_since_unix_epoch_total year month month_day hy1 hy2 hm1 hm2]
  split <;> rfl

/-- inside the month range the generated code returns the total model's value -/
theorem gen_days_since_unix_epoch_eq_TzL (year : Int) (month : Nat) (month_day : Int)
    (hy1 : -2147483648 ≤ year) (hy2 : year ≤ 2147483647) (hmo1 : 1 ≤ month) (hmo2 : month ≤ 12)
    (hm1 : -4611686018427387904 ≤ month_day) (hm2 : month_day ≤ 4611686018427387904) :
    Gen.tz_info_rule.days_since_unix_epoch year month month_day
      = .ok (TzL.days_since_unix_epoch year month month_day) := by
  rw [gen_days_since_unix_epoch_total year month month_day hy1 hy2 hm1 hm2, if_pos ⟨hmo1, hmo2⟩]

/-- outside the month range both sides panic (`month - 1` on `usize`, or the slice index) -/
theorem gen_days_since_unix_epoch_panic (year : Int) (month : Nat) (month_day : Int)
    (hy1 : -2147483648 ≤ year) (hy2 : year ≤ 2147483647) (hmo : month = 0 ∨ 13 ≤ month)
    (hm1 : -4611686018427387904 ≤ month_day) (hm2 : month_day ≤ 4611686018427387904) :
    Gen.tz_info_rule.days_since_unix_epoch year month month_day = .panic
      ∧ Tz.days_since_unix_epoch year month month_day = .panic := by
  rw [gen_days_since_unix_epoch_total year month month_day hy1 hy2 hm1 hm2,
    model_days_since_unix_epoch_total year month month_day hy1 hy2 hm1 hm2,
    if_neg (by omega), if_neg (by omega)]
  exact ⟨rfl, rfl⟩

/-- non-vacuity: hypotheses satisfiable, both outcomes occur; and the bound on `month_day` is needed: near
`i64::MAX` the source overflows in `CUMUL[1] + month_day` while the model's single final check passes -/
example : Gen.tz_info_rule.days_since_unix_epoch 2000 2 29 = .ok 11016
    ∧ Tz.days_since_unix_epoch 2000 2 29 = .ok 11016
    ∧ TzL.days_since_unix_epoch 2000 2 29 = 11016
    ∧ Gen.tz_info_rule.days_since_unix_epoch (-2147483648) 12 4611686018427387904 = .ok 4611685234074372405
    ∧ Gen.tz_info_rule.days_since_unix_epoch 2000 13 1 = .panic
    ∧ Tz.days_since_unix_epoch 2000 13 1 = .panic := by decide +kernel

/-- outside the bound (still an `i64`) the two differ — the reason for the hypothesis on `month_day` -/
theorem bound_needed :
    Gen.tz_info_rule.days_since_unix_epoch 1969 2 9223372036854775787 = .panic
    ∧ Tz.days_since_unix_epoch 1969 2 9223372036854775787 = .ok 9223372036854775452 := by decide +kernel

end Chrono.Props.GenTzRule2
