/-
  C07 — Time-of-day arithmetic wraps by whole days and honours leap-second operands.
  Property statements only (proofs in Proofs/TimeL.lean; the date-time theorems in
  Proofs/TimeCarryL.lean, resting on C01/C03's packed-date lemmas via Proofs/DateTimeArithL.lean).

  `M.Time` = `NaiveTime` `(secs, frac)`; `Spec.TValid` = the representation invariant the arithmetic
  sees (leap representation `frac ≥ 10⁹` on *any* second), `Spec.TStrict` = what the constructors
  build (leap only on second 59); `Spec.addLeap` / `Spec.diffLeap` = the extended-line reading of
  the documented leap-second rules; `Spec.ns`, `Spec.DInv` = C06's duration semantics;
  `M.NaiveDT` = `NaiveDateTime` (packed `NaiveDate` + `NaiveTime`), `Spec.NDTInv` its invariant,
  `Spec.dayNumOf`, `Spec.IsDayShift`, `Spec.DN_MIN/DN_MAX` = C03's day-number vocabulary;
  `Spec.dtDiffLine`, `Spec.crossErr`, `Spec.diffAddErr` (Spec/TimeDiffSpec.lean) = the extended-line
  reading of a date-time difference and the error terms of the implementation against it.
  The theorems added for the statement-level audit (audit/C07.md §6, G1–G8) carry the gap number
  in their doc comment; their helper lemmas are in Proofs/TimeGapsL.lean, TimeCarryGapsL.lean,
  TimeOpsL.lean.
-/
import Chrono.Proofs.TimeL
import Chrono.Proofs.TimeCarryL
import Chrono.Proofs.TimeCarryGapsL
import Chrono.Proofs.TimeOpsL
import Chrono.Proofs.TimeClosureL
import Chrono.Extracted.TimeLits

namespace Chrono.Props.C07
open Chrono Chrono.M Chrono.Spec Chrono.Proofs Chrono.Extracted

/-! ### Tie to the source text: the literals of the mirrored functions -/

/-- the integer literals of each mirrored function body, re-extracted from src/naive/time/mod.rs and
src/traits.rs on every run (tools/extractors/time.py), are the limits and units the model uses -/
theorem literals_ok :
    TIME_LITS_from_hms_milli_opt = [1000000] ∧ TIME_LITS_from_hms_micro_opt = [1000] ∧
    TIME_LITS_from_hms_nano_opt = [24, 60, 60, 1000000000, 59, 2000000000, 3600, 60] ∧
    TIME_LITS_from_num_seconds_from_midnight_opt = [86400, 2000000000, 1000000000, 60, 59] ∧
    TIME_LITS_overflowing_add_signed =
      [1000000000, 0, 0, 2000000000, 1000000000, 0, 1000000000, 1, 0, 0, 1000000000, 1,
       1000000000, 1000000000, 1, 86400] ∧
    TIME_LITS_signed_duration_since = [1000000000, 1, 1000000000, 1, 1000000000, 1000000000] ∧
    TIME_LITS_overflowing_add_offset = [86400, 86400] ∧
    TIME_LITS_overflowing_sub_offset = [86400, 86400] ∧
    TIME_LITS_hms = [60, 60, 60, 60] ∧ TIME_LITS_MAX = [23, 3600, 59, 60, 59, 999999999] ∧
    TIME_LITS_with_hour = [24, 3600, 3600] ∧ TIME_LITS_with_minute = [60, 3600, 3600, 60, 60] ∧
    TIME_LITS_with_second = [60, 60, 60] ∧ TIME_LITS_with_nanosecond = [2000000000] ∧
    TIME_LITS_add_std_duration = [86400, 86400, 86400] ∧
    TIME_LITS_sub_std_duration = [86400, 86400, 86400] ∧
    TIME_LITS_hour12 = [12, 0, 12, 12] ∧ TIME_LITS_num_seconds_from_midnight_default = [3600, 60] ∧
    Time.MAX = ⟨86399, 999999999⟩ := by decide

/-! ### Validity: the four constructors accept exactly the stated set -/

/-- `from_hms_nano_opt`: accepted iff hour < 24, minute < 60, second < 60 and nanosecond < 10⁹,
or < 2·10⁹ on second 59 (all integer arguments, in particular all `u32`) -/
theorem valid_iff_hms_nano (h m s n : Int) :
    Time.from_hms_nano_opt h m s n = if okFields h m s n then some (ofFields h m s n) else none :=
  hms_nano_iff' h m s n

theorem valid_iff_hms (h m s : Int) :
    Time.from_hms_opt h m s =
      if h < 24 ∧ m < 60 ∧ s < 60 then some (ofFields h m s 0) else none :=
  hms_iff' h m s

/-- milliseconds: the `u32` multiplication overflow (`checked_mul`) coincides with rejection -/
theorem valid_iff_hms_milli (h m s ms : Int) (h0 : 0 ≤ ms) :
    Time.from_hms_milli_opt h m s ms =
      if h < 24 ∧ m < 60 ∧ s < 60 ∧ (ms < 1000 ∨ (s = 59 ∧ ms < 2000))
      then some (ofFields h m s (ms * 1000000)) else none :=
  hms_milli_iff' h m s ms h0

theorem valid_iff_hms_micro (h m s us : Int) (h0 : 0 ≤ us) :
    Time.from_hms_micro_opt h m s us =
      if h < 24 ∧ m < 60 ∧ s < 60 ∧ (us < 1000000 ∨ (s = 59 ∧ us < 2000000))
      then some (ofFields h m s (us * 1000)) else none :=
  hms_micro_iff' h m s us h0

theorem valid_iff_num_seconds (secs nano : Int) :
    Time.from_num_seconds_from_midnight_opt secs nano =
      if secs < 86400 ∧ (nano < 1000000000 ∨ (secs % 60 = 59 ∧ nano < 2000000000))
      then some ⟨secs, nano⟩ else none :=
  nsfm_iff' secs nano

/-- an accepted tuple of (unsigned) fields is what the accessors return, and the value built
satisfies the strict invariant -/
theorem ctor_reads_back (h m s n : Int) (h0 : 0 ≤ h) (m0 : 0 ≤ m) (s0 : 0 ≤ s) (n0 : 0 ≤ n)
    (hok : okFields h m s n) :
    TStrict (ofFields h m s n) ∧ (ofFields h m s n).hour = h ∧ (ofFields h m s n).minute = m ∧
    (ofFields h m s n).second = s ∧ (ofFields h m s n).nanosecond = n :=
  ofFields_ok h m s n h0 m0 s0 n0 hok

example : okFields 23 59 59 1999999999 ∧
    Time.from_hms_nano_opt 23 59 59 1999999999 = some ⟨86399, 1999999999⟩ ∧
    Time.from_hms_nano_opt 23 59 58 1000000000 = none ∧
    Time.from_hms_nano_opt 23 59 59 2000000000 = none ∧
    Time.from_hms_nano_opt 24 0 0 0 = none ∧
    Time.from_hms_milli_opt 23 59 59 1999 = some ⟨86399, 1999000000⟩ ∧
    Time.from_hms_milli_opt 23 59 59 4295 = none ∧          -- 4295·10⁶ overflows `u32`
    Time.from_hms_micro_opt 23 59 59 4294968 = none ∧
    Time.from_num_seconds_from_midnight_opt 119 1000000000 = some ⟨119, 1000000000⟩ ∧
    Time.from_num_seconds_from_midnight_opt 120 1000000000 = none ∧
    Time.from_num_seconds_from_midnight_opt 86400 0 = none := by decide

/-! ### Accessors and single-field replacement -/

/-- the accessors return the unique (hour, minute, second) with
`hour·3600 + minute·60 + second = secs`; the `Timelike` default for
`num_seconds_from_midnight` agrees with the stored value and cannot overflow; `hour12` -/
theorem accessors_spec (t : Time) (ht : TValid t) :
    t.hour = hourOf t ∧ t.minute = minuteOf t ∧ t.second = secondOf t ∧ t.nanosecond = t.frac ∧
    0 ≤ hourOf t ∧ hourOf t < 24 ∧ 0 ≤ minuteOf t ∧ minuteOf t < 60 ∧ 0 ≤ secondOf t ∧
    secondOf t < 60 ∧ hourOf t * 3600 + minuteOf t * 60 + secondOf t = t.secs ∧
    t.num_seconds_from_midnight = t.secs ∧ t.num_seconds_from_midnight_default = .ok t.secs ∧
    t.hour12 = (decide (12 ≤ hourOf t), if hourOf t % 12 = 0 then 12 else hourOf t % 12) :=
  accessors' t ht

/-- single-field replacement: accepted iff the new field is in range, and then the result is the
time with exactly that field replaced (`with_nanosecond` admits leap values on any second, as the
code does) -/
theorem with_field (t : Time) (v : Int) (ht : TValid t) (hv : 0 ≤ v) :
    t.with_hour v =
      (if v < 24 then some (ofFields v (minuteOf t) (secondOf t) t.frac) else none) ∧
    t.with_minute v =
      (if v < 60 then some (ofFields (hourOf t) v (secondOf t) t.frac) else none) ∧
    t.with_second v =
      (if v < 60 then some (ofFields (hourOf t) (minuteOf t) v t.frac) else none) ∧
    t.with_nanosecond v =
      (if v < 2000000000 then some (ofFields (hourOf t) (minuteOf t) (secondOf t) v) else none) :=
  with_field' t v ht hv

/-- `ofFields` of in-range fields is valid and has exactly those fields (so the results of
`with_field` differ from `t` in the named field only) -/
theorem with_field_reads_back (h m s n : Int) (hh : 0 ≤ h ∧ h < 24) (hm : 0 ≤ m ∧ m < 60)
    (hs : 0 ≤ s ∧ s < 60) (hn : 0 ≤ n ∧ n < 2000000000) :
    TValid (ofFields h m s n) ∧ hourOf (ofFields h m s n) = h ∧ minuteOf (ofFields h m s n) = m ∧
    secondOf (ofFields h m s n) = s ∧ (ofFields h m s n).frac = n :=
  ofFields_valid h m s n hh hm hs hn

example : TValid ⟨86399, 1500000000⟩ ∧
    (⟨86399, 1500000000⟩ : Time).with_second 30 = some ⟨86370, 1500000000⟩ ∧
    (⟨86399, 1500000000⟩ : Time).with_hour 24 = none ∧
    (⟨3723, 5⟩ : Time).with_minute 59 = some ⟨7143, 5⟩ ∧
    (⟨3723, 5⟩ : Time).with_nanosecond 1999999999 = some ⟨3723, 1999999999⟩ ∧
    (⟨86399, 0⟩ : Time).hour12 = (true, 11) ∧ (⟨0, 0⟩ : Time).hour12 = (false, 12) := by decide

/-- (audit G5) the acceptance rule as a property of VALUES: for a valid time the strict invariant
`TStrict` is the statement's rule `okFields` on its four fields, and holds exactly when the
constructor, fed the four fields the accessors return, gives the time back — the "accepted set" is
`TStrict` -/
theorem accepted_set_is_strict (t : Time) (ht : TValid t) :
    (TStrict t ↔ okFields (hourOf t) (minuteOf t) (secondOf t) t.frac) ∧
    (TStrict t ↔ Time.from_hms_nano_opt t.hour t.minute t.second t.nanosecond = some t) := by
  obtain ⟨e1, e2, e3, e4, _⟩ := accessors' t ht
  rw [e1, e2, e3, e4]
  exact ⟨Proofs.TimeGaps.strict_iff_ok t ht, Proofs.TimeGaps.strict_iff_ctor t ht⟩

/-- (audit G5) single-field replacement against the acceptance rule: `with_hour` and `with_minute`
keep an accepted time accepted; `with_second` does so iff the time is not a leap second or the new
second is 59; `with_nanosecond` iff the new value is below 10⁹ or the second is 59.  So the
replacements CAN leave the accepted set (next theorem), which is why every arithmetic theorem of
this file is stated for `TValid` (leap representation on any second). -/
theorem with_field_strict (t : Time) (v : Int) (ht : TStrict t) (hv : 0 ≤ v) :
    (∀ r, t.with_hour v = some r → TStrict r) ∧
    (∀ r, t.with_minute v = some r → TStrict r) ∧
    (∀ r, t.with_second v = some r → (TStrict r ↔ (t.frac < 1000000000 ∨ v = 59))) ∧
    (∀ r, t.with_nanosecond v = some r → (TStrict r ↔ (v < 1000000000 ∨ secondOf t = 59))) :=
  Proofs.TimeGaps.with_strict t v ht hv

/-- (audit G5) kernel-checked: replacement of the second of an accepted leap second, and of the
nanosecond of an accepted ordinary time, return values that no constructor accepts -/
theorem with_field_leaves_accepted_set :
    TStrict ⟨86399, 1500000000⟩ ∧
    (⟨86399, 1500000000⟩ : Time).with_second 30 = some ⟨86370, 1500000000⟩ ∧
    ¬ TStrict ⟨86370, 1500000000⟩ ∧ TValid ⟨86370, 1500000000⟩ ∧
    Time.from_hms_nano_opt 23 59 30 1500000000 = none ∧
    TStrict ⟨3723, 5⟩ ∧ (⟨3723, 5⟩ : Time).with_nanosecond 1999999999 = some ⟨3723, 1999999999⟩ ∧
    ¬ TStrict ⟨3723, 1999999999⟩ ∧ TValid ⟨3723, 1999999999⟩ ∧
    Time.from_hms_nano_opt 1 2 3 1999999999 = none ∧
    Time.from_num_seconds_from_midnight_opt 3723 1999999999 = none := by decide

/-- (audit G6) "single-field replacement changes exactly the named field", read through the accessors
in one statement: each `with_*` is refused exactly when the new value is out of range, and an
accepted result is valid, returns the new value for the named field and the old values for the
other three -/
theorem with_field_exactly_named (t : Time) (v : Int) (ht : TValid t) (hv : 0 ≤ v) :
    ((t.with_hour v = none ↔ 24 ≤ v) ∧
      ∀ r, t.with_hour v = some r → TValid r ∧ r.hour = v ∧ r.minute = t.minute ∧
        r.second = t.second ∧ r.nanosecond = t.nanosecond) ∧
    ((t.with_minute v = none ↔ 60 ≤ v) ∧
      ∀ r, t.with_minute v = some r → TValid r ∧ r.hour = t.hour ∧ r.minute = v ∧
        r.second = t.second ∧ r.nanosecond = t.nanosecond) ∧
    ((t.with_second v = none ↔ 60 ≤ v) ∧
      ∀ r, t.with_second v = some r → TValid r ∧ r.hour = t.hour ∧ r.minute = t.minute ∧
        r.second = v ∧ r.nanosecond = t.nanosecond) ∧
    ((t.with_nanosecond v = none ↔ 2000000000 ≤ v) ∧
      ∀ r, t.with_nanosecond v = some r → TValid r ∧ r.hour = t.hour ∧ r.minute = t.minute ∧
        r.second = t.second ∧ r.nanosecond = v) :=
  Proofs.TimeGaps.with_accessors t v ht hv

example : TStrict ⟨86399, 1500000000⟩ ∧ TStrict ⟨3723, 5⟩ ∧
    (⟨86399, 1500000000⟩ : Time).with_second 59 = some ⟨86399, 1500000000⟩ ∧
    (⟨86399, 1500000000⟩ : Time).with_minute 7 = some ⟨83279, 1500000000⟩ ∧
    TStrict ⟨83279, 1500000000⟩ ∧
    (⟨83279, 1500000000⟩ : Time).minute = 7 ∧ (⟨83279, 1500000000⟩ : Time).hour = 23 ∧
    (⟨83279, 1500000000⟩ : Time).second = 59 := by decide

/-- `hour12` without the model's arithmetic: the 12-hour value lies in 1..12, the flag says "hour ≥ 12",
and the two determine the hour -/
theorem hour12_spec (t : Time) (ht : TValid t) :
    1 ≤ t.hour12.2 ∧ t.hour12.2 ≤ 12 ∧ (t.hour12.1 = true ↔ 12 ≤ t.hour) ∧
    t.hour = t.hour12.2 % 12 + (if t.hour12.1 = true then 12 else 0) := by
  rw [(accessors' t ht).1]
  exact Proofs.TimeGaps.hour12_char t ht

/-- seconds-from-midnight form: the constructor applied to what the two accessors return gives the
time back exactly for accepted (`TStrict`) times and refuses every other valid representation; and
whatever it accepts is an accepted time that reads back -/
theorem num_seconds_round_trip (t : Time) (ht : TValid t) :
    Time.from_num_seconds_from_midnight_opt t.num_seconds_from_midnight t.nanosecond =
      (if TStrict t then some t else none) :=
  Proofs.TimeGaps.nsfm_round_trip t ht

theorem num_seconds_reads_back (secs nano : Int) (h0 : 0 ≤ secs) (n0 : 0 ≤ nano) (r : Time)
    (h : Time.from_num_seconds_from_midnight_opt secs nano = some r) :
    TStrict r ∧ r.num_seconds_from_midnight = secs ∧ r.nanosecond = nano :=
  Proofs.TimeGaps.nsfm_accepts_strict secs nano h0 n0 r h

/-- `NaiveTime::MIN` is 00:00:00 and sorts first; `NaiveTime::MAX` is 23:59:59.999999999 and sorts
after every valid time except the leap second 23:59:60.x -/
theorem min_max (t : Time) (ht : TValid t) :
    Time.MIN = ⟨0, 0⟩ ∧ TStrict Time.MIN ∧ TStrict Time.MAX ∧ Time.cmp Time.MIN t ≤ 0 ∧
    (Time.cmp t Time.MAX ≤ 0 ↔ ¬ (t.secs = 86399 ∧ t.frac ≥ 1000000000)) :=
  ⟨rfl, by decide, by decide, Proofs.TimeGaps.min_max_order t ht⟩

example : (⟨86399, 0⟩ : Time).hour12 = (true, 11) ∧ (⟨43200, 0⟩ : Time).hour12 = (true, 12) ∧
    Time.from_num_seconds_from_midnight_opt 86399 1999999999 = some ⟨86399, 1999999999⟩ ∧
    Time.cmp ⟨86399, 1000000000⟩ Time.MAX = 1 := by decide

/-! ### Addition -/

/-- `overflowing_add_signed` never panics and equals the extended-line semantics, for every valid
time (leap representation on any second) and every duration -/
theorem add_spec (t : Time) (d : Delta) (ht : TValid t) (hd : DInv d) :
    Time.overflowing_add_signed t d = .ok (addLeap t (ns d)) :=
  add_spec' t d ht hd

/-- what the extended-line result looks like: a valid time; the carry is a whole number of days;
without a leap operand it is plain addition modulo one day and never produces a leap second; the
result is a leap second exactly when the sum stays inside the operand's own leap second -/
theorem add_result (t : Time) (δ : Int) (ht : TValid t) :
    TValid (addLeap t δ).1 ∧ (addLeap t δ).2 % 86400 = 0 ∧
    (t.frac < 1000000000 →
      (addLeap t δ).1.frac < 1000000000 ∧
      pos (addLeap t δ).1 + (addLeap t δ).2 * 1000000000 = pos t + δ) ∧
    ((addLeap t δ).1.frac ≥ 1000000000 ↔
      (t.frac ≥ 1000000000 ∧ (t.secs + 1) * 1000000000 ≤ pos t + δ ∧
        pos t + δ < (t.secs + 2) * 1000000000)) :=
  addLeap_facts t δ ht

theorem add_zero (t : Time) (ht : TValid t) : addLeap t 0 = (t, 0) := addLeap_zero' t ht

/-- documented law: two additions of the same sign equal one addition of the sum -/
theorem add_assoc_same_sign (t : Time) (a b ab : Delta) (ht : TValid t) (ha : DInv a)
    (hb : DInv b) (hab : DInv ab) (hsum : ns ab = ns a + ns b)
    (hsign : (0 ≤ ns a ∧ 0 ≤ ns b) ∨ (ns a ≤ 0 ∧ ns b ≤ 0)) :
    ∃ r1 c1 r2 c2, Time.overflowing_add_signed t a = .ok (r1, c1) ∧
      Time.overflowing_add_signed r1 b = .ok (r2, c2) ∧
      Time.overflowing_add_signed t ab = .ok (r2, c1 + c2) :=
  add_assoc'' t a b ab ht ha hb hab hsum hsign

/-- non-vacuity, and the boundary cases the doc tests do not contain: exactly reaching :60.0 and
:61.0 from inside a leap second, 1 ns before, a negative fractional step out of it, TimeDelta::MAX -/
example : TValid ⟨10859, 1100000000⟩ ∧ DInv ⟨0, 900000000⟩ ∧
    Time.overflowing_add_signed ⟨10859, 1100000000⟩ ⟨0, 899999999⟩ = .ok (⟨10859, 1999999999⟩, 0) ∧
    Time.overflowing_add_signed ⟨10859, 1100000000⟩ ⟨0, 900000000⟩ = .ok (⟨10860, 0⟩, 0) ∧
    Time.overflowing_add_signed ⟨10859, 1100000000⟩ ⟨-1, 900000000⟩ = .ok (⟨10859, 1000000000⟩, 0) ∧
    Time.overflowing_add_signed ⟨10859, 1100000000⟩ ⟨-1, 899999999⟩ = .ok (⟨10859, 999999999⟩, 0) ∧
    Time.overflowing_add_signed ⟨86399, 1999999999⟩ ⟨0, 1⟩ = .ok (⟨0, 0⟩, 86400) ∧
    Time.overflowing_add_signed ⟨0, 0⟩ ⟨-1, 999999999⟩ = .ok (⟨86399, 999999999⟩, -86400) ∧
    Time.overflowing_add_signed ⟨86399, 1999999999⟩ Delta.MAX =
      .ok (⟨25975, 806999999⟩, 9223372036915200) ∧
    Time.overflowing_add_signed ⟨0, 1000000000⟩ Delta.MIN =
      .ok (⟨60425, 193000000⟩, -9223372036915200) := by decide

/-- (audit G3) a LEAP-SECOND operand, the three documented cases spelled out.  With `p` the sum on
the operand's extended line and `L = (secs+1)·10⁹` the start of its own leap second:
left backwards (`p < L`) — an ordinary time at exactly `p`, wrapped by whole days; skipped forwards
(`p ≥ L + 10⁹`) — an ordinary time at `p − 10⁹` (the leap second is removed from the reading),
wrapped by whole days; stayed in (`L ≤ p < L + 10⁹`) — the same second with fraction `frac + δ`,
no carry.  Together with `add_result` (non-leap operand) this determines `addLeap` completely. -/
theorem add_leap_cases (t : Time) (δ : Int) (ht : TValid t) (hl : t.frac ≥ 1000000000) :
    (pos t + δ < (t.secs + 1) * 1000000000 →
      (addLeap t δ).1.frac < 1000000000 ∧
      pos (addLeap t δ).1 + (addLeap t δ).2 * 1000000000 = pos t + δ) ∧
    ((t.secs + 2) * 1000000000 ≤ pos t + δ →
      (addLeap t δ).1.frac < 1000000000 ∧
      pos (addLeap t δ).1 + (addLeap t δ).2 * 1000000000 = pos t + δ - 1000000000) ∧
    ((t.secs + 1) * 1000000000 ≤ pos t + δ ∧ pos t + δ < (t.secs + 2) * 1000000000 →
      addLeap t δ = (⟨t.secs, t.frac + δ⟩, 0)) :=
  Proofs.TimeGaps.add_leap_cases' t δ ht hl

/-- "wraps modulo 24 hours" in closed form: without a leap operand the result is the sum modulo one
day (and the carry the rest, by `add_result`) -/
theorem add_wraps (t : Time) (δ : Int) (ht : TValid t) (hl : t.frac < 1000000000) :
    pos (addLeap t δ).1 = (pos t + δ) % 86400000000000 :=
  Proofs.TimeGaps.addLeap_wraps t δ ht hl

example : TValid ⟨10859, 1500000000⟩ ∧
    addLeap ⟨10859, 1500000000⟩ (-500000001) = (⟨10859, 999999999⟩, 0) ∧        -- left backwards
    addLeap ⟨10859, 1500000000⟩ 500000000 = (⟨10860, 0⟩, 0) ∧                    -- skipped forwards
    addLeap ⟨10859, 1500000000⟩ 499999999 = (⟨10859, 1999999999⟩, 0) ∧          -- stayed in
    addLeap ⟨10859, 1500000000⟩ (-500000000) = (⟨10859, 1000000000⟩, 0) ∧
    addLeap ⟨86399, 1500000000⟩ 500000000 = (⟨0, 0⟩, 86400) ∧
    addLeap ⟨0, 1500000000⟩ (-2000000000) = (⟨86399, 500000000⟩, -86400) := by decide

/-! ### The operator forms `+`, `-`, `+=`, `-=` (audit G7) -/

/-- `impl Add / Sub / AddAssign / SubAssign <TimeDelta> for NaiveTime`: for every valid time (leap
representation on any second) and every `TimeDelta` the four operators never panic and return the
time component of the extended-line result — they wrap around and drop the carry; the result is a
valid time -/
theorem operators_spec (t : Time) (d : Delta) (ht : TValid t) (hd : DInv d) :
    Time.add t d = .ok (addLeap t (ns d)).1 ∧ Time.sub t d = .ok (addLeap t (-(ns d))).1 ∧
    Time.add_assign t d = .ok (addLeap t (ns d)).1 ∧
    Time.sub_assign t d = .ok (addLeap t (-(ns d))).1 ∧
    TValid (addLeap t (ns d)).1 ∧ TValid (addLeap t (-(ns d))).1 :=
  ⟨Proofs.TimeGaps.op_add t d ht hd, Proofs.TimeGaps.op_sub t d ht hd,
   Proofs.TimeGaps.op_add t d ht hd, Proofs.TimeGaps.op_sub t d ht hd,
   (addLeap_facts t (ns d) ht).1, (addLeap_facts t (-(ns d)) ht).1⟩

/-- `impl AddAssign / SubAssign <core::time::Duration> for NaiveTime` are the `+` / `-` forms of
`std_duration_spec`; `impl Add / Sub <FixedOffset> for NaiveTime` move the second of the day by the
offset modulo one day and keep the fraction (`offset_shift_keeps_frac`) -/
theorem operators_std_offset_spec (t : Time) (secs nanos off : Int) (ht : TValid t) (hs : 0 ≤ secs)
    (hn : 0 ≤ nanos ∧ nanos < 1000000000) (ho : -86400 < off ∧ off < 86400) :
    Time.add_assign_std t secs nanos = .ok (addLeap t (secs * 1000000000 + nanos)).1 ∧
    Time.sub_assign_std t secs nanos = .ok (addLeap t (-(secs * 1000000000 + nanos))).1 ∧
    Time.add_offset t off = .ok ⟨(t.secs + off) % 86400, t.frac⟩ ∧
    Time.sub_offset t off = .ok ⟨(t.secs - off) % 86400, t.frac⟩ :=
  ⟨(time_std_spec' t secs nanos ht hs hn).1, (time_std_spec' t secs nanos ht hs hn).2,
   (Proofs.TimeGaps.op_offset t off ht ho).1, (Proofs.TimeGaps.op_offset t off ht ho).2⟩

example : TValid ⟨86399, 1500000000⟩ ∧ DInv ⟨86400, 0⟩ ∧
    Time.add ⟨86399, 1500000000⟩ ⟨86400, 0⟩ = .ok ⟨86399, 500000000⟩ ∧
    Time.sub_assign ⟨0, 0⟩ ⟨0, 1⟩ = .ok ⟨86399, 999999999⟩ ∧
    Time.add_assign_std ⟨10859, 1500000000⟩ 172800 0 = .ok ⟨10859, 500000000⟩ ∧
    Time.add_offset ⟨86399, 1000000000⟩ 1 = .ok ⟨0, 1000000000⟩ ∧
    Time.sub_offset ⟨0, 1999999999⟩ 86399 = .ok ⟨1, 1999999999⟩ := by decide

/-! ### Subtraction equals addition of the negated duration -/

theorem sub_is_add_neg (t : Time) (d : Delta) (ht : TValid t) (hd : DInv d) :
    (∃ n, Delta.neg d = .ok n ∧ DInv n ∧ ns n = -(ns d) ∧
      Time.overflowing_sub_signed t d =
        (Time.overflowing_add_signed t n).bind (fun p => .ok (p.1, -p.2))) ∧
    Time.overflowing_sub_signed t d =
      .ok ((addLeap t (-(ns d))).1, -(addLeap t (-(ns d))).2) :=
  ⟨sub_is_add_neg' t d ht hd, sub_spec' t d ht hd⟩

example : Time.overflowing_sub_signed ⟨10859, 1700000000⟩ ⟨0, 900000000⟩ = .ok (⟨10859, 800000000⟩, 0) ∧
    Time.overflowing_sub_signed ⟨0, 0⟩ Delta.MIN = .ok (⟨25975, 807000000⟩, -9223372036828800) := by
  decide

/-! ### `std::time::Duration` operands (`impl Add/Sub<Duration> for NaiveTime`) -/

/-- for EVERY valid time (leap-second representations included), every `u64` number of seconds and
every nanosecond part below 10⁹, the operators never panic and return the time component of the
extended-line sum with the exact, unreduced amount — the same time `overflowing_add_signed` /
`overflowing_sub_signed` give for that amount as a `TimeDelta` (`add_spec`, `sub_is_add_neg`) -/
theorem std_duration_spec (t : Time) (secs nanos : Int) (ht : TValid t) (hs : 0 ≤ secs)
    (hn : 0 ≤ nanos ∧ nanos < 1000000000) :
    Time.add_std t secs nanos = .ok (addLeap t (secs * 1000000000 + nanos)).1 ∧
    Time.sub_std t secs nanos = .ok (addLeap t (-(secs * 1000000000 + nanos))).1 :=
  time_std_spec' t secs nanos ht hs hn

/-- HISTORY, not a statement about the present crate (audit2 L5): `add_std_pinned` models code that no longer
exists in /repo; the theorem is kept as the record of the one C07 defect found and repaired, and is listed as such
in props/C07.json.  What holds of the present code is `std_duration_spec`.
The PINNED code (before the repair `ecbcee6`, model `add_std_pinned`) reduced the seconds modulo
*two days* before the leap-second rules were applied, so a leap-second operand plus exactly two
days stayed inside its leap second, whereas the documented rules leave it.  03:00:60.5 + 172800 s:
pinned `+ Duration` gave 03:00:60.5; `+ TimeDelta`, the specification and the repaired operator give
03:00:59.5 (two days later). -/
theorem std_duration_pinned_leap_counterexample :
    Time.add_std_pinned ⟨10859, 1500000000⟩ 172800 0 = .ok ⟨10859, 1500000000⟩ ∧
    Time.add ⟨10859, 1500000000⟩ ⟨172800, 0⟩ = .ok ⟨10859, 500000000⟩ ∧
    (addLeap ⟨10859, 1500000000⟩ (172800 * 1000000000)).1 = ⟨10859, 500000000⟩ ∧
    Time.add_std ⟨10859, 1500000000⟩ 172800 0 = .ok ⟨10859, 500000000⟩ := by decide

example : TValid ⟨10859, 1500000000⟩ ∧
    Time.add_std ⟨86399, 999999999⟩ 18446744073709551615 1 = .ok ⟨25215, 0⟩ ∧
    Time.sub_std ⟨10859, 1500000000⟩ 345600 892734244 = .ok ⟨10859, 607265756⟩ ∧
    Time.add_std ⟨10859, 1500000000⟩ 0 400000000 = .ok ⟨10859, 1900000000⟩ := by decide

/-! ### Difference -/

/-- the difference never panics, is the distance on the line that holds exactly the operands' own
leap seconds, and lies strictly within ±(1 day + 1 s) -/
theorem diff_spec (a b : Time) (ha : TValid a) (hb : TValid b) :
    Time.signed_duration_since a b = .ok (ofNs (diffLeap a b)) ∧ DInv (ofNs (diffLeap a b)) ∧
    -86401000000000 < diffLeap a b ∧ diffLeap a b < 86401000000000 :=
  diff_spec' a b ha hb

/-- `Time1 - Time2 = -(Time2 - Time1)`, on the implementation model -/
theorem diff_antisym (a b : Time) (ha : TValid a) (hb : TValid b) :
    ∃ x y, Time.signed_duration_since a b = .ok x ∧ Time.signed_duration_since b a = .ok y ∧
      DInv x ∧ DInv y ∧ ns x = -(ns y) ∧ Delta.neg y = .ok x :=
  diff_antisym' a b ha hb

example : TValid ⟨14459, 1900000000⟩ ∧
    Time.signed_duration_since ⟨14459, 1900000000⟩ ⟨10859, 1100000000⟩ = .ok ⟨3601, 800000000⟩ ∧
    Time.signed_duration_since ⟨10859, 1100000000⟩ ⟨14459, 1900000000⟩ = .ok ⟨-3602, 200000000⟩ := by
  decide

/-- the derived order of `NaiveTime` is the order of positions on the line holding the operands'
leap seconds (so a leap second sorts after every instant of the second it follows and before the
next second) -/
theorem order_is_line_order (a b : Time) (ha : TValid a) (hb : TValid b) :
    Time.cmp a b = (if diffLeap a b < 0 then -1 else if diffLeap a b > 0 then 1 else 0) :=
  cmp_line' a b ha hb

example : Time.cmp ⟨10859, 1500000000⟩ ⟨10860, 200000000⟩ = -1 ∧
    Time.cmp ⟨10859, 1500000000⟩ ⟨10859, 999999999⟩ = 1 := by decide

/-- `impl Sub<NaiveTime> for NaiveTime` is `signed_duration_since` -/
theorem time_minus_time (a b : Time) (ha : TValid a) (hb : TValid b) :
    Time.sub_time a b = .ok (ofNs (diffLeap a b)) :=
  (diff_spec' a b ha hb).1

/-- (audit G2) the two specifications linked: adding `δ` by the extended-line rule `addLeap` and
then measuring the distance back by `diffLeap` returns `δ` whenever no day boundary was crossed — in
all four cases (ordinary operand; leap second stayed in, left backwards, skipped forwards).  This
is the cross-check between the addition rules and the difference rules of the documentation that
neither `add_spec` nor `diff_spec` gives alone. -/
theorem diff_inverts_add_same_day (t : Time) (δ : Int) (ht : TValid t)
    (h0 : (addLeap t δ).2 = 0) : diffLeap (addLeap t δ).1 t = δ := by
  have h := Proofs.TimeGaps.diff_after_add t δ ht
  rw [h0, Proofs.TimeGaps.diffAddErr_same_day t δ ht h0] at h
  omega

/-- (audit G2, general form) with a carry: distance back + carry = `δ` + `diffAddErr`, where the
error is 0 for an ordinary operand and for a leap operand within the day, +1 s for a leap second
left backwards across midnight onto a later second of the day, −1 s for one skipped forwards
across midnight onto a second of the day that is not later (`Spec.diffAddErr`) -/
theorem diff_after_add (t : Time) (δ : Int) (ht : TValid t) :
    diffLeap (addLeap t δ).1 t + (addLeap t δ).2 * 1000000000 = δ + diffAddErr t δ ∧
    (t.frac < 1000000000 → diffAddErr t δ = 0) ∧ ((addLeap t δ).2 = 0 → diffAddErr t δ = 0) :=
  ⟨Proofs.TimeGaps.diff_after_add t δ ht, Proofs.TimeGaps.diffAddErr_nonleap t δ,
   Proofs.TimeGaps.diffAddErr_same_day t δ ht⟩

example : TValid ⟨10859, 1500000000⟩ ∧ (addLeap ⟨10859, 1500000000⟩ 3600500000000).2 = 0 ∧
    diffLeap (addLeap ⟨10859, 1500000000⟩ 3600500000000).1 ⟨10859, 1500000000⟩ = 3600500000000 ∧
    diffLeap (addLeap ⟨10859, 1500000000⟩ (-700000000)).1 ⟨10859, 1500000000⟩ = -700000000 ∧
    diffAddErr ⟨86399, 1500000000⟩ 500000000 = -1000000000 ∧
    diffAddErr ⟨0, 1500000000⟩ (-2000000000) = 1000000000 := by decide

/-- (audit G4) `diffLeap` is pinned down by the independent addition rule, not only by its own
definition: `b + (a − b) = a` without carry whenever `a` can be reached from `b` at all (an ordinary
`a`, or a leap `a` inside `b`'s own leap second); with `diff_inverts_add_same_day` (injectivity) the
distance is THE `δ` with `addLeap b δ = (a, 0)`.  For a leap `a` and an ordinary `b` use
antisymmetry (`diff_antisym`); for two leap seconds on different seconds the distance splits at the
start of the later second into two such one-leap distances. -/
theorem add_of_diff (a b : Time) (ha : TValid a) (hb : TValid b)
    (h : a.frac < 1000000000 ∨ (a.secs = b.secs ∧ b.frac ≥ 1000000000)) :
    addLeap b (diffLeap a b) = (a, 0) ∧
    (∀ δ, addLeap b δ = (a, 0) → δ = diffLeap a b) := by
  refine ⟨Proofs.TimeGaps.add_of_diff' a b ha hb h, ?_⟩
  intro δ hδ
  have h0 : (addLeap b δ).2 = 0 := by rw [hδ]
  have := diff_inverts_add_same_day b δ hb h0
  rw [hδ] at this
  exact this.symm

theorem diff_two_leaps_split (a b : Time) (h : a.secs < b.secs) :
    diffLeap b a = diffLeap b ⟨b.secs, 0⟩ + diffLeap ⟨b.secs, 0⟩ a :=
  Proofs.TimeGaps.diff_split' a b h

example : addLeap ⟨10859, 1500000000⟩ (diffLeap ⟨10860, 0⟩ ⟨10859, 1500000000⟩) = (⟨10860, 0⟩, 0) ∧
    diffLeap ⟨10860, 0⟩ ⟨10859, 1500000000⟩ = 500000000 ∧
    addLeap ⟨10859, 1500000000⟩ (diffLeap ⟨10859, 1000000001⟩ ⟨10859, 1500000000⟩) =
      (⟨10859, 1000000001⟩, 0) ∧
    diffLeap ⟨14459, 1900000000⟩ ⟨10859, 1100000000⟩ =
      diffLeap ⟨14459, 1900000000⟩ ⟨14459, 0⟩ + diffLeap ⟨14459, 0⟩ ⟨10859, 1100000000⟩ := by decide

/-! ### Offset shifts keep the fraction (and with it the leap second) -/

theorem offset_shift_keeps_frac (t : Time) (off : Int) (ht : TValid t)
    (ho : -86400 < off ∧ off < 86400) :
    Time.overflowing_add_offset t off = .ok (shiftOff t off) ∧
    Time.overflowing_sub_offset t off = .ok (shiftOff t (-off)) ∧
    (shiftOff t off).1.frac = t.frac ∧ TValid (shiftOff t off).1 ∧
    (-1 ≤ (shiftOff t off).2 ∧ (shiftOff t off).2 ≤ 1) ∧
    (shiftOff t off).1.secs + (shiftOff t off).2 * 86400 = t.secs + off :=
  offset' t off ht ho

example : Time.overflowing_add_offset ⟨86399, 1000000000⟩ (-13236) = .ok (⟨73163, 1000000000⟩, 0) ∧
    Time.overflowing_add_offset ⟨86399, 1000000000⟩ 1 = .ok (⟨0, 1000000000⟩, 1) ∧
    Time.overflowing_sub_offset ⟨0, 5⟩ 86399 = .ok (⟨1, 5⟩, -1) := by decide

/-! ### Date-times: the carry is applied to the date -/

/-- `NaiveDateTime::checked_add_signed / checked_sub_signed` on the packed model
(`Model/DateTime.lean`, the model the harness ops `ar.dtadd` / `ar.dtsub` compare against the crate),
for EVERY valid date-time — the time may be a leap-second representation on any second — and every
`TimeDelta`.  Never panics.  The time part is `addLeap` (the extended-line rule of `add_spec`); the
date moves by exactly `carry / 86400` days (`carry % 86400 = 0` by `add_result`) in the sense of
`IsDayShift`: refused exactly when day number + carry days lies outside
`[NaiveDate::MIN, NaiveDate::MAX]`, otherwise a valid packed date with exactly that day number.  Nothing
is lost in `try_seconds`, `num_days`, the `i32` guard of `NaiveDate::checked_add_signed` or
`add_days`'s fast path / 400-year cycle path (C01/C03's `add_days_exact`).  A result is a valid
date-time. -/
theorem datetime_leap_carry (dt : NaiveDT) (δ : Delta) (hdt : NDTInv dt) (hδ : DInv δ) :
    (∃ r, NaiveDT.checked_add_signed dt δ = .ok r ∧
      IsDayShift dt.date ((addLeap dt.time (ns δ)).2 / 86400) (r.map (·.date)) ∧
      ∀ x, r = some x → x.time = (addLeap dt.time (ns δ)).1 ∧ NDTInv x) ∧
    (∃ r, NaiveDT.checked_sub_signed dt δ = .ok r ∧
      IsDayShift dt.date ((addLeap dt.time (-(ns δ))).2 / 86400) (r.map (·.date)) ∧
      ∀ x, r = some x → x.time = (addLeap dt.time (-(ns δ))).1 ∧ NDTInv x) :=
  ⟨Proofs.TimeCarry.add_outcome dt δ hdt hδ, Proofs.TimeCarry.sub_outcome dt δ hdt hδ⟩

/-- `NaiveDateTime::signed_duration_since` on the packed model, every pair of valid date-times
(leap-second representations included): never panics (neither `expect` fires), and the result is
whole days between the dates · 86400·10⁹ plus the time-of-day distance `diffLeap` (`diff_spec`); it
is a valid `TimeDelta` with exactly that reading, and `a − b = −(b − a)`. -/
theorem datetime_diff (a b : NaiveDT) (ha : NDTInv a) (hb : NDTInv b) :
    NaiveDT.signed_duration_since a b =
      .ok (ofNs ((dayNumOf a.date - dayNumOf b.date) * 86400000000000 + diffLeap a.time b.time)) ∧
    DInv (ofNs ((dayNumOf a.date - dayNumOf b.date) * 86400000000000 + diffLeap a.time b.time)) ∧
    ns (ofNs ((dayNumOf a.date - dayNumOf b.date) * 86400000000000 + diffLeap a.time b.time)) =
      (dayNumOf a.date - dayNumOf b.date) * 86400000000000 + diffLeap a.time b.time ∧
    (dayNumOf b.date - dayNumOf a.date) * 86400000000000 + diffLeap b.time a.time =
      -((dayNumOf a.date - dayNumOf b.date) * 86400000000000 + diffLeap a.time b.time) :=
  Proofs.TimeCarry.diff_full a b ha hb

/-- non-vacuity and the range ends: a leap second at 23:59:60.5 crossing into the next year, staying
inside its leap second on `NaiveDate::MAX`, refused when it leaves `NaiveDate::MAX`; a leap second
following 00:00:00 on `NaiveDate::MIN` stepped back across midnight is refused, stepped back inside
the day is not; a carry of many days; differences across a leap second and across the whole range -/
example : NDTInv ⟨dateOfYo 2016 366, ⟨86399, 1500000000⟩⟩ ∧ NDTInv ⟨Date.MAX, ⟨86399, 1500000000⟩⟩ ∧
    NDTInv ⟨Date.MIN, ⟨0, 1000000000⟩⟩ ∧ DInv ⟨0, 500000000⟩ ∧ DInv ⟨-2, 999999999⟩ ∧
    NaiveDT.checked_add_signed ⟨dateOfYo 2016 366, ⟨86399, 1500000000⟩⟩ ⟨0, 500000000⟩ =
      .ok (some ⟨dateOfYo 2017 1, ⟨0, 0⟩⟩) ∧
    NaiveDT.checked_add_signed ⟨dateOfYo 2016 366, ⟨86399, 1500000000⟩⟩ ⟨0, 499999999⟩ =
      .ok (some ⟨dateOfYo 2016 366, ⟨86399, 1999999999⟩⟩) ∧
    NaiveDT.checked_sub_signed ⟨dateOfYo 2016 366, ⟨86399, 1500000000⟩⟩ ⟨86400 * 366, 0⟩ =
      .ok (some ⟨dateOfYo 2016 1, ⟨0, 500000000⟩⟩) ∧                -- 23:59:60.5 is 86400.5 s into the day
    NaiveDT.checked_add_signed ⟨Date.MAX, ⟨86399, 1500000000⟩⟩ ⟨0, 499999999⟩ =
      .ok (some ⟨Date.MAX, ⟨86399, 1999999999⟩⟩) ∧
    NaiveDT.checked_add_signed ⟨Date.MAX, ⟨86399, 1500000000⟩⟩ ⟨0, 500000000⟩ = .ok none ∧
    NaiveDT.checked_sub_signed ⟨Date.MAX, ⟨86399, 1500000000⟩⟩ ⟨-1, 500000000⟩ = .ok none ∧
    NaiveDT.checked_add_signed ⟨Date.MIN, ⟨0, 1000000000⟩⟩ ⟨-2, 999999999⟩ = .ok none ∧
    NaiveDT.checked_sub_signed ⟨Date.MIN, ⟨0, 1000000000⟩⟩ ⟨1, 0⟩ = .ok (some ⟨Date.MIN, ⟨0, 0⟩⟩) ∧
    NaiveDT.checked_add_signed ⟨Date.MIN, ⟨0, 1000000000⟩⟩ Delta.MAX = .ok none ∧
    NaiveDT.signed_duration_since ⟨dateOfYo 2017 1, ⟨0, 0⟩⟩ ⟨dateOfYo 2016 366, ⟨86399, 500000000⟩⟩ =
      .ok ⟨0, 500000000⟩ ∧
    NaiveDT.signed_duration_since ⟨dateOfYo 2016 366, ⟨86399, 1500000000⟩⟩ ⟨dateOfYo 2016 366, ⟨0, 0⟩⟩ =
      .ok ⟨86400, 500000000⟩ ∧
    NaiveDT.signed_duration_since ⟨dateOfYo 2016 366, ⟨0, 0⟩⟩ ⟨dateOfYo 2016 366, ⟨86399, 1500000000⟩⟩ =
      .ok ⟨-86401, 500000000⟩ ∧
    NaiveDT.signed_duration_since ⟨Date.MAX, ⟨86399, 1999999999⟩⟩ ⟨Date.MIN, ⟨0, 0⟩⟩ =
      .ok ⟨16544868105600, 999999999⟩ := by decide +kernel

/-- OBSERVATION (crate and model agree; confirmed on the pinned crate): the time-of-day distance
`diffLeap` places both operands in ONE day, so a leap second at the very end of a day is *later* than
the 00:00:00 it is compared with, and adding the whole days does not undo that: although
2016-12-31T23:59:60.5 + 0.5 s = 2017-01-01T00:00:00 and the derived order says the latter is greater,
`2017-01-01T00:00:00 − 2016-12-31T23:59:60.5` is −0.5 s (and the reverse +0.5 s).  `datetime_diff`
states exactly this closed form; antisymmetry holds. -/
example :
    NaiveDT.checked_add_signed ⟨dateOfYo 2016 366, ⟨86399, 1500000000⟩⟩ ⟨0, 500000000⟩ =
      .ok (some ⟨dateOfYo 2017 1, ⟨0, 0⟩⟩) ∧
    NaiveDT.cmp ⟨dateOfYo 2017 1, ⟨0, 0⟩⟩ ⟨dateOfYo 2016 366, ⟨86399, 1500000000⟩⟩ = 1 ∧
    NaiveDT.signed_duration_since ⟨dateOfYo 2017 1, ⟨0, 0⟩⟩ ⟨dateOfYo 2016 366, ⟨86399, 1500000000⟩⟩ =
      .ok ⟨-1, 500000000⟩ ∧
    NaiveDT.signed_duration_since ⟨dateOfYo 2016 366, ⟨86399, 1500000000⟩⟩ ⟨dateOfYo 2017 1, ⟨0, 0⟩⟩ =
      .ok ⟨0, 500000000⟩ := by decide +kernel

/-! ### Date-time difference after date-time addition (audit G1) -/

/-- (audit G1, universal) if `b = a + d` was accepted, then `b − a` never panics and is `d` plus
`diffAddErr` of the time of day (0, +1 s or −1 s), and `a − b` is its negation.  The error is
non-zero only for a leap-second `a` that was left across a day boundary (see `Spec.diffAddErr`). -/
theorem datetime_diff_after_add (a b : NaiveDT) (d : Delta) (ha : NDTInv a) (hd : DInv d)
    (h : NaiveDT.checked_add_signed a d = .ok (some b)) :
    NDTInv b ∧
    NaiveDT.signed_duration_since b a = .ok (ofNs (ns d + diffAddErr a.time (ns d))) ∧
    NaiveDT.signed_duration_since a b = .ok (ofNs (-(ns d + diffAddErr a.time (ns d)))) :=
  Proofs.TimeGaps.dt_diff_after_add a b d ha hd h

/-- (audit G1, the positive law on the domain where it holds) `(a + d) − a = d` for every ordinary
`a`, and for a leap-second `a` whenever the time-of-day addition did not cross a day boundary -/
theorem datetime_diff_inverts_add (a b : NaiveDT) (d : Delta) (ha : NDTInv a) (hd : DInv d)
    (h : NaiveDT.checked_add_signed a d = .ok (some b))
    (hdom : a.time.frac < 1000000000 ∨ (addLeap a.time (ns d)).2 = 0) :
    NaiveDT.signed_duration_since b a = .ok d := by
  have e : diffAddErr a.time (ns d) = 0 := by
    rcases hdom with h1 | h1
    · exact Proofs.TimeGaps.diffAddErr_nonleap _ _ h1
    · exact Proofs.TimeGaps.diffAddErr_same_day _ _ ha.2 h1
  rw [(Proofs.TimeGaps.dt_diff_after_add a b d ha hd h).2.1, e, Int.add_zero, ofNs_ns d hd]

/-- (audit G1, outside that domain; kernel-checked, confirmed on the real crate) a leap second at the
end of a day: 2016-12-31T23:59:60.5 + 0.5 s = 2017-01-01T00:00:00, the derived order says the sum
is later, yet `(a + d) − a` is −0.5 s, not +0.5 s; and 2016-12-31T23:59:60.5 + 1 day
= 2017-01-01T23:59:59.5 but the difference back is 86399 s.  Backwards: a leap representation
following 00:00:00, minus 2 s, lands on the previous day and the difference back is −1 s.
The crate's own doc test of `NaiveDateTime::signed_duration_since` asserts a value of this kind
(2015-07-01T01:00:00 − 2015-06-30T23:59:60.5 = 3599.5 s, last conjunct), so this is documented
behaviour; the property statement asks of differences only antisymmetry, which holds. -/
theorem datetime_diff_not_line_distance :
    NaiveDT.checked_add_signed ⟨dateOfYo 2016 366, ⟨86399, 1500000000⟩⟩ ⟨0, 500000000⟩ =
      .ok (some ⟨dateOfYo 2017 1, ⟨0, 0⟩⟩) ∧
    NaiveDT.cmp ⟨dateOfYo 2017 1, ⟨0, 0⟩⟩ ⟨dateOfYo 2016 366, ⟨86399, 1500000000⟩⟩ = 1 ∧
    NaiveDT.signed_duration_since ⟨dateOfYo 2017 1, ⟨0, 0⟩⟩ ⟨dateOfYo 2016 366, ⟨86399, 1500000000⟩⟩ =
      .ok ⟨-1, 500000000⟩ ∧
    dtDiffLine ⟨dateOfYo 2017 1, ⟨0, 0⟩⟩ ⟨dateOfYo 2016 366, ⟨86399, 1500000000⟩⟩ = 500000000 ∧
    NaiveDT.checked_add_signed ⟨dateOfYo 2016 366, ⟨86399, 1500000000⟩⟩ ⟨86400, 0⟩ =
      .ok (some ⟨dateOfYo 2017 1, ⟨86399, 500000000⟩⟩) ∧
    NaiveDT.signed_duration_since ⟨dateOfYo 2017 1, ⟨86399, 500000000⟩⟩
      ⟨dateOfYo 2016 366, ⟨86399, 1500000000⟩⟩ = .ok ⟨86399, 0⟩ ∧
    NaiveDT.checked_add_signed ⟨dateOfYo 2017 1, ⟨0, 1500000000⟩⟩ ⟨-2, 0⟩ =
      .ok (some ⟨dateOfYo 2016 366, ⟨86399, 500000000⟩⟩) ∧
    NaiveDT.signed_duration_since ⟨dateOfYo 2016 366, ⟨86399, 500000000⟩⟩
      ⟨dateOfYo 2017 1, ⟨0, 1500000000⟩⟩ = .ok ⟨-1, 0⟩ ∧
    NaiveDT.signed_duration_since ⟨dateOfYo 2015 182, ⟨3600, 0⟩⟩ ⟨dateOfYo 2015 181, ⟨86399, 1500000000⟩⟩ =
      .ok ⟨3599, 500000000⟩ := by decide +kernel

/-- (audit G1, against an independent reading) `Spec.dtDiffLine` is the distance on the line of all
date-times that holds exactly the two operands' leap seconds — the rule of `diffLeap` with "earlier
second of the day" replaced by "earlier second of the time line".  For EVERY pair of valid
date-times the implementation returns that distance plus `crossErr a b − crossErr b a`; a cross
term is non-zero exactly for a leap-second operand on another date whose second of the day is
ordered against the other operand's the opposite way to the dates (−1 s / +1 s).
READ WITH CARE (audit2 §2 / L4): `Spec.crossErr` is DEFINED as (leap count of the day-plus-time-of-day
decomposition) − (leap count of the line), so the first conjunct is an algebraic identity once `datetime_diff` is
known; the content is in the second conjunct (the case form).  `datetime_diff_vs_line_cases` below states the
same with the case form as the definition (`Spec.crossCase`), so that nothing in the statement refers to what the
implementation counts. -/
theorem datetime_diff_vs_line (a b : NaiveDT) (ha : NDTInv a) (hb : NDTInv b) :
    NaiveDT.signed_duration_since a b = .ok (ofNs (dtDiffLine a b + crossErr a b - crossErr b a)) ∧
    crossErr a b =
      (if b.time.frac ≥ 1000000000 ∧ dayNumOf b.date < dayNumOf a.date ∧ a.time.secs ≤ b.time.secs
       then -1000000000
       else if b.time.frac ≥ 1000000000 ∧ dayNumOf a.date < dayNumOf b.date ∧
         b.time.secs < a.time.secs
       then 1000000000 else 0) := by
  refine ⟨?_, Proofs.TimeGaps.crossErr_cases a b ha.2 hb.2⟩
  rw [(Proofs.TimeCarry.diff_full a b ha hb).1, Proofs.TimeGaps.dt_diff_vs_line a b]

/-- (audit G1) the derived ORDER of date-times is the order on that extended line for every pair of
valid date-times, leap-second operands included — so on the inputs of
`datetime_diff_not_line_distance` it is the difference, not the order, that departs from the line
(`order_is_line_order` lifted to date-times; C03's `order_follows_diff` covers non-leap operands) -/
theorem datetime_order_is_line_order (a b : NaiveDT) (ha : NDTInv a) (hb : NDTInv b) :
    NaiveDT.cmp a b = sgn (dtDiffLine a b) :=
  Proofs.TimeGaps.dt_cmp_line a b ha hb

example : NaiveDT.cmp ⟨dateOfYo 2017 1, ⟨0, 0⟩⟩ ⟨dateOfYo 2016 366, ⟨86399, 1500000000⟩⟩ = 1 ∧
    sgn (dtDiffLine ⟨dateOfYo 2017 1, ⟨0, 0⟩⟩ ⟨dateOfYo 2016 366, ⟨86399, 1500000000⟩⟩) = 1 ∧
    NaiveDT.cmp ⟨dateOfYo 2016 366, ⟨86399, 1500000000⟩⟩ ⟨dateOfYo 2016 366, ⟨86399, 999999999⟩⟩ = 1 := by
  decide +kernel

/-- (audit G1) the date-time difference IS the extended-line distance `dtDiffLine` when the two
operands lie on one date or neither is a leap second.  `_partial`: for a leap-second operand on
another date the full statement is false (`datetime_diff_not_line_distance`); what holds there is
`datetime_diff_vs_line`. -/
theorem datetime_diff_is_line_distance_partial (a b : NaiveDT) (ha : NDTInv a) (hb : NDTInv b)
    (hdom : dayNumOf a.date = dayNumOf b.date ∨
      (a.time.frac < 1000000000 ∧ b.time.frac < 1000000000)) :
    NaiveDT.signed_duration_since a b = .ok (ofNs (dtDiffLine a b)) := by
  have e1 : crossErr a b = 0 := Proofs.TimeGaps.crossErr_zero a b (by
    rcases hdom with h | h
    · exact Or.inr h
    · exact Or.inl h.2)
  have e2 : crossErr b a = 0 := Proofs.TimeGaps.crossErr_zero b a (by
    rcases hdom with h | h
    · exact Or.inr h.symm
    · exact Or.inl h.1)
  rw [(datetime_diff_vs_line a b ha hb).1, e1, e2]
  exact congrArg _ (congrArg _ (by omega))

/-- (audit2 L4) `datetime_diff_vs_line` with the cross term given by its CASE definition `Spec.crossCase`
(earlier date and not-earlier second of the day: −1 s; later date and earlier second of the day: +1 s; else 0)
instead of by the implementation's own count: for every pair of valid date-times the difference is the
extended-line distance plus `crossCase a b − crossCase b a` -/
theorem datetime_diff_vs_line_cases (a b : NaiveDT) (ha : NDTInv a) (hb : NDTInv b) :
    NaiveDT.signed_duration_since a b =
      .ok (ofNs (dtDiffLine a b + crossCase a b - crossCase b a)) :=
  Proofs.TimeClosure.dt_diff_vs_line_cases a b ha hb

example : NDTInv ⟨dateOfYo 2016 366, ⟨86399, 1500000000⟩⟩ ∧ DInv ⟨-3600, 0⟩ ∧
    crossCase ⟨dateOfYo 2017 1, ⟨0, 0⟩⟩ ⟨dateOfYo 2016 366, ⟨86399, 1500000000⟩⟩ = -1000000000 ∧
    crossCase ⟨dateOfYo 2016 366, ⟨86399, 500000000⟩⟩ ⟨dateOfYo 2017 1, ⟨0, 1500000000⟩⟩ = 1000000000 ∧
    (addLeap ⟨86399, 1500000000⟩ (ns ⟨-3600, 0⟩)).2 = 0 ∧
    NaiveDT.checked_add_signed ⟨dateOfYo 2016 366, ⟨86399, 1500000000⟩⟩ ⟨-3600, 0⟩ =
      .ok (some ⟨dateOfYo 2016 366, ⟨82800, 500000000⟩⟩) ∧
    NaiveDT.signed_duration_since ⟨dateOfYo 2016 366, ⟨82800, 500000000⟩⟩
      ⟨dateOfYo 2016 366, ⟨86399, 1500000000⟩⟩ = .ok ⟨-3600, 0⟩ ∧
    dtDiffLine ⟨dateOfYo 2016 366, ⟨86399, 1500000000⟩⟩ ⟨dateOfYo 2016 366, ⟨0, 0⟩⟩ = 86400500000000 ∧
    crossErr ⟨dateOfYo 2017 1, ⟨0, 0⟩⟩ ⟨dateOfYo 2016 366, ⟨86399, 1500000000⟩⟩ = -1000000000 := by
  decide +kernel

/-! ### Date-time subtraction is addition of the negated duration (audit2 L1) -/

/-- clause "subtraction equals addition of the negated duration" at DATE-TIME level: for every valid date-time
(leap representation on any second) and every `TimeDelta`, the negation never overflows and
`checked_sub_signed dt d` IS `checked_add_signed dt (−d)` — same refusal, same date, same time -/
theorem datetime_sub_is_add_neg (dt : NaiveDT) (d : Delta) (hdt : NDTInv dt) (hd : DInv d) :
    ∃ n, Delta.neg d = .ok n ∧ DInv n ∧ ns n = -(ns d) ∧
      NaiveDT.checked_sub_signed dt d = NaiveDT.checked_add_signed dt n :=
  Proofs.TimeClosure.dt_sub_is_add_neg dt d hdt hd

example : NDTInv ⟨Date.MIN, ⟨0, 1000000000⟩⟩ ∧ DInv ⟨1, 1⟩ ∧ Delta.neg ⟨1, 1⟩ = .ok ⟨-2, 999999999⟩ ∧
    NaiveDT.checked_sub_signed ⟨Date.MIN, ⟨0, 1000000000⟩⟩ ⟨1, 1⟩ = .ok none ∧
    NaiveDT.checked_add_signed ⟨Date.MIN, ⟨0, 1000000000⟩⟩ ⟨-2, 999999999⟩ = .ok none ∧
    NaiveDT.checked_sub_signed ⟨dateOfYo 2017 1, ⟨0, 1500000000⟩⟩ ⟨2, 0⟩ =
      .ok (some ⟨dateOfYo 2016 366, ⟨86399, 500000000⟩⟩) ∧
    NaiveDT.checked_add_signed ⟨dateOfYo 2017 1, ⟨0, 1500000000⟩⟩ ⟨-2, 0⟩ =
      .ok (some ⟨dateOfYo 2016 366, ⟨86399, 500000000⟩⟩) := by decide +kernel

/-! ### The operator forms of `NaiveDateTime` (audit2 L2) -/

/-- `impl Add / Sub / AddAssign / SubAssign <TimeDelta> for NaiveDateTime` (`Model/ArithOps.lean`: `expect` of the
checked form; harness ops `ar.dtopadd` / `ar.dtopsub`): for every valid date-time (leap representation on any
second) and every `TimeDelta` the operator PANICS exactly when day number + carry days lies outside
`[NaiveDate::MIN, NaiveDate::MAX]` — never for another reason — and otherwise returns what the checked form
returns (`datetime_leap_carry` says what that is) -/
theorem datetime_operators_spec (dt : NaiveDT) (d : Delta) (hdt : NDTInv dt) (hd : DInv d) :
    ((NaiveDT.add dt d = .panic ↔
        (dayNumOf dt.date + (addLeap dt.time (ns d)).2 / 86400 < DN_MIN ∨
         DN_MAX < dayNumOf dt.date + (addLeap dt.time (ns d)).2 / 86400)) ∧
      ∀ x, NaiveDT.add dt d = .ok x ↔ NaiveDT.checked_add_signed dt d = .ok (some x)) ∧
    ((NaiveDT.sub dt d = .panic ↔
        (dayNumOf dt.date + (addLeap dt.time (-(ns d))).2 / 86400 < DN_MIN ∨
         DN_MAX < dayNumOf dt.date + (addLeap dt.time (-(ns d))).2 / 86400)) ∧
      ∀ x, NaiveDT.sub dt d = .ok x ↔ NaiveDT.checked_sub_signed dt d = .ok (some x)) := by
  obtain ⟨⟨r1, e1, s1, _⟩, ⟨r2, e2, s2, _⟩⟩ := datetime_leap_carry dt d hdt hd
  exact ⟨Proofs.TimeClosure.expect_char dt _ _ r1 e1 s1, Proofs.TimeClosure.expect_char dt _ _ r2 e2 s2⟩

example : NDTInv ⟨Date.MAX, ⟨86399, 1500000000⟩⟩ ∧ DInv ⟨0, 500000000⟩ ∧
    NaiveDT.add ⟨Date.MAX, ⟨86399, 1500000000⟩⟩ ⟨0, 500000000⟩ = .panic ∧
    NaiveDT.add ⟨Date.MAX, ⟨86399, 1500000000⟩⟩ ⟨0, 499999999⟩ = .ok ⟨Date.MAX, ⟨86399, 1999999999⟩⟩ ∧
    NaiveDT.sub ⟨Date.MIN, ⟨0, 1000000000⟩⟩ ⟨1, 1⟩ = .panic ∧
    NaiveDT.sub ⟨Date.MIN, ⟨0, 1000000000⟩⟩ ⟨1, 0⟩ = .ok ⟨Date.MIN, ⟨0, 0⟩⟩ := by decide +kernel

/-! ### `TValid` is exactly the set of values the public API produces (audit2 M3) -/

/-- (audit2 M3 a) REACHABILITY: every representation the arithmetic theorems quantify over — a second of the day
with a fraction below 2·10⁹, i.e. a leap representation on ANY second — is built by two public calls:
`from_num_seconds_from_midnight_opt(secs, 0)` then `with_nanosecond(frac)`.  So `TValid` is not wider than what
user code can hold. -/
theorem tvalid_reachable (t : Time) (ht : TValid t) :
    (Time.from_num_seconds_from_midnight_opt t.secs 0).bind (fun u => u.with_nanosecond t.frac) = some t :=
  Proofs.TimeClosure.reachable t ht

/-- (audit2 M3 b) CLOSURE: whatever the five constructors accept (unsigned arguments) is an accepted time
(`TStrict`, hence `TValid`); from a valid time every `with_*`, `overflowing_add_signed / overflowing_sub_signed`
(carry a whole number of days), the operators `+ - += -=` with `TimeDelta` and with `core::time::Duration`, and
the offset shifts (fraction kept) return a valid time; `MIN` and `MAX` are accepted times.  For date-times the
closure is the last clause of `datetime_leap_carry` (`NDTInv` of every result).  With `tvalid_reachable`: the
quantifier "all times of day" of the arithmetic theorems is exactly {t | TValid t} = the values the public API
can produce — neither wider nor narrower. -/
theorem tvalid_closed :
    (∀ h m s n r, 0 ≤ h → 0 ≤ m → 0 ≤ s → 0 ≤ n →
      (Time.from_hms_nano_opt h m s n = some r ∨ Time.from_hms_milli_opt h m s n = some r ∨
       Time.from_hms_micro_opt h m s n = some r ∨ Time.from_hms_opt h m s = some r ∨
       Time.from_num_seconds_from_midnight_opt s n = some r) → TStrict r) ∧
    (∀ t v r, TValid t → 0 ≤ v →
      (t.with_hour v = some r ∨ t.with_minute v = some r ∨ t.with_second v = some r ∨
       t.with_nanosecond v = some r) → TValid r) ∧
    (∀ t d p, TValid t → DInv d →
      (Time.overflowing_add_signed t d = .ok p ∨ Time.overflowing_sub_signed t d = .ok p) →
      TValid p.1 ∧ p.2 % 86400 = 0) ∧
    (∀ t d r, TValid t → DInv d →
      (Time.add t d = .ok r ∨ Time.sub t d = .ok r ∨ Time.add_assign t d = .ok r ∨
       Time.sub_assign t d = .ok r) → TValid r) ∧
    (∀ t secs nanos r, TValid t → 0 ≤ secs → 0 ≤ nanos ∧ nanos < 1000000000 →
      (Time.add_std t secs nanos = .ok r ∨ Time.sub_std t secs nanos = .ok r) → TValid r) ∧
    (∀ t off p, TValid t → -86400 < off ∧ off < 86400 →
      (Time.overflowing_add_offset t off = .ok p ∨ Time.overflowing_sub_offset t off = .ok p) →
      TValid p.1 ∧ p.1.frac = t.frac) ∧
    TStrict Time.MIN ∧ TStrict Time.MAX := by
  refine ⟨?_, ?_, ?_, ?_, ?_, ?_, by decide, by decide⟩
  · intro h m s n r h0 m0 s0 n0 e
    rcases e with e | e | e | e | e
    · exact Proofs.TimeClosure.ctor_nano h m s n r h0 m0 s0 n0 e
    · exact Proofs.TimeClosure.ctor_milli h m s n r h0 m0 s0 n0 e
    · exact Proofs.TimeClosure.ctor_micro h m s n r h0 m0 s0 n0 e
    · exact Proofs.TimeClosure.ctor_hms h m s r h0 m0 s0 e
    · exact (Proofs.TimeGaps.nsfm_accepts_strict s n s0 n0 r e).1
  · intro t v r ht hv e; exact Proofs.TimeClosure.with_any t v r ht hv e
  · intro t d p ht hd e; exact Proofs.TimeClosure.add_any t d p ht hd e
  · intro t d r ht hd e; exact Proofs.TimeClosure.op_any t d r ht hd e
  · intro t secs nanos r ht hs hn e; exact Proofs.TimeClosure.std_any t secs nanos r ht hs hn e
  · intro t off p ht ho e; exact Proofs.TimeClosure.offset_any t off p ht ho e

/-- non-vacuity: a leap representation on an ordinary second (which no constructor accepts) is reached by the two
calls, and arithmetic on it stays inside `TValid` -/
example : TValid ⟨3723, 1999999999⟩ ∧ ¬ TStrict ⟨3723, 1999999999⟩ ∧
    (Time.from_num_seconds_from_midnight_opt 3723 0).bind (fun u => u.with_nanosecond 1999999999) =
      some ⟨3723, 1999999999⟩ ∧
    Time.overflowing_sub_signed ⟨3723, 1999999999⟩ ⟨0, 999999999⟩ = .ok (⟨3723, 1000000000⟩, 0) ∧
    Time.overflowing_add_offset ⟨3723, 1999999999⟩ (-3724) = .ok (⟨86399, 1999999999⟩, -1) := by decide

/-- the day-number contract used before the packed date existed (`Model/TimeCarry.lean`:
`NaiveDate::add_days` replaced by "day + n, refused outside a window `[lo, hi]`", the date
difference by a subtraction of day numbers), in closed form, for every window inside ±10⁸ days.
Full-strength statements about that abstract model; `daynumber_model_is_image` ties it to the packed
model.  The harness ops `tm.dtadd` / `tm.dtsub` / `tm.dtdiff` run this model. -/
theorem daynumber_carry (lo hi day : Int) (t : Time) (d : Delta) (ht : TValid t)
    (hd : DInv d) (hw : -100000000 ≤ lo ∧ hi ≤ 100000000 ∧ lo ≤ day ∧ day ≤ hi) :
    TimeCarry.checked_add_signed lo hi day t d =
      .ok (if lo ≤ day + (addLeap t (ns d)).2 / 86400 ∧ day + (addLeap t (ns d)).2 / 86400 ≤ hi
           then some (day + (addLeap t (ns d)).2 / 86400, (addLeap t (ns d)).1) else none) ∧
    TimeCarry.checked_sub_signed lo hi day t d =
      .ok (if lo ≤ day + (addLeap t (-(ns d))).2 / 86400 ∧ day + (addLeap t (-(ns d))).2 / 86400 ≤ hi
           then some (day + (addLeap t (-(ns d))).2 / 86400, (addLeap t (-(ns d))).1) else none) :=
  ⟨dt_add' lo hi day t d ht hd hw, dt_sub' lo hi day t d ht hd hw⟩

theorem daynumber_diff (dayA dayB : Int) (ta tb : Time) (ha : TValid ta) (hb : TValid tb)
    (hw : -200000000 ≤ dayA - dayB ∧ dayA - dayB ≤ 200000000) :
    TimeCarry.signed_duration_since dayA ta dayB tb =
      .ok (ofNs ((dayA - dayB) * 86400000000000 + diffLeap ta tb)) :=
  dt_diff' dayA dayB ta tb ha hb hw

/-- the day-number model, run on the day numbers of real dates with the window
`[dayNum NaiveDate::MIN, dayNum NaiveDate::MAX]`, returns exactly the image (date ↦ day number) of
what the packed model returns — the abstraction of the date loses nothing -/
theorem daynumber_model_is_image (dt b : NaiveDT) (δ : Delta) (hdt : NDTInv dt) (hb : NDTInv b)
    (hδ : DInv δ) :
    (∃ r, NaiveDT.checked_add_signed dt δ = .ok r ∧
      TimeCarry.checked_add_signed DN_MIN DN_MAX (dayNumOf dt.date) dt.time δ =
        .ok (r.map (fun x => (dayNumOf x.date, x.time)))) ∧
    (∃ r, NaiveDT.checked_sub_signed dt δ = .ok r ∧
      TimeCarry.checked_sub_signed DN_MIN DN_MAX (dayNumOf dt.date) dt.time δ =
        .ok (r.map (fun x => (dayNumOf x.date, x.time)))) ∧
    TimeCarry.signed_duration_since (dayNumOf dt.date) dt.time (dayNumOf b.date) b.time =
      NaiveDT.signed_duration_since dt b :=
  ⟨Proofs.TimeCarry.refines_add dt δ hdt hδ, Proofs.TimeCarry.refines_sub dt δ hdt hδ,
   Proofs.TimeCarry.refines_diff dt b hdt hb⟩

example : DN_MIN = -95746129 ∧ DN_MAX = 95745399 ∧
    TimeCarry.checked_add_signed DN_MIN DN_MAX 735779 ⟨86399, 1500000000⟩ ⟨0, 500000000⟩ =
      .ok (some (735780, ⟨0, 0⟩)) ∧
    TimeCarry.checked_add_signed DN_MIN DN_MAX DN_MAX ⟨86399, 1500000000⟩ ⟨0, 500000000⟩ =
      .ok none := by decide

/-! ### The documented examples -/

/-- doc comment of `overflowing_add_signed` / `overflowing_sub_signed` (from_hms(3,4,5) ± hours) -/
example :
    Time.overflowing_add_signed (ofFields 3 4 5 0) ⟨11 * 3600, 0⟩ = .ok (ofFields 14 4 5 0, 0) ∧
    Time.overflowing_add_signed (ofFields 3 4 5 0) ⟨23 * 3600, 0⟩ = .ok (ofFields 2 4 5 0, 86400) ∧
    Time.overflowing_add_signed (ofFields 3 4 5 0) ⟨-7 * 3600, 0⟩ = .ok (ofFields 20 4 5 0, -86400) ∧
    Time.overflowing_sub_signed (ofFields 3 4 5 0) ⟨2 * 3600, 0⟩ = .ok (ofFields 1 4 5 0, 0) ∧
    Time.overflowing_sub_signed (ofFields 3 4 5 0) ⟨17 * 3600, 0⟩ = .ok (ofFields 10 4 5 0, 86400) ∧
    Time.overflowing_sub_signed (ofFields 3 4 5 0) ⟨-22 * 3600, 0⟩ = .ok (ofFields 1 4 5 0, -86400) := by
  decide

/-- doc comment of `signed_duration_since`: the eight plain and the five leap-second cases -/
example :
    let t := ofFields 3 5 7 900000000
    Time.signed_duration_since t (ofFields 3 5 7 900000000) = .ok ⟨0, 0⟩ ∧
    Time.signed_duration_since t (ofFields 3 5 7 875000000) = .ok ⟨0, 25000000⟩ ∧
    Time.signed_duration_since t (ofFields 3 5 6 925000000) = .ok ⟨0, 975000000⟩ ∧
    Time.signed_duration_since t (ofFields 3 5 0 900000000) = .ok ⟨7, 0⟩ ∧
    Time.signed_duration_since t (ofFields 3 0 7 900000000) = .ok ⟨300, 0⟩ ∧
    Time.signed_duration_since t (ofFields 0 5 7 900000000) = .ok ⟨10800, 0⟩ ∧
    Time.signed_duration_since t (ofFields 4 5 7 900000000) = .ok ⟨-3600, 0⟩ ∧
    Time.signed_duration_since t (ofFields 2 4 6 800000000) = .ok ⟨3661, 100000000⟩ ∧
    Time.signed_duration_since (ofFields 3 0 59 1000000000) (ofFields 3 0 59 0) = .ok ⟨1, 0⟩ ∧
    Time.signed_duration_since (ofFields 3 0 59 1500000000) (ofFields 3 0 59 0) = .ok ⟨1, 500000000⟩ ∧
    Time.signed_duration_since (ofFields 3 0 59 1000000000) (ofFields 3 0 0 0) = .ok ⟨60, 0⟩ ∧
    Time.signed_duration_since (ofFields 3 0 0 0) (ofFields 2 59 59 1000000000) = .ok ⟨1, 0⟩ ∧
    Time.signed_duration_since (ofFields 3 0 59 1000000000) (ofFields 2 59 59 1000000000) = .ok ⟨61, 0⟩ := by
  decide

/-- the rule list of the type's documentation ("03:00:60 and 04:00:60 are leap seconds"):
`Time + TimeDelta` -/
example :
    Time.add (ofFields 3 0 0 0) ⟨1, 0⟩ = .ok (ofFields 3 0 1 0) ∧
    Time.add (ofFields 3 0 59 0) ⟨60, 0⟩ = .ok (ofFields 3 1 59 0) ∧
    Time.add (ofFields 3 0 59 0) ⟨61, 0⟩ = .ok (ofFields 3 2 0 0) ∧
    Time.add (ofFields 3 0 59 0) ⟨1, 0⟩ = .ok (ofFields 3 1 0 0) ∧
    Time.add (ofFields 3 0 59 1000000000) ⟨1, 0⟩ = .ok (ofFields 3 1 0 0) ∧
    Time.add (ofFields 3 0 59 1000000000) ⟨60, 0⟩ = .ok (ofFields 3 1 59 0) ∧
    Time.add (ofFields 3 0 59 1000000000) ⟨61, 0⟩ = .ok (ofFields 3 2 0 0) ∧
    Time.add (ofFields 3 0 59 1100000000) ⟨0, 800000000⟩ = .ok (ofFields 3 0 59 1900000000) := by
  decide

/-- `Time - TimeDelta` -/
example :
    Time.sub (ofFields 3 0 0 0) ⟨1, 0⟩ = .ok (ofFields 2 59 59 0) ∧
    Time.sub (ofFields 3 1 0 0) ⟨1, 0⟩ = .ok (ofFields 3 0 59 0) ∧
    Time.sub (ofFields 3 1 0 0) ⟨60, 0⟩ = .ok (ofFields 3 0 0 0) ∧
    Time.sub (ofFields 3 0 59 1000000000) ⟨60, 0⟩ = .ok (ofFields 3 0 0 0) ∧
    Time.sub (ofFields 3 0 59 1700000000) ⟨0, 400000000⟩ = .ok (ofFields 3 0 59 1300000000) ∧
    Time.sub (ofFields 3 0 59 1700000000) ⟨0, 900000000⟩ = .ok (ofFields 3 0 59 800000000) := by
  decide

/-- `Time - Time` -/
example :
    Time.signed_duration_since (ofFields 4 0 0 0) (ofFields 3 0 0 0) = .ok ⟨3600, 0⟩ ∧
    Time.signed_duration_since (ofFields 3 1 0 0) (ofFields 3 0 0 0) = .ok ⟨60, 0⟩ ∧
    Time.signed_duration_since (ofFields 3 0 59 1000000000) (ofFields 3 0 0 0) = .ok ⟨60, 0⟩ ∧
    Time.signed_duration_since (ofFields 3 0 59 1600000000) (ofFields 3 0 59 400000000) = .ok ⟨1, 200000000⟩ ∧
    Time.signed_duration_since (ofFields 3 1 0 0) (ofFields 3 0 59 800000000) = .ok ⟨0, 200000000⟩ ∧
    Time.signed_duration_since (ofFields 3 1 0 0) (ofFields 3 0 59 1500000000) = .ok ⟨0, 500000000⟩ ∧
    Time.signed_duration_since (ofFields 4 0 59 1900000000) (ofFields 3 0 59 1100000000) =
      .ok ⟨3601, 800000000⟩ := by
  decide

/-- the documented non-law: `(Time + d) - d` need not be `Time` -/
example : ∃ r c, Time.overflowing_add_signed (ofFields 3 0 59 1000000000) ⟨1, 0⟩ = .ok (r, c) ∧
    Time.sub r ⟨1, 0⟩ = .ok (ofFields 3 0 59 0) ∧ ofFields 3 0 59 0 ≠ ofFields 3 0 59 1000000000 :=
  ⟨ofFields 3 1 0 0, 0, by decide⟩

end Chrono.Props.C07
