import Chrono.Spec.TimeSpec
namespace Chrono.Props.C07
open Chrono Chrono.M Chrono.Spec

theorem doc_example_add :
    Time.overflowing_add_signed ⟨3 * 3600 + 4 * 60 + 5, 0⟩ ⟨23 * 3600, 0⟩ = .ok (⟨2 * 3600 + 4 * 60 + 5, 0⟩, 86400) := by
  decide

end Chrono.Props.C07
