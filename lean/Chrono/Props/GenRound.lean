/-
  C17, code translation tie for src/round.rs: `span_for_digits` as regenerated from the Rust source text on every run
  (tools/extractors/rust2lean.py, lean/Chrono/Extracted/Gen.lean) equals the hand-written model (Model/Round.lean) for
  every `u16`.  The generic free functions `duration_round / duration_trunc / duration_round_up<T>` are translated too,
  read at `T = NaiveDateTime` and `T = DateTime<FixedOffset>` (the instantiations the two `impl DurationRound` call them
  at; `original + delta` / `original - delta` are the translated `impl Add<TimeDelta> / Sub<TimeDelta>` of that type, a
  `Result<T, RoundingError>` is a `GenRt.Result T Int` with the discriminant of the field-less error enum);
  `gen_duration_ops_eq_partial` ties `impl DurationRound for NaiveDateTime` to the model (Model/RoundDT.lean
  `naive_duration`) at concrete arguments only — the universal statement is not proved here.
-/
import Chrono.Props.GenDateTime
import Chrono.Model.RoundDT

namespace Chrono.Props.GenRound
open Chrono Chrono.M Chrono.Extracted Chrono.Proofs.GenL Chrono.Proofs.GenTimeL Chrono.Props.GenDateTime

theorem gen_span_for_digits_eq (digits : Nat) :
    Gen.round.span_for_digits digits = Round.span_for_digits digits := by
  unfold Gen.round.span_for_digits Round.span_for_digits
  match digits with
  | 0 | 1 | 2 | 3 | 4 | 5 | 6 | 7 | 8 => rfl
  | n + 9 =>
    have h : ∀ k : Int, ¬ ((((n + 9 : Nat) : Int)) = k) ∨ 9 ≤ k := by intro k; omega
    simp only [if_neg (show ¬ (((n + 9 : Nat) : Int) = 0) by omega), if_neg (show ¬ (((n + 9 : Nat) : Int) = 1) by omega),
      if_neg (show ¬ (((n + 9 : Nat) : Int) = 2) by omega), if_neg (show ¬ (((n + 9 : Nat) : Int) = 3) by omega),
      if_neg (show ¬ (((n + 9 : Nat) : Int) = 4) by omega), if_neg (show ¬ (((n + 9 : Nat) : Int) = 5) by omega),
      if_neg (show ¬ (((n + 9 : Nat) : Int) = 6) by omega), if_neg (show ¬ (((n + 9 : Nat) : Int) = 7) by omega),
      if_neg (show ¬ (((n + 9 : Nat) : Int) = 8) by omega)]
    rfl

/-- discriminant of the model's `RoundingError`, in declaration order (as the translator reads the enum) -/
def errD : Round.RoundingError → Int
  | .DurationExceedsTimestamp => 0
  | .DurationExceedsLimit => 1
  | .TimestampExceedsLimit => 2

/-- the model's result in the generated representation -/
def rrG : Round.RRes NaiveDT → GenRt.Result Gen.naive_datetime.NaiveDateTime Int
  | .ok v => .ok (ndtG v)
  | .err e => .err (errD e)

def genOp : Round.Op → Gen.naive_datetime.NaiveDateTime → Gen.time_delta.TimeDelta →
    Res (GenRt.Result Gen.naive_datetime.NaiveDateTime Int)
  | .round => Gen.round.NaiveDateTime.DurationRound.duration_round
  | .trunc => Gen.round.NaiveDateTime.DurationRound.duration_trunc
  | .up => Gen.round.NaiveDateTime.DurationRound.duration_round_up

def agree (op : Round.Op) (dt : NaiveDT) (d : Delta) : Bool :=
  decide (genOp op (ndtG dt) (dG d) = rmap rrG (Round.naive_duration op dt d))

/-- the three operations at concrete arguments: 1970-01-01 00:00:01.5 and 1969-12-31 23:59:58.5 (a negative stamp),
spans of 1 s, 0.4 s, 0 (refused), a negative one (refused), one whose nanoseconds leave `i64` (refused) -/
theorem gen_duration_ops_eq_partial :
    ∀ op ∈ [Round.Op.round, Round.Op.trunc, Round.Op.up],
    ∀ dt ∈ ([⟨⟨16138266⟩, ⟨1, 500000000⟩⟩, ⟨⟨16130202 + 365 * 16 - 16⟩, ⟨86398, 500000000⟩⟩] : List NaiveDT),
    ∀ d ∈ ([⟨1, 0⟩, ⟨0, 400000000⟩, ⟨0, 0⟩, ⟨-1, 0⟩, ⟨9223372037, 0⟩] : List Delta),
      agree op dt d = true := by decide +kernel

/-- non-vacuity: rounding 00:00:01.5 to whole seconds goes up (tie), truncation goes down, a zero span is the error
`DurationExceedsLimit` (discriminant 1) -/
example : Gen.round.NaiveDateTime.DurationRound.duration_round ⟨16138266, ⟨1, 500000000⟩⟩ ⟨1, 0⟩
      = .ok (.ok ⟨16138266, ⟨2, 0⟩⟩)
    ∧ Gen.round.NaiveDateTime.DurationRound.duration_trunc ⟨16138266, ⟨1, 500000000⟩⟩ ⟨1, 0⟩
      = .ok (.ok ⟨16138266, ⟨1, 0⟩⟩)
    ∧ Gen.round.NaiveDateTime.DurationRound.duration_round_up ⟨16138266, ⟨1, 500000000⟩⟩ ⟨0, 0⟩ = .ok (.err 1)
    ∧ Gen.round.span_for_digits 3 = 1000000 ∧ Gen.round.span_for_digits 65535 = 1 := by decide +kernel

end Chrono.Props.GenRound
