/-
  C02 / C03 / C04, code translation tie for `DateTime<Tz>` (src/datetime/mod.rs), read by
  tools/extractors/rust2lean.py at the two instantiations `Tz = Utc` (the offset is the unit value, `fix()` is
  `FixedOffset::east_opt(0).unwrap()`) and `Tz = FixedOffset` (`Tz::Offset = FixedOffset`, `fix()` and
  `from_offset` are the identity): the definitions regenerated from the Rust source text on every run equal the
  hand-written models (lean/Chrono/Model/DateTime.lean `NaiveDT.*timestamp*` / `Zoned.*`, Model/Timestamp.lean,
  TimestampMore.lean) for all arguments of the machine types.  `zU` maps the model's UTC reading to the generated
  `DateTime<Utc>` structure, `zF` a model `Zoned` to the generated `DateTime<FixedOffset>`.  Hypotheses: the
  packed date word is an `i32` (`DateOk` where the date arithmetic needs the ordinal ≥ 1), the `TimeDelta` fields
  an `i64` and an `i32`, the timestamp arguments `i64`s.
-/
import Chrono.Props.GenDateTime
import Chrono.Model.Timestamp
import Chrono.Model.TimestampMore

namespace Chrono.Props.GenZoned
open Chrono Chrono.M Chrono.Extracted Chrono.Proofs.GenL Chrono.Proofs.GenTimeL Chrono.Props.GenDateTime

/-- the generated `DateTime<Utc>` of a model UTC reading -/
abbrev zU (dt : NaiveDT) : Gen.datetime.DateTime_Utc := ⟨ndtG dt, ()⟩
/-- the generated `DateTime<FixedOffset>` of a model zone-aware value -/
abbrev zF (z : Zoned) : Gen.datetime.DateTime_FixedOffset := ⟨ndtG z.utc, z.off⟩

def I32 (x : Int) : Prop := -2147483648 ≤ x ∧ x ≤ 2147483647
def I64 (x : Int) : Prop := -9223372036854775808 ≤ x ∧ x ≤ 9223372036854775807

/-! ### constructors and plain accessors -/

theorem gen_and_utc_eq (dt : NaiveDT) : Gen.naive_datetime.NaiveDateTime.and_utc (ndtG dt) = zU dt := rfl
theorem gen_from_naive_utc_and_offset_eq (dt : NaiveDT) (off : Int) :
    Gen.datetime.DateTime_FixedOffset.from_naive_utc_and_offset (ndtG dt) off = zF ⟨dt, off⟩
    ∧ Gen.datetime.DateTime_Utc.from_naive_utc_and_offset (ndtG dt) () = zU dt := ⟨rfl, rfl⟩
theorem gen_naive_utc_eq (z : Zoned) :
    Gen.datetime.DateTime_FixedOffset.naive_utc (zF z) = ndtG (Ts.naive_utc z)
    ∧ Gen.datetime.DateTime_Utc.naive_utc (zU z.utc) = ndtG (Ts.naive_utc z) := ⟨rfl, rfl⟩
theorem gen_to_utc_eq (z : Zoned) :
    Gen.datetime.DateTime_FixedOffset.to_utc (zF z) = zU z.utc
    ∧ Gen.datetime.DateTime_Utc.to_utc (zU z.utc) = zU z.utc := ⟨rfl, rfl⟩
/-- `timezone()`: `TimeZone::from_offset(&self.offset)` — the stored offset for `FixedOffset`, the unit for `Utc` -/
theorem gen_timezone_eq (z : Zoned) :
    Gen.datetime.DateTime_FixedOffset.timezone (zF z) = z.off
    ∧ Gen.datetime.DateTime_Utc.timezone (zU z.utc) = () := ⟨rfl, rfl⟩
/-- `TimeZone::from_utc_datetime` (trait default body) read at `Self = FixedOffset` / `Self = Utc` -/
theorem gen_from_utc_datetime_eq (off : Int) (dt : NaiveDT) :
    Gen.offset.FixedOffset.TimeZone.from_utc_datetime off (ndtG dt) = zF (Zoned.from_utc_datetime off dt)
    ∧ Gen.offset.Utc.TimeZone.from_utc_datetime () (ndtG dt) = zU dt := ⟨rfl, rfl⟩
/-- `Offset::fix`: the identity on a `FixedOffset`; `FixedOffset::east_opt(0).unwrap()` for `Utc` -/
theorem gen_fix_eq (off : Int) :
    Gen.offset_fixed.FixedOffset.Offset.fix off = off ∧ Gen.offset_utc.Utc.Offset.fix () = .ok 0 := ⟨rfl, rfl⟩

/-! ### timestamps of the UTC reading (the offset does not enter) -/

theorem gen_timestamp_subsec_eq (z : Zoned) :
    Gen.datetime.DateTime_FixedOffset.timestamp_subsec_nanos (zF z) = Ts.ztimestamp_subsec_nanos z
    ∧ Gen.datetime.DateTime_FixedOffset.timestamp_subsec_micros (zF z) = Ts.ztimestamp_subsec_micros z
    ∧ Gen.datetime.DateTime_FixedOffset.timestamp_subsec_millis (zF z) = Ts.ztimestamp_subsec_millis z
    ∧ Gen.datetime.DateTime_Utc.timestamp_subsec_nanos (zU z.utc) = NaiveDT.timestamp_subsec_nanos z.utc
    ∧ Gen.datetime.DateTime_Utc.timestamp_subsec_micros (zU z.utc) = NaiveDT.timestamp_subsec_micros z.utc
    ∧ Gen.datetime.DateTime_Utc.timestamp_subsec_millis (zU z.utc) = NaiveDT.timestamp_subsec_millis z.utc :=
  ⟨rfl, rfl, rfl, rfl, rfl, rfl⟩

theorem gen_timestamp_utc_eq (dt : NaiveDT) (hd : I32 dt.date.yof) :
    Gen.datetime.DateTime_Utc.timestamp (zU dt) = NaiveDT.timestamp dt := by
  unfold Gen.datetime.DateTime_Utc.timestamp NaiveDT.timestamp Gen.naive_datetime.NaiveDateTime.date_fn
    Gen.naive_datetime.NaiveDateTime.time_fn
  dsimp only
  rw [GenDate.gen_num_days_from_ce_eq dt.date hd]
  rfl

theorem gen_timestamp_eq (z : Zoned) (hd : I32 z.utc.date.yof) :
    Gen.datetime.DateTime_FixedOffset.timestamp (zF z) = Ts.ztimestamp z := by
  unfold Gen.datetime.DateTime_FixedOffset.timestamp Ts.ztimestamp NaiveDT.timestamp
    Gen.naive_datetime.NaiveDateTime.date_fn Gen.naive_datetime.NaiveDateTime.time_fn
  dsimp only
  rw [GenDate.gen_num_days_from_ce_eq z.utc.date hd]
  rfl

theorem gen_timestamp_millis_utc_eq (dt : NaiveDT) (hd : I32 dt.date.yof) :
    Gen.datetime.DateTime_Utc.timestamp_millis (zU dt) = NaiveDT.timestamp_millis dt := by
  unfold Gen.datetime.DateTime_Utc.timestamp_millis NaiveDT.timestamp_millis
  rw [gen_timestamp_utc_eq dt hd]; rfl
theorem gen_timestamp_millis_eq (z : Zoned) (hd : I32 z.utc.date.yof) :
    Gen.datetime.DateTime_FixedOffset.timestamp_millis (zF z) = Ts.ztimestamp_millis z := by
  unfold Gen.datetime.DateTime_FixedOffset.timestamp_millis Ts.ztimestamp_millis NaiveDT.timestamp_millis
  rw [gen_timestamp_eq z hd]; rfl
theorem gen_timestamp_micros_utc_eq (dt : NaiveDT) (hd : I32 dt.date.yof) :
    Gen.datetime.DateTime_Utc.timestamp_micros (zU dt) = NaiveDT.timestamp_micros dt := by
  unfold Gen.datetime.DateTime_Utc.timestamp_micros NaiveDT.timestamp_micros
  rw [gen_timestamp_utc_eq dt hd]; rfl
theorem gen_timestamp_micros_eq (z : Zoned) (hd : I32 z.utc.date.yof) :
    Gen.datetime.DateTime_FixedOffset.timestamp_micros (zF z) = Ts.ztimestamp_micros z := by
  unfold Gen.datetime.DateTime_FixedOffset.timestamp_micros Ts.ztimestamp_micros NaiveDT.timestamp_micros
  rw [gen_timestamp_eq z hd]; rfl

/-- a timestamp is an `i64` (it went through `ckI64`) -/
theorem timestamp_range (dt : NaiveDT) (ts : Int) (h : NaiveDT.timestamp dt = .ok ts) : I64 ts := by
  unfold NaiveDT.timestamp at h
  cases h1 : dt.date.num_days_from_ce with
  | panic => rw [h1] at h; exact absurd h (by simp)
  | ok g =>
    rw [h1] at h
    simp only [bind_ok] at h
    cases h2 : ckI64 (g - UNIX_EPOCH_DAY) with
    | panic => rw [h2] at h; exact absurd h (by simp)
    | ok d =>
      rw [h2] at h
      simp only [bind_ok] at h
      cases h3 : ckI64 (d * 86400) with
      | panic => rw [h3] at h; exact absurd h (by simp)
      | ok s =>
        rw [h3] at h
        simp only [bind_ok] at h
        rw [ckI64_def] at h
        split at h
        · cases h; unfold I64; omega
        · exact absurd h (by simp)

/-- the 128-bit sum followed by the `i64` range test and the cast back is `optI64` of the exact sum -/
theorem nanos_tail (ts sub : Int) (hts : I64 ts) (hs : 0 ≤ sub ∧ sub ≤ 4294967295) :
    (Res.bind (GenRt.ckI128 (ts * 1000000000)) fun r2 =>
      Res.bind (GenRt.ckI128 (r2 + sub)) fun nanos =>
      if nanos < (-9223372036854775808) ∨ nanos > 9223372036854775807 then Res.ok none
      else Res.ok (some (asI64 nanos)))
    = .ok (optI64 (ts * 1000000000 + sub)) := by
  unfold I64 at hts
  rw [ckI128_ok (by omega)]
  simp only [bind_ok]
  rw [ckI128_ok (by omega)]
  simp only [bind_ok]
  rw [optI64_def]
  split
  · rw [if_neg (by omega)]
  · rw [if_pos (by omega)]
    have : asI64 (ts * 1000000000 + sub) = ts * 1000000000 + sub := by
      generalize ts * 1000000000 + sub = x at *
      unfold asI64; simp only; split <;> omega
    rw [this]

theorem gen_timestamp_nanos_opt_utc_eq (dt : NaiveDT) (hd : I32 dt.date.yof) (ht : U32Fields dt.time) :
    Gen.datetime.DateTime_Utc.timestamp_nanos_opt (zU dt) = NaiveDT.timestamp_nanos_opt dt := by
  unfold Gen.datetime.DateTime_Utc.timestamp_nanos_opt NaiveDT.timestamp_nanos_opt
  rw [gen_timestamp_utc_eq dt hd]
  cases hts : NaiveDT.timestamp dt with
  | panic => rfl
  | ok ts =>
    simp only [bind_ok]
    exact nanos_tail ts _ (timestamp_range dt ts hts) (by
      show 0 ≤ dt.time.frac ∧ dt.time.frac ≤ 4294967295
      unfold U32Fields at ht; omega)

theorem gen_timestamp_nanos_opt_eq (z : Zoned) (hd : I32 z.utc.date.yof) (ht : U32Fields z.utc.time) :
    Gen.datetime.DateTime_FixedOffset.timestamp_nanos_opt (zF z) = Ts.ztimestamp_nanos_opt z := by
  unfold Gen.datetime.DateTime_FixedOffset.timestamp_nanos_opt Ts.ztimestamp_nanos_opt NaiveDT.timestamp_nanos_opt
  rw [gen_timestamp_eq z hd]
  unfold Ts.ztimestamp
  cases hts : NaiveDT.timestamp z.utc with
  | panic => rfl
  | ok ts =>
    simp only [bind_ok]
    exact nanos_tail ts _ (timestamp_range z.utc ts hts) (by
      show 0 ≤ z.utc.time.frac ∧ z.utc.time.frac ≤ 4294967295
      unfold U32Fields at ht; omega)

/-! ### `DateTime::<Utc>::from_timestamp*` -/

theorem gen_from_timestamp_eq (secs nsecs : Int) :
    Gen.datetime.DateTime_Utc.from_timestamp secs nsecs
      = rmap (Option.map zU) (NaiveDT.from_timestamp secs nsecs) := by
  unfold Gen.datetime.DateTime_Utc.from_timestamp NaiveDT.from_timestamp
  have hE : UNIX_EPOCH_DAY = 719163 := rfl
  have hmin : I32_MIN = -2147483648 := rfl
  have hmax : I32_MAX = 2147483647 := rfl
  rw [hE, hmin, hmax]
  cases ckI64 (secs / 86400 + 719163) with
  | panic => rfl
  | ok days =>
    simp only [bind_ok]
    by_cases hc : days < (-2147483648) ∨ days > 2147483647
    · rw [if_pos hc, if_pos hc]; rfl
    · rw [if_neg hc, if_neg hc]
      rw [Proofs.asI32_id (by omega) (by omega), Proofs.asU32_id (by omega) (by omega),
        GenDate.gen_from_num_days_from_ce_opt_eq days (by omega), GenTime.gen_from_num_seconds_from_midnight_opt_eq]
      cases Date.from_num_days_from_ce_opt days with
      | panic => rfl
      | ok od =>
        cases od with
        | none => rfl
        | some d =>
          cases Time.from_num_seconds_from_midnight_opt (secs % 86400) nsecs with
          | none => rfl
          | some t => rfl

theorem gen_from_timestamp_millis_eq (ms : Int) :
    Gen.datetime.DateTime_Utc.from_timestamp_millis ms
      = rmap (Option.map zU) (NaiveDT.from_timestamp_millis ms) := by
  unfold Gen.datetime.DateTime_Utc.from_timestamp_millis NaiveDT.from_timestamp_millis
  dsimp only
  rw [Proofs.asU32_id (by omega) (by omega)]
  cases ckU32 (ms % 1000 * 1000000) with
  | panic => rfl
  | ok ns => simp only [bind_ok]; exact gen_from_timestamp_eq _ _

theorem gen_from_timestamp_micros_eq (us : Int) :
    Gen.datetime.DateTime_Utc.from_timestamp_micros us
      = rmap (Option.map zU) (NaiveDT.from_timestamp_micros us) := by
  unfold Gen.datetime.DateTime_Utc.from_timestamp_micros NaiveDT.from_timestamp_micros
  dsimp only
  rw [Proofs.asU32_id (by omega) (by omega)]
  cases ckU32 (us % 1000000 * 1000) with
  | panic => rfl
  | ok ns => simp only [bind_ok]; exact gen_from_timestamp_eq _ _

theorem gen_from_timestamp_nanos_eq (ns : Int) :
    Gen.datetime.DateTime_Utc.from_timestamp_nanos ns = rmap zU (NaiveDT.from_timestamp_nanos ns) := by
  unfold Gen.datetime.DateTime_Utc.from_timestamp_nanos NaiveDT.from_timestamp_nanos
  dsimp only
  rw [Proofs.asU32_id (by omega) (by omega), gen_from_timestamp_eq]
  cases NaiveDT.from_timestamp (ns / 1000000000) (ns % 1000000000) with
  | panic => rfl
  | ok o => cases o <;> rfl

/-! ### the local reading -/

theorem gen_overflowing_naive_local_eq (z : Zoned) (hd : DateOk z.utc.date) (hol : z.utc.date.yof / 8 % 1024 ≤ 732) :
    Gen.datetime.DateTime_FixedOffset.overflowing_naive_local (zF z) = rmap ndtG (Zoned.overflowing_naive_local z) :=
  gen_overflowing_add_offset_eq z.utc z.off hd hol

/-- at `Tz = Utc` the offset added is `Utc.fix()` = `FixedOffset::east_opt(0).unwrap()` = 0 -/
theorem gen_overflowing_naive_local_utc_eq (dt : NaiveDT) (hd : DateOk dt.date) (hol : dt.date.yof / 8 % 1024 ≤ 732) :
    Gen.datetime.DateTime_Utc.overflowing_naive_local (zU dt) = rmap ndtG (Zoned.overflowing_naive_local ⟨dt, 0⟩) :=
  gen_overflowing_add_offset_eq dt 0 hd hol

theorem naive_local_tail (r : Res (Option NaiveDT)) (g : Res (Option Gen.naive_datetime.NaiveDateTime))
    (h : g = rmap (Option.map ndtG) r) :
    (Res.bind g fun r1 =>
      match r1 with
      | some r2 => Res.ok r2
      | none => Res.panic)
    = rmap ndtG (r.bind fun r =>
      match r with
      | some d => .ok d
      | none => .panic) := by
  subst h
  cases r with
  | panic => rfl
  | ok o => cases o <;> rfl

theorem gen_naive_local_eq (z : Zoned) (hd : DateOk z.utc.date) (hol : z.utc.date.yof / 8 % 1024 ≤ 732) :
    Gen.datetime.DateTime_FixedOffset.naive_local (zF z) = rmap ndtG (Zoned.naive_local z) :=
  naive_local_tail _ _ (gen_checked_add_offset_eq z.utc z.off hd hol)

theorem gen_naive_local_utc_eq (dt : NaiveDT) (hd : DateOk dt.date) (hol : dt.date.yof / 8 % 1024 ≤ 732) :
    Gen.datetime.DateTime_Utc.naive_local (zU dt) = rmap ndtG (Zoned.naive_local ⟨dt, 0⟩) :=
  naive_local_tail _ _ (gen_checked_add_offset_eq dt 0 hd hol)

/-! ### `checked_add_signed` / `checked_sub_signed`: the UTC reading moves, the zone is rebuilt from the offset -/

theorem signed_tail (off : Int) (r : Res (Option NaiveDT)) (g : Res (Option Gen.naive_datetime.NaiveDateTime))
    (h : g = rmap (Option.map ndtG) r) :
    (Res.bind g fun r1 =>
      match r1 with
      | some datetime => Res.ok (some (Gen.offset.FixedOffset.TimeZone.from_utc_datetime off datetime))
      | none => Res.ok none)
    = rmap (Option.map zF) (r.bind fun r => .ok (r.map fun u => ⟨u, off⟩)) := by
  subst h
  cases r with
  | panic => rfl
  | ok o => cases o <;> rfl

theorem signed_tail_utc (r : Res (Option NaiveDT)) (g : Res (Option Gen.naive_datetime.NaiveDateTime))
    (h : g = rmap (Option.map ndtG) r) :
    (Res.bind g fun r1 =>
      match r1 with
      | some datetime => Res.ok (some (Gen.offset.Utc.TimeZone.from_utc_datetime () datetime))
      | none => Res.ok none)
    = rmap (Option.map fun z : Zoned => zU z.utc) (r.bind fun r => .ok (r.map fun u => ⟨u, 0⟩)) := by
  subst h
  cases r with
  | panic => rfl
  | ok o => cases o <;> rfl

theorem gen_checked_add_signed_eq (z : Zoned) (rhs : Delta) (hd : DateOk z.utc.date) (hr : DFields rhs) :
    Gen.datetime.DateTime_FixedOffset.checked_add_signed (zF z) (dG rhs)
      = rmap (Option.map zF) (Zoned.checked_add_signed z rhs) :=
  signed_tail z.off _ _ (GenDateTime.gen_checked_add_signed_eq z.utc rhs hd hr)

theorem gen_checked_sub_signed_eq (z : Zoned) (rhs : Delta) (hd : DateOk z.utc.date) :
    Gen.datetime.DateTime_FixedOffset.checked_sub_signed (zF z) (dG rhs)
      = rmap (Option.map zF) (Zoned.checked_sub_signed z rhs) :=
  signed_tail z.off _ _ (GenDateTime.gen_checked_sub_signed_eq z.utc rhs hd)

theorem gen_checked_add_signed_utc_eq (dt : NaiveDT) (rhs : Delta) (hd : DateOk dt.date) (hr : DFields rhs) :
    Gen.datetime.DateTime_Utc.checked_add_signed (zU dt) (dG rhs)
      = rmap (Option.map fun z : Zoned => zU z.utc) (Zoned.checked_add_signed ⟨dt, 0⟩ rhs) :=
  signed_tail_utc _ _ (GenDateTime.gen_checked_add_signed_eq dt rhs hd hr)

theorem gen_checked_sub_signed_utc_eq (dt : NaiveDT) (rhs : Delta) (hd : DateOk dt.date) :
    Gen.datetime.DateTime_Utc.checked_sub_signed (zU dt) (dG rhs)
      = rmap (Option.map fun z : Zoned => zU z.utc) (Zoned.checked_sub_signed ⟨dt, 0⟩ rhs) :=
  signed_tail_utc _ _ (GenDateTime.gen_checked_sub_signed_eq dt rhs hd)

/-- non-trivial values: the epoch; 1 s and 5 ns after it (the count formed in 128 bits, fix 32de816); one second
after 2020-02-29T23:59:59.5 UTC kept at +01:00; its local reading -/
example : Gen.datetime.DateTime_Utc.from_timestamp 0 0 = .ok (some ⟨⟨16138266, ⟨0, 0⟩⟩, ()⟩)
    ∧ Gen.datetime.DateTime_Utc.timestamp ⟨⟨16138266, ⟨0, 0⟩⟩, ()⟩ = .ok 0
    ∧ Gen.datetime.DateTime_Utc.timestamp_nanos_opt ⟨⟨16138266, ⟨1, 5⟩⟩, ()⟩ = .ok (some 1000000005)
    ∧ Gen.datetime.DateTime_FixedOffset.checked_add_signed ⟨⟨16548801, ⟨86399, 500000000⟩⟩, 3600⟩ ⟨1, 0⟩
      = .ok (some ⟨⟨16548817, ⟨0, 500000000⟩⟩, 3600⟩)
    ∧ Gen.datetime.DateTime_FixedOffset.naive_local ⟨⟨16548801, ⟨86399, 0⟩⟩, 3600⟩
      = .ok ⟨16548817, ⟨3599, 0⟩⟩ := by decide +kernel

end Chrono.Props.GenZoned
