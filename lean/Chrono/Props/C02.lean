/-
  C02 — Unix timestamps and UTC date-times correspond one-to-one.  (stage 1: data tie only)
-/
import Chrono.Model.Timestamp
import Chrono.Extracted.TsLits
namespace Chrono.Props.C02
open Chrono Chrono.M Chrono.Extracted

/-- the integer literals of the timestamp functions, as re-extracted from the Rust source on this
run, are the ones the model was written against -/
theorem literals_ok :
    UNIX_EPOCH_DAY = 719163 ∧
    TS_LITS_timestamp = [86400] ∧ TS_LITS_timestamp_millis = [1000] ∧ TS_LITS_timestamp_micros = [1000000] ∧
    TS_LITS_timestamp_nanos_opt = [0, 1000000000, 1, 1000000000] ∧
    TS_LITS_timestamp_subsec_millis = [1000000] ∧ TS_LITS_timestamp_subsec_micros = [1000] ∧
    TS_LITS_from_timestamp = [86400, 86400] ∧ TS_LITS_from_timestamp_millis = [1000, 1000, 1000000] ∧
    TS_LITS_from_timestamp_micros = [1000000, 1000000, 1000] ∧
    TS_LITS_from_timestamp_nanos = [1000000000, 1000000000] ∧
    TS_LITS_from_system_time = [0, 0, 1, 1000000000] ∧ TS_LITS_to_system_time = [0, 0, 0] ∧
    TS_LITS_naive_from_timestamp_micros = [1000000, 1000000, 1000] ∧
    TS_LITS_naive_from_timestamp_nanos = [1000000000, 1000000000] := by decide

end Chrono.Props.C02
